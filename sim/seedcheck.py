#!/usr/bin/env python3
"""Confirms a seeded change and runs the property's check against it.

  seedcheck.py <seed dir> <property> [--budget S] [--keep <name>]

seed dir holds patch.diff, demo_test.go (header names the package directory), README.md.
Steps: (1) scratch worktree of /repo HEAD under /tmp; patch applies; go build; full suite passes with the patch;
demo FAILS with the patch; demo PASSES without it. (2) apply the patch to /repo itself, run ./check <property> quick,
undo (git -C /repo checkout -- .). (3) with --keep, store patch, demo and meta.json under /verif/seeded/<name>/.
"""
import json, os, re, shutil, subprocess, sys, time

VERIF = os.path.dirname(os.path.dirname(os.path.abspath(__file__)))
ENV = dict(os.environ, GOFLAGS="-mod=mod", GOPROXY="off", GOSUMDB="off")


def sh(cmd, cwd=None, timeout=1800):
    r = subprocess.run(cmd, cwd=cwd, env=ENV, shell=isinstance(cmd, str), stdout=subprocess.PIPE, stderr=subprocess.STDOUT, text=True, timeout=timeout)
    return r.returncode, r.stdout


def main():
    d = sys.argv[1].rstrip("/")
    prop = sys.argv[2]
    budget = "40"
    keep = None
    also = None
    confirm_only = False
    a = sys.argv[3:]
    while a:
        if a[0] == "--budget":
            budget = a[1]; a = a[2:]
        elif a[0] == "--keep":
            keep = a[1]; a = a[2:]
        elif a[0] == "--confirm-only":  # stage 1 only; the result is cached in the seed directory (confirm.json, cur.diff)
            confirm_only = True; a = a[1:]
        elif a[0] == "--also":  # a sibling property whose check is run too when the own check does not detect the change
            also = a[1]; a = a[2:]
        else:
            a = a[1:]
    patch = os.path.join(d, "patch.diff")
    demo = os.path.join(d, "demo_test.go")
    head = open(demo).read(3000)
    m = re.search(r"[Pp]ackage dir(?:ectory)?\s*:?\s*`?([\w./-]+)", head)
    if not m:
        print("cannot find the package directory in the demo header"); return 2
    pkg = m.group(1).strip("`").rstrip("/").lstrip("./")
    rm = re.search(r"-run\s+'?\"?([\w|^$]+)", head)
    runpat = rm.group(1) if rm else "TestSeed"
    wt = "/tmp/wt_seedcheck_%d" % os.getpid()
    res = {"property": prop, "seed_dir": d, "package": pkg, "run": runpat}
    cached = os.path.join(d, "confirm.json")
    head_now = sh(["git", "-C", "/repo", "rev-parse", "HEAD"])[1].strip()
    if os.path.exists(cached) and not confirm_only:
        c = json.load(open(cached))
        if c.get("confirmed") and c.get("repo_head") == head_now and os.path.exists(os.path.join(d, "cur.diff")):
            res = c
            cur = open(os.path.join(d, "cur.diff")).read()
            return stage2(res, cur, d, prop, budget, keep, also, demo, pkg, runpat)
    try:
        rc, out = sh(["git", "-C", "/repo", "worktree", "add", "-q", "--detach", wt, "HEAD"])
        if rc != 0:
            print(out); return 2
        tf = os.path.join(wt, pkg, "zz_seedcheck_demo_test.go")
        shutil.copy(demo, tf)
        # without the patch: demo passes
        rc, out = sh("go test -vet=off -count=1 -run '%s' ./%s/" % (runpat, pkg), cwd=wt)
        res["demo_passes_without_patch"] = rc == 0
        if rc != 0:
            res["demo_without_patch_output"] = out[-1500:]
        rc, out = sh(["git", "apply", "--whitespace=nowarn", patch], cwd=wt)
        res["patch_applies"] = rc == 0
        if rc != 0:
            rc, out = sh(["git", "apply", "--3way", "--whitespace=nowarn", patch], cwd=wt)
            res["patch_applies_3way"] = rc == 0
            if rc != 0:
                res["apply_output"] = out[-800:]
                print(json.dumps(res, indent=1)); return 1
        rc, out = sh("go build ./...", cwd=wt)
        res["builds"] = rc == 0
        rc, out = sh("go test -vet=off -count=1 -run '%s' ./%s/" % (runpat, pkg), cwd=wt)
        res["demo_fails_with_patch"] = rc != 0
        os.remove(tf)
        rc, out = sh("go test -vet=off -count=1 ./... 2>&1 | grep -v 'no test files'", cwd=wt)
        fails = [l for l in out.splitlines() if l.startswith("FAIL") or l.startswith("--- FAIL")]
        # pkg/io/pipe TestPipe2 uses the fixed file /tmp/pipe.test and is timing based: it also fails now and then on the
        # unchanged tree when several worktrees run at once. A failing package is re-run alone, twice, before it counts.
        if fails:
            pk = sorted(set(l.split()[1] for l in fails if l.startswith("FAIL\t") and len(l.split()) > 1))
            still = []
            for q in pk:
                rel = "./" + q.split("redis-GunYu/", 1)[1] + "/" if "redis-GunYu/" in q else q
                ok = False
                for _ in range(2):
                    rc2, _o = sh("go test -vet=off -count=1 %s" % rel, cwd=wt)
                    if rc2 == 0:
                        ok = True
                        break
                if not ok:
                    still.append("FAIL\t" + q)
            if pk:
                res["suite_flaky_reruns"] = pk
                fails = still
        res["suite_passes_with_patch"] = not fails
        if fails:
            res["suite_failures"] = fails[:6]
        # the patch as it applies to the current tree
        sh(["git", "add", "-A", "-N"], cwd=wt)  # files the patch creates are part of it
        rc, cur = sh(["git", "diff", "HEAD"], cwd=wt)
        res["confirmed"] = bool(res.get("builds") and res["demo_passes_without_patch"] and res["demo_fails_with_patch"] and res["suite_passes_with_patch"])
    finally:
        sh(["git", "-C", "/repo", "worktree", "remove", "--force", wt])
    if not res.get("confirmed"):
        print(json.dumps(res, indent=1)); return 1
    if confirm_only:
        res["repo_head"] = head_now
        open(os.path.join(d, "cur.diff"), "w").write(cur)
        json.dump(res, open(cached, "w"), indent=1)
        print(json.dumps(res, indent=1)); return 0
    return stage2(res, cur, d, prop, budget, keep, also, demo, pkg, runpat)


def stage2(res, cur, d, prop, budget, keep, also, demo, pkg, runpat):
    # run the check against /repo with the patch applied
    curpatch = "/tmp/seedcheck_cur_%d.diff" % os.getpid()
    open(curpatch, "w").write(cur)
    rc, out = sh(["git", "-C", "/repo", "status", "--porcelain"])
    if out.strip():
        print("/repo is not clean, refusing"); return 2
    rc, out = sh(["git", "-C", "/repo", "apply", "--whitespace=nowarn", curpatch])
    if rc != 0:
        print("apply to /repo failed", out); return 2
    t0 = time.time()
    # the check runs from a copy of the COMMITTED /verif (so that edits in progress in the working tree cannot break it)
    snap = "/tmp/verif_snap_%d" % os.getpid()
    sh("rm -rf %s && mkdir -p %s && git -C %s archive HEAD | tar -x -C %s" % (snap, snap, VERIF, snap))
    try:
        e = dict(ENV, VERIF_BUDGET_S=budget)
        r = subprocess.run(["./check", prop, "quick"], cwd=snap, env=e, stdout=subprocess.PIPE, stderr=subprocess.STDOUT, text=True, timeout=3600)
        res["check_exit"] = r.returncode
        lines = [l for l in r.stdout.splitlines() if l.startswith("VIOLATION") or l.startswith("  rule=") or l.startswith("check:") or l.startswith("KNOWN")]
        res["check_output"] = [l[:300] for l in lines[:12]]
        res["detected"] = r.returncode == 1
        res["check_wall_s"] = round(time.time() - t0, 1)
        rules = sorted(set(l.split("rule=")[1].split(" ")[0] for l in r.stdout.splitlines() if l.strip().startswith("rule=")))
        res["rules"] = rules
        if also and not res["detected"]:
            t1 = time.time()
            r2 = subprocess.run(["./check", also, "quick"], cwd=snap, env=e, stdout=subprocess.PIPE, stderr=subprocess.STDOUT, text=True, timeout=3600)
            rules2 = sorted(set(l.split("rule=")[1].split(" ")[0] for l in r2.stdout.splitlines() if l.strip().startswith("rule=")))
            res["sibling"] = {"property": also, "cmd": "./check %s quick (VERIF_BUDGET_S=%s)" % (also, budget), "detected": r2.returncode == 1, "exit": r2.returncode, "rules": rules2, "wall_s": round(time.time() - t1, 1)}
    finally:
        sh(["git", "-C", "/repo", "checkout", "--", "."])
        sh(["git", "-C", "/repo", "clean", "-fdq"])  # files the patch created
        os.remove(curpatch)
        if res.get("check_exit") == 2:
            res["check_tail"] = r.stdout[-1500:]
        for f in (os.listdir(os.path.join(snap, "replays")) if os.path.isdir(os.path.join(snap, "replays")) else []):
            p = os.path.join(snap, "replays", f)
            if os.path.isfile(p) and f.startswith(prop + "-") and os.path.getmtime(p) >= t0:
                if keep:
                    os.makedirs(os.path.join(VERIF, "seeded", keep), exist_ok=True)
                    shutil.move(p, os.path.join(VERIF, "seeded", keep, "replay-" + f))
                else:
                    os.remove(p)
    shutil.rmtree(snap, ignore_errors=True)
    if keep:
        kd = os.path.join(VERIF, "seeded", keep)
        os.makedirs(kd, exist_ok=True)
        open(os.path.join(kd, "patch.diff"), "w").write(cur)
        shutil.copy(demo, os.path.join(kd, "demo_test.go"))
        if os.path.exists(os.path.join(d, "README.md")):
            shutil.copy(os.path.join(d, "README.md"), os.path.join(kd, "README.md"))
        meta = {"breaks_property": prop, "source": "independent sub-agent given only the property text and a scratch worktree",
                "needs_to_manifest": "see README.md", "demo_package": pkg, "demo_run": runpat,
                "confirmed": {k: res[k] for k in ("builds", "demo_passes_without_patch", "demo_fails_with_patch", "suite_passes_with_patch")},
                "check": {"cmd": "./check %s quick (VERIF_BUDGET_S=%s)" % (prop, budget), "detected": res["detected"], "exit": res["check_exit"], "rules": res.get("rules", []), "wall_s": res.get("check_wall_s")}}
        if res.get("sibling"):
            meta["sibling_check"] = res["sibling"]
        json.dump(meta, open(os.path.join(kd, "meta.json"), "w"), indent=1)
    print(json.dumps(res, indent=1))
    return 0


if __name__ == "__main__":
    sys.exit(main())
