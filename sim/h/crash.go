package h

import (
	"errors"
	"fmt"
	"os"
	"time"

	"verifsim/simrt"
)

// Crash/restart simulation shared by C02 (no skip / no repeat / right DB), C07 (stored position moves
// forward along command boundaries) and C09 (source transactions stay atomic). DESIGN.md §3.

type crashOracle struct {
	ps       *PipeSim
	expected []Expected
	p        int // next expected index the current incarnation must execute
	maxP     int // number of expected commands executed at least once
	checked  int // biz entries consumed
	seenInc  int // incarnations whose restart point has been validated
	cpSeen   int
	lastCp   int64
	hadPos   bool
	// C09: per target txn block, which expected indices it executed and the max position it wrote
	blockIdx  map[int][]int
	blockCp   map[int]int64
	blockSeen int
	countE    []int // countE[i] = number of expected entries with Src <= i
	// source items of excluded databases (output.filter.dbBlacklist) that every other filter would let through: what a
	// restart inside such a section executes, because the exclusion is parser state set by the SELECT in front of it
	exclOnlyByDB map[int]Expected
}

func newCrashOracle(ps *PipeSim) *crashOracle {
	o := &crashOracle{ps: ps, lastCp: -1 << 62, blockIdx: map[int][]int{}, blockCp: map[int]int64{}}
	o.expected = Reference(ps.st, 0, ps.cfg.DBM, ps.cfg.Filters)
	if f := ps.cfg.Filters; f != nil && len(f.DbBlacklist) > 0 {
		g := *f
		g.DbBlacklist = nil
		black := map[int]bool{}
		for _, d := range f.DbBlacklist {
			black[d] = true
		}
		o.exclOnlyByDB = map[int]Expected{}
		for _, e := range Reference(ps.st, 0, ps.cfg.DBM, &g) {
			if black[ps.st.Items[e.Src].SrcDB] {
				o.exclOnlyByDB[e.Src] = e
			}
		}
	}
	o.countE = make([]int, len(ps.st.Items))
	k := 0
	for i := range ps.st.Items {
		for k < len(o.expected) && o.expected[k].Src <= i {
			k++
		}
		o.countE[i] = k
	}
	return o
}

// expectedFrom returns the index of the first expected entry whose source item index is >= item.
func (o *crashOracle) expectedFrom(item int) int {
	if item <= 0 {
		return 0
	}
	if item-1 < len(o.countE) {
		return o.countE[item-1]
	}
	return len(o.expected)
}

// onRestart validates the point a new incarnation resumes from.
func (o *crashOracle) onRestart(in *incarnation) {
	ps := o.ps
	st := ps.st
	idx, ok := st.ItemEndingAt(in.startOff)
	if !ok {
		ps.setViolation("C02.cut", "resume offset is not a command boundary", "incarnation %d resumes at offset %d which is not the end of a source command (base %d)", in.id, in.startOff, st.Base)
		ps.setViolation("C07.boundary", "resume offset is not a command boundary", "incarnation %d resumes at offset %d which is not the end of a source command", in.id, in.startOff)
		in.startIdx = -1
		return
	}
	in.startIdx = idx + 1
	q := o.expectedFrom(in.startIdx)
	if in.id > 1 {
		if q > o.maxP {
			e := o.expected[o.maxP]
			ps.setViolation("C02.skip", "restart resumes past writes the target never executed", "incarnation %d resumes at offset %d (after source item %d) but expected command #%d [%s] (source item %d) was never executed by the target", in.id, in.startOff, idx, o.maxP, fmtCmd(e.Name, e.Args), e.Src)
		}
		if ps.cfg.Txn && q < o.maxP {
			e := o.expected[q]
			ps.setViolation("C02.repeat", "transactional mode re-executes committed writes after restart", "transactional mode: incarnation %d resumes at offset %d, so expected commands #%d..#%d (first [%s]) already committed on the target will be executed again", in.id, in.startOff, q, o.maxP-1, fmtCmd(e.Name, e.Args))
		}
		if o.hadPos && in.sp.Offset < 0 {
			ps.setViolation("C07.lost", "a stored position was replaced by none", "incarnation %d found no usable resume position (StartPoint offset %d) although a position had been stored before", in.id, in.sp.Offset)
		}
	}
	// resumed commands must run in the DB the source intended: the tool re-selects sp.DbId.
	if q < len(o.expected) && idx >= 0 {
		srcDB := st.Items[idx].SrcDB
		want := ps.cfg.DBM.Map(srcDB)
		if !in.sp.IsInitial() && in.sp.Offset >= 0 && in.startDB != want && in.id > 1 {
			// only a violation if a business command follows before the next SELECT
			nxt := o.expected[q]
			if st.Items[nxt.Src].SrcDB == srcDB && !selectBetween(st, idx+1, nxt.Src) {
				ps.setViolation("C02.resume_db", "restart re-selects a database the source did not intend", "incarnation %d resumes at offset %d in target db %d, but the source's database at that point is %d (target db %d): [%s] would run in the wrong database", in.id, in.startOff, in.startDB, srcDB, want, fmtCmd(nxt.Name, nxt.Args))
			}
		}
	}
	o.p = q
}

func selectBetween(st *Stream, from, to int) bool {
	for i := from; i < to && i < len(st.Items); i++ {
		if st.Items[i].Kind == KSelect {
			return true
		}
	}
	return false
}

// observe consumes new business entries, checkpoint writes and transaction blocks.
func (o *crashOracle) observe() {
	ps := o.ps
	for o.seenInc < len(ps.incs) {
		in := ps.incs[o.seenInc]
		if in.getPhase() == 0 {
			break
		}
		if in.spErr == nil {
			o.onRestart(in)
		}
		o.seenInc++
	}
	for ; o.checked < len(ps.biz); o.checked++ {
		b := ps.biz[o.checked]
		if o.p >= len(o.expected) {
			ps.setViolation("C02.invented", "target executed more than the stream contains", "target executed [%s] beyond the end of the expected sequence", fmtCmd(b.Name, b.Args))
			continue
		}
		e := o.expected[o.p]
		if b.Name != e.Name || !argsEqual(b.Args, e.Args) {
			ps.setViolation("C02.sequence", "after restart the executed sequence is not the source sequence", "incarnation %d: target executed [%s], expected #%d [%s] (source item %d)", b.Tag, fmtCmd(b.Name, b.Args), o.p, fmtCmd(e.Name, e.Args), e.Src)
			// try to resynchronise to keep later checks meaningful
			continue
		}
		if b.DB != e.DB {
			ps.setViolation("C02.db", "command executed in the wrong database", "incarnation %d: [%s] (source item %d, source db %d) executed in target db %d, expected db %d", b.Tag, fmtCmd(b.Name, b.Args), e.Src, ps.st.Items[e.Src].SrcDB, b.DB, e.DB)
		}
		if b.Txn != 0 {
			o.blockIdx[b.Txn] = append(o.blockIdx[b.Txn], o.p)
		} else if e.Txn != 0 && ps.cfg.Txn {
			ps.setViolation("C09.outside", "command of a source transaction executed outside a target transaction", "[%s] belongs to source transaction %d but the target executed it outside MULTI/EXEC", fmtCmd(e.Name, e.Args), e.Txn)
		}
		o.p++
		if o.p > o.maxP {
			o.maxP = o.p
		}
	}
	// checkpoint writes: C07
	for ; o.cpSeen < len(ps.cps); o.cpSeen++ {
		w := ps.cps[o.cpSeen]
		if w.Txn != 0 && w.Value > o.blockCp[w.Txn] {
			o.blockCp[w.Txn] = w.Value
		}
		if w.Value < 0 {
			if o.hadPos {
				ps.setViolation("C07.undefined", "a good position was overwritten by the none-yet marker", "resume position %d written to db %d (incarnation %d) although position %d had been stored before", w.Value, w.DB, w.Tag, o.lastCp)
			}
			continue
		}
		if _, ok := ps.st.ItemEndingAt(w.Value); !ok {
			isStart := false
			for _, in := range ps.incs {
				if in.startOff == w.Value {
					isStart = true
				}
			}
			if !isStart {
				ps.setViolation("C07.boundary", "stored position is not a command boundary", "resume position %d written to db %d is neither the end of a source command nor a start offset", w.Value, w.DB)
			}
		}
		if o.hadPos && w.Value < o.lastCp {
			ps.setViolation("C07.decrease", "stored position moved backwards", "resume position %d written to db %d (incarnation %d) after %d", w.Value, w.DB, w.Tag, o.lastCp)
		}
		if w.Value > o.lastCp {
			o.lastCp = w.Value
		}
		o.hadPos = true
	}
	o.stateInvariant()
}

// stateInvariant: every quiescent point is a possible crash instant.
func (o *crashOracle) stateInvariant() {
	ps := o.ps
	if os.Getenv("SIM_NO_STATE_INV") == "1" { // triage aid only: lets the dynamic (crash-based) rules speak
		return
	}
	off, dbs, ok := ps.StoredPosition()
	if !ok || off < 0 {
		return
	}
	idx, isB := ps.st.ItemEndingAt(off)
	if !isB {
		return // reported by C07.boundary
	}
	need := o.expectedFrom(idx + 1)
	if need > o.maxP {
		e := o.expected[o.maxP]
		ps.setViolation("C02.covers_write", "stored position covers a write the target has not executed", "stored position %d (end of source item %d) covers expected command #%d [%s] which the target has not executed", off, idx, o.maxP, fmtCmd(e.Name, e.Args))
	}
	if idx >= 0 && o.exclOnlyByDB != nil {
		for j := idx + 1; j < len(ps.st.Items) && ps.st.Items[j].Kind != KSelect; j++ {
			if e, bad := o.exclOnlyByDB[j]; bad {
				ps.setViolation("C02.covers_select", "stored position lies inside a section of an excluded database", "stored position %d (end of source item %d [%s]) lies behind the SELECT of source database %d, which output.filter.dbBlacklist excludes: a restart here no longer knows the exclusion and executes [%s] (source item %d)", off, idx, fmtCmd(ps.st.Items[idx].Name, ps.st.Items[idx].Args), ps.st.Items[idx].SrcDB, fmtCmd(e.Name, e.Args), j)
				break
			}
		}
	}
	if idx >= 0 {
		it := ps.st.Items[idx]
		want := ps.cfg.DBM.Map(it.SrcDB)
		for _, db := range dbs {
			if db != want && need < len(o.expected) {
				nxt := o.expected[need]
				if ps.st.Items[nxt.Src].SrcDB == it.SrcDB && !selectBetween(ps.st, idx+1, nxt.Src) {
					ps.setViolation("C02.covers_select", "stored position covers a database switch the target has not absorbed", "stored position %d (end of source item %d [%s]) is held by target db %d, but the source database at that point is %d (target db %d): a restart here runs [%s] in the wrong database", off, idx, fmtCmd(it.Name, it.Args), db, it.SrcDB, want, fmtCmd(nxt.Name, nxt.Args))
				}
			}
		}
		if ps.cfg.Txn && it.Txn != 0 && it.Kind != KExec {
			ps.setViolation("C09.position_inside", "stored position lies inside a source transaction", "stored position %d is the end of source item %d [%s] which is inside source transaction %d (before its EXEC): a restart here replays the rest of the transaction without its opening bracket", off, idx, fmtCmd(it.Name, it.Args), it.Txn)
			ps.setViolation("C02.covers_bracket", "stored position covers a transaction bracket not absorbed", "stored position %d is inside source transaction %d", off, it.Txn)
		}
	}
}

// finishBlocks checks C09 over all target MULTI/EXEC blocks seen so far.
func (o *crashOracle) finishBlocks() {
	ps := o.ps
	if !ps.cfg.Txn {
		return
	}
	// size of each source transaction in expected terms, and its EXEC end offset
	size := map[int]int{}
	for _, e := range o.expected {
		if e.Txn != 0 {
			size[e.Txn]++
		}
	}
	execEnd := map[int]int64{}
	for _, it := range ps.st.Items {
		if it.Kind == KExec {
			execEnd[it.Txn] = it.End
		}
	}
	for blk, idxs := range o.blockIdx {
		cnt := map[int]int{}
		for _, i := range idxs {
			if t := o.expected[i].Txn; t != 0 {
				cnt[t]++
			}
		}
		for t, c := range cnt {
			if c%size[t] != 0 {
				ps.setViolation("C09.split", "a source transaction was split over several target transactions", "target transaction block %d executed %d of the %d commands of source transaction %d", blk, c, size[t], t)
			}
			if ps.cfg.Resume {
				if cp, ok := o.blockCp[blk]; !ok || cp < execEnd[t] {
					ps.setViolation("C09.position", "transaction committed without the position that covers it", "target block %d executed source transaction %d (EXEC ends at %d) but wrote position %d in the same block", blk, t, execEnd[t], cp)
				}
			}
		}
	}
}

// crash kills the current incarnation: connections are severed, a chosen prefix of the requests it had
// already written is still executed by the target, nothing else of it survives.
func (ps *PipeSim) crash(c *simrt.Chooser, label string) {
	in := ps.inc
	ps.r.W.Fault("crash")
	ps.r.Logf("CRASH incarnation %d (%s)", in.id, label)
	ps.r.Net.DialFault = func(string) error { return errors.New("process is dead") }
	for _, ss := range ps.srv.Live() { // canonical order: the drawn prefix lengths must not depend on dial order
		if ss.Dead || ss.Conn.Tag != in.id {
			continue
		}
		n := ps.srv.PendingCount(ss)
		k := 0
		if n > 0 {
			k = c.Choose("crash_exec_more", n+1)
		}
		if ss.InMulti {
			simrt.Probe("crash_inside_target_multi")
		}
		done := ps.srv.KillSession(ss, k)
		ps.r.Logf("  %s: %d pending, %d still executed", ss.LabelString(), n, done)
	}
	in.cancel()
	in.mu.Lock()
	rd := in.reader
	in.mu.Unlock()
	if rd != nil {
		rd.pipe.CloseWith(errors.New("input died"))
	}
	for i := 0; i < 500 && in.getPhase() != 2; i++ {
		ps.r.Settle()
		for _, ss := range ps.srv.Sessions {
			if !ss.Dead && ss.Conn.Tag == in.id {
				ps.srv.KillSession(ss, 0)
			}
		}
		ps.r.Advance(100 * time.Millisecond)
	}
	ps.r.Settle()
	if in.getPhase() != 2 {
		Inconc("incarnation %d did not stop after crash", in.id)
	}
	ps.r.Net.DialFault = nil
	ps.absorb()
}

// runCrashSim is the generic crash/restart run. crashAt >= 0 forces one crash when the target has executed
// exactly crashAt requests (enumeration); otherwise crashes are scheduler actions.
// crashSoftRestarts: also lose the target connections without stopping the tool; the next incarnation then runs on the
// same RedisOutput object (the restart RedisInput.Run performs inside one process).
var crashSoftRestarts = os.Getenv("SIM_CRASH_SOFT") != "0"

// crashTargetBusy (SIM_CRASH_BUSY=1, exploration only, not part of the registered checks): the target refuses ONE replayed
// command with an error reply and serves what is pipelined behind it. C02 quantifies over crash points, not over error
// replies of a target that stays up; on the unchanged tree the fault shows a loss in transactional pipelined mode (the
// refused command's transaction is discarded, the next, already dispatched transaction commits with its checkpoint;
// DESIGN.md 7.4 by-products).
var crashTargetBusy = os.Getenv("SIM_CRASH_BUSY") == "1"

func runCrashSim(r *Run, prop string, cfg PipeCfg, st *Stream, maxCrashes int, crashAt int) (*PipeSim, *crashOracle) {
	ps := NewPipeSim(r, prop, cfg, st)
	o := newCrashOracle(ps)
	if os.Getenv("SIM_DEBUG_ITEMS") == "1" {
		for i, it := range st.Items {
			r.Logf("item %d end=%d txn=%d kind=%d db=%d %s", i, it.End, it.Txn, it.Kind, it.SrcDB, fmtCmd(it.Name, it.Args))
		}
	}
	crashes := 0
	ps.startIncarnation()
	forced := false
	for r.BeginStep() {
		r.Settle()
		ps.absorb()
		o.observe()
		if ps.viol != nil {
			break
		}
		in := ps.inc
		ph := in.getPhase()
		if ph == 2 {
			// Send ended by itself in a healthy run: the tool would restart the syncer; do the same (bounded).
			if (in.spErr != nil && !in.wasReset && !in.refused) || crashes > maxCrashes+3 {
				ps.setViolation(prop+".ended", "replay ended although nothing failed", "incarnation %d ended: spErr=%v sendErr=%v", in.id, in.spErr, in.sendErr)
				break
			}
			if !in.refused { // (a start that met the loading target is tried again; the refusals are counted out by themselves)
				crashes++
			}
			ps.killAll(in.id)
			ps.startIncarnation()
			continue
		}
		if crashAt >= 0 && !forced && ps.srv.Stats.Requests >= crashAt {
			forced = true
			crashes++
			ps.crash(r.Sched(), fmt.Sprintf("enumerated prefix %d", crashAt))
			o.observe()
			ps.startIncarnation()
			continue
		}
		if ph == 1 && ps.loadingLeft > 0 {
			ps.loadingLeft, ps.loadingSkip = 0, 0 // the start is over: the target has finished loading before the replay begins
		}
		ready := ps.srv.Ready()
		if ph == 1 && ps.remaining() == 0 && len(ready) == 0 && (!in.wasReset || o.maxP >= len(o.expected)) {
			break
		}
		// (an incarnation whose connections the target dropped has not finished: it notices at its next write or
		// keep-alive, ends with an error and is restarted above)
		acts := ps.healthyActions(true)
		if ps.cfg.FaultPace > 1 { // longer stretches of healthy progress between two restarts
			for i := range acts {
				acts[i].weight *= ps.cfg.FaultPace
			}
		}
		if crashAt < 0 && crashes < maxCrashes {
			w := 1
			// bias: crash while requests are in flight or right after a flush
			if len(ready) > 0 {
				w = 3
			}
			acts = append(acts, pipeAction{"crash", w, func() {
				crashes++
				ps.crash(r.Sched(), "scheduled")
				o.observe()
				ps.startIncarnation()
			}})
			if crashSoftRestarts {
				acts = append(acts, pipeAction{"target-reset", w, func() {
					// the target drops the tool's connections (CLIENT KILL, its idle timeout, a proxy restart) and stays
					// reachable: nothing is forced, the tool notices at its next read or write, Send ends with an error and the
					// loop above restarts it on the same output object
					crashes++
					ps.targetReset(r.Sched())
					o.observe()
				}})
				if crashTargetBusy && ph == 1 && len(ready) > 0 && ps.busyLeft == 0 {
					acts = append(acts, pipeAction{"target-busy", w, func() {
						// the target stays up and keeps its connections but refuses the next replayed command with an error
						// ("try again later"); the commands pipelined behind it are served. The tool reports the error and the
						// replay is started again: the stored position must not cover the refused command
						crashes++
						ps.busyLeft = 1
						r.W.Fault("target_busy")
						r.Logf("the target is busy: the next replayed command is refused")
						o.observe()
					}})
				}
				if ph == 1 {
					acts = append(acts, pipeAction{"target-restart", w, func() {
						// the target is restarted: it drops the tool's connections, is reachable again at once and, for a while,
						// still loads its dataset - it serves INFO and SELECT and answers -LOADING to everything that touches the
						// keyspace. The tool's next start (same process, same output object) meets that while it looks for its
						// resume position: a refused scan is an error and the start is tried again, never "nothing stored there"
						crashes++
						ps.targetReset(r.Sched())
						ps.loadingSkip = r.Sched().Choose("loading_after", 10)
						ps.loadingLeft = 1 + r.Sched().Choose("loading_requests", 3)
						r.W.Fault("target_loading")
						r.Logf("the target is loading: the next %d keyspace requests are refused", ps.loadingLeft)
						o.observe()
					}})
				}
				acts = append(acts, pipeAction{"conn-loss", w, func() {
					crashes++
					ps.connLoss(r.Sched())
					o.observe()
					ps.startIncarnation()
				}})
			}
			if crashSoftRestarts {
				ws := w
				if last := ps.lastWholeItem(in.fedTo); ph == 1 && last >= 0 && ps.st.Items[last].Txn != 0 && ps.st.Items[last].Kind != KExec && ps.st.Items[last].Kind != KMulti {
					ws = 30 // the sender sits between MULTI and EXEC of a source transaction: the stop that matters
				}
				acts = append(acts, pipeAction{"stop", ws, func() {
					crashes++
					ps.gracefulStop(r.Sched())
					o.observe()
					ps.startIncarnation()
				}})
			}
		}
		a := ps.pick(acts)
		r.Logf("step %d: %s", r.W.Step(), a.label)
		a.do()
	}
	if ps.viol == nil {
		ps.drain(20, func() { o.observe() }, func() bool { return ps.viol != nil || o.maxP >= len(o.expected) })
		r.Settle()
		ps.absorb()
		o.observe()
		o.finishBlocks()
		if ps.viol == nil && o.maxP != len(o.expected) {
			e := o.expected[o.maxP]
			ps.setViolation("C02.dropped", "commands missing after the last restart and drain", "after all restarts and a drain the target executed %d of %d expected commands; first missing [%s] (source item %d)", o.maxP, len(o.expected), fmtCmd(e.Name, e.Args), e.Src)
		}
	} else {
		o.finishBlocks()
	}
	ps.shutdown()
	return ps, o
}

// targetReset: the target closes the connections of the current incarnation (a drawn prefix of the requests already
// written still executes, their replies are lost) and keeps accepting new ones.
func (ps *PipeSim) targetReset(c *simrt.Chooser) {
	in := ps.inc
	ps.r.W.Fault("target_reset_reachable")
	ps.r.Logf("TARGET RESETS the connections of incarnation %d (stays reachable)", in.id)
	for _, ss := range ps.srv.Live() {
		if ss.Dead || ss.Conn.Tag != in.id {
			continue
		}
		n := ps.srv.PendingCount(ss)
		k := 0
		if n > 0 {
			// half of the time everything already written is still executed and only the replies are lost: the case in
			// which the tool knows least about what the target did
			if c.Choose("reset_exec_all", 2) == 1 {
				k = n
			} else {
				k = c.Choose("reset_exec_more", n+1)
			}
		}
		done := ps.srv.KillSession(ss, k)
		in.wasReset = true // (only if a connection was there to drop)
		ps.r.Logf("  %s: %d pending, %d still executed", ss.LabelString(), n, done)
	}
	ps.absorb()
}

// connLoss severs the target connections of the current incarnation (a drawn prefix of the requests already written
// still executes) WITHOUT stopping the tool: Send ends by itself with an error, and the next incarnation runs on the same
// output object — the restart RedisInput.Run performs inside one process after any replay error.
func (ps *PipeSim) connLoss(c *simrt.Chooser) {
	in := ps.inc
	ps.r.W.Fault("conn_loss_soft_restart")
	ps.r.Logf("CONNECTION LOSS, in-process restart of incarnation %d", in.id)
	ps.r.Net.DialFault = func(string) error { return errors.New("target unreachable") }
	for _, ss := range ps.srv.Live() {
		if ss.Dead || ss.Conn.Tag != in.id {
			continue
		}
		n := ps.srv.PendingCount(ss)
		k := 0
		if n > 0 {
			k = c.Choose("loss_exec_more", n+1)
		}
		done := ps.srv.KillSession(ss, k)
		ps.r.Logf("  %s: %d pending, %d still executed", ss.LabelString(), n, done)
	}
	for i := 0; i < 600 && in.getPhase() != 2; i++ {
		ps.r.Settle()
		for _, ss := range ps.srv.Sessions {
			if !ss.Dead && ss.Conn.Tag == in.id {
				ps.srv.KillSession(ss, 0)
			}
		}
		if i == 300 {
			in.cancel() // an idle sender notices nothing until its next write: the run scope ends it (source side closed)
			in.mu.Lock()
			rd := in.reader
			in.mu.Unlock()
			if rd != nil {
				rd.pipe.CloseWith(errors.New("run scope closed"))
			}
		}
		ps.r.Advance(100 * time.Millisecond)
	}
	ps.r.Settle()
	if in.getPhase() != 2 {
		Inconc("incarnation %d did not end after connection loss", in.id)
	}
	ps.r.Net.DialFault = nil
	ps.absorb()
	in.mu.Lock()
	pathDone := in.pathDone
	in.mu.Unlock()
	if pathDone {
		ps.reuse = in.ro
	} else {
		// the connection was lost before syncer.newOutput had finished: no output object exists yet, the syncer's
		// restart runs the whole start path again
		ps.r.Logf("  start path not completed: the next incarnation starts from scratch")
	}
}

// gracefulStop ends the current incarnation the orderly way: the run scope is cancelled (SIGTERM, leader hand-over, the
// input side failing) while the target stays reachable and answers everything the tool still sends. What the sender
// flushes on its way out is executed in full; the next incarnation is a new process or the same output object.
func (ps *PipeSim) gracefulStop(c *simrt.Chooser) {
	in := ps.inc
	ps.r.W.Fault("graceful_stop")
	ps.r.Logf("GRACEFUL STOP of incarnation %d", in.id)
	if last := ps.lastWholeItem(in.fedTo); last >= 0 && ps.st.Items[last].Txn != 0 && ps.st.Items[last].Kind != KExec && ps.st.Items[last].Kind != KMulti {
		simrt.Probe("stop_inside_open_source_txn")
	}
	in.cancel()
	closeAt := c.Choose("stop_reader_close", 3) * 20
	for i := 0; i < 600 && in.getPhase() != 2; i++ {
		ps.r.Settle()
		for _, ss := range ps.srv.Ready() {
			if ss.Conn.Tag == in.id {
				ps.srv.Step(ss)
			}
		}
		if i == closeAt {
			in.mu.Lock()
			rd := in.reader
			in.mu.Unlock()
			if rd != nil {
				rd.pipe.CloseWith(errors.New("run scope closed"))
			}
		}
		ps.r.Advance(10 * time.Millisecond)
	}
	ps.r.Settle()
	if in.getPhase() != 2 {
		Inconc("incarnation %d did not end after a graceful stop", in.id)
	}
	for drained := false; !drained; {
		drained = true
		for _, ss := range ps.srv.Ready() {
			if ss.Conn.Tag == in.id {
				ps.srv.Step(ss)
				drained = false
			}
		}
		ps.r.Settle()
	}
	ps.killAll(in.id)
	ps.r.Settle()
	ps.absorb()
	in.mu.Lock()
	pathDone := in.pathDone
	in.mu.Unlock()
	if pathDone && c.Choose("stop_same_process", 2) == 0 {
		ps.reuse = in.ro
	}
}

// lastWholeItem: index of the last source item that lies completely below off (-1: none).
func (ps *PipeSim) lastWholeItem(off int64) int {
	last := -1
	for i, it := range ps.st.Items {
		if it.End <= off {
			last = i
		}
	}
	return last
}

func (ps *PipeSim) killAll(tag int) {
	for _, ss := range ps.srv.Sessions {
		if !ss.Dead && ss.Conn.Tag == tag {
			ps.srv.KillSession(ss, 0)
		}
	}
}

func init() {
	Register(&PropertyDef{ID: "C02", Strata: []string{"txn", "nontxn", "txn-enum", "nontxn-enum", "txn-select", "txn-txnheavy", "txn-txnheavy-innersel", "txn-filters", "nontxn-filters", "txn-twodbs", "nontxn-twodbs"}, Run: func(r *Run, s string) *Violation { return runCrashProp(r, "C02", s) }, StepCap: 30000})
	Register(&PropertyDef{ID: "C07", Strata: []string{"txn-idle", "nontxn-idle", "txn", "nontxn", "txn-enum", "nontxn-enum", "runid-switch"}, Run: func(r *Run, s string) *Violation {
		if s == "runid-switch" {
			return runC07Switch(r, s)
		}
		return runCrashProp(r, "C07", s)
	}, StepCap: 200000})
	Register(&PropertyDef{ID: "C09", Strata: []string{"txn-txnheavy", "txn-txnheavy-enum", "txn-select", "txn-txnheavy-innersel", "txn-txnheavy-innersel-enum"}, Run: func(r *Run, s string) *Violation { return runCrashProp(r, "C09", s) }, StepCap: 30000})
}

func hasWord(s, w string) bool {
	for _, p := range splitDash(s) {
		if p == w {
			return true
		}
	}
	return false
}

func splitDash(s string) []string {
	var out []string
	cur := ""
	for _, c := range s {
		if c == '-' {
			out = append(out, cur)
			cur = ""
		} else {
			cur += string(c)
		}
	}
	return append(out, cur)
}

func runCrashProp(r *Run, prop, stratum string) *Violation {
	g := r.Gen()
	txn := 0
	if hasWord(stratum, "txn") {
		txn = 1
	}
	cfg := GenPipeCfg(g, txn, 1)
	max := 30
	if r.Tier == "thorough" {
		max = 150
	}
	cfg.FaultPace = []int{1, 3, 8}[g.Choose("faultpace", 3)]
	if g.Choose("startpath", 2) == 0 {
		cfg.StartPath = true
		cfg.AfterFullSync = g.Choose("afterfullsync", 2) == 0
	}
	o := StreamOpts{MaxItems: max, StartDB: -1}
	if hasWord(stratum, "txnheavy") {
		o.TxnHeavy = true
	}
	if hasWord(stratum, "select") {
		o.SelectHeavy = true
	}
	if hasWord(stratum, "innersel") {
		o.TxnInnerSelect = true
	}
	if prop == "C09" && hasWord(stratum, "txnheavy") && !hasWord(stratum, "enum") && g.Choose("hugeintxn", 6) == 0 {
		o.HugeInTxn = true // a source transaction with a command larger than the client's write buffer
	}
	if !hasWord(stratum, "filters") && g.Choose("fewdbs", 3) == 0 {
		// few databases: the stream keeps coming back to the same ones (database 0 included), and a database map over
		// them chains (a->b, b->c), so that mapping a database twice is not the identity
		o.NumDBs = 2 + g.Choose("numdbs", 3)
		if g.Choose("chainmap", 2) == 0 {
			cfg.DBM = DBMap{TargetDb: -1, TargetDbMap: map[int]int{}}
			for from := 0; from < o.NumDBs; from++ {
				if g.Choose("mapthis", 3) != 0 {
					cfg.DBM.TargetDbMap[from] = g.Choose("mapto", o.NumDBs+1)
				}
			}
		}
	}
	if hasWord(stratum, "filters") {
		// output filters (command / database / key prefix / slot lists): what is filtered out leaves no trace on the
		// target, so a resume position inside a filtered section must still restore the parser's state
		cfg.Filters = GenFilterSpec(g)
		if len(cfg.Filters.DbBlacklist) == 0 {
			cfg.Filters.DbBlacklist = []int{g.Choose("dbblack1", 4)}
		}
		o.Filters, o.NumDBs, o.SelectHeavy = cfg.Filters, 4, true
	}
	if hasWord(stratum, "idle") {
		// idle-heavy: long tickers are pointless, short ones fire before the first item
		cfg.Keepalive = tickerChoices[g.Choose("idle_ka", 4)] + 137*time.Microsecond
		cfg.CpTicker = tickerChoices[g.Choose("idle_cp", 4)] + 271*time.Microsecond
	}
	twodbs := hasWord(stratum, "twodbs")
	if twodbs {
		// two databases, many switches, several well-spaced restarts: every restart is likely to resume in another
		// database than the one before (what the output remembers about the previous resume must not leak into the next)
		o.NumDBs, o.SelectHeavy, o.MaxItems = 2, true, 2*max
		cfg.FaultPace = 8
		cfg.DBM = DBMap{TargetDb: -1}
	}
	enum := hasWord(stratum, "enum")
	if enum {
		o.MaxItems = 12
		if r.Tier == "thorough" {
			o.MaxItems = 25
		}
	}
	st := GenStream(g, o)
	r.Sample = fmt.Sprintf("cfg{%s} stream{%s}", cfg, describeStream(st, 10))
	maxCrashes := 1 + g.Choose("ncrashes", 3)
	if twodbs {
		maxCrashes = 3
	}
	if !enum {
		ps, orc := runCrashSim(r, prop, cfg, st, maxCrashes, -1)
		r.NonTriv = r.W.Faults["crash"] > 0 && len(orc.expected) >= 2
		r.Evals = 1
		return ps.viol
	}
	// enumeration: record a fault-free reference run, then crash after every prefix of target requests.
	base := r.Sched()
	ps0, _ := runCrashSim(r, prop, cfg, st, 0, -1)
	if ps0.viol != nil {
		return ps0.viol
	}
	n := ps0.srv.Stats.Requests
	recorded := base.Values()
	if n > 80 {
		n = 80
	}
	r.Evals = 1
	for k := 0; k <= n; k++ {
		r.SetSched(simrt.NewReplayChooser(recorded))
		r.ResetSteps()
		r.Logf("=== enumerated crash after %d target requests", k)
		ps, orc := runCrashSim(r, prop, cfg, st, 1, k)
		r.Evals++
		if len(orc.expected) >= 2 {
			r.NonTriv = true
		}
		if ps.viol != nil {
			r.SetSched(nil)
			return ps.viol
		}
	}
	r.SetSched(nil)
	return nil
}
