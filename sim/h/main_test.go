package h

import (
	"bufio"
	"encoding/json"
	"fmt"
	"os"
	"strconv"
	"strings"
	"testing"
	"time"

	"verifsim/simrt"
)

func envInt(name string, def int64) int64 {
	if v := os.Getenv(name); v != "" {
		n, err := strconv.ParseInt(v, 10, 64)
		if err == nil {
			return n
		}
	}
	return def
}

// ReplayFile is the on-disk form of one reproducible execution.
type ReplayFile struct {
	Property  string   `json:"property"`
	Stratum   string   `json:"stratum"`
	Tier      string   `json:"tier"`
	Seed      uint64   `json:"seed"`
	Gen       []int    `json:"gen"`
	Sched     []int    `json:"sched"`
	Rule      string   `json:"rule"`
	Signature string   `json:"signature"`
	Msg       string   `json:"msg"`
	Digest    string   `json:"digest"`
	Minimised bool     `json:"minimised"`
	Trace     []string `json:"trace"`
}

// TestSim is the single entry point of the harness binary; behaviour is selected by environment:
//
//	SIM_PROP, SIM_MODE=search|replay|minimize, SIM_SEED, SIM_START, SIM_COUNT, SIM_STRIDE, SIM_OUT,
//	SIM_REPLAY, SIM_TIER, SIM_BUDGET_S, SIM_STOP_ON_VIOLATION
func TestSim(t *testing.T) {
	prop := os.Getenv("SIM_PROP")
	if prop == "" {
		t.Skip("SIM_PROP not set")
	}
	p := registry[prop]
	if p == nil {
		fmt.Fprintf(os.Stderr, "unknown property %s\n", prop)
		os.Exit(2)
	}
	mode := os.Getenv("SIM_MODE")
	tier := os.Getenv("SIM_TIER")
	if tier == "" {
		tier = "quick"
	}
	var out *bufio.Writer
	if o := os.Getenv("SIM_OUT"); o != "" {
		f, err := os.Create(o)
		if err != nil {
			fmt.Fprintln(os.Stderr, err)
			os.Exit(2)
		}
		defer f.Close()
		out = bufio.NewWriter(f)
		defer out.Flush()
	} else {
		out = bufio.NewWriter(os.Stdout)
		defer out.Flush()
	}
	emit := func(v any) {
		b, _ := json.Marshal(v)
		out.Write(b)
		out.WriteByte('\n')
	}
	switch mode {
	case "", "search":
		base := uint64(envInt("SIM_SEED", 1))
		start := envInt("SIM_START", 0)
		count := envInt("SIM_COUNT", 100)
		stride := envInt("SIM_STRIDE", 1)
		budget := time.Duration(envInt("SIM_BUDGET_S", 3600)) * time.Second
		stop := os.Getenv("SIM_STOP_ON_VIOLATION") != "0"
		keep := os.Getenv("SIM_KEEPLOG") == "1"
		t0 := time.Now()
		for i := int64(0); i < count; i++ {
			idx := start + i*stride
			if time.Since(t0) > budget {
				break
			}
			seed := simrt.Mix(base, uint64(idx))
			strata := p.Strata
			if f := os.Getenv("SIM_STRATA"); f != "" { // development aid: restrict the rotation to some strata
				strata = strings.Split(f, ",")
			}
			stratum := strata[int(idx)%len(strata)]
			res := Execute(t, p, seed, stratum, nil, nil, false, keep, tier)
			res.Seed = seed
			type line struct {
				Result
				Index int64 `json:"index"`
			}
			emit(line{res, idx})
			if res.HarnessError != "" {
				out.Flush()
				fmt.Fprintf(os.Stderr, "HARNESS ERROR property=%s index=%d seed=%d: %s\n", prop, idx, seed, res.HarnessError)
				os.Exit(2)
			}
			if res.Violation != nil && stop {
				break
			}
		}
	case "replay", "minimize":
		path := os.Getenv("SIM_REPLAY")
		b, err := os.ReadFile(path)
		if err != nil {
			fmt.Fprintln(os.Stderr, err)
			os.Exit(2)
		}
		var rf ReplayFile
		if err := json.Unmarshal(b, &rf); err != nil {
			fmt.Fprintln(os.Stderr, err)
			os.Exit(2)
		}
		if rf.Tier != "" {
			tier = rf.Tier
		}
		if mode == "replay" {
			res := Execute(t, p, rf.Seed, rf.Stratum, rf.Gen, rf.Sched, true, true, tier)
			emit(res)
			return
		}
		min := Minimise(t, p, &rf, tier, int(envInt("SIM_MIN_BUDGET", 300)))
		emit(min)
	}
}

// Minimise shrinks the schedule vector, then the generation vector, keeping the same (rule, signature).
func Minimise(t *testing.T, p *PropertyDef, rf *ReplayFile, tier string, budget int) *ReplayFile {
	gen := append([]int(nil), rf.Gen...)
	sched := append([]int(nil), rf.Sched...)
	runs := 0
	same := func(g, s []int) (bool, *Result) {
		runs++
		res := Execute(t, p, rf.Seed, rf.Stratum, g, s, true, false, tier)
		if res.Violation != nil && res.Violation.Rule == rf.Rule && res.Violation.Sig == rf.Signature {
			return true, &res
		}
		return false, nil
	}
	shrink := func(vec []int, other []int, isSched bool) []int {
		try := func(c []int) bool {
			if runs >= budget {
				return false
			}
			var ok bool
			if isSched {
				ok, _ = same(other, c)
			} else {
				ok, _ = same(c, other)
			}
			return ok
		}
		// 1. truncate (binary search on length)
		lo, hi := 0, len(vec)
		for lo < hi && runs < budget {
			mid := (lo + hi) / 2
			if try(vec[:mid]) {
				hi = mid
			} else {
				lo = mid + 1
			}
		}
		if hi < len(vec) && try(vec[:hi]) {
			vec = append([]int(nil), vec[:hi]...)
		}
		// 2. zero blocks
		for bs := len(vec) / 2; bs >= 1 && runs < budget; bs /= 2 {
			for i := 0; i+bs <= len(vec) && runs < budget; i += bs {
				allZero := true
				for _, v := range vec[i : i+bs] {
					if v != 0 {
						allZero = false
					}
				}
				if allZero {
					continue
				}
				c := append([]int(nil), vec...)
				for j := i; j < i+bs; j++ {
					c[j] = 0
				}
				if try(c) {
					vec = c
				}
			}
		}
		// 3. delete blocks
		for bs := len(vec) / 2; bs >= 1 && runs < budget; bs /= 2 {
			for i := 0; i+bs <= len(vec) && runs < budget; {
				c := append(append([]int(nil), vec[:i]...), vec[i+bs:]...)
				if try(c) {
					vec = c
				} else {
					i += bs
				}
			}
		}
		// 4. decrement values
		for i := 0; i < len(vec) && runs < budget; i++ {
			for vec[i] > 0 && runs < budget {
				c := append([]int(nil), vec...)
				c[i] = vec[i] / 2
				if try(c) {
					vec = c
				} else {
					break
				}
			}
		}
		return vec
	}
	ok, _ := same(gen, sched)
	if !ok {
		// not reproducible with the recorded vectors: report as is
		out := *rf
		out.Minimised = false
		out.Msg = "NOT REPRODUCIBLE: " + rf.Msg
		return &out
	}
	sched = shrink(sched, gen, true)
	gen = shrink(gen, sched, false)
	if runs < budget {
		sched = shrink(sched, gen, true)
	}
	res := Execute(t, p, rf.Seed, rf.Stratum, gen, sched, true, true, tier)
	out := *rf
	out.Gen, out.Sched = res.Gen, res.Sched
	out.Minimised = true
	out.Digest = res.Digest
	out.Trace = res.Trace
	if res.Violation != nil {
		out.Msg = res.Violation.Msg
		out.Rule = res.Violation.Rule
		out.Signature = res.Violation.Sig
	}
	return &out
}
