// Package simsyncer stands in for the import of package syncer in cmd/syncer.go (overlay rule in sim/gen/rules.json):
// every identifier that file uses is the real one (type aliases, the same error values) except the constructor, which
// the C15 harness may replace by a stub, so that the real cmd.runCluster can be run without a replication behind it.
package simsyncer

import (
	real "github.com/mgtv-tech/redis-GunYu/syncer"
)

type (
	SyncerConfig = real.SyncerConfig
	Syncer       = real.Syncer
)

var (
	ErrBreak                = real.ErrBreak
	ErrLeaderHandover       = real.ErrLeaderHandover
	ErrLeaderTakeover       = real.ErrLeaderTakeover
	ErrQuit                 = real.ErrQuit
	ErrRedisTypologyChanged = real.ErrRedisTypologyChanged
	ErrRestart              = real.ErrRestart
)

// Factory, when set, builds the syncer of a source shard instead of syncer.NewSyncer.
var Factory func(cfg SyncerConfig) Syncer

func NewSyncer(cfg SyncerConfig) Syncer {
	if Factory != nil {
		return Factory(cfg)
	}
	return real.NewSyncer(cfg)
}
