package h

import (
	"context"
	"fmt"
	"strings"
	"time"

	"github.com/mgtv-tech/redis-GunYu/config"
	"github.com/mgtv-tech/redis-GunYu/pkg/redis/checkpoint"
	"github.com/mgtv-tech/redis-GunYu/pkg/redis/client"
	"github.com/mgtv-tech/redis-GunYu/syncer"

	"verifsim/simredis"
)

// C17, stratum newoutput: the tool's whole start path - the real (*syncer).newOutput (asks the source for its ids,
// resolves the checkpoint name or bidirectional namespace, moves the bookkeeping to the current id) followed by the real
// StartPoint - over a history of source fail-overs with a restart after each, every restart stopped after every prefix
// of its requests. Plain resume and bidirectional mode (sync / pipeline / parallel).
func runC17NewOutput(r *Run, stratum string) *Violation {
	g := r.Gen()
	c := &c17sim{r: r}
	c.srv = simredis.NewServer(simTargetAddr)
	r.Net.Listen(simTargetAddr, c.srv)
	src := simredis.NewServer(simSourceAddr)
	simredis.NewSource(src, "")
	r.Net.Listen(simSourceAddr, src)
	c.extra = []*simredis.Server{src}

	ids := []string{"a" + hexID(g.Bytes("ida", 20))[1:], "b" + hexID(g.Bytes("idb", 20))[1:], "c" + hexID(g.Bytes("idc", 20))[1:], "d" + hexID(g.Bytes("idd", 20))[1:]}
	nFail := 1 + g.Choose("nfailovers", 3)
	bisync := g.Choose("bisync", 2) == 0
	mode := []string{"sync", "pipeline", "parallel"}[g.Choose("mode", 3)]

	sc := config.GetSyncerConfig()
	oldOut := sc.Output
	defer func() { sc.Output = oldOut }()
	rc := config.ReplayConfig{}
	if bisync {
		t := true
		rc.BisyncEnabled = &t
		rc.Mode = config.ReplayMode(mode)
	}
	if err := config.VerifFixReplay(&rc); err != nil {
		Inconc("replay configuration rejected: %v", err)
	}
	tcfg := targetRedisCfg()
	sc.Output = &config.OutputConfig{Redis: &tcfg, Replay: rc}
	scfg := syncer.SyncerConfig{
		Input:          config.RedisConfig{Addresses: []string{simSourceAddr}, Type: config.RedisTypeStandalone, Otype: config.RedisTypeStandalone, Version: "7.2.0"},
		Output:         tcfg,
		Channel:        config.ChannelConfig{Type: config.ChannelTypeMemory, Memory: &config.MemoryConfig{MaxSize: 1 << 20, LogSize: 1 << 16}},
		CanTransaction: true,
	}

	// one start of the tool: returns the resume offset (-1: none)
	cur := func() []string {
		out := []string{src.Repl.ID}
		if src.Repl.ID2 != "" {
			out = append(out, src.Repl.ID2)
		} else {
			out = append(out, strings.Repeat("0", 40))
		}
		return out
	}
	start := func(crashAfter int) (int64, int, error) {
		off := int64(-1)
		n, err := c.runOp("start", func(ctx context.Context) error {
			ro, e := syncer.VerifNewOutput(scfg)
			if e != nil {
				return e
			}
			sp, e := ro.StartPoint(ctx, cur())
			if e != nil {
				return e
			}
			if !sp.IsInitial() && sp.IsValid() && sp.Offset >= 0 {
				off = sp.Offset
			}
			return nil
		}, crashAfter)
		return off, n, err
	}
	// what a completed full sync / further progress leaves: the root checkpoint of the current id at a higher offset
	progress := func(off int64) {
		if _, err := c.runOp("progress", func(ctx context.Context) error {
			cli, e := client.NewRedis(tcfg)
			if e != nil {
				return e
			}
			defer cli.Close()
			name, _, e := checkpoint.GetCheckpointHash(cli, cur())
			if e != nil {
				return e
			}
			if name == "" {
				return fmt.Errorf("no checkpoint name registered for %v", cur())
			}
			return checkpoint.SetCheckpoint(cli, &checkpoint.CheckpointInfo{Key: name, RunId: src.Repl.ID, Offset: off, Version: config.Version})
		}, -1); err != nil {
			Inconc("recording progress failed: %v", err)
		}
	}

	src.Repl.ID, src.Repl.ID2 = ids[0], ""
	if _, _, err := start(-1); err != nil {
		return &Violation{Property: "C17", Rule: "C17.start_failed", Sig: "the first start fails on an empty target", Msg: fmt.Sprintf("first start (bisync=%v mode=%s): %v", bisync, mode, err)}
	}
	pos := int64(1000 + g.Choose("pos0", 5000))
	progress(pos)
	r.Sample = fmt.Sprintf("newoutput bisync=%v mode=%s failovers=%d first position %d", bisync, mode, nFail, pos)
	r.NonTriv = true
	r.Evals = 0
	for f := 1; f <= nFail; f++ {
		// the source fails over: new id, previous id second; the tool restarts (cmd's reaction to a master change)
		src.Repl.ID, src.Repl.ID2, src.Repl.SecondOffset = ids[f], ids[f-1], pos
		r.W.Fault("source_failover")
		before := c.srv.CloneDBs()
		off, n, err := start(-1)
		r.Evals++
		if err != nil {
			return &Violation{Property: "C17", Rule: "C17.start_failed", Sig: "start after a source fail-over fails", Msg: fmt.Sprintf("start after fail-over %d (ids %s.., %s..; bisync=%v mode=%s): %v; state: %s", f, ids[f][:6], ids[f-1][:6], bisync, mode, err, describeKeyspace(c.srv))}
		}
		if off < pos {
			return &Violation{Property: "C17", Rule: "C17.position_lost", Sig: "start after a source fail-over finds a smaller or no position", Msg: fmt.Sprintf("after fail-over %d (the source reports %s.. and, as second id, %s..; bisync=%v mode=%s) the start finds position %d, %d was held; state after the start: %s", f, ids[f][:6], ids[f-1][:6], bisync, mode, off, pos, describeKeyspace(c.srv))}
		}
		after := c.srv.CloneDBs()
		if n > 60 {
			n = 60
		}
		for k := 0; k < n; k++ {
			c.srv.RestoreDBs(before)
			start(k)
			off2, _, err2 := start(-1)
			r.Evals++
			if err2 != nil {
				return &Violation{Property: "C17", Rule: "C17.start_failed", Sig: "start fails on the state an interrupted start left", Msg: fmt.Sprintf("fail-over %d, start stopped after %d of %d requests (bisync=%v mode=%s): the next start fails: %v; state: %s", f, k, n, bisync, mode, err2, describeKeyspace(c.srv))}
			}
			if off2 < pos {
				return &Violation{Property: "C17", Rule: "C17.position_lost", Sig: "an interrupted start after a source fail-over loses the position", Msg: fmt.Sprintf("fail-over %d, start stopped after %d of %d requests (bisync=%v mode=%s): the next start finds position %d, %d was held; state: %s", f, k, n, bisync, mode, off2, pos, describeKeyspace(c.srv))}
			}
		}
		c.srv.RestoreDBs(after)
		pos += int64(1 + g.Choose("advance", 500))
		progress(pos)
	}
	for _, x := range []*simredis.Server{c.srv, src} {
		for _, ss := range x.Sessions {
			if !ss.Dead {
				x.KillSession(ss, 0)
			}
		}
	}
	r.Settle()
	_ = time.Second
	return nil
}
