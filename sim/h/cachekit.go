package h

import (
	"bufio"
	"fmt"
	"io"
	"sort"
	"strings"
	"sync"
	"time"

	"github.com/mgtv-tech/redis-GunYu/config"
	usync "github.com/mgtv-tech/redis-GunYu/pkg/sync"
	"github.com/mgtv-tech/redis-GunYu/syncer"
)

// Shared building blocks of the cache harnesses C05 (live cache, concurrent drivers) and C08 (crash images):
// keyed source bytes, snapshot bytes with a genuine RDB trailer, the scheduler-fed input pipe with consumption
// accounting, reader taps, interval sets.

// ---------------------------------------------------------------- source bytes

// cacheByte is THE source stream of history `key`: byte at replication offset off. Two histories never look alike
// (for more than a few bytes), so a byte served from the wrong id / wrong offset is recognisable.
func cacheByte(key uint64, off int64) byte {
	z := key*0x9e3779b97f4a7c15 ^ (uint64(off)+0x632be59bd9b4e019)*0xbf58476d1ce4e5b9
	z ^= z >> 29
	z *= 0x94d049bb133111eb
	z ^= z >> 32
	return byte(z)
}

func cacheBytes(key uint64, lo, hi int64) []byte {
	b := make([]byte, hi-lo)
	for i := range b {
		b[i] = cacheByte(key, lo+int64(i))
	}
	return b
}

// crc64Jones: CRC-64 as used by Redis for the RDB trailer ("Jones" polynomial 0xad93d23594c935a9, reflected input
// and output, initial value 0, no final xor; check value of "123456789" = 0xe9c6d914c4b8d9ca). Bitwise, written
// from the parameter set in the Redis sources' header comment; shares no code with pkg/digest.
func crc64Jones(crc uint64, p []byte) uint64 {
	const polyRev = 0x95ac9329ac4bc9b5 // bit-reversed 0xad93d23594c935a9
	for _, b := range p {
		crc ^= uint64(b)
		for i := 0; i < 8; i++ {
			if crc&1 != 0 {
				crc = crc>>1 ^ polyRev
			} else {
				crc >>= 1
			}
		}
	}
	return crc
}

// snapBytes is the snapshot (RDB payload) the source sends for history key at offset off with size n: keyed
// pseudo-random bytes and — as every RDB since version 5 — the CRC-64 of everything before it in the last 8 bytes
// (little endian). Snapshots of at most 8 bytes are plain keyed bytes.
func snapBytes(key uint64, off int64, n int64) []byte {
	b := make([]byte, n)
	k2 := key ^ 0x5bd1e9955bd1e995 ^ uint64(off)<<20 ^ uint64(n)<<44
	for i := range b {
		b[i] = cacheByte(k2, int64(i))
	}
	if n > 8 {
		c := crc64Jones(0, b[:n-8])
		for i := 0; i < 8; i++ {
			b[n-8+int64(i)] = byte(c >> (8 * i))
		}
	}
	return b
}

// ---------------------------------------------------------------- interval sets

type ival struct{ lo, hi int64 } // [lo,hi)

type ivalSet []ival

func (s ivalSet) add(lo, hi int64) ivalSet {
	if hi <= lo {
		return s
	}
	out := append(ivalSet(nil), s...)
	out = append(out, ival{lo, hi})
	sort.Slice(out, func(i, j int) bool { return out[i].lo < out[j].lo })
	m := out[:0]
	for _, x := range out {
		if len(m) > 0 && x.lo <= m[len(m)-1].hi {
			if x.hi > m[len(m)-1].hi {
				m[len(m)-1].hi = x.hi
			}
		} else {
			m = append(m, x)
		}
	}
	return m
}

// covers reports whether [lo,hi) lies inside ONE interval of the set (an empty range needs lo inside or at the
// end of an interval).
func (s ivalSet) covers(lo, hi int64) bool {
	for _, x := range s {
		if lo >= x.lo && hi <= x.hi && lo <= x.hi {
			return true
		}
	}
	return false
}

func (s ivalSet) String() string {
	var b strings.Builder
	for i, x := range s {
		if i > 0 {
			b.WriteByte(' ')
		}
		fmt.Fprintf(&b, "[%d,%d)", x.lo, x.hi)
	}
	if len(s) == 0 {
		return "{}"
	}
	return b.String()
}

// ---------------------------------------------------------------- scheduler-fed input of a cache writer

// cfeed is the io.Reader handed to NewRdbWriter/NewAofWritter (the source connection). The scheduler feeds bytes;
// the writer's ingest goroutine blocks durably in Read. It accounts what the consumer took, so that an oracle can
// say "everything before the last Read has certainly been processed" without asking the implementation.
type cfeed struct {
	mu       sync.Mutex
	cond     *sync.Cond
	buf      []byte
	closed   bool
	err      error
	fed      int64 // bytes handed over by the scheduler
	consumed int64 // bytes returned by Read
	lastN    int64 // size of the last successful Read
	waiting  bool  // consumer is parked in Read with nothing buffered
	reads    int
}

func newCfeed() *cfeed {
	p := &cfeed{}
	p.cond = sync.NewCond(&p.mu)
	return p
}

func (p *cfeed) Read(b []byte) (int, error) {
	p.mu.Lock()
	defer p.mu.Unlock()
	for len(p.buf) == 0 {
		if p.closed {
			if p.err != nil {
				return 0, p.err
			}
			return 0, io.EOF
		}
		p.waiting = true
		p.cond.Wait()
		p.waiting = false
	}
	n := copy(b, p.buf)
	p.buf = p.buf[n:]
	p.consumed += int64(n)
	p.lastN = int64(n)
	p.reads++
	return n, nil
}

func (p *cfeed) Feed(b []byte) {
	p.mu.Lock()
	p.buf = append(p.buf, b...)
	p.fed += int64(len(b))
	p.cond.Broadcast()
	p.mu.Unlock()
}

// CloseWith ends the source connection (err nil = EOF).
func (p *cfeed) CloseWith(err error) {
	p.mu.Lock()
	p.closed = true
	p.err = err
	p.cond.Broadcast()
	p.mu.Unlock()
}

// Close lets the memory back end's closeInputReader succeed.
func (p *cfeed) Close() error { p.CloseWith(io.ErrClosedPipe); return nil }

// processed returns a lower bound of the bytes the consumer has completely processed: everything consumed if it is
// parked in Read again (or nothing was read yet), otherwise everything before its last Read.
func (p *cfeed) processed() int64 {
	p.mu.Lock()
	defer p.mu.Unlock()
	if p.waiting || p.reads == 0 {
		return p.consumed
	}
	return p.consumed - p.lastN
}

func (p *cfeed) state() (fed, consumed int64, waiting bool) {
	p.mu.Lock()
	defer p.mu.Unlock()
	return p.fed, p.consumed, p.waiting
}

// ---------------------------------------------------------------- reader tap

// rtap drains one ChannelReader in its own goroutine (the "output side"). Blocking happens inside the cache's pipe
// (sync.Cond: durable). `stall` makes the tap stop reading until released.
type rtap struct {
	rd     syncer.ChannelReader
	wait   usync.WaitCloser
	mu     sync.Mutex
	got    []byte
	err    error
	ended  bool
	gate   chan struct{} // non-nil while stalled
	held   []byte        // read while stalled (see loop); becomes visible on resume
	herr   error
	hended bool
	limit  int64 // stop reading after this many bytes (snapshot size), -1 = endless
}

func newRtap(rd syncer.ChannelReader) *rtap {
	t := &rtap{rd: rd, wait: usync.NewWaitCloser(nil), limit: -1}
	if !rd.IsAof() && rd.Size() >= 0 {
		t.limit = rd.Size()
	}
	return t
}

// start starts the cache-side pump (ChannelReader.Start) and the draining goroutine.
func (t *rtap) start() {
	t.rd.Start(t.wait)
	go t.loop(t.rd.IoReader())
}

func (t *rtap) loop(br *bufio.Reader) {
	buf := make([]byte, 4096)
	for {
		t.mu.Lock()
		g := t.gate
		full := t.limit >= 0 && int64(len(t.got)+len(t.held)) >= t.limit
		t.mu.Unlock()
		if g != nil {
			<-g
			continue
		}
		b := buf
		if t.limit >= 0 {
			if full {
				// a snapshot reader: one more read must report the end, never more data
				b = buf[:1]
			}
		}
		n, err := br.Read(b)
		t.mu.Lock()
		if n > 0 {
			if t.gate != nil {
				// the stall began while this Read was pending: how much it returns depends on how the runtime
				// interleaved pump and tap, so it stays invisible until the reader resumes
				t.held = append(t.held, b[:n]...)
			} else {
				t.got = append(t.got, b[:n]...)
			}
		}
		if err != nil {
			t.herr, t.hended = err, true
			if t.gate == nil {
				t.err, t.ended = err, true
			}
			t.mu.Unlock()
			return
		}
		t.mu.Unlock()
	}
}

func (t *rtap) snapshot() (n int, err error, ended bool) {
	t.mu.Lock()
	defer t.mu.Unlock()
	return len(t.got), t.err, t.ended
}

func (t *rtap) bytes() []byte {
	t.mu.Lock()
	defer t.mu.Unlock()
	return t.got
}

func (t *rtap) setStall(on bool) {
	t.mu.Lock()
	defer t.mu.Unlock()
	if on && t.gate == nil {
		t.gate = make(chan struct{})
	} else if !on && t.gate != nil {
		close(t.gate)
		t.gate = nil
		t.got = append(t.got, t.held...)
		t.held = nil
		if t.hended {
			t.err, t.ended = t.herr, true
		}
	}
}

// close is what the consumer of a reader does when it is done: Close() the reader and end its scope.
func (t *rtap) close() {
	t.setStall(false)
	t.rd.Close()
	t.wait.Close(nil)
}

// ---------------------------------------------------------------- global configuration

// cacheSetVerify publishes the one global the channels read (StoreChannel.NewReader dereferences
// config.GetSyncerConfig().Channel). Set from the scheduler goroutine only, between stimuli.
func cacheSetVerify(on bool) {
	c := config.GetSyncerConfig()
	if c.Channel == nil {
		c.Channel = &config.ChannelConfig{Type: config.ChannelTypeStorer}
	}
	c.Channel.VerifyCrc = on
}

var cacheTick = 10 * time.Millisecond // polling period of the disk readers (virtual); only used to pace Advance
