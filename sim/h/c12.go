package h

import (
	"bufio"
	"bytes"
	"errors"
	"fmt"
	"io"
	"math"
	"strconv"
	"strings"

	"github.com/mgtv-tech/redis-GunYu/pkg/redis/client"
	"github.com/mgtv-tech/redis-GunYu/pkg/redis/client/proto"

	"verifsim/resp"
	"verifsim/simrt"
)

// C12 — stream decoding is lossless and its offsets equal the bytes consumed. DESIGN.md §3 C12.
// Single-threaded: only the I/O fragmentation axis is simulated (reader fragments x bufio sizes x cut positions).

func init() {
	Register(&PropertyDef{ID: "C12", Strata: []string{"fragments", "splits", "encoder", "bigargs", "splits", "encoder", "parsers"}, Run: runC12, StepCap: 1000})
}

type c12Item struct {
	name string // lower case
	args [][]byte
	raw  []byte
}

// fragReader hands out data in fragments whose sizes come from next().
type fragReader struct {
	data  []byte
	pos   int
	next  func() int
	reads int
	inner int // number of reads that ended strictly inside the data (a fragment boundary)
}

func (f *fragReader) Read(p []byte) (int, error) {
	if f.pos >= len(f.data) {
		return 0, io.EOF
	}
	if len(p) == 0 {
		return 0, nil
	}
	n := f.next()
	if n < 1 {
		n = 1
	}
	if n > len(p) {
		n = len(p)
	}
	if n > len(f.data)-f.pos {
		n = len(f.data) - f.pos
	}
	copy(p, f.data[f.pos:f.pos+n])
	f.pos += n
	f.reads++
	if f.pos < len(f.data) {
		f.inner++
	}
	return n, nil
}

// c12Fragmenter draws a fragmentation policy: per-read draws for small inputs, a drawn cyclic pattern for large ones
// (so that multi-megabyte streams do not need millions of recorded decisions).
func c12Fragmenter(c *simrt.Chooser, total int) (func() int, string) {
	one := func() int {
		switch c.Weighted("frag", []int{3, 3, 2, 2, 1}) {
		case 0:
			return 1
		case 1:
			return 1 + c.Choose("fragS", 40)
		case 2:
			return 1 + c.Choose("fragM", 4096)
		case 3:
			return 1 + c.Choose("fragL", 64*1024)
		default:
			return 64 * 1024
		}
	}
	if total <= 2048 && c.Choose("fragmode", 3) != 0 {
		return one, "per-read"
	}
	k := 1 + c.Choose("patlen", 7)
	pat := make([]int, k)
	for i := range pat {
		pat[i] = one()
	}
	if total > 256*1024 {
		// keep the number of reads bounded for multi-megabyte inputs: at most one tiny fragment size in the cycle
		tiny := 0
		for i := range pat {
			if pat[i] < 64 {
				tiny++
				if tiny > 1 || k == 1 {
					pat[i] = 64 + pat[i]*97
				}
			}
		}
	}
	i := 0
	return func() int { v := pat[i%k]; i++; return v }, fmt.Sprintf("cycle%v", pat)
}

func c12BufSize(c *simrt.Chooser) int { return 16 << c.Choose("bufsize", 17) } // 16 B .. 1 MiB

func c12Viol(rule, sig, format string, a ...any) *Violation {
	return &Violation{Property: "C12", Rule: rule, Sig: sig, Msg: fmt.Sprintf(format, a...)}
}

func isEOFish(err error) bool {
	return errors.Is(err, io.EOF) || errors.Is(err, io.ErrUnexpectedEOF)
}

// c12Decode decodes `data` (the first `whole` items are complete; if cut is true the data ends inside item `whole`)
// through the real decoder and checks arguments, offsets and the end-of-input behaviour.
// c12MustDecode calls the tool's decoder. A panic that escapes it (the decoder reports malformed input by returning
// an error; its callers in the tool do not recover) is the decoder's answer to this input and is reported as one.
func c12MustDecode(dec *client.Decoder) (rp client.Resp, off int64, err error) {
	defer func() {
		if x := recover(); x != nil {
			err = fmt.Errorf("panic in the decoder: %v", x)
		}
	}()
	return client.MustDecodeOpt(dec)
}

func c12Decode(items []c12Item, whole int, data []byte, cut bool, rd io.Reader, bufSize int, ctx string) *Violation {
	dec := client.NewDecoder(bufio.NewReaderSize(rd, bufSize))
	var sum int64
	// the sender keeps decoded commands queued (batch, transaction, replay unit) while later ones are decoded: what was
	// returned must stay what it was
	type kept struct {
		cmd  string
		args [][]byte
	}
	var queue []kept
	defer func() { queue = nil }()
	recheck := func() *Violation {
		for k, q := range queue {
			if q.cmd != items[k].name || !argsEqual(q.args, items[k].args) {
				return c12Viol("C12.args_changed_later", "arguments returned for a command changed while later commands were decoded", "%s: item %d was decoded as sent, but after %d more items had been decoded its arguments read [%s] instead of [%s]", ctx, k, len(queue)-1-k, fmtCmd(q.cmd, q.args), fmtCmd(items[k].name, items[k].args))
			}
		}
		return nil
	}
	for k := 0; k < whole; k++ {
		it := items[k]
		rp, off, err := c12MustDecode(dec)
		if err != nil {
			return c12Viol("C12.decode_error", "well-formed item rejected", "%s: item %d [%s] (%d bytes at offset %d): decoder returned %v", ctx, k, fmtCmd(it.name, it.args), len(it.raw), sum, err)
		}
		cmd, args, err := client.ParseArgs(rp)
		if err != nil {
			return c12Viol("C12.decode_error", "well-formed item rejected", "%s: item %d [%s]: ParseArgs returned %v", ctx, k, fmtCmd(it.name, it.args), err)
		}
		sum += int64(len(it.raw))
		if cmd != it.name || !argsEqual(args, it.args) {
			return c12Viol("C12.args", "decoded arguments differ from the bytes sent", "%s: item %d: sent [%s], decoded [%s]", ctx, k, fmtCmd(it.name, it.args), fmtCmd(cmd, args))
		}
		if off != sum {
			return c12Viol("C12.offset", "offset after an item differs from the bytes consumed", "%s: after item %d [%s] the decoder reports offset %d, the items up to it are %d bytes long", ctx, k, fmtCmd(it.name, it.args), off, sum)
		}
		queue = append(queue, kept{cmd, args})
	}
	if v := recheck(); v != nil {
		return v
	}
	rp, off, err := c12MustDecode(dec)
	if err == nil {
		cmd, args, _ := client.ParseArgs(rp)
		what := "at the clean end of the input"
		rule, sig := "C12.phantom", "a command was decoded after the end of the input"
		if cut {
			what = fmt.Sprintf("although the input ends %d bytes into item %d [%s] of %d bytes", len(data)-int(sum), whole, fmtCmd(items[whole].name, items[whole].args), len(items[whole].raw))
			rule, sig = "C12.truncated_command", "a truncated item was returned as a command"
		}
		return c12Viol(rule, sig, "%s: decoder returned a command [%s] (offset %d, resp %T) %s", ctx, fmtCmd(cmd, args), off, rp, what)
	}
	if !isEOFish(err) {
		return c12Viol("C12.end_error", "end of input reported as something else than EOF", "%s: at the end of the input (cut=%v) the decoder returned %v instead of io.EOF / unexpected EOF", ctx, cut, err)
	}
	return nil
}

func runC12(r *Run, stratum string) *Violation {
	if stratum == "encoder" {
		return runC12Encoder(r)
	}
	if stratum == "parsers" {
		return runC12Parsers(r)
	}
	g := r.Gen()
	sc := r.Sched()
	o := StreamOpts{MaxItems: 40, StartDB: -1, BigArgs: true}
	if r.Tier == "thorough" {
		o.MaxItems = 200
	}
	switch stratum {
	case "splits":
		o.MaxItems = 1 + g.Choose("shortitems", 4)
		o.BigArgs = false
	case "bigargs":
		o.MaxItems = 12
	}
	st := GenStream(g, o)
	var items []c12Item
	for _, it := range st.Items {
		items = append(items, c12Item{name: it.Name, args: it.Args, raw: it.Raw})
	}
	// rare extras: multi-megabyte arguments and very large argument counts
	extra := func(name string, args [][]byte) {
		all := append([][]byte{[]byte(name)}, args...)
		it := c12Item{name: strings.ToLower(name), args: args, raw: resp.EncodeCommand(all...)}
		at := g.Choose("extrapos", len(items)+1)
		items = append(items[:at:at], append([]c12Item{it}, items[at:]...)...)
	}
	huge := stratum == "bigargs" && g.Choose("huge", 6) == 0
	if huge {
		n := (1 << 20) * (1 + g.Choose("hugeMiB", 5))
		n += g.Choose("hugex", 4097) - 2048
		extra("SET", [][]byte{[]byte("big:key"), g.Bytes("hugearg", n)})
		simrt.Probe("c12_multi_megabyte_arg")
		if g.Choose("huge2", 2) == 0 {
			// a second multi-megabyte value, not larger than the first: in another command or in the same one
			n2 := n - g.Choose("huge2less", 70000)
			if n2 < 1<<20 {
				n2 = n
			}
			if g.Choose("huge2same", 2) == 0 {
				extra("mset", [][]byte{[]byte("big:a"), g.Bytes("hugea", n), []byte("big:b"), g.Bytes("hugeb", n2)})
			} else {
				extra("SET", [][]byte{[]byte("big:key2"), g.Bytes("hugearg2", n2)})
			}
			simrt.Probe("c12_two_multi_megabyte_args")
		}
	}
	if stratum != "splits" && g.Choose("manyargs", 12) == 0 {
		n := 200 + g.Choose("nargs", 6000)
		args := make([][]byte, n)
		for i := range args {
			args[i] = g.Bytes("marg", g.Choose("marglen", 4))
		}
		args[0] = []byte("k")
		extra("sadd", args)
		simrt.Probe("c12_many_args")
	}
	var data []byte
	ends := make([]int, len(items))
	// some streams carry bare line feeds in front of commands (the keep-alive byte a master sends while it has nothing
	// else to say; the decoder skips it): consumed bytes like any other, so every reported offset counts them
	lfs := g.Choose("barelf", 6) == 0
	for i := range items {
		if lfs {
			if k := g.Choose("nlf", 4); k > 0 {
				items[i].raw = append([]byte(strings.Repeat("\n", k)), items[i].raw...)
			}
		}
		data = append(data, items[i].raw...)
		ends[i] = len(data)
	}
	if lfs {
		simrt.Probe("c12_bare_line_feeds")
	}
	bufSize := c12BufSize(g)
	r.Logf("C12 %s items=%d bytes=%d buf=%d", stratum, len(items), len(data), bufSize)
	r.Sample = fmt.Sprintf("%s items=%d bytes=%d bufio=%d first: %s", stratum, len(items), len(data), bufSize, describeStream(st, 6))

	wholeBefore := func(cut int) int {
		k := 0
		for k < len(ends) && ends[k] <= cut {
			k++
		}
		return k
	}

	// (a) the whole stream under a drawn fragmentation
	next, desc := c12Fragmenter(sc, len(data))
	fr := &fragReader{data: data, next: next}
	if v := c12Decode(items, len(items), data, false, fr, bufSize, fmt.Sprintf("whole stream, fragments %s, bufio %d", desc, bufSize)); v != nil {
		return v
	}
	r.Evals++
	r.NonTriv = len(items) >= 2 && fr.inner >= 1
	r.Logf("whole: reads=%d inner=%d %s", fr.reads, fr.inner, desc)

	// (b) a drawn cut inside an item (and one at an item boundary)
	if len(data) > 1 {
		for i := 0; i < 2; i++ {
			cut := 1 + sc.Choose("cut", len(data)-1)
			if i == 1 {
				cut = ends[sc.Choose("cutitem", len(ends))]
			}
			k := wholeBefore(cut)
			prevEnd := 0
			if k > 0 {
				prevEnd = ends[k-1]
			}
			isCut := k < len(ends) && cut > prevEnd
			next, desc := c12Fragmenter(sc, cut)
			if v := c12Decode(items, k, data[:cut], isCut, &fragReader{data: data[:cut], next: next}, bufSize, fmt.Sprintf("input cut at byte %d of %d, fragments %s, bufio %d", cut, len(data), desc, bufSize)); v != nil {
				return v
			}
			r.Evals++
		}
	}

	// (c) short streams: EVERY split position (two fragments) and EVERY cut position, under the drawn buffer size and the smallest one
	if len(data) <= 512 {
		simrt.Probe("c12_exhaustive_splits")
		for _, bs := range []int{bufSize, 16} {
			for p := 1; p < len(data); p++ {
				first := true
				two := func() int {
					if first {
						first = false
						return p
					}
					return len(data)
				}
				if v := c12Decode(items, len(items), data, false, &fragReader{data: data, next: two}, bs, fmt.Sprintf("split after byte %d of %d, bufio %d", p, len(data), bs)); v != nil {
					return v
				}
				r.Evals++
				k := wholeBefore(p)
				isCut := k == 0 || p > ends[k-1]
				whole := func() int { return len(data) }
				if v := c12Decode(items, k, data[:p], isCut, &fragReader{data: data[:p], next: whole}, bs, fmt.Sprintf("input cut at byte %d of %d, bufio %d", p, len(data), bs)); v != nil {
					return v
				}
				r.Evals++
			}
			if bufSize == 16 {
				break
			}
		}
		// byte-at-a-time
		if v := c12Decode(items, len(items), data, false, &fragReader{data: data, next: func() int { return 1 }}, bufSize, "one byte per read"); v != nil {
			return v
		}
		r.Evals++
	}
	return nil
}

// ---------------------------------------------------------------- second half: target encoder -> decoder

// c12Arg draws one argument of a Go type the sender hands to Put/Do and returns its canonical byte rendering
// (nil canon = compare as a float).
func c12Arg(g *simrt.Chooser) (v interface{}, canon []byte, isFloat int) {
	ints := []int64{0, 1, -1, 9, 10, 255, 256, -1024, 1023, 1024, 525311, 525312, math.MaxInt32, math.MinInt32, math.MaxInt64, math.MinInt64, 1700000000123}
	pick := func() int64 {
		if g.Choose("intkind", 2) == 0 {
			return ints[g.Choose("intval", len(ints))]
		}
		b := g.Bytes("intbytes", 8)
		var x int64
		for _, c := range b {
			x = x<<8 | int64(c)
		}
		return x >> uint(g.Choose("intshift", 64))
	}
	switch g.Weighted("argtype", []int{8, 6, 3, 1, 1, 1, 3, 2, 1, 1, 1, 2, 1, 2}) {
	case 0:
		var b []byte
		switch g.Choose("byteskind", 5) {
		case 0:
			b = []byte{}
		case 1:
			b = g.Bytes("b", g.Choose("blen", 24)) // binary incl. CR LF NUL
		case 2:
			b = []byte("\r\n$5\r\nx\r\n*1\r\n")
		case 3:
			b = g.Bytes("b", 1024<<g.Choose("bbig", 12)) // up to 2 MiB: the connection's writer buffer is 1 MiB
		default:
			b = []byte(strconv.Itoa(g.Choose("num", 100000)))
		}
		return b, b, 0
	case 1:
		var s string
		switch g.Choose("strkind", 4) {
		case 0:
			s = ""
		case 1:
			s = string(g.Bytes("s", g.Choose("slen", 40)))
		case 2:
			s = "key:{tag}:" + strconv.Itoa(g.Choose("skey", 1000))
		default:
			s = string(g.Bytes("s", 100+g.Choose("slen2", 70000)))
		}
		return s, []byte(s), 0
	case 2:
		x := int(pick())
		return x, []byte(strconv.FormatInt(int64(x), 10)), 0
	case 3:
		x := int8(pick())
		return x, []byte(strconv.FormatInt(int64(x), 10)), 0
	case 4:
		x := int16(pick())
		return x, []byte(strconv.FormatInt(int64(x), 10)), 0
	case 5:
		x := int32(pick())
		return x, []byte(strconv.FormatInt(int64(x), 10)), 0
	case 6:
		x := pick()
		return x, []byte(strconv.FormatInt(x, 10)), 0
	case 7:
		x := uint(pick())
		return x, []byte(strconv.FormatUint(uint64(x), 10)), 0
	case 8:
		x := uint8(pick())
		return x, []byte(strconv.FormatUint(uint64(x), 10)), 0
	case 9:
		x := uint16(pick())
		return x, []byte(strconv.FormatUint(uint64(x), 10)), 0
	case 10:
		x := uint32(pick())
		return x, []byte(strconv.FormatUint(uint64(x), 10)), 0
	case 11:
		x := uint64(pick())
		return x, []byte(strconv.FormatUint(x, 10)), 0
	case 12:
		f := c12Float(g)
		x := float32(f)
		return x, nil, 32
	default:
		return c12Float(g), nil, 64
	}
}

func c12Float(g *simrt.Chooser) float64 {
	fl := []float64{0, 1, -1, 0.5, 0.1, 3.141592653589793, 1e21, 1e-7, 123456789.125, math.MaxFloat64, math.SmallestNonzeroFloat64, math.Inf(1), math.Inf(-1), 1700000000.123, -0.0}
	if g.Choose("floatkind", 2) == 0 {
		return fl[g.Choose("floatval", len(fl))]
	}
	b := g.Bytes("floatbits", 8)
	var x uint64
	for _, c := range b {
		x = x<<8 | uint64(c)
	}
	f := math.Float64frombits(x)
	if math.IsNaN(f) {
		return 42.25
	}
	return f
}

func runC12Encoder(r *Run) *Violation {
	g := r.Gen()
	sc := r.Sched()
	ncmd := 1 + g.Choose("ncmd", 12)
	wsize := 16 << g.Choose("wbuf", 17)
	var buf bytes.Buffer
	w := proto.NewWriter(&buf, wsize) // conn/redis_conn.go: proto.NewWriter(conn, WriterBufferSize); send() = WriteArgs(cmd + args)
	type sent struct {
		name  string
		vals  []interface{}
		canon [][]byte
		fl    []int
		end   int
	}
	var cmds []sent
	var sample strings.Builder
	for i := 0; i < ncmd; i++ {
		name := []string{"set", "HSET", "zadd", "rpush", "expire", "Restore", "x"}[g.Choose("cmdname", 7)]
		n := g.Choose("nargs", 7)
		if g.Choose("manyargs", 30) == 0 {
			n = 100 + g.Choose("nargs2", 2000)
		}
		s := sent{name: name}
		all := []interface{}{name}
		for j := 0; j < n; j++ {
			v, canon, fl := c12Arg(g)
			s.vals = append(s.vals, v)
			s.canon = append(s.canon, canon)
			s.fl = append(s.fl, fl)
			all = append(all, v)
		}
		if err := w.WriteArgs(all); err != nil {
			return c12Viol("C12.encode_error", "encoder rejected an argument type the sender uses", "WriteArgs(%s, %d args) returned %v", name, n, err)
		}
		if g.Choose("flusheach", 3) != 0 || i == ncmd-1 {
			if err := w.Flush(); err != nil {
				Inconc("flush to memory failed: %v", err)
			}
		}
		s.end = -1
		cmds = append(cmds, s)
		if i < 4 {
			fmt.Fprintf(&sample, " [%s", name)
			for j, v := range s.vals {
				if j > 5 {
					sample.WriteString(" ...")
					break
				}
				fmt.Fprintf(&sample, " %T", v)
			}
			sample.WriteString("]")
		}
	}
	w.Flush()
	data := buf.Bytes()
	bufSize := c12BufSize(g)
	next, desc := c12Fragmenter(sc, len(data))
	fr := &fragReader{data: data, next: next}
	dec := client.NewDecoder(bufio.NewReaderSize(fr, bufSize))
	r.Sample = fmt.Sprintf("encoder cmds=%d bytes=%d writerbuf=%d bufio=%d fragments=%s:%s", ncmd, len(data), wsize, bufSize, desc, sample.String())
	r.Logf("C12 encoder cmds=%d bytes=%d wbuf=%d buf=%d %s", ncmd, len(data), wsize, bufSize, desc)
	var prev int64
	nargs := 0
	for i, s := range cmds {
		ctx := fmt.Sprintf("encoder round trip, command %d (%s, %d args), fragments %s, bufio %d", i, s.name, len(s.vals), desc, bufSize)
		rp, off, err := c12MustDecode(dec)
		if err != nil {
			return c12Viol("C12.roundtrip_error", "encoded command rejected by the decoder", "%s: decoder returned %v", ctx, err)
		}
		cmd, args, err := client.ParseArgs(rp)
		if err != nil {
			return c12Viol("C12.roundtrip_error", "encoded command rejected by the decoder", "%s: ParseArgs returned %v", ctx, err)
		}
		if cmd != strings.ToLower(s.name) || len(args) != len(s.vals) {
			return c12Viol("C12.roundtrip_args", "round trip changed the arguments", "%s: decoded [%s]", ctx, fmtCmd(cmd, args))
		}
		enc := int64(1 + len(strconv.Itoa(len(args)+1)) + 2 + 1 + len(strconv.Itoa(len(s.name))) + 2 + len(s.name) + 2)
		for j, a := range args {
			enc += int64(1 + len(strconv.Itoa(len(a))) + 2 + len(a) + 2)
			nargs++
			switch s.fl[j] {
			case 0:
				if !bytes.Equal(a, s.canon[j]) {
					return c12Viol("C12.roundtrip_args", "round trip changed the arguments", "%s: argument %d of Go type %T: sent %s, decoded %s", ctx, j, s.vals[j], simQuote(s.canon[j]), simQuote(a))
				}
			case 64:
				want := s.vals[j].(float64)
				got, err := strconv.ParseFloat(string(a), 64)
				if err != nil || got != want || math.Signbit(got) != math.Signbit(want) && want != 0 {
					return c12Viol("C12.roundtrip_args", "round trip changed the arguments", "%s: argument %d float64 %v was rendered as %q which reads back as %v (%v)", ctx, j, want, a, got, err)
				}
			case 32:
				want := s.vals[j].(float32)
				got, err := strconv.ParseFloat(string(a), 32)
				if err != nil || float32(got) != want {
					return c12Viol("C12.roundtrip_args", "round trip changed the arguments", "%s: argument %d float32 %v was rendered as %q which reads back as %v (%v)", ctx, j, want, a, got, err)
				}
			}
		}
		if off != prev+enc {
			return c12Viol("C12.roundtrip_offset", "offset after a re-decoded command differs from the bytes consumed", "%s: decoder reports offset %d, expected %d + %d", ctx, off, prev, enc)
		}
		prev = off
	}
	if prev != int64(len(data)) {
		return c12Viol("C12.roundtrip_offset", "offset after a re-decoded command differs from the bytes consumed", "encoder wrote %d bytes, decoder consumed %d", len(data), prev)
	}
	if rp, _, err := c12MustDecode(dec); err == nil || !isEOFish(err) {
		return c12Viol("C12.phantom", "a command was decoded after the end of the input", "after the last encoded command the decoder returned (%T, %v)", rp, err)
	}
	r.Evals = 1

	// pkg/redis/client/encoder.go (used for REPLCONF on the source link): NewCommand + Encode -> same decoder
	{
		var b2 bytes.Buffer
		bw := bufio.NewWriterSize(&b2, 16<<g.Choose("ebuf", 12))
		nm := "replconf"
		a1 := string(g.Bytes("ea", g.Choose("ealen", 30)))
		a2 := g.Bytes("eb", g.Choose("eblen", 3000))
		a3 := int64(g.Choose("eoff", 1<<30)) * int64(1+g.Choose("eoffm", 1<<20))
		if err := client.Encode(bw, client.NewCommand(nm, a1, a2, a3), true); err != nil {
			return c12Viol("C12.encode_error", "encoder rejected an argument type the sender uses", "client.Encode returned %v", err)
		}
		d2 := b2.Bytes()
		nx, ds := c12Fragmenter(sc, len(d2))
		want := []c12Item{{name: nm, args: [][]byte{[]byte(a1), a2, []byte(strconv.FormatInt(a3, 10))}, raw: d2}}
		if v := c12Decode(want, 1, d2, false, &fragReader{data: d2, next: nx}, bufSize, "client.Encode round trip, fragments "+ds); v != nil {
			v.Rule = strings.Replace(v.Rule, "C12.", "C12.roundtrip_", 1)
			return v
		}
		r.Evals++
	}
	r.NonTriv = ncmd >= 1 && nargs >= 1 && fr.inner >= 1
	return nil
}

func simQuote(b []byte) string {
	if len(b) > 64 {
		return fmt.Sprintf("%q...(%d bytes)", b[:48], len(b))
	}
	return fmt.Sprintf("%q", b)
}
