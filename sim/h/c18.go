package h

import (
	"bufio"
	"context"
	"fmt"
	"os"
	"sort"
	"strings"
	"sync"
	"time"

	"github.com/mgtv-tech/redis-GunYu/syncer"

	"verifsim/simredis"
	"verifsim/simrt"
)

// C18 — cluster-mode bidirectional units are single-slot or refused, never best-effort. DESIGN.md §3 C18.

var clusterAddrs = []string{"10.3.0.1:7001", "10.3.0.2:7002", "10.3.0.3:7003"}

// clusterLink runs one real RedisOutput against a cluster of node doubles, fed from a fixed stream.
type clusterLink struct {
	r       *Run
	topo    *simredis.Topology
	cfg     PipeCfg
	st      *Stream
	ctx     context.Context
	cancel  context.CancelFunc
	ro      *syncer.RedisOutput
	reuse   bool // the next start runs on the same output object
	reader  *stubReader
	fedTo   int64
	phase   int
	spErr   error
	sendErr error
	mu      sync.Mutex
	runID   string
	prevID  string // the source's second replication id (the history it failed over from), "" if none
	cpName  string
}

func (l *clusterLink) getPhase() int { l.mu.Lock(); defer l.mu.Unlock(); return l.phase }

func newClusterLink(r *Run, cfg PipeCfg, st *Stream) *clusterLink {
	l := &clusterLink{r: r, cfg: cfg, st: st}
	l.topo = simredis.NewCluster(clusterAddrs)
	for _, n := range l.topo.Nodes {
		n.Lenient = true
		r.Net.Listen(n.Addr, n)
	}
	l.runID = "5f3c0a9e1b2d4c6f8a7b9c0d1e2f3a4b5c6d7e8f"
	l.cpName = "redis-gunyu-checkpoint-bisync:c1c1c1c1c1c1c1c1c1c1c1c1"
	if !cfg.Bisync {
		l.cpName = "redis-gunyu-checkpoint"
	}
	return l
}

func (l *clusterLink) start() {
	oc := l.cfg.outputConfig(l.runID, l.cpName)
	l.ctx, l.cancel = context.WithCancel(context.Background())
	if l.reuse && l.ro != nil {
		l.reuse = false // in-process restart: RedisInput.Run calls run() again with the same output object
	} else {
		l.ro = syncer.NewRedisOutput(oc)
	}
	l.mu.Lock()
	l.spErr, l.sendErr, l.phase = nil, nil, 0
	l.mu.Unlock()
	go func() {
		ids := []string{l.runID}
		if l.prevID != "" {
			ids = append(ids, l.prevID)
		}
		sp, err := l.ro.StartPoint(l.ctx, ids)
		if err != nil {
			l.mu.Lock()
			l.spErr, l.phase = err, 2
			l.mu.Unlock()
			return
		}
		start := sp.Offset
		if sp.IsInitial() || !sp.IsValid() || sp.Offset < 0 {
			start = l.st.Base
		}
		pipe := newFeedPipe()
		rd := &stubReader{left: start, size: -1, runID: l.runID, aof: true, pipe: pipe}
		rd.br = bufio.NewReaderSize(pipe, l.cfg.BufSize)
		l.mu.Lock()
		l.reader, l.fedTo, l.phase = rd, start, 1
		l.mu.Unlock()
		err = l.ro.Send(l.ctx, rd)
		l.mu.Lock()
		l.sendErr, l.phase = err, 2
		l.mu.Unlock()
	}()
}

func (l *clusterLink) remaining() int64 {
	if l.getPhase() != 1 {
		return 0
	}
	return l.st.End() - l.fedTo
}

func (l *clusterLink) feed(n int64) {
	lo := l.fedTo - l.st.Base
	hi := lo + n
	if hi > int64(len(l.st.Bytes)) {
		hi = int64(len(l.st.Bytes))
	}
	l.reader.pipe.Feed(l.st.Bytes[lo:hi])
	l.fedTo = l.st.Base + hi
	l.r.Logf("feed %d bytes -> %d", hi-lo, l.fedTo)
}

type readyConn struct {
	node *simredis.Server
	ss   *simredis.Session
}

func (l *clusterLink) ready() []readyConn {
	var out []readyConn
	for _, n := range l.topo.Nodes {
		for _, ss := range n.Ready() {
			out = append(out, readyConn{n, ss})
		}
	}
	return out
}

// step applies one healthy scheduler action; extra actions may be supplied by the caller.
func (l *clusterLink) step(extra []pipeAction) {
	r := l.r
	var acts []pipeAction
	for _, rc := range l.ready() {
		rc := rc
		acts = append(acts, pipeAction{fmt.Sprintf("exec %s %s", rc.node.Addr, rc.ss.LabelString()), 10, func() { rc.node.Step(rc.ss) }})
	}
	if rem := l.remaining(); rem > 0 {
		acts = append(acts, pipeAction{"feed", 8, func() {
			s := r.Sched()
			n := rem
			switch s.Choose("feedkind", 4) {
			case 1:
				n = 1 + int64(s.Choose("feedsmall", 60))
			case 2:
				n = 1 + int64(s.Choose("feedmid", 500))
			}
			l.feed(n)
		}})
	}
	acts = append(acts, pipeAction{"idle", 2, func() {
		d := []time.Duration{time.Millisecond, 20 * time.Millisecond, 110 * time.Millisecond, 1100 * time.Millisecond}[r.Sched().Biased("idle", 4, 1, 2)]
		r.Logf("idle %v", d)
		r.Advance(d)
	}})
	acts = append(acts, extra...)
	w := make([]int, len(acts))
	for i, a := range acts {
		w[i] = a.weight
	}
	a := acts[r.Sched().Weighted("act", w)]
	r.Logf("step %d: %s", r.W.Step(), a.label)
	a.do()
}

func (l *clusterLink) stop() {
	// let every in-flight request complete first: the cluster client takes its topology lock (a real
	// sync.RWMutex) in Close/update while other goroutines wait for replies; a goroutine blocked on a real
	// mutex is not durably blocked and would stall the bubble (DESIGN.md §5).
	for i := 0; i < 500; i++ {
		l.r.Settle()
		rc := l.ready()
		if len(rc) == 0 {
			break
		}
		rc[0].node.Step(rc[0].ss)
	}
	l.cancel()
	l.mu.Lock()
	if l.reader != nil {
		l.reader.pipe.CloseWith(nil)
	}
	l.mu.Unlock()
	for i := 0; i < 400 && l.getPhase() != 2; i++ {
		l.r.Settle()
		rc := l.ready()
		if len(rc) > 0 {
			rc[0].node.Step(rc[0].ss)
			continue
		}
		l.r.Advance(100 * time.Millisecond)
	}
	for _, n := range l.topo.Nodes {
		for _, ss := range n.Sessions {
			if !ss.Dead {
				n.KillSession(ss, 0)
			}
		}
	}
	l.r.Settle()
}

// slotKeyGen produces keys whose slot the generator controls: a few hash tags shared by many keys, every
// brace arrangement, and untagged keys.
func slotKeyGen(c *simrt.Chooser, tags []string, mix bool) func() []byte {
	return func() []byte {
		tag := tags[0]
		if mix {
			tag = tags[c.Choose("tag", len(tags))]
		}
		sfx := fmt.Sprintf("%d", c.Choose("sfx", 50))
		switch c.Choose("kshape", 9) {
		case 8:
			// a long key (keys may be up to 512 MB) whose hash tag stands far from its beginning
			return []byte(strings.Repeat("L", 500+c.Choose("longkey", 1200)) + "{" + tag + "}" + sfx)
		case 0:
			return []byte("{" + tag + "}" + sfx)
		case 1:
			return []byte("p" + sfx + "{" + tag + "}")
		case 2:
			return []byte("{" + tag + "}{other" + sfx + "}") // only the first pair counts
		case 3:
			return []byte("a{" + tag + "}b{" + sfx + "}c")
		case 4:
			return []byte("{" + tag + "}}" + sfx)
		case 5:
			return []byte("x{" + tag + "}\xff\x00" + sfx)
		default:
			return []byte("{" + tag + "}:k" + sfx)
		}
	}
}

func init() {
	Register(&PropertyDef{ID: "C18", Strata: append([]string{"clean-sync", "clean-pipeline", "clean-parallel", "bad-sync", "bad-pipeline", "bad-parallel", "oddkeys-sync", "filtered-sync", "filtered-pipeline", "filtered-parallel"}, c18MigratingStrata()...), Run: runC18, StepCap: 30000})
}

// c18MigratingRestarts (SIM_C18_MIGRATING_RESTARTS=1, exploration): after a reported error the link is started again and the
// run goes on; by default a migrating run ends at the first reported error and is judged up to there.
var c18MigratingRestarts = os.Getenv("SIM_C18_MIGRATING_RESTARTS") == "1"

// c18MigratingStrata: slots of the unit keys migrate while the bidirectional cluster replay runs (added for wave-7 seed
// C19-n; registered since the defect they exposed was repaired - a redirect answered to one transaction reached every
// transaction pipelined behind it on the connection, DESIGN.md 7.3). A run ends at the first error the link reports and is
// judged up to there: whole units only, single-slot, executed by the slot's owner or - under ASKING - by the importing
// node for keys the owner has redirected. SIM_C18_MIGRATING=0 leaves the strata out.
func c18MigratingStrata() []string {
	if os.Getenv("SIM_C18_MIGRATING") == "0" {
		return nil
	}
	return []string{"migrating-sync", "migrating-pipeline"}
}

func runC18(r *Run, stratum string) *Violation {
	g := r.Gen()
	parts := splitDash(stratum)
	kind, mode := parts[0], parts[1]
	cfg := bisyncCfg(g, mode)
	cfg.ClusterAddrs = clusterAddrs
	tags := []string{"t" + fmt.Sprint(g.Choose("tag0", 1000)), "u" + fmt.Sprint(g.Choose("tag1", 1000)), "v" + fmt.Sprint(g.Choose("tag2", 1000))}
	max := 20
	if r.Tier == "thorough" {
		max = 60
	}
	// Build the stream unit by unit so that every unit is single-slot by construction, except the bad one.
	st := &Stream{Boundaries: map[int64]int{}}
	st.Base = int64(g.Choose("base", 100000))
	st.Boundaries[st.Base] = -1
	sub := func(o StreamOpts) *Stream { return GenStream(g, o) }
	_ = sub
	type unitSpec struct {
		txn   bool
		cmds  [][][]byte // name + args, as the source executed them
		slots map[int]bool
		bad   string
		src   [][][]byte // stratum filtered: what the source stream carries (cmds = what is left after the filters)
	}
	if kind == "filtered" {
		// output filters take commands away before the unit is built: a source transaction that spans slots only through
		// commands the filters remove is a single-slot unit and must not be refused; one that loses all its commands
		// is no unit at all and must leave the parser ready for whatever follows
		cfg.Filters = &FilterSpec{PrefixBlack: []string{"drop:"}}
		if g.Choose("filterbyslot", 2) == 0 {
			// the same by slot: keys tagged {drop0}..{drop2} live in blacklisted slots
			cfg.Filters = &FilterSpec{}
			for i := 0; i < 3; i++ {
				sl := simredis.HashSlot([]byte(fmt.Sprintf("{drop%d}", i)))
				cfg.Filters.SlotBlack = append(cfg.Filters.SlotBlack, [2]int{sl, sl})
			}
		}
	}
	droppedKey := func(tag string) []byte {
		if cfg.Filters != nil && len(cfg.Filters.SlotBlack) > 0 {
			return []byte(fmt.Sprintf("{drop%d}%d", g.Choose("droptag", 3), g.Choose("dropkey", 50)))
		}
		return []byte(fmt.Sprintf("drop:{%s-d%d}%d", tag, g.Choose("droptag", 3), g.Choose("dropkey", 50)))
	}
	var units []unitSpec
	migKeys := map[string]bool{}
	nUnits := 2 + g.Choose("nunits", max)
	badAt := -1
	if kind == "bad" {
		badAt = g.Choose("badat", nUnits)
	}
	gen := &gen{c: g, opts: StreamOpts{NoUnknown: kind != "oddkeys", VarKeyCmd: kind == "oddkeys"}}
	for u := 0; u < nUnits; u++ {
		us := unitSpec{slots: map[int]bool{}}
		isBad := u == badAt
		badKind := ""
		if isBad {
			badKind = []string{"crossslot-cmd", "crossslot-txn", "nokeys", "crossslot-emptykey"}[g.Choose("badkind", 4)]
		}
		tagSet := []string{tags[g.Choose("unittag", len(tags))]}
		gen.opts.KeyGen = slotKeyGen(g, tagSet, false)
		if kind == "migrating" {
			// slots migrate while the stream is replayed: every unit works on ONE key (of a small pool per tag), so that it
			// is never split between the two nodes of a migration (that is TRYAGAIN, a reported error - C19's business)
			uk := []byte(fmt.Sprintf("{%s}m%d", tagSet[0], g.Choose("migkeyn", 4)))
			gen.opts.KeyGen = func() []byte { return uk }
			migKeys[string(uk)] = true
		}
		n := 1
		us.txn = g.Choose("unittxn", 3) == 0 || badKind == "crossslot-txn"
		if badKind == "crossslot-emptykey" {
			// the empty string is a legal key (slot 0): next to a tagged key of another slot it makes the unit
			// cross-slot — as one multi-key command, or as the second command of a transaction
			tk := []byte("{" + tagSet[0] + "}e" + fmt.Sprint(g.Choose("ek", 50)))
			if simredis.HashSlot(tk) == 0 {
				tk = append(tk, 'x')
			}
			two := [][]byte{[]byte{}, tk}
			if g.Choose("ekorder", 2) == 0 {
				two = [][]byte{tk, []byte{}}
			}
			multi := [][][]byte{
				append([][]byte{[]byte("del")}, two...),
				append([][]byte{[]byte("unlink")}, two...),
				append([][]byte{[]byte("rename")}, two...),
				{[]byte("sdiffstore"), tk, two[0], two[1]},
			}[g.Choose("ekcmd", 4)]
			us.txn = g.Choose("ektxn", 2) == 0
			if us.txn {
				us.cmds = append(us.cmds, [][]byte{[]byte("set"), tk, []byte("1")})
			}
			us.cmds = append(us.cmds, multi)
			for _, c := range us.cmds {
				if sl, ok := simredis.SlotsOf(strings.ToLower(string(c[0])), c[1:]); ok {
					for _, x := range sl {
						us.slots[x] = true
					}
				}
			}
			us.bad = badKind
			units = append(units, us)
			continue
		}
		if us.txn {
			n = 1 + g.Choose("txnlen", 4)
			if badKind == "crossslot-txn" && n < 2 {
				n = 2
			}
		}
		for k := 0; k < n; k++ {
			if badKind == "crossslot-txn" && k == n-1 {
				// last command of the transaction uses a key of another slot
				other := tagSet[0] + "-x"
				gen.opts.KeyGen = slotKeyGen(g, []string{other}, false)
			}
			if badKind == "crossslot-cmd" {
				gen.opts.KeyGen = slotKeyGen(g, []string{tagSet[0], tagSet[0] + "-y"}, true)
			}
			var name string
			var args [][]byte
			for tries := 0; tries < 50; tries++ {
				name, args = gen.businessCmd()
				if badKind == "crossslot-cmd" {
					// need a multi-key command whose keys really span slots
					if sl, ok := simredis.SlotsOf(name, args); ok && len(sl) > 1 {
						break
					}
					continue
				}
				if badKind == "nokeys" {
					name, args = "zz9", nil // a command no key table knows, without arguments: keys cannot be determined
				}
				break
			}
			if badKind == "crossslot-cmd" {
				if sl, ok := simredis.SlotsOf(name, args); !ok || len(sl) < 2 {
					name = "mset"
					args = [][]byte{[]byte("{" + tagSet[0] + "}a"), []byte("1"), []byte("{" + tagSet[0] + "-y}b"), []byte("2")}
				}
			}
			us.cmds = append(us.cmds, append([][]byte{[]byte(name)}, args...))
			if sl, ok := simredis.SlotsOf(name, args); ok {
				for _, s := range sl {
					us.slots[s] = true
				}
			} else {
				us.slots[-1] = true // keys cannot be determined: not a good unit
				us.slots[-2] = true
			}
		}
		if kind == "filtered" && !isBad {
			// commands on keys the prefix blacklist rejects, in slots of their own
			dropped := func() [][]byte {
				k := droppedKey(tagSet[0])
				switch g.Choose("dropcmd", 3) {
				case 0:
					return [][]byte{[]byte("set"), k, []byte("x")}
				case 1:
					return [][]byte{[]byte("del"), k}
				}
				return [][]byte{[]byte("rpush"), k, []byte("a"), []byte("b")}
			}
			switch g.Choose("filterkind", 5) {
			case 4: // a multi-key command the filters reduce to its accepted keys (DEL / UNLINK / MSET), alone or in a transaction
				keep := gen.opts.KeyGen()
				drop := droppedKey(tagSet[0])
				var full, proj [][]byte
				switch g.Choose("partialcmd", 3) {
				case 0:
					full, proj = [][]byte{[]byte("del"), keep, drop}, [][]byte{[]byte("del"), keep}
				case 1:
					full, proj = [][]byte{[]byte("UNLINK"), drop, keep}, [][]byte{[]byte("UNLINK"), keep}
				default:
					full, proj = [][]byte{[]byte("mset"), drop, []byte("x"), keep, []byte("y")}, [][]byte{[]byte("mset"), keep, []byte("y")}
				}
				us.txn = g.Choose("partialtxn", 2) == 0
				us.src = [][][]byte{full}
				us.cmds = [][][]byte{proj}
				if us.txn {
					other := [][]byte{[]byte("set"), gen.opts.KeyGen(), []byte("v")}
					us.src = append(us.src, other)
					us.cmds = append(us.cmds, other)
				}
				us.slots = map[int]bool{}
				for _, c := range us.cmds {
					if sl, ok := simredis.SlotsOf(strings.ToLower(string(c[0])), c[1:]); ok {
						for _, x := range sl {
							us.slots[x] = true
						}
					}
				}
			case 0: // everything of the unit is filtered out
				us.src = nil
				for i := 0; i < n; i++ {
					us.src = append(us.src, dropped())
				}
				us.cmds = nil
				us.slots = map[int]bool{}
				units = append(units, us)
				continue
			case 1: // a transaction reduced to one slot by the filters
				us.txn = true
				us.src = nil
				at := g.Choose("dropat", len(us.cmds)+1)
				for i, c := range us.cmds {
					if i == at {
						us.src = append(us.src, dropped())
					}
					us.src = append(us.src, c)
				}
				if at == len(us.cmds) {
					us.src = append(us.src, dropped())
				}
				if g.Choose("dropmore", 2) == 0 {
					us.src = append(us.src, dropped())
				}
			}
		}
		if isBad {
			us.bad = badKind
		} else if len(us.slots) != 1 {
			// generator slip (e.g. a two-key command drew different tags): regenerate as a simple SET
			k := gen.opts.KeyGen()
			us.cmds = [][][]byte{{[]byte("set"), k, []byte("v")}}
			us.txn = false
			us.slots = map[int]bool{simredis.HashSlot(k): true}
		}
		units = append(units, us)
	}
	// encode
	off := st.Base
	txnSeq := 0
	add := func(kind ItemKind, txn int, parts ...[]byte) {
		raw := encodeCmd(parts...)
		it := Item{Idx: len(st.Items), Raw: raw, Start: off, End: off + int64(len(raw)), Name: strings.ToLower(string(parts[0])), Args: parts[1:], Kind: kind, SrcDB: 0, Txn: txn}
		off = it.End
		st.Items = append(st.Items, it)
		st.Bytes = append(st.Bytes, raw...)
		st.Boundaries[off] = it.Idx
	}
	add(KSelect, 0, []byte("select"), []byte("0"))
	unitFirstItem := make([]int, len(units))
	for ui, us := range units {
		unitFirstItem[ui] = len(st.Items)
		if g.Choose("pingbetween", 5) == 0 {
			add(KPing, 0, []byte("ping"))
		}
		srcCmds := us.cmds
		if us.src != nil {
			srcCmds = us.src
		}
		if us.txn || len(srcCmds) != 1 {
			txnSeq++
			add(KMulti, txnSeq, []byte("multi"))
			for _, c := range srcCmds {
				add(KCmd, txnSeq, c...)
			}
			add(KExec, txnSeq, []byte("exec"))
		} else {
			add(KCmd, 0, srcCmds[0]...)
		}
	}
	l := newClusterLink(r, cfg, st)
	r.Sample = fmt.Sprintf("%s cfg{%s} units=%d badAt=%d stream{%s}", stratum, cfg, len(units), badAt, describeStream(st, 14))
	r.NonTriv = len(units) >= 2
	l.start()

	var viol *Violation
	setV := func(rule, sig, format string, a ...any) {
		if viol == nil {
			viol = &Violation{Property: "C18", Rule: rule, Sig: sig, Msg: fmt.Sprintf(format, a...)}
			r.Logf("VIOLATION %s: %s", rule, viol.Msg)
		}
	}
	// migrating kind: slots of the unit keys migrate while the stream is replayed (one at a time, key by key)
	migrations, maxMig := 0, 1+g.Choose("nmig", 4)
	migActions := func() []pipeAction {
		if kind != "migrating" || len(migKeys) == 0 {
			return nil
		}
		var pool []string
		for k := range migKeys {
			pool = append(pool, k)
		}
		sort.Strings(pool)
		var acts []pipeAction
		sc := r.Sched()
		if len(l.topo.Migrating) == 0 && migrations < maxMig {
			acts = append(acts, pipeAction{"migrate-begin", 2, func() {
				k := pool[sc.Choose("migkey", len(pool))]
				slot := simredis.HashSlot([]byte(k))
				to := (l.topo.Owner[slot] + 1 + sc.Choose("migto", 2)) % len(l.topo.Nodes)
				l.topo.BeginMigrate(slot, to)
				migrations++
				r.W.Fault("slot_migration")
				r.Logf("MIGRATE begin slot %d: node %d -> node %d", slot, l.topo.Owner[slot], to)
			}})
		}
		for slot := range l.topo.Migrating {
			slot := slot
			acts = append(acts, pipeAction{"migrate-key", 3, func() {
				var cand []string
				for _, k := range pool {
					if simredis.HashSlot([]byte(k)) == slot && !l.topo.Moved[k] {
						cand = append(cand, k)
					}
				}
				if len(cand) == 0 || sc.Choose("migfinish", 4) == 3 {
					l.topo.FinishMigrate(slot)
					r.Logf("MIGRATE finish slot %d -> node %d", slot, l.topo.Owner[slot])
					return
				}
				k := cand[sc.Choose("movekey", len(cand))]
				l.topo.MoveKey(k)
				r.Logf("MIGRATE key %q of slot %d moved", k, slot)
			}})
			break
		}
		return acts
	}
	restarts := 0
	errSeen := 0
	scanErrors := func() {
		for ; errSeen < len(l.topo.Errors); errSeen++ {
			e := l.topo.Errors[errSeen]
			switch {
			case strings.HasPrefix(e.Reply, "CROSSSLOT"):
				setV("C18.crossslot_sent", "a node had to answer CROSSSLOT", "node %d answered %q to %s: the tool sent keys of different slots in one request/transaction", e.Node, e.Reply, e.Exec.String())
			case kind == "migrating" && (strings.HasPrefix(e.Reply, "MOVED") || strings.HasPrefix(e.Reply, "ASK")):
				// a slot is on the move: redirects are the cluster's business as usual
			case strings.HasPrefix(e.Reply, "MOVED"):
				setV("C18.moved", "a node had to answer MOVED on a stable topology", "node %s answered %q to %s: the tool's slot computation disagrees with the cluster", e.Exec.Node, e.Reply, e.Exec.String())
			case e.Name == "command":
				// COMMAND GETKEYS for an undeterminable command legitimately answers an error
			default:
				setV("C18.node_error", "a node answered an error", "node %s answered %q to %s", e.Exec.Node, e.Reply, e.Exec.String())
			}
		}
	}
	for r.BeginStep() {
		r.Settle()
		scanErrors()
		if viol == nil && l.getPhase() == 2 && kind == "migrating" && c18MigratingRestarts && restarts < 10 && (l.sendErr != nil || l.spErr != nil) {
			// a redirect the link could not follow is an error it reports; the tool starts the link again from what the
			// target has committed (pipeline / parallel: later units may repeat)
			r.Logf("RESTART after reported error: send=%v start=%v", l.sendErr, l.spErr)
			restarts++
			r.W.Fault("reported_restart")
			for _, nd := range l.topo.Nodes {
				for _, ss := range nd.Sessions {
					if !ss.Dead {
						nd.KillSession(ss, 0)
					}
				}
			}
			l.phase = 0
			l.start()
			continue
		}
		if viol != nil || l.getPhase() == 2 {
			break
		}
		if l.getPhase() == 1 && l.remaining() == 0 && len(l.ready()) == 0 && r.W.ParkedNow() == 0 && (kind != "migrating" || len(l.topo.Migrating) == 0 || migrations >= maxMig) {
			break
		}
		l.step(migActions())
		for i, k := range l.topo.MisdirectedKeys {
			if migKeys[k] { // (the bookkeeping keys of a unit live nowhere in the double's model: not judged)
				setV("C18.asked_resident_key", "a unit was sent under ASKING to the importing node although its key still lives on the slot's owner", "%s", l.topo.Misdirected[i])
				break
			}
		}
	}
	for slot := range l.topo.Migrating {
		l.topo.FinishMigrate(slot)
	}
	// drain
	r.Calm()
	for i := 0; i < 40 && viol == nil && l.getPhase() != 2; i++ {
		r.Settle()
		for j := 0; j < 4000 && viol == nil && l.getPhase() != 2; j++ {
			rs := l.ready()
			if len(rs) == 0 {
				break
			}
			for _, rc := range rs {
				rc.node.Step(rc.ss)
			}
			r.Settle()
			scanErrors()
		}
		scanErrors()
		r.Advance(150 * time.Millisecond)
	}
	r.Settle()
	scanErrors()

	// ---- evaluate
	// executed blocks: per transaction block on any node, the business commands it holds
	type blk struct {
		node       int
		cmds       []simredis.ClusterExec
		marker     bool
		record     bool
		otherSlots map[int]bool
	}
	blocks := map[string]*blk{}
	var order []string
	for _, e := range l.topo.Log {
		if e.IsErr || e.Txn == 0 {
			if !e.IsErr && e.Txn == 0 && len(e.Args) > 0 && !simredis.IsReservedKey(e.Args[0]) {
				switch e.Name {
				case "select", "ping", "info", "cluster", "command", "exec", "multi", "asking":
				default:
					setV("C18.outside_txn", "business command executed outside a transaction", "node %d executed %s outside MULTI/EXEC", e.Node, e.Exec.String())
				}
			}
			continue
		}
		id := fmt.Sprintf("%d/%d", e.Node, e.Txn)
		b := blocks[id]
		if b == nil {
			b = &blk{node: e.Node, otherSlots: map[int]bool{}}
			blocks[id] = b
			order = append(order, id)
		}
		if e.Name == "exec" {
			continue
		}
		if len(e.Args) > 0 && simredis.IsReservedKey(e.Args[0]) {
			k := string(e.Args[0])
			if strings.Contains(k, ":marker:{") {
				b.marker = true
			}
			if strings.Contains(k, ":latest:{") || strings.Contains(k, ":commit:{") {
				b.record = true
			}
			b.otherSlots[simredis.HashSlot(e.Args[0])] = true
			continue
		}
		b.cmds = append(b.cmds, e)
	}
	matched := make([]int, len(units))
	for _, id := range order {
		b := blocks[id]
		if len(b.cmds) == 0 {
			continue
		}
		// which unit is it?
		ui := -1
		for i, us := range units {
			if len(us.cmds) != len(b.cmds) {
				continue
			}
			same := true
			for k, c := range us.cmds {
				if strings.ToLower(string(c[0])) != b.cmds[k].Name || !argsEqual(c[1:], b.cmds[k].Args) {
					same = false
				}
			}
			if same && matched[i] == 0 {
				ui = i
				break
			}
		}
		if ui < 0 {
			setV("C18.partial_unit", "a target transaction holds something that is no whole source unit", "node %d executed a transaction with %d business commands (first %s) that equals no source command/transaction: units are never replayed partially or approximately", b.node, len(b.cmds), b.cmds[0].Exec.String())
			continue
		}
		matched[ui]++
		if units[ui].bad != "" {
			setV("C18.bad_unit_executed", "an unroutable unit was executed", "unit %d (%s) spans slots or has undeterminable keys but node %d executed it", ui, units[ui].bad, b.node)
		}
		// all keys incl. marker/record in one slot — by the node's own computation
		slots := map[int]bool{}
		for s := range b.otherSlots {
			slots[s] = true
		}
		for _, c := range b.cmds {
			if sl, ok := simredis.SlotsOf(c.Name, c.Args); ok {
				for _, s := range sl {
					slots[s] = true
				}
			}
		}
		if len(slots) != 1 {
			setV("C18.multi_slot_txn", "a transaction sent to the cluster addresses several slots", "node %d executed a transaction (unit %d) whose keys, marker and records address slots %v", b.node, ui, keysOfMap(slots))
		}
		if !b.marker || !b.record {
			setV("C18.no_bookkeeping", "unit executed without marker/record in the same transaction", "unit %d executed on node %d with marker=%v record=%v", ui, b.node, b.marker, b.record)
		}
	}
	if badAt >= 0 {
		if l.getPhase() != 2 || l.sendErr == nil {
			setV("C18.not_refused", "unroutable input did not stop the replay with an error", "unit %d (%s) cannot be routed to one slot but Send did not end with an error (phase %d, err %v)", badAt, units[badAt].bad, l.getPhase(), l.sendErr)
		}
		// nothing of the bad unit may have been received by any node, executed or queued
		for _, n := range l.topo.Nodes {
			for _, q := range n.Queued {
				for _, c := range units[badAt].cmds {
					if q.Name == strings.ToLower(string(c[0])) && argsEqual(q.Args, c[1:]) && len(c) > 1 {
						// the same command may legitimately belong to an earlier good unit; only flag if no good unit has it
						dup := false
						for i, us := range units {
							if i == badAt {
								continue
							}
							for _, c2 := range us.cmds {
								if strings.EqualFold(string(c2[0]), string(c[0])) && argsEqual(c2[1:], c[1:]) { // the generator varies the case of command names
									dup = true
								}
							}
						}
						if !dup {
							setV("C18.partially_sent", "part of an unroutable unit was sent to a node", "node %s received [%s] of unit %d (%s) although the unit must be refused before anything of it is sent", n.Addr, fmtCmd(q.Name, q.Args), badAt, units[badAt].bad)
						}
					}
				}
			}
		}
		for i := badAt + 1; i < len(units); i++ {
			if matched[i] > 0 {
				setV("C18.continued_after_refusal", "replay continued past an unroutable unit", "unit %d was executed although unit %d had to stop the replay", i, badAt)
			}
		}
	} else {
		if l.getPhase() == 2 && kind == "migrating" && (l.sendErr != nil || l.spErr != nil) {
			// a redirect the link could not follow (or a connection it lost to one): a reported error, the tool starts the
			// link again. The run is judged up to here: what was executed is whole units, at the right nodes
			simrt.Probe("c18_migrating_reported_error")
		} else if l.getPhase() == 2 {
			setV("C18.refused_good", "a routable unit was refused", "all units are single-slot but the replay ended: %v", l.sendErr)
		}
		for i := range units {
			if len(units[i].cmds) == 0 { // everything filtered out: nothing to execute
				continue
			}
			if kind == "migrating" && l.getPhase() == 2 && matched[i] <= 1 {
				continue // the run ended with a reported error: the units behind it were not reached
			}
			if kind == "migrating" && restarts > 0 && matched[i] >= 1 {
				continue // after a reported restart a unit may repeat; none is lost
			}
			if matched[i] != 1 && viol == nil {
				setV("C18.good_unit_missing", "a single-slot unit was not executed exactly once", "unit %d (single slot %v) was executed %d times", i, keysOfMap(units[i].slots), matched[i])
			}
		}
	}
	l.stop()
	return viol
}

func keysOfMap(m map[int]bool) []int {
	var out []int
	for k := range m {
		out = append(out, k)
	}
	// small maps; order for readability
	for i := 0; i < len(out); i++ {
		for j := i + 1; j < len(out); j++ {
			if out[j] < out[i] {
				out[i], out[j] = out[j], out[i]
			}
		}
	}
	return out
}

func encodeCmd(parts ...[]byte) []byte {
	var b []byte
	b = append(b, fmt.Sprintf("*%d\r\n", len(parts))...)
	for _, p := range parts {
		b = append(b, fmt.Sprintf("$%d\r\n", len(p))...)
		b = append(b, p...)
		b = append(b, '\r', '\n')
	}
	return b
}
