package h

import (
	"errors"
	"fmt"
	"os"
	"strings"
	"time"

	"github.com/mgtv-tech/redis-GunYu/syncer"

	"verifsim/simredis"
	"verifsim/simrt"
)

// C19 — cluster replay reaches each key's slot owner and keeps per-key order. DESIGN.md §3 C19.
// Non-bidirectional output through the real cluster client against node doubles with a slot-migration
// state machine (stable -> migrating/importing -> moved; keys move one by one, so ASK and MOVED occur between
// and during batches).

// c19Resets (SIM_C19_RESETS=1, exploration only, not part of the registered check): also reset node connections with
// requests in flight. Connection loss is not in C19's quantifier (streams x layouts x slot migrations); what it exposes is
// recorded in DESIGN.md §7.4 as a by-product.
var c19Resets = os.Getenv("SIM_C19_RESETS") == "1"

func init() {
	Register(&PropertyDef{ID: "C19", Strata: []string{"nontxn", "nontxn-pipeline", "txn", "nontxn-stable", "txn-stable", "nontxn-crossnode"}, Run: runC19, StepCap: 30000})
}

func runC19(r *Run, stratum string) *Violation {
	g := r.Gen()
	txn := 0
	if hasWord(stratum, "txn") {
		txn = 1
	}
	cfg := GenPipeCfg(g, txn, 1)
	cfg.Pipeline = hasWord(stratum, "pipeline")
	if !hasWord(stratum, "pipeline") && g.Choose("pipe", 3) == 0 {
		cfg.Pipeline = true
	}
	cfg.ClusterAddrs = clusterAddrs
	cfg.DBM = DBMap{TargetDb: -1}
	stable := hasWord(stratum, "stable")
	if txn == 0 && !stable && !hasWord(stratum, "crossnode") && os.Getenv("SIM_C19_NOFOLLOW") == "1" { // exploration switch, not part of the registered check (DESIGN.md 7.4 by-products)
		cfg.NoRedirectFollow = true // (what transactional cluster replay switches on by itself)
		simrt.Probe("c19_redirects_not_followed_by_the_client")
	}
	// crossnode: the stream (standalone source) holds ONE multi-key command whose keys live on two target nodes. The
	// cluster client cannot route it (ErrCrossSlots); allowed outcomes: it is executed (per node) or the replay reports
	// an error — never a silent loss, i.e. the stored position never covers it while no node has executed it.
	cross := hasWord(stratum, "crossnode")
	if cross {
		stable = true
	}

	// key pool over a handful of slots. Transactional mode is only offered by the tool when one source shard maps
	// onto ONE target node (the syncer then also picks a checkpoint key inside that node's slots), so in the
	// transactional strata every key and the checkpoint key hash to slots of a single node.
	home := g.Choose("homenode", len(clusterAddrs))
	inHome := func(k []byte) bool { return simredis.HashSlot(k)*len(clusterAddrs)/simredis.NumSlots == home }
	nTags := 3 + g.Choose("ntags", 4)
	var keys [][]byte
	for t := 0; t < nTags; t++ {
		tn := g.Choose("tagn", 500)
		tag := fmt.Sprintf("s%d", tn)
		for txn == 1 && !inHome([]byte("{"+tag+"}")) {
			tn++
			tag = fmt.Sprintf("s%d", tn)
		}
		for k := 0; k < 1+g.Choose("keyspertag", 3); k++ {
			keys = append(keys, []byte(fmt.Sprintf("{%s}k%d", tag, k)))
		}
	}
	cpKey := "redis-gunyu-checkpoint"
	if txn == 1 {
		for i := 0; !inHome([]byte(cpKey)); i++ {
			cpKey = fmt.Sprintf("redis-gunyu-checkpoint-%c%c", 'a'+i%26, 'a'+(i/26)%26)
		}
	}
	max := 40
	if r.Tier == "thorough" {
		max = 200
	}
	// stream: every business command carries a unique value so that executions map to source items
	st := &Stream{Boundaries: map[int64]int{}}
	st.Base = int64(g.Choose("base", 100000))
	st.Boundaries[st.Base] = -1
	off := st.Base
	txnSeq := 0
	add := func(kind ItemKind, txnID int, parts ...string) {
		bs := make([][]byte, len(parts))
		for i, p := range parts {
			bs[i] = []byte(p)
		}
		raw := encodeCmd(bs...)
		it := Item{Idx: len(st.Items), Raw: raw, Start: off, End: off + int64(len(raw)), Name: strings.ToLower(parts[0]), Args: bs[1:], Kind: kind, SrcDB: 0, Txn: txnID}
		off = it.End
		st.Items = append(st.Items, it)
		st.Bytes = append(st.Bytes, raw...)
		st.Boundaries[off] = it.Idx
	}
	add(KSelect, 0, "select", "0")
	uniq := 0
	biz := func(txnID int, key []byte) {
		uniq++
		u := fmt.Sprintf("u%d", uniq)
		// a sibling key of the same tag (same slot), if the pool has one: for the two-key command below
		var sib []byte
		if i := strings.IndexByte(string(key), '}'); i > 0 {
			for _, k := range keys {
				if string(k) != string(key) && strings.HasPrefix(string(k), string(key[:i+1])) {
					sib = k
					break
				}
			}
		}
		switch g.Choose("cmd", 6) {
		case 5:
			if sib != nil && txnID == 0 {
				// two keys of one slot: while that slot migrates and only one of them has moved, the node answers
				// TRYAGAIN - an error the replay reports (restart), never a reason to apply the command later
				add(KCmd, txnID, "smove", string(key), string(sib), u)
				return
			}
			add(KCmd, txnID, "set", string(key), u)
		case 0:
			add(KCmd, txnID, "set", string(key), u)
		case 1:
			add(KCmd, txnID, "hset", string(key), "f", u)
		case 2:
			add(KCmd, txnID, "rpush", string(key), u)
		case 3:
			add(KCmd, txnID, "append", string(key), u)
		default:
			add(KCmd, txnID, "sadd", string(key), u)
		}
	}
	n := 2 + g.Choose("nitems", max)
	crossAt, crossItem := -1, -1
	var crossEnd int64
	if cross {
		crossAt = 1 + g.Choose("crossat", n)
	}
	nodeOf := func(k []byte) int { return simredis.HashSlot(k) * len(clusterAddrs) / simredis.NumSlots }
	for len(st.Items) < n || (cross && crossItem < 0) {
		if cross && crossItem < 0 && len(st.Items) >= crossAt {
			ka := keys[g.Choose("crosska", len(keys))]
			var kb []byte
			for _, k := range keys {
				if nodeOf(k) != nodeOf(ka) {
					kb = k
					break
				}
			}
			for i := 0; kb == nil; i++ {
				if c := []byte(fmt.Sprintf("{x%d}k", i)); nodeOf(c) != nodeOf(ka) {
					kb = c
				}
			}
			crossItem = len(st.Items)
			add(KCmd, 0, "del", string(ka), string(kb))
			crossEnd = off
			continue
		}
		switch g.Weighted("kind", []int{12, 2, 1}) {
		case 0:
			biz(0, keys[g.Choose("key", len(keys))])
		case 1:
			// source transaction: same-slot keys (a cluster source guarantees that)
			txnSeq++
			add(KMulti, txnSeq, "multi")
			k := keys[g.Choose("key", len(keys))]
			for i := 0; i < 1+g.Choose("txnlen", 3); i++ {
				biz(txnSeq, k)
			}
			add(KExec, txnSeq, "exec")
		default:
			add(KPing, 0, "ping")
		}
	}
	expected := Reference(st, 0, cfg.DBM, nil)
	if crossItem >= 0 {
		kept := expected[:0]
		for _, e := range expected {
			if e.Src != crossItem {
				kept = append(kept, e)
			}
		}
		expected = kept
	}
	crossExecuted := false
	expIdx := map[string]int{}
	for i, e := range expected {
		expIdx[string(e.Args[len(e.Args)-1])] = i
	}
	perKey := map[string][]int{}
	posInKey := make([]int, len(expected))
	for i, e := range expected {
		k := string(e.Args[0])
		posInKey[i] = len(perKey[k])
		perKey[k] = append(perKey[k], i)
	}

	l := newClusterLink(r, cfg, st)
	l.cpName = cpKey
	r.Sample = fmt.Sprintf("%s cfg{%s} keys=%d stream{%s}", stratum, cfg, len(keys), describeStream(st, 12))
	l.start()
	incarnation := 1

	var viol *Violation
	setV := func(rule, sig, format string, a ...any) {
		if viol == nil {
			viol = &Violation{Property: "C19", Rule: rule, Sig: sig, Msg: fmt.Sprintf(format, a...)}
			r.Logf("VIOLATION %s: %s", rule, viol.Msg)
			dumpStacksOnViolation(rule)
		}
	}
	// oracle state
	scanned := 0
	lastPos := map[string]int{} // per key: position (in the key's subsequence) of the last executed command
	maxPos := map[string]int{}
	fresh := map[string]bool{} // per key: nothing executed yet since the last reported restart
	for k := range perKey {
		lastPos[k] = -1
		maxPos[k] = -1
	}
	var deferred *Violation         // see the TRYAGAIN case in scan
	execInInc := map[int]int{}      // expected index -> incarnation that executed it last
	redirected := map[int]string{}  // expected index -> kind of redirect a node answered
	migratedSlots := map[int]bool{} // slots that have been under migration at some point of the run
	redirectedInc := map[int]int{}  // expected index -> incarnation in which that redirect was answered
	// per key: incarnation in which a command answered MOVED/ASK was followed in place BEHIND later commands of the key
	// (the first listed finding); what the order rules see on that key until the next restart is that finding's other end
	followedBehind := map[string]int{}
	firstKind := map[int]string{} // expected index -> the first refusal it got in the incarnation of redirectedInc
	// per key: incarnation in which a command first answered TRYAGAIN was applied in place behind later commands of the
	// key. The tool reports TRYAGAIN and restarts; a tree that sends the command again by itself is not covered by
	// either listed finding, whatever the later answers were: the order rules speak plainly on that key
	retriedInPlace := map[string]int{}
	// refusal: an answer that ends the attempt - the tool reports it and restarts - as opposed to a redirect the cluster
	// client follows by itself. TRYAGAIN always is one; MOVED and ASK are when the operator has switched the client's
	// following of redirects off. A refused command may only come back through a replay, in order.
	refusal := func(kind string) bool {
		return kind == "TRYAGAIN" || (cfg.NoRedirectFollow && (kind == "MOVED" || kind == "ASK"))
	}
	scan := func() {
		for ; scanned < len(l.topo.Log); scanned++ {
			e := l.topo.Log[scanned]
			if e.IsErr {
				// redirects: the command was not executed
				if len(e.Args) > 0 {
					if i, ok := expIdx[string(e.Args[len(e.Args)-1])]; ok {
						redirected[i] = strings.Fields(e.Reply)[0]
						if redirectedInc[i] != incarnation {
							firstKind[i] = redirected[i]
						}
						redirectedInc[i] = incarnation
					}
				}
				continue
			}
			if len(e.Args) == 0 || simredis.IsReservedKey(e.Args[0]) {
				continue
			}
			switch e.Name {
			case "select", "ping", "info", "cluster", "command", "exec", "multi", "asking":
				continue
			}
			if cross && e.Name == "del" {
				crossExecuted = true
				continue
			}
			i, ok := expIdx[string(e.Args[len(e.Args)-1])]
			if !ok || expected[i].Name != e.Name || !argsEqual(expected[i].Args, e.Args) {
				setV("C19.invented", "a node executed a command the stream does not contain", "node %d executed %s", e.Node, e.Exec.String())
				continue
			}
			k := string(e.Args[0])
			// owner-at-that-time is enforced by the double; double-check the slot owner for stable slots
			p := posInKey[i]
			if fresh[k] {
				// first command of this key after a reported restart: the resumed run may begin anywhere at or before
				// what the key had already received (rewind), not beyond it
				fresh[k] = false
				lastPos[k] = p - 1
				if p > maxPos[k]+1 {
					lastPos[k] = maxPos[k]
				}
			}
			if kind := firstKind[i]; p <= lastPos[k] && !stable && redirectedInc[i] == incarnation {
				if refusal(kind) {
					retriedInPlace[k] = incarnation
				} else if kind == "MOVED" || kind == "ASK" {
					followedBehind[k] = incarnation
				}
			}
			if p > lastPos[k]+1 {
				mi := perKey[k][lastPos[k]+1]
				missing := expected[mi]
				sig := "per-key order broken: a command took effect before its predecessor on the same key"
				// pipelined sending: the predecessor may still be queued at the node a stale slot map routed it to (its
				// MOVED answer comes later) while the next batch, routed by the refreshed map, already executes; the blocking
				// sender has the same window inside ONE batch: its commands are put into per-node sub-batches one by one,
				// a slot map refreshed in between (an earlier MOVED of the batch before) sends a later command of the key
				// to the new owner while the earlier one waits at the old one (thorough soak, 1 of 251998 runs)
				// only keys of a slot that has been under migration are affected: a key whose slot never moved has one
				// node, one ordered per-node pipeline, and no redirect to be overtaken at
				kind, red := redirected[mi]
				if redirectedInc[mi] == incarnation {
					kind = firstKind[mi]
				}
				if !stable && !refusal(kind) && retriedInPlace[k] != incarnation && (red || followedBehind[k] == incarnation || migratedSlots[simredis.HashSlot([]byte(k))]) {
					sig = "cluster target during slot migration: a redirected or stale-routed command was overtaken by a later, already pipelined command of the same key"
				}
				msg := fmt.Sprintf("key %q: [%s] executed (node %d) while its predecessor [%s] has not been executed since the last rewind (redirect seen for it: %q)", k, fmtCmd(e.Name, e.Args), e.Node, fmtCmd(missing.Name, missing.Args), redirected[mi])
				if !stable && refusal(kind) {
					// the predecessor was answered TRYAGAIN (its keys are split between the two nodes of a migration): the
					// commands pipelined behind it to the same node execute, the error is reported afterwards. That skip is
					// the second listed finding; it is held back until the end of the run, because what the tool does with
					// the refused command afterwards is judged too: it may only come back through a replay in order
					if deferred == nil {
						dsig := "cluster target during slot migration: a command answered TRYAGAIN was skipped by later, already pipelined commands of its key before the reported restart"
						if kind != "TRYAGAIN" {
							dsig = "cluster target during slot migration, redirects not followed by the client: a command answered MOVED/ASK was skipped by later, already pipelined commands of its key before the reported restart"
						}
						deferred = &Violation{Property: "C19", Rule: "C19.skip_or_invert", Msg: msg, Sig: dsig}
						r.Logf("DEFERRED %s", msg)
					}
				} else {
					setV("C19.skip_or_invert", sig, "%s", msg)
				}
			}
			if cfg.Txn {
				if inc, seen := execInInc[i]; seen && inc == incarnation {
					setV("C19.duplicate_in_run", "transactional mode executed a command twice within one run", "[%s] executed twice in incarnation %d", fmtCmd(e.Name, e.Args), incarnation)
				}
			}
			execInInc[i] = incarnation
			lastPos[k] = p
			if p > maxPos[k] {
				maxPos[k] = p
			}
		}
	}

	// migration state machine driven by the scheduler
	migrations := 0
	maxMig := 1 + g.Choose("nmig", 6)
	migActions := func() []pipeAction {
		if stable {
			return nil
		}
		var acts []pipeAction
		s := r.Sched()
		if len(l.topo.Migrating) == 0 && migrations < maxMig {
			acts = append(acts, pipeAction{"migrate-begin", 2, func() {
				k := keys[s.Choose("migkey", len(keys))]
				slot := simredis.HashSlot(k)
				to := (l.topo.Owner[slot] + 1 + s.Choose("migto", 2)) % len(l.topo.Nodes)
				l.topo.BeginMigrate(slot, to)
				migratedSlots[slot] = true
				migrations++
				r.W.Fault("slot_migration")
				r.Logf("MIGRATE begin slot %d: node %d -> node %d", slot, l.topo.Owner[slot], to)
			}})
		}
		for slot := range l.topo.Migrating {
			slot := slot
			acts = append(acts, pipeAction{"migrate-key", 3, func() {
				var cand []string
				for _, k := range keys {
					if simredis.HashSlot(k) == slot && !l.topo.Moved[string(k)] {
						cand = append(cand, string(k))
					}
				}
				if len(cand) == 0 {
					l.topo.FinishMigrate(slot)
					r.Logf("MIGRATE finish slot %d -> node %d", slot, l.topo.Owner[slot])
					return
				}
				k := cand[s.Choose("movekey", len(cand))]
				l.topo.MoveKey(k)
				r.Logf("MIGRATE key %q of slot %d moved", k, slot)
			}})
			break
		}
		return acts
	}

	// connection resets: a node drops a connection with requests in flight, a drawn prefix of which still executes
	resets := 0
	maxResets := g.Choose("nresets", 3)
	resetActions := func() []pipeAction {
		// in transactional mode a dropped connection is a reported restart and nothing may run twice within a run; without
		// transactions connection loss is outside C19's quantifier (by-product, DESIGN §7.4) and stays an exploration switch
		if !(c19Resets || cfg.Txn) || resets >= maxResets || l.getPhase() != 1 {
			return nil
		}
		var cand []readyConn
		for _, rc := range l.ready() {
			if rc.node.PendingCount(rc.ss) > 0 {
				cand = append(cand, rc)
			}
		}
		if len(cand) == 0 {
			return nil
		}
		return []pipeAction{{"conn-reset", 1, func() {
			s := r.Sched()
			rc := cand[s.Choose("resetconn", len(cand))]
			n := rc.node.PendingCount(rc.ss)
			k := s.Choose("reset_exec_more", n+1)
			resets++
			r.W.Fault("conn_reset")
			done := rc.node.KillSession(rc.ss, k)
			r.Logf("RESET %s %s: %d pending, %d still executed", rc.node.Addr, rc.ss.LabelString(), n, done)
		}}}
	}

	restarts := 0
	crossReported := 0
	txnEnded := false
	for r.BeginStep() {
		r.Settle()
		scan()
		if viol != nil {
			break
		}
		if l.getPhase() == 2 {
			// a reported restart: the tool restarts from the stored position
			if l.spErr != nil && restarts > 8 {
				Inconc("start point could not be read after %d restarts: %v", restarts, l.spErr)
			}
			// a failing start (e.g. a redirect while the checkpoint key's slot migrates) is a reported error: the
			// syncer retries the start
			if cfg.Txn && l.sendErr != nil && l.spErr == nil {
				// transactional mode escalates a redirect to a reported restart; the syncer would re-evaluate the
				// topology. The run ends here: nothing may be lost below the stored position.
				r.W.Fault("reported_restart")
				txnEnded = true
				break
			}
			if cross && l.sendErr != nil && l.fedTo >= crossEnd {
				crossReported++
				r.W.Fault("reported_restart")
				if crossReported >= 2 {
					break
				}
			}
			restartable := errors.Is(l.sendErr, syncer.ErrRedisTypologyChanged) || errors.Is(l.sendErr, syncer.ErrRestart) || l.sendErr != nil || l.spErr != nil
			if !restartable {
				setV("C19.ended", "replay ended without a reported error", "Send returned %v", l.sendErr)
				break
			}
			if restarts > 8 {
				// every restart runs into the same refusal for as long as the scheduler keeps the slot half migrated
				// (TRYAGAIN): reported errors, the tool behaves; this run's restart budget is used up
				Inconc("restart budget used up: %d reported restarts, last error %v", restarts, l.sendErr)
			}
			r.Logf("RESTART after Send error: %v", l.sendErr)
			restarts++
			r.W.Fault("reported_restart")
			for _, nd := range l.topo.Nodes {
				for _, ss := range nd.Sessions {
					if !ss.Dead {
						nd.KillSession(ss, 0)
					}
				}
			}
			for k := range lastPos {
				_ = k
			}
			incarnation++
			l.phase = 0
			l.start()
			// after a restart commands are replayed from the stored position: per-key rewind allowed
			for k := range lastPos {
				fresh[k] = true
			}
			continue
		}
		if l.getPhase() == 1 && l.remaining() == 0 && len(l.ready()) == 0 && len(l.topo.Migrating) == 0 && r.W.ParkedNow() == 0 {
			break
		}
		l.step(append(migActions(), resetActions()...))
	}
	checkTxnEnd := func() {
		// stored position (checkpoint hash on whichever node holds it) must cover only executed commands
		var stored int64 = -1
		for _, nd := range l.topo.Nodes {
			if o := nd.Get(0, cpKey); o != nil && o.T == 'h' {
				if v, ok := o.Hash[l.runID+"_offset"]; ok {
					var n int64
					fmt.Sscanf(string(v), "%d", &n)
					if n > stored {
						stored = n
					}
				}
			}
		}
		for i, e := range expected {
			if st.Items[e.Src].End <= stored {
				if _, done := execInInc[i]; !done {
					sig := "a command was silently lost"
					if _, ok := redirected[i]; ok {
						sig = "transactional mode on a cluster: the checkpoint sent in the same non-atomic pipeline covers a command a node redirected (MOVED/ASK)"
					}
					setV("C19.lost", sig, "Send reported %v; the stored position %d covers [%s] (source item %d) which no node executed (redirect seen for it: %q)", l.sendErr, stored, fmtCmd(e.Name, e.Args), e.Src, redirected[i])
					break
				}
			}
		}
		r.NonTriv = len(expected) >= 3
	}
	r.Calm()
	if txnEnded && viol == nil {
		checkTxnEnd()
		l.stop()
		return viol
	}
	if cross {
		if viol == nil {
			// let the checkpoint ticker fire, serve what is in flight, then judge the stored position
			for i := 0; i < 30 && l.getPhase() == 1; i++ {
				r.Settle()
				for j := 0; j < 4000 && l.getPhase() == 1; j++ {
					rs := l.ready()
					if len(rs) == 0 {
						break
					}
					for _, rc := range rs {
						rc.node.Step(rc.ss)
					}
					r.Settle()
					scan()
				}
				scan()
				r.Advance(cfg.CpTicker + cfg.BatchTicker + 50*time.Millisecond)
			}
			r.Settle()
			scan()
			if l.getPhase() == 2 && l.sendErr != nil {
				crossReported++
			}
			var stored int64 = -1
			for _, nd := range l.topo.Nodes {
				if o := nd.Get(0, cpKey); o != nil && o.T == 'h' {
					if v, ok := o.Hash[l.runID+"_offset"]; ok {
						var x int64
						fmt.Sscanf(string(v), "%d", &x)
						if x > stored {
							stored = x
						}
					}
				}
			}
			it := st.Items[crossItem]
			if viol == nil && !crossExecuted && stored >= crossEnd {
				setV("C19.lost", "a cross-node multi-key command was silently dropped", "the stored position %d covers [%s] (source item %d, ends at %d) whose keys live on two nodes and which no node executed; reported errors so far: %d (last Send error: %v)", stored, fmtCmd(it.Name, it.Args), crossItem, crossEnd, crossReported, l.sendErr)
			}
			if !crossExecuted && crossReported > 0 {
				simrt.Probe("c19_crossnode_reported")
			}
		}
		r.NonTriv = len(expected) >= 2
		l.stop()
		return viol
	}
	// finish pending migrations, then drain
	for slot := range l.topo.Migrating {
		l.topo.FinishMigrate(slot)
	}
	complete := func() bool {
		for k, seq := range perKey {
			if maxPos[k] != len(seq)-1 {
				return false
			}
		}
		return true
	}
	// a replay that is still on its way through a repeated suffix has not settled: wait for it as well
	settled := func() bool {
		for k := range perKey {
			if !fresh[k] && lastPos[k] < maxPos[k] {
				return false
			}
		}
		return true
	}
	for i := 0; i < 60 && viol == nil && !(complete() && settled()); i++ {
		r.Settle()
		if l.getPhase() == 2 {
			if cfg.Txn && l.sendErr != nil {
				r.W.Fault("reported_restart")
				txnEnded = true
				break
			}
			if restarts > 12 {
				break
			}
			restarts++
			incarnation++
			for _, nd := range l.topo.Nodes {
				for _, ss := range nd.Sessions {
					if !ss.Dead {
						nd.KillSession(ss, 0)
					}
				}
			}
			for k := range lastPos {
				fresh[k] = true
			}
			l.phase = 0
			l.start()
			continue
		}
		// serve everything the nodes hold (a blocking sender writes a whole batch in one go: dozens of requests on one
		// connection; one request per connection and round left a long batch unfinished when the rounds ran out - a
		// false C19.lost in the thorough tier, 1 of 344413 runs)
		for j := 0; j < 4000 && viol == nil && l.getPhase() != 2; j++ {
			rs := l.ready()
			if len(rs) == 0 {
				break
			}
			for _, rc := range rs {
				rc.node.Step(rc.ss)
			}
			r.Settle()
			scan()
		}
		if rem := l.remaining(); rem > 0 {
			l.feed(rem)
		}
		scan()
		r.Advance(cfg.BatchTicker + 1100*time.Millisecond)
	}
	r.Settle()
	scan()
	if txnEnded {
		if viol == nil {
			checkTxnEnd()
		}
		l.stop()
		return viol
	}
	if viol == nil && !complete() {
		for k, seq := range perKey {
			if maxPos[k] != len(seq)-1 {
				e := expected[seq[maxPos[k]+1]]
				setV("C19.lost", "a command was silently lost", "after migrations ended, %d restarts and a drain, key %q never received [%s] (source item %d); last Send error: %v", restarts, k, fmtCmd(e.Name, e.Args), e.Src, l.sendErr)
				break
			}
		}
	}
	if viol == nil {
		// per key, what was applied last must be the newest command the key has received: a command that comes back
		// alone behind later ones (re-sent in place instead of through a replay in order) leaves the key in an older state
		for k := range perKey {
			if lastPos[k] < maxPos[k] && !fresh[k] {
				e := expected[perKey[k][lastPos[k]]]
				n := expected[perKey[k][maxPos[k]]]
				sig := "per-key order broken: a command took effect before its predecessor on the same key"
				li := perKey[k][lastPos[k]]
				kind := redirected[li]
				if redirectedInc[li] == incarnation {
					kind = firstKind[li]
				}
				if !stable && retriedInPlace[k] != incarnation && !refusal(kind) && (kind == "MOVED" || kind == "ASK" || followedBehind[k] == incarnation) {
					// the first listed finding seen from its other end: the redirected command was followed in place, behind
					// later commands of its key (which ran first after a restart, where the order rule starts afresh)
					sig = "cluster target during slot migration: a redirected or stale-routed command was overtaken by a later, already pipelined command of the same key"
				}
				setV("C19.skip_or_invert", sig, "after the drain the last command applied to key %q is [%s] although [%s], which follows it in the source, had been applied before and was not applied again (redirect seen for the former: %q)", k, fmtCmd(e.Name, e.Args), fmtCmd(n.Name, n.Args), redirected[perKey[k][lastPos[k]]])
				break
			}
		}
	}
	if viol == nil {
		viol = deferred
	}
	r.NonTriv = len(expected) >= 3 && (stable || r.W.Faults["slot_migration"] > 0)
	l.stop()
	return viol
}
