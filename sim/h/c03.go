package h

import (
	"bufio"
	"bytes"
	"context"
	"encoding/binary"
	"fmt"
	"os"
	"regexp"
	"sort"
	"strings"
	"sync"
	"time"

	"github.com/mgtv-tech/redis-GunYu/config"
	"github.com/mgtv-tech/redis-GunYu/pkg/rdb"
	"github.com/mgtv-tech/redis-GunYu/syncer"

	"verifsim/rdbgen"
	"verifsim/resp"
	"verifsim/simredis"
	"verifsim/simrt"
)

// C03 — a full sync reproduces the source snapshot's dataset on the target. DESIGN.md §3 C03.
//
// One run: a seeded logical dataset (rdbgen.Gen) is serialised by the simulator's own RDB encoder,
// fed in scheduler-chosen fragments to the real RedisOutput.Send (snapshot reader), which replays it
// into the Redis double (semantic mode). When Send returns, the target keyspace is compared with the
// LOGICAL dataset; every accepted RESTORE payload is compared byte for byte with the encoder's
// serialization of that value.

func init() {
	Register(&PropertyDef{ID: "C03", Strata: []string{"restore", "expand", "chunked", "parallel", "oldversions", "latency"}, Run: runC03, StepCap: 400000})
}

var c03TargetVersions = []string{"4.0.14", "5.0.14", "6.0.20", "6.2.14", "7.0.15", "7.2.5", "7.4.2", "8.0.3", "8.2.1"}

// SnapCfg is the drawn replay configuration of one snapshot run (also used by C04/C20).
type SnapCfg struct {
	TargetVersion string
	Restore       bool
	MaxBulk       int
	Parallel      int
	PipeSize      int
	ChunkAt       int // value-chunking threshold (bytes), 0 = leave the default
	DBM           DBMap
	Resume        bool
	BufSize       int
	Left          int64
	Latency       bool        // the scheduler may let virtual time pass during the replay
	OlderTarget   bool        // the target may be too old for some value types of the snapshot (RESTORE refused -> fallback)
	KeyExists     string      // replace (default, "") | ignore | error  (C20)
	Bisync        bool        // bidirectional replay: every entry becomes a marker+commands transaction (C20/C04)
	Filters       *FilterSpec // output filters (C10's snapshot stratum)
	BisyncMode    string      // bidirectional replay mode (default sync); pipeline/parallel keep a frontier (C04)
}

func (c SnapCfg) String() string {
	s := fmt.Sprintf("target=%s restore=%v maxbulk=%d parallel=%d pipe=%d chunk=%d targetDb=%d map=%v resume=%v buf=%d latency=%v",
		c.TargetVersion, c.Restore, c.MaxBulk, c.Parallel, c.PipeSize, c.ChunkAt, c.DBM.TargetDb, c.DBM.TargetDbMap, c.Resume, c.BufSize, c.Latency)
	if c.KeyExists != "" {
		s += " keyExists=" + c.KeyExists
	}
	if c.Bisync {
		s += " bisync"
	}
	return s
}

func (c SnapCfg) mapDB(src int) int {
	if c.DBM.TargetDb != -1 {
		return c.DBM.TargetDb
	}
	if t, ok := c.DBM.TargetDbMap[src]; ok {
		return t
	}
	return src
}

func genSnapCfg(g *simrt.Chooser, stratum string) (SnapCfg, rdbgen.GenOpts) {
	var c SnapCfg
	var o rdbgen.GenOpts
	c.TargetVersion = c03TargetVersions[g.Choose("targetversion", len(c03TargetVersions))]
	c.Restore = g.Choose("restore", 4) != 0
	c.MaxBulk = []int{512 * 1024 * 1024, 512 * 1024 * 1024, 4096, 200, 40}[g.Choose("maxbulk", 5)]
	c.Parallel = 1
	c.PipeSize = []int{1024, 1, 2, 8, 64}[g.Choose("pipesize", 5)]
	c.BufSize = 16 << g.Choose("bufsize", 13)
	c.Left = int64(g.Choose("left", 1<<20))
	c.Resume = g.Choose("resume", 3) == 0
	c.DBM.TargetDb = -1
	switch g.Choose("dbmap", 5) {
	case 0:
		c.DBM.TargetDb = g.Choose("targetdb", 16)
	case 1:
		c.DBM.TargetDbMap = map[int]int{}
		for i := 0; i < 1+g.Choose("ndbmap", 4); i++ {
			c.DBM.TargetDbMap[g.Choose("dbfrom", 16)] = g.Choose("dbto", 16)
		}
	}
	switch stratum {
	case "restore":
		c.Restore = true
		c.MaxBulk = 512 * 1024 * 1024
	case "expand":
		if g.Choose("expandhow", 2) == 0 {
			c.Restore = false
		} else {
			c.Restore = true
			c.MaxBulk = []int{40, 200}[g.Choose("maxbulksmall", 2)]
		}
	case "chunked":
		c.ChunkAt = 64 << g.Choose("chunkat", 7) // 64 B .. 4 KiB
		o.KindWeights = [6]int{8, 8, 8, 8, 60, 8}
		o.PreferTable = 70
		o.AllowBig = true
	case "parallel":
		c.Parallel = 2 + g.Choose("parallel", 3)
		c.Latency = g.Choose("parlatency", 2) == 1
		if g.Choose("parchunk", 3) == 0 {
			c.ChunkAt = 64 << g.Choose("chunkat", 7)
		}
	case "oldversions":
		o.MinVersion, o.MaxVersion = 6, 9
		if g.Choose("oldtarget", 2) == 0 {
			c.TargetVersion = c03TargetVersions[g.Choose("oldtargetversion", 4)]
		}
	case "latency":
		c.Latency = true
		c.Parallel = 1 + g.Choose("parallel", 3)
		if g.Choose("latchunk", 3) == 0 {
			c.ChunkAt = 64 << g.Choose("chunkat", 7)
			o.PreferTable = 50
		}
	}
	// swarm: every hazardous input family is enabled in one run out of three, independently, so that a
	// defect in one family does not end (nearly) every run before anything else is looked at
	on := func(label string) bool { return g.Choose(label, 3) == 0 }
	if !on("hz-zl-unknown-len") {
		o.Off |= rdbgen.HzZiplistUnknownLen
	}
	if !on("hz-zl-int24-neg") {
		o.Off |= rdbgen.HzZiplistInt24Neg
	}
	if !on("hz-zipmap-big") {
		o.Off |= rdbgen.HzZipmapBig
	}
	if !on("hz-stream-mixed-fields") {
		o.Off |= rdbgen.HzStreamMixedFields
	}
	if os.Getenv("SIM_C03_STREAM_SHORT") == "0" || !on("hz-stream-short-fields") {
		// stream entries with fewer fields than their node's master entry. Before the fix "a stream entry with its
		// own fields must not overwrite the master entry's field count" this input made the repository's stream
		// expansion spin forever (worker killed by the watchdog, exit 2): SIM_C03_STREAM_SHORT=0 switches it off.
		o.Off |= rdbgen.HzStreamShortMixed
	}
	c.OlderTarget = on("hz-older-target")
	if !c.OlderTarget {
		// the target can load every value type the snapshot's version uses: no "Bad data format" fallback
		if tv := simredis.RDBVersionOf(c.TargetVersion); tv <= 10 {
			if o.MaxVersion == 0 || o.MaxVersion > tv {
				o.MaxVersion = tv
			}
		}
	}
	o.NearExpiry = c.Latency
	o.UniqueAcrossDBs = c.DBM.TargetDb != -1 || len(c.DBM.TargetDbMap) > 0
	// a target older than 5.0 has no stream type at all: such a pair cannot be synchronised by any tool
	o.NoStreams = !verGE(c.TargetVersion, 5, 0)
	return c, o
}

func verGE(v string, maj, min int) bool {
	var a, b int
	fmt.Sscanf(v, "%d.%d", &a, &b)
	return a > maj || (a == maj && b >= min)
}

func (c SnapCfg) outputConfig(runID, cpName string) syncer.RedisOutputConfig {
	pc := PipeCfg{BatchCount: 10, BatchBytes: 65536, BatchTicker: 10 * time.Millisecond, Keepalive: time.Second,
		CpTicker: time.Second, Resume: c.Resume, DBM: c.DBM, Filters: c.Filters}
	if c.Bisync {
		pc.Bisync, pc.Mode, pc.Parallelism = true, "sync", 1
		if c.BisyncMode != "" {
			pc.Mode = c.BisyncMode
		}
	}
	oc := pc.outputConfig(runID, cpName)
	oc.Redis.Version = c.TargetVersion
	oc.ReplayRdbParallel = c.Parallel
	oc.ReplayRdbEnableRestore = c.Restore
	oc.MaxProtoBulkLen = c.MaxBulk
	oc.KeyExists = "replace"
	if c.KeyExists != "" {
		oc.KeyExists = c.KeyExists
	}
	return oc
}

// valueToObj converts a logical value into the double's object (registry entry / expected value).
func valueToObj(v *rdbgen.Value) *simredis.Obj {
	o := &simredis.Obj{T: byte(v.Kind)}
	switch v.Kind {
	case rdbgen.KString:
		o.Str = v.Str
	case rdbgen.KList:
		o.List = v.List
	case rdbgen.KSet:
		o.Set = map[string]struct{}{}
		for _, m := range v.Set {
			o.Set[string(m)] = struct{}{}
		}
	case rdbgen.KZSet:
		o.ZSet = map[string]float64{}
		for _, m := range v.ZSet {
			o.ZSet[string(m.Member)] = m.Score
		}
	case rdbgen.KHash:
		o.Hash = map[string][]byte{}
		for _, f := range v.Hash {
			o.Hash[string(f.Field)] = f.Value
		}
	case rdbgen.KStream:
		sv := v.Stream
		st := simredis.NewStream()
		for _, e := range sv.Live() {
			st.Entries = append(st.Entries, simredis.StreamEntry{ID: simredis.SID{Ms: e.ID.Ms, Seq: e.ID.Seq}, Fields: e.Fields})
		}
		st.LastID = simredis.SID{Ms: sv.LastID.Ms, Seq: sv.LastID.Seq}
		st.MaxDeletedID = simredis.SID{Ms: sv.MaxDeletedID.Ms, Seq: sv.MaxDeletedID.Seq}
		st.EntriesAdded = int64(sv.EntriesAdded)
		for _, g := range sv.Groups {
			sg := st.AddGroup(string(g.Name), simredis.SID{Ms: g.LastID.Ms, Seq: g.LastID.Seq})
			sg.EntriesRead = int64(g.EntriesRead)
			owner := map[rdbgen.StreamID]string{}
			for _, c := range g.Consumers {
				sg.Consumers[string(c.Name)] = &simredis.StreamConsumer{Name: string(c.Name), SeenTime: c.SeenTime}
				for _, id := range c.Pending {
					owner[id] = string(c.Name)
				}
			}
			for _, p := range g.PEL {
				sg.PEL[simredis.SID{Ms: p.ID.Ms, Seq: p.ID.Seq}] = &simredis.StreamNack{Consumer: owner[p.ID], DeliveryTime: p.DeliveryTime, DeliveryCount: int64(p.DeliveryCount)}
			}
		}
		o.Stream = st
	}
	return o
}

// SnapSim is one snapshot replay under the simulator.
type SnapSim struct {
	r      *Run
	prop   string
	cfg    SnapCfg
	ds     *rdbgen.Dataset
	rdb    []byte
	info   *rdbgen.Info
	srv    *simredis.Server
	runID  string
	cpName string

	bodyOf map[*rdbgen.Key][]byte

	// hooks of the harnesses built on top (C20, C04)
	skipKey    func(id string) bool           // snapshot keys ("db/name" on the target) exempt from compare()
	extraOK    func(db int, name string) bool // target keys that are allowed although no snapshot key maps to them
	note       func(id string) string         // appended to the replay path named in signatures
	feedSrc    []byte                         // bytes actually fed (default: the whole snapshot)
	feedErr    error                          // if set: the reader fails with it once feedSrc is exhausted
	onStep     func() (stop bool)             // called at every quiescent point of run()
	stuckLimit time.Duration                  // virtual time run() waits for a silent Send (default 120 s)
	panicked   any                            // a panic that escaped Send
	feedEnd    bool                           // the source ends (feedErr, or io.EOF if nil) once feedSrc is exhausted
	quiet      bool                           // violation() builds the value without logging it (used as a completeness probe)
	greedy     bool                           // run() takes no scheduling decisions: execute what is pending (in bursts), else feed everything
	coarse     bool                           // signatures name the replay path only, not the value's encoding (C20)
	errAt      int                            // >0: the errAt-th request of the replay is answered errText (C04); see stepInject
	errText    string
	errHit     bool // the error was really answered
	reqCount   int

	// the run loop's view (C04): RedisInput.Run asks the output for its start point before every round and runs the
	// next round on the SAME output object; preStart asks before Send, ro is kept for the question after it
	preStart bool
	preSP    syncer.StartPoint
	preErr   error
	ro       *syncer.RedisOutput

	pipe   *feedPipe
	fed    int
	cancel context.CancelFunc
	mu     sync.Mutex
	done   bool
	err    error
	t0     time.Time
}

func NewSnapSim(r *Run, prop string, cfg SnapCfg, ds *rdbgen.Dataset) *SnapSim {
	ss := &SnapSim{r: r, prop: prop, cfg: cfg, ds: ds}
	ss.rdb, ss.info = rdbgen.Encode(ds, rdbgen.EncodeOpts{})
	ss.srv = simredis.NewServer(simTargetAddr)
	ss.srv.Lenient = false
	ss.srv.Version = cfg.TargetVersion
	ss.bodyOf = map[*rdbgen.Key][]byte{}
	for _, ki := range ss.info.Keys {
		ss.srv.Register(ki.Body, valueToObj(ki.Key.Val))
		ss.bodyOf[ki.Key] = ki.Body
	}
	r.Net.Listen(simTargetAddr, ss.srv)
	ss.runID = "5f3c0a9e1b2d4c6f8a7b9c0d1e2f3a4b5c6d7e8f"
	ss.cpName = "redis-gunyu-checkpoint-sim"
	if cfg.Bisync {
		ss.cpName = "redis-gunyu-checkpoint-bisync:5a5a5a5a5a5a5a5a5a5a5a5a"
	}
	ss.feedSrc = ss.rdb
	for name := range ss.info.Stats {
		if strings.HasPrefix(name, "len") || name == "str-raw" {
			continue
		}
		r.W.Probe("enc:" + name)
	}
	return ss
}

func (ss *SnapSim) isDone() (bool, error) {
	ss.mu.Lock()
	defer ss.mu.Unlock()
	return ss.done, ss.err
}

// start launches the real output's Send on the snapshot reader. Package-level knobs of the
// repository (pipe size, chunk threshold) are set for this run; restore() puts them back.
func (ss *SnapSim) start() (restore func()) {
	oldPipe := config.RdbPipeSize
	config.RdbPipeSize = ss.cfg.PipeSize
	oldChunk := rdb.VerifMaxBinEntryBuffer()
	if ss.cfg.ChunkAt > 0 {
		rdb.VerifSetMaxBinEntryBuffer(ss.cfg.ChunkAt)
	}
	restore = func() {
		config.RdbPipeSize = oldPipe
		rdb.VerifSetMaxBinEntryBuffer(oldChunk)
	}
	ctx, cancel := context.WithCancel(context.Background())
	ss.cancel = cancel
	ss.r.Net.SetTag(1)
	ro := syncer.NewRedisOutput(ss.cfg.outputConfig(ss.runID, ss.cpName))
	ss.ro = ro
	ss.pipe = newFeedPipe()
	rd := &stubReader{left: ss.cfg.Left, size: int64(len(ss.rdb)), runID: ss.runID, aof: false, pipe: ss.pipe}
	rd.br = bufio.NewReaderSize(ss.pipe, ss.cfg.BufSize)
	ss.t0 = time.Now()
	go func() {
		var err error
		defer func() {
			x := recover()
			ss.mu.Lock()
			if x != nil {
				ss.panicked = x
				err = fmt.Errorf("panic escaped Send: %v", x)
			}
			ss.done, ss.err = true, err
			ss.mu.Unlock()
		}()
		if ss.preStart {
			ss.preSP, ss.preErr = ro.StartPoint(ctx, []string{ss.runID})
		}
		err = ro.Send(ctx, rd)
	}()
	return restore
}

// again: the same snapshot is replayed once more on the SAME output object (RedisInput.Run, after a round that failed,
// calls the output again with a reader on the cached snapshot). Call after the first Send has returned.
func (ss *SnapSim) again() {
	ctx, cancel := context.WithCancel(context.Background())
	ss.cancel = cancel
	ss.r.Net.SetTag(2)
	ss.pipe = newFeedPipe()
	rd := &stubReader{left: ss.cfg.Left, size: int64(len(ss.rdb)), runID: ss.runID, aof: false, pipe: ss.pipe}
	rd.br = bufio.NewReaderSize(ss.pipe, ss.cfg.BufSize)
	ss.mu.Lock()
	ss.done, ss.err = false, nil
	ss.mu.Unlock()
	ss.fed = 0
	ro := ss.ro
	ss.r.Logf("second replay of the snapshot on the same output object")
	go func() {
		var err error
		defer func() {
			x := recover()
			ss.mu.Lock()
			if x != nil {
				ss.panicked = x
				err = fmt.Errorf("panic escaped Send: %v", x)
			}
			ss.done, ss.err = true, err
			ss.mu.Unlock()
		}()
		err = ro.Send(ctx, rd)
	}()
}

func (ss *SnapSim) remaining() int { return len(ss.feedSrc) - ss.fed }

func (ss *SnapSim) feed(n int) {
	if n > ss.remaining() {
		n = ss.remaining()
	}
	// log first, then apply: the tool's reaction may log (connections closed) and must come after
	ss.r.Logf("feed %d bytes -> %d/%d", n, ss.fed+n, len(ss.feedSrc))
	ends := ss.fed+n == len(ss.feedSrc) && (ss.feedErr != nil || ss.feedEnd)
	if ends {
		ss.r.Logf("source ends: %v", ss.feedErr)
	}
	ss.pipe.Feed(ss.feedSrc[ss.fed : ss.fed+n])
	ss.fed += n
	if ends {
		ss.pipe.CloseWith(ss.feedErr)
	}
}

func (ss *SnapSim) chooseFeed() int {
	c := ss.r.Sched()
	rem := ss.remaining()
	nextKeyEnd := func(k int) int {
		cnt := 0
		for _, ki := range ss.info.Keys {
			if ki.End > ss.fed {
				cnt++
				if cnt == k {
					return ki.End - ss.fed
				}
			}
		}
		return rem
	}
	var n int
	switch c.Weighted("feedkind", []int{5, 2, 2, 3, 2, 1}) {
	case 0:
		n = rem
	case 1:
		n = 1
	case 2:
		n = 1 + c.Choose("feedsmall", 64)
	case 3:
		n = nextKeyEnd(1 + c.Choose("feedkeys", 8))
	case 4:
		n = 1 + c.Choose("feedmid", 4096)
	default:
		n = nextKeyEnd(1) - 1
	}
	if n < 1 {
		n = 1
	}
	if n > rem {
		n = rem
	}
	return n
}

// Connections of the parallel replay workers are dialled concurrently: which worker got which
// connection id is decided by the Go runtime, not by the simulator, so neither a scheduling decision
// nor a log line may depend on it. Sessions are therefore anonymous (id 0) and grouped into classes by
// the exact bytes of their oldest pending request; classes are ordered by those bytes; an exec action
// executes that request on every session of the class (identical requests on different connections
// commute). Requests on the same key always come from the same worker, so a class with more than one
// member only ever holds connection-local requests (PING, SELECT ...).
type sessClass struct {
	key  string
	name string
	sess []*simredis.Session
}

func (ss *SnapSim) readyClasses() []*sessClass {
	byKey := map[string]*sessClass{}
	for _, s := range ss.srv.Sessions {
		s.Conn.ID = 0
	}
	for _, s := range ss.srv.Ready() {
		pend := s.Conn.Pending()
		args, n, ok, err := resp.ParseRequest(pend)
		key := "?"
		name := "?"
		if err == nil && ok {
			key = string(pend[:n])
			if len(args) > 0 {
				name = strings.ToLower(string(args[0]))
			}
			if s.InMulti && name == "exec" {
				// what an EXEC does depends on what the connection has queued: part of the class identity
				for _, q := range s.Queue {
					key += "\x00" + string(resp.EncodeCommand(q...))
				}
			}
		}
		cl := byKey[key]
		if cl == nil {
			cl = &sessClass{key: key, name: name}
			byKey[key] = cl
		}
		cl.sess = append(cl.sess, s)
	}
	out := make([]*sessClass, 0, len(byKey))
	for _, cl := range byKey {
		out = append(out, cl)
	}
	sort.Slice(out, func(i, j int) bool { return out[i].key < out[j].key })
	for _, cl := range out {
		// members in a canonical order too: selected database, requests served, the rest of their input
		ss := cl.sess
		sort.SliceStable(ss, func(i, j int) bool {
			a, b := ss[i], ss[j]
			if a.DB != b.DB {
				return a.DB < b.DB
			}
			if a.NReq != b.NReq {
				return a.NReq < b.NReq
			}
			return string(a.Conn.Pending()) < string(b.Conn.Pending())
		})
	}
	return out
}

// An exec action executes its requests first and releases the replies afterwards: the tool's reaction
// (which may log: connections being closed or dialled) must not interleave with the log lines of the
// requests still to be executed in the same action. The members of a class are NOT interchangeable for
// the tool (each belongs to another replay worker), only for the target; executing all of them before
// any reply is released makes the outcome independent of their order.
func (ss *SnapSim) execClass(cl *sessClass) {
	ss.srv.AutoDeliver = false
	// fault injection: if the request to fail is one of this class, every member is failed: which member
	// belongs to which replay worker is not observable, failing one of several identical requests would
	// make the outcome depend on the Go scheduler
	inject := ss.errAt > ss.reqCount && ss.errAt <= ss.reqCount+len(cl.sess)
	ss.reqCount += len(cl.sess)
	for _, s := range cl.sess {
		ss.stepInject(s, inject)
	}
	ss.srv.AutoDeliver = true
	for _, s := range cl.sess {
		ss.srv.DeliverOutbox(s)
	}
}

// stepInject executes the oldest request of s; with inject the target answers errText instead.
func (ss *SnapSim) stepInject(s *simredis.Session, inject bool) {
	if !inject {
		ss.srv.Step(s)
		return
	}
	ss.r.W.Fault("target-error")
	ss.errHit = true
	old := ss.srv.Intercept
	ss.srv.Intercept = func(*simredis.Session, string, [][]byte) *resp.Value {
		v := resp.Err(ss.errText)
		return &v
	}
	ss.srv.Step(s)
	ss.srv.Intercept = old
}

func (ss *SnapSim) execN(s *simredis.Session, n int) {
	ss.srv.AutoDeliver = false
	for i := 0; i < n; i++ {
		ss.reqCount++
		ss.stepInject(s, ss.reqCount == ss.errAt)
	}
	ss.srv.AutoDeliver = true
	ss.srv.DeliverOutbox(s)
}

// drainPending executes everything that is pending, in canonical order.
func (ss *SnapSim) drainPending(max int) {
	for guard := 0; guard < max; guard++ {
		ss.r.Settle()
		cls := ss.readyClasses()
		if len(cls) == 0 {
			return
		}
		ss.execClass(cls[0])
	}
}

// pendingUpTo counts the complete requests waiting on a session, up to max (a damaged snapshot can make
// the tool pipeline tens of thousands of requests: counting them all at every step would be quadratic).
func pendingUpTo(s *simredis.Session, max int) int {
	buf := s.Conn.Pending()
	n := 0
	for n < max {
		_, m, ok, err := resp.ParseRequest(buf)
		if !ok || err != nil {
			break
		}
		n++
		buf = buf[m:]
	}
	return n
}

// run drives the replay to completion. Returns false when the step cap was hit.
func (ss *SnapSim) run() bool {
	r := ss.r
	stuck := time.Duration(0)
	// settleThenBegin: the reaction to the previous action must be over before the next step's salt
	// (order of ready select cases inside the tool) is published, otherwise a goroutine that reaches a
	// select late would see the next step's salt
	settleThenBegin := func() bool { r.Settle(); return r.BeginStep() }
	for settleThenBegin() {
		r.Settle()
		if d, _ := ss.isDone(); d {
			return true
		}
		if ss.onStep != nil && ss.onStep() {
			return true
		}
		if ss.greedy {
			if cls := ss.readyClasses(); len(cls) > 0 {
				if n := pendingUpTo(cls[0].sess[0], 160); len(cls[0].sess) == 1 && n > 1 {
					r.Logf("greedy: burst of %d %s...", n, cls[0].name)
					ss.execN(cls[0].sess[0], n)
				} else {
					r.Logf("greedy: exec %s x%d", cls[0].name, len(cls[0].sess))
					ss.execClass(cls[0])
				}
				stuck = 0
				continue
			}
			if ss.remaining() > 0 {
				// one record at a time: the tool is not confluent when an entry and a cancellation (parse
				// error further on) reach a worker in the same reaction
				n := ss.remaining()
				for _, ki := range ss.info.Keys {
					if ki.Start > ss.fed {
						n = ki.Start - ss.fed
						break
					}
					if ki.End > ss.fed {
						n = ki.End - ss.fed
						break
					}
				}
				ss.feed(n)
				stuck = 0
				continue
			}
		}
		var acts []pipeAction
		for _, cl := range ss.readyClasses() {
			cl := cl
			acts = append(acts, pipeAction{fmt.Sprintf("exec %s x%d", cl.name, len(cl.sess)), 10, func() { ss.execClass(cl) }})
			if pending := pendingUpTo(cl.sess[0], 160); len(cl.sess) == 1 && pending > 1 {
				s := cl.sess[0]
				// pending is counted now, at quiescence: what the client sends while the burst is executed
				// belongs to later steps
				acts = append(acts, pipeAction{fmt.Sprintf("execmany %s", cl.name), 6, func() {
					k := 2 + r.Sched().Choose("execmany", 150)
					if k > pending {
						k = pending
					}
					r.Logf("burst of %d", k)
					ss.execN(s, k)
				}})
			}
		}
		if ss.remaining() > 0 {
			acts = append(acts, pipeAction{"feed", 8, func() { ss.feed(ss.chooseFeed()) }})
		}
		if ss.cfg.Latency && (len(acts) > 0) {
			acts = append(acts, pipeAction{"idle", 2, func() {
				d := []time.Duration{time.Millisecond, 7 * time.Millisecond, 50 * time.Millisecond, time.Second, 5 * time.Second}[r.Sched().Biased("idledur", 5, 1, 2)]
				r.Logf("idle %v", d)
				r.Advance(d)
			}})
		}
		if len(acts) == 0 {
			// everything fed, nothing pending, Send still running: only timers can move it
			limit := ss.stuckLimit
			if limit == 0 {
				limit = 120 * time.Second
			}
			if stuck >= limit {
				return true
			}
			stuck += 100 * time.Millisecond
			r.Logf("tick 100ms (nothing else enabled)")
			r.Advance(100 * time.Millisecond)
			continue
		}
		w := make([]int, len(acts))
		for i, a := range acts {
			w[i] = a.weight
		}
		a := acts[r.Sched().Weighted("act", w)]
		r.Logf("step %d: %s", r.W.Step(), a.label)
		a.do()
		stuck = 0
	}
	return false
}

func (ss *SnapSim) shutdown() {
	ss.cancel()
	ss.pipe.CloseWith(nil)
	for i := 0; i < 200; i++ {
		ss.r.Settle()
		if d, _ := ss.isDone(); d {
			break
		}
		if cls := ss.readyClasses(); len(cls) > 0 {
			ss.execClass(cls[0])
			continue
		}
		ss.r.Advance(50 * time.Millisecond)
	}
	for _, s := range ss.srv.Sessions {
		if !s.Dead {
			ss.srv.KillSession(s, 0)
		}
	}
	ss.r.Settle()
}

var reDigits = regexp.MustCompile(`[0-9]+`)
var reQuoted = regexp.MustCompile(`'[^']*'|"[^"]*"`)

// errClass reduces an error text to a coarse, stable class: words only, no data.
func errClass(s string) string {
	if i := strings.IndexByte(s, '\n'); i >= 0 {
		s = s[:i]
	}
	for _, cut := range []string{"([", ", stack(", " : key("} {
		if i := strings.Index(s, cut); i >= 0 {
			s = s[:i]
		}
	}
	s = reQuoted.ReplaceAllString(s, "…")
	s = reDigits.ReplaceAllString(s, "N")
	s = strings.Map(func(r rune) rune {
		if r < 0x20 || r > 0x7e && r != '…' {
			return -1
		}
		return r
	}, s)
	if len(s) > 80 {
		s = s[:80]
	}
	return strings.TrimSpace(s)
}

func (ss *SnapSim) violation(rule, sig, format string, a ...any) *Violation {
	if strings.HasPrefix(rule, "C03.") && ss.prop != "C03" {
		rule = ss.prop + rule[3:] // the snapshot comparison shared with C20/C04 reports under their id
	}
	v := &Violation{Property: ss.prop, Rule: rule, Sig: sig, Msg: fmt.Sprintf(format, a...)}
	if !ss.quiet {
		ss.r.Logf("VIOLATION %s: %s", rule, v.Msg)
	}
	return v
}

func encFlags(k *rdbgen.Key) string {
	var fl []string
	if k.Enc.ZlUnknownLen {
		fl = append(fl, "ziplist length field 0xFFFF")
	}
	if k.Enc.ZlBigPrevMod > 0 {
		fl = append(fl, "5-byte prevlen entries")
	}
	if k.Enc.ZmUnknownLen {
		fl = append(fl, "zipmap count 254")
	}
	if len(k.Enc.NodeSizes) > 1 {
		fl = append(fl, fmt.Sprintf("%d nodes", len(k.Enc.NodeSizes)))
	}
	if k.Enc.PlainNodes {
		fl = append(fl, "plain nodes")
	}
	if k.Enc.Type == rdbgen.TSetIntset {
		fl = append(fl, fmt.Sprintf("intset width %d", k.Enc.IntsetWidth))
	}
	if len(fl) == 0 {
		return ""
	}
	return " [" + strings.Join(fl, ", ") + "]"
}

// feature names the input feature of a key that a signature mentions: the container encoding, plus the
// "unknown length" header variant for ziplists.
func (ss *SnapSim) feature(k *rdbgen.Key, path string) string {
	if ss.coarse {
		return "via " + path
	}
	f := rdbgen.TypeName(k.Enc.Type)
	if k.Enc.ZlUnknownLen {
		f = "ziplist whose length field is 0xFFFF"
	} else if k.Val.Kind == rdbgen.KStream {
		f = "stream"
	}
	return f + " via " + path
}

// offBy2p24 reports an element that differs from the expected one by exactly 2^24 (and nothing else
// of the value differing in another way): the observable symptom of a 24-bit integer losing its sign.
func offBy2p24(want, got *simredis.Obj) string {
	diff := func(a, b []byte) (bool, bool) { // (equal, off by 2^24)
		if bytes.Equal(a, b) {
			return true, false
		}
		var x, y int64
		if _, err := fmt.Sscanf(string(a), "%d", &x); err != nil {
			return false, false
		}
		if _, err := fmt.Sscanf(string(b), "%d", &y); err != nil {
			return false, false
		}
		return false, y-x == 1<<24 && fmt.Sprint(x) == string(a) && fmt.Sprint(y) == string(b)
	}
	switch want.T {
	case 'l':
		if len(want.List) != len(got.List) {
			return ""
		}
		msg := ""
		for i := range want.List {
			eq, off := diff(want.List[i], got.List[i])
			if !eq && !off {
				return ""
			}
			if off && msg == "" {
				msg = fmt.Sprintf("element %d: snapshot %s, target %s", i, want.List[i], got.List[i])
			}
		}
		return msg
	case 'h':
		// fields and values may both be affected: match the target's fields against the snapshot's
		if len(want.Hash) != len(got.Hash) {
			return ""
		}
		msg := ""
		for _, f := range sortedKeys(want.Hash) {
			v := want.Hash[f]
			gv, ok := got.Hash[f]
			gf := f
			if !ok {
				var x int64
				if _, err := fmt.Sscanf(f, "%d", &x); err != nil || fmt.Sprint(x) != f {
					return ""
				}
				gf = fmt.Sprint(x + 1<<24)
				if gv, ok = got.Hash[gf]; !ok {
					return ""
				}
				msg = fmt.Sprintf("field: snapshot %s, target %s", f, gf)
			}
			eq, off := diff(v, gv)
			if !eq && !off {
				return ""
			}
			if off && msg == "" {
				msg = fmt.Sprintf("field %q: snapshot value %s, target value %s", f, v, gv)
			}
		}
		return msg
	case 'z':
		if len(want.ZSet) != len(got.ZSet) {
			return ""
		}
		msg := ""
		for _, m := range sortedKeys(want.ZSet) {
			sc := want.ZSet[m]
			g, ok := got.ZSet[m]
			gm := m
			if !ok {
				var x int64
				if _, err := fmt.Sscanf(m, "%d", &x); err != nil || fmt.Sprint(x) != m {
					return ""
				}
				gm = fmt.Sprint(x + 1<<24)
				if g, ok = got.ZSet[gm]; !ok {
					return ""
				}
				msg = fmt.Sprintf("member: snapshot %s, target %s", m, gm)
			}
			if g != sc {
				if g-sc != 1<<24 {
					return ""
				}
				if msg == "" {
					msg = fmt.Sprintf("member %q: snapshot score %v, target score %v", m, sc, g)
				}
			}
		}
		return msg
	}
	return ""
}

func objElems(o *simredis.Obj) int {
	switch o.T {
	case 'l':
		return len(o.List)
	case 'S':
		return len(o.Set)
	case 'z':
		return len(o.ZSet)
	case 'h':
		return len(o.Hash)
	case 'x':
		return len(o.Stream.Entries)
	}
	return 1
}

func firstDiff(a, b string) string {
	i := 0
	for i < len(a) && i < len(b) && a[i] == b[i] {
		i++
	}
	lo := i - 60
	if lo < 0 {
		lo = 0
	}
	cut := func(s string) string {
		hi := i + 100
		if hi > len(s) {
			hi = len(s)
		}
		if lo > len(s) {
			return ""
		}
		return s[lo:hi]
	}
	return fmt.Sprintf("first difference at canonical offset %d: expected …%s… got …%s…", i, cut(a), cut(b))
}

// payloadCheck: every RESTORE the target accepted carries exactly the encoder's serialization of that
// key's value, followed by a version the target accepts and the CRC64 of everything before it; every
// RESTORE the target refused was refused for a reason the property allows (value type unknown to an
// older target), not because the payload was wrong.
func (ss *SnapSim) payloadCheck() *Violation {
	type dk struct {
		db  int
		key string
	}
	exp := map[dk]*rdbgen.KeyInfo{}
	for _, ki := range ss.info.Keys {
		exp[dk{ss.cfg.mapDB(ki.Key.DB), string(ki.Key.Name)}] = ki
	}
	for _, rec := range ss.srv.Restores {
		ki := exp[dk{rec.DB, string(rec.Key)}]
		if ki == nil {
			return ss.violation("C03.payload", "RESTORE for a key the snapshot does not contain", "target db %d: RESTORE %q — no such key in the snapshot", rec.DB, rec.Key)
		}
		p := rec.Payload
		body := p[:len(p)-10]
		if !bytes.Equal(body, ki.Body) {
			return ss.violation("C03.payload", "RESTORE payload is not the value's serialization ("+rdbgen.TypeName(ki.Key.Enc.Type)+")",
				"key %s: RESTORE payload body (%d bytes) differs from the snapshot's serialization (%d bytes): %s", ki.Key.Describe(), len(body), len(ki.Body), firstDiff(fmt.Sprintf("%x", ki.Body), fmt.Sprintf("%x", body)))
		}
		ver := int(binary.LittleEndian.Uint16(p[len(p)-10:]))
		crc := binary.LittleEndian.Uint64(p[len(p)-8:])
		if ver < 1 || ver > ss.srv.RDBVersion() || crc != rdbgen.CRC64(0, p[:len(p)-8]) {
			return ss.violation("C03.payload", "RESTORE footer invalid", "key %s: footer version %d (target reads <= %d) crc %x (expected %x)", ki.Key.Describe(), ver, ss.srv.RDBVersion(), crc, rdbgen.CRC64(0, p[:len(p)-8]))
		}
	}
	for _, e := range ss.srv.Log {
		if e.Name != "restore" || !e.IsErr || len(e.Args) < 3 {
			continue
		}
		ki := exp[dk{e.DB, string(e.Args[0])}]
		switch {
		case strings.Contains(e.Reply, "DUMP payload version or checksum"):
			return ss.violation("C03.payload", "RESTORE footer refused by the target", "target refused %s: %s", e.String(), e.Reply)
		case strings.Contains(e.Reply, "Bad data format"):
			p := e.Args[2]
			if ki == nil || len(p) < 10 || !bytes.Equal(p[:len(p)-10], ki.Body) {
				name := "?"
				if ki != nil {
					name = ki.Key.Describe()
				}
				return ss.violation("C03.payload", "RESTORE payload is not the value's serialization (refused by the target)", "key %s: target refused the payload as bad data and it is not the snapshot's serialization of that key", name)
			}
			simrt.Probe("restore-unsupported-type-fallback")
		}
	}
	return nil
}

// compare checks the target keyspace against the logical dataset. elapsed = virtual time that passed
// while Send was running (the only latency a relative TTL can pick up), now = instant of the check.
func (ss *SnapSim) compare(elapsed time.Duration, tEnd int64) *Violation {
	restored := map[string]bool{}
	for _, rec := range ss.srv.Restores {
		restored[fmt.Sprintf("%d/%s", rec.DB, rec.Key)] = true
	}
	refused := map[string]bool{} // RESTORE answered "Bad data format" (value type unknown to the target)
	for _, e := range ss.srv.Log {
		if e.Name == "restore" && e.IsErr && len(e.Args) > 0 && strings.Contains(e.Reply, "Bad data format") {
			refused[fmt.Sprintf("%d/%s", e.DB, e.Args[0])] = true
		}
	}
	expKeys := map[string]bool{}
	L := elapsed.Milliseconds()
	for _, k := range ss.ds.Keys {
		tdb := ss.cfg.mapDB(k.DB)
		id := fmt.Sprintf("%d/%s", tdb, k.Name)
		expKeys[id] = true
		if ss.skipKey != nil && ss.skipKey(id) {
			continue
		}
		path := "native commands"
		if restored[id] {
			path = "RESTORE"
		}
		enc := rdbgen.TypeName(k.Enc.Type)
		o := ss.srv.Get(tdb, string(k.Name))
		E := k.ExpireAt
		if o == nil {
			if E != 0 && E <= tEnd+1 {
				continue // legitimately expired
			}
			return ss.violation("C03.missing", "key missing on target ("+ss.feature(k, path)+")", "key %s%s (source db %d -> target db %d) is not on the target after the replay completed (expiry %d, now %d)", k.Describe(), encFlags(k), k.DB, tdb, E, tEnd+1)
		}
		if o.T != byte(k.Val.Kind) {
			return ss.violation("C03.type", "type differs ("+enc+" via "+path+")", "key %s%s: target type %s, snapshot type %s", k.Describe(), encFlags(k), o.TypeName(), k.Val.Kind)
		}
		if refused[id] {
			path = "native commands after the target refused the RESTORE payload's value type"
		}
		if ss.note != nil {
			path += ss.note(id)
		}
		how := path
		if ss.cfg.ChunkAt > 0 && k.Enc.Type == rdbgen.THash && len(ss.bodyOf[k]) > ss.cfg.ChunkAt {
			how += ", value replayed in several chunks"
		}
		if E != 0 && o.ExpireAt == 0 {
			return ss.violation("C03.expiry", "expiry lost (via "+how+")", "key %s%s: snapshot expiry %d (replay started at %d, check at %d), the target key has no expiry and holds %d of %d elements", k.Describe(), encFlags(k), E, tEnd-L, tEnd+1, objElems(o), k.Val.Elems())
		}
		if E != 0 && E <= tEnd-L {
			return ss.violation("C03.expired_present", "key already past its expiry is present on the target (via "+how+")", "key %s: source expiry %d was already past when the replay started (%d) but the key exists on the target (expiry %d, %d of %d elements)", k.Describe(), E, tEnd-L, o.ExpireAt, objElems(o), k.Val.Elems())
		}
		if E != 0 && E > tEnd-L && E <= tEnd+1 && o.ExpireAt >= E && o.ExpireAt <= E+L+2 { // +2: L is whole milliseconds
			// the key's expiry passed WHILE the snapshot was being replayed (virtual latency between the chunks of
			// one value): the part replayed before it is gone, the part replayed after it re-created the key with a
			// relative TTL, i.e. an expiry within the tolerated shift (+0..L, see the expiry rule below). For a client
			// the key is gone or about to go, as on the source; its momentary content is not judged.
			simrt.Probe("c03_expired_during_replay")
			continue
		}
		want := valueToObj(k.Val).Canon()
		got := o.Canon()
		if want != got {
			feat := ss.feature(k, path)
			if d := offBy2p24(valueToObj(k.Val), o); d != "" {
				feat = "an integer element differs by exactly 2^24; ziplist-encoded value via " + path
				return ss.violation("C03.content", "content differs ("+feat+")", "key %s%s via %s: %s", k.Describe(), encFlags(k), path, d)
			}
			return ss.violation("C03.content", "content differs ("+feat+")", "key %s%s via %s: %d of %d elements on the target; %s", k.Describe(), encFlags(k), path, objElems(o), k.Val.Elems(), firstDiff(want, got))
		}
		switch {
		case E == 0 && o.ExpireAt != 0:
			return ss.violation("C03.expiry", "expiry invented (via "+path+")", "key %s: snapshot has no expiry, target expires at %d", k.Describe(), o.ExpireAt)
		case E != 0 && (o.ExpireAt < E || o.ExpireAt > E+L):
			return ss.violation("C03.expiry", "expiry shifted (via "+path+")", "key %s: snapshot expiry %d, target expiry %d (allowed: +0..%d ms of scheduler latency)", k.Describe(), E, o.ExpireAt, L)
		}
	}
	// entries without a key: function libraries (a target of version 7+ takes them by FUNCTION RESTORE) and the
	// scripts of an old snapshot's "lua" aux fields (SCRIPT LOAD)
	// (not judged under output filters: the rules of C10 speak of commands and keys; what the key rules do to an entry
	// without a key is a by-product noted in DESIGN §7.4)
	keyless := !ss.cfg.Bisync && ss.cfg.Filters == nil
	if ss.srv.VerAtLeast(7, 0) && keyless {
		for i, body := range ss.info.Functions {
			found := false
			for _, got := range ss.srv.Functions {
				if bytes.Equal(got, body) {
					found = true
				}
			}
			if !found {
				return ss.violation("C03.missing", "function library missing on target", "function library #%d of the snapshot (%d bytes serialized) was not loaded by the target (FUNCTION RESTORE accepted for %d of %d libraries)", i, len(body), len(ss.srv.Functions), len(ss.info.Functions))
			}
		}
	}
	if keyless {
		for _, a := range ss.ds.TailAux {
			if string(a.Key) != "lua" {
				continue
			}
			loaded := false
			for _, src := range ss.srv.Scripts {
				if src == string(a.Val) {
					loaded = true
				}
			}
			if !loaded {
				return ss.violation("C03.missing", "script of a lua aux field missing on target", "the script of the snapshot's \"lua\" aux field (%q) was not loaded by the target", a.Val)
			}
		}
	}
	for db := 0; db < ss.srv.NumDB; db++ {
		for _, name := range ss.srv.Keys(db) {
			if simredis.IsReservedKey([]byte(name)) {
				continue
			}
			if !expKeys[fmt.Sprintf("%d/%s", db, name)] && !(ss.extraOK != nil && ss.extraOK(db, name)) {
				return ss.violation("C03.extra", "key on target that the snapshot does not contain", "target db %d holds key %q (%s) which no snapshot key maps to", db, name, ss.srv.Get(db, name).TypeName())
			}
		}
	}
	return nil
}

// suspect names the first snapshot key (file order) that did not reach the target: with one replay
// worker that is the entry the replay failed on (a hint for the reader, not part of the verdict).
func (ss *SnapSim) suspect() string {
	for _, k := range ss.ds.Keys {
		if k.ExpireAt != 0 && k.ExpireAt <= time.Now().UnixMilli() {
			continue
		}
		if ss.srv.Get(ss.cfg.mapDB(k.DB), string(k.Name)) == nil {
			return fmt.Sprintf(" — first snapshot key (file order) absent from the target: %s%s", k.Describe(), encFlags(k))
		}
	}
	return ""
}

// failClass: coarse class of a failed replay, from the first error reply of the target if any.
func (ss *SnapSim) failClass(err error) string {
	for _, e := range ss.srv.Log {
		if e.IsErr && !strings.Contains(e.Reply, "BUSYKEY") && !strings.Contains(e.Reply, "Bad data format") {
			return "target answered '" + errClass(e.Reply) + "' to " + e.Name
		}
	}
	return errClass(err.Error())
}

func runC03(r *Run, stratum string) *Violation {
	g := r.Gen()
	cfg, o := genSnapCfg(g, stratum)
	o.NowMs = time.Now().UnixMilli()
	ds := rdbgen.Gen(g, o)
	ss := NewSnapSim(r, "C03", cfg, ds)
	// in a third of the runs some snapshot keys already exist on the target (a full sync carried out a second time):
	// under the default replace policy the target still has to end with exactly the snapshot's value (the three
	// policies themselves are C20's subject)
	var preDesc []string
	if len(ds.Keys) > 0 && g.Choose("c03pre", 3) == 0 {
		seen := map[string]bool{}
		for i := 0; i < 1+g.Choose("c03npre", 6); i++ {
			k := ds.Keys[g.Choose("prekey", len(ds.Keys))]
			tdb := cfg.mapDB(k.DB)
			id := fmt.Sprintf("%d/%s", tdb, k.Name)
			if seen[id] || simredis.IsReservedKey(k.Name) {
				continue
			}
			seen[id] = true
			ov, how := oldValue(g, k, o.NowMs)
			ss.srv.DBs[tdb][string(k.Name)] = ov
			preDesc = append(preDesc, fmt.Sprintf("%s (%s)", id, how))
		}
		if len(preDesc) > 0 {
			simrt.Probe("pre-existing-keys")
			ss.note = func(id string) string {
				if seen[id] {
					return "; key pre-existed on the target"
				}
				return ""
			}
		}
	}
	r.Sample = fmt.Sprintf("cfg{%s} snapshot{%d bytes; %s}", cfg, len(ss.rdb), ds.Summary(10))
	if len(preDesc) > 0 {
		r.Sample += fmt.Sprintf(" pre-existing{%s}", strings.Join(preDesc, "; "))
	}
	r.Logf("C03 %s cfg %s rdb=%d bytes crc=%x keys=%d pre=%v", stratum, cfg, len(ss.rdb), ss.info.CRC, len(ds.Keys), preDesc)
	chunked := false
	if cfg.ChunkAt > 0 {
		for _, ki := range ss.info.Keys {
			if ki.Key.Enc.Type == rdbgen.THash && len(ki.Body) > cfg.ChunkAt+16 {
				chunked = true
			}
		}
	}
	if chunked {
		simrt.Probe("value-above-chunk-threshold")
	}
	restore := ss.start()
	defer restore()
	finished := ss.run()
	done, err := ss.isDone()
	tEnd := time.Now()
	elapsed := tEnd.Sub(ss.t0)
	var v *Violation
	switch {
	case !finished:
		ss.shutdown()
		Inconc("step cap reached before the snapshot replay ended")
	case !done:
		v = ss.violation("C03.hang", "Send does not return although the whole snapshot was fed and the target answered everything",
			"fed %d/%d bytes, target idle, 120 s of virtual time passed and Send has not returned", ss.fed, len(ss.rdb))
	case err != nil:
		v = ss.violation("C03.failed", "replay failed without any fault: "+ss.failClass(err), "Send returned an error in a fault-free run: %v%s", strings.SplitN(err.Error(), "\n", 2)[0], ss.suspect())
	}
	if v == nil {
		// drain whatever is still pending (nothing should be), let 1 ms pass: a key that was already past
		// its expiry is written with the smallest relative TTL and must be gone now
		ss.drainPending(10000)
		r.Advance(time.Millisecond)
		v = ss.payloadCheck()
		if v == nil {
			v = ss.compare(elapsed, tEnd.UnixMilli())
		}
		if len(ss.srv.Restores) > 0 {
			simrt.Probe("path-restore")
		}
		nExpand := 0
		for _, e := range ss.srv.Log {
			switch e.Name {
			case "rpush", "sadd", "zadd", "hset", "xadd", "set":
				nExpand++
			}
		}
		if nExpand > 0 {
			simrt.Probe("path-native-commands")
		}
	}
	r.NonTriv = len(ds.Keys) >= 1 && done
	ss.shutdown()
	keys := sort.SearchInts([]int{1, 6, 26}, len(ds.Keys)+1)
	simrt.Probe(fmt.Sprintf("keys-class-%d", keys))
	return v
}
