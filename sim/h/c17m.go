package h

import (
	"context"
	"fmt"

	"github.com/mgtv-tech/redis-GunYu/config"
	"github.com/mgtv-tech/redis-GunYu/pkg/redis/checkpoint"
	"github.com/mgtv-tech/redis-GunYu/pkg/redis/client"
	"github.com/mgtv-tech/redis-GunYu/syncer"

	"verifsim/simrt"
)

// C17, clause "switching the bidirectional recovery format": the bookkeeping of a bidirectional link lives in a
// namespace whose recovery format belongs to the replay mode family (sync: per-slot latest records; pipeline/parallel:
// frontier snapshot + commit journal). Starting the link in a mode of the other family migrates the namespace
// (syncer.resolveBisyncCheckpointNameWithClient): seed a new namespace from the old recovery state, repoint the
// checkpoint index, clean the old one up. Stopping after ANY prefix of its target requests must leave a state from
// which the next start (resolution again, UpdateCheckpoint, StartPoint in the new mode) resumes at a position not
// smaller than the one a start in the old mode would have found.
//
// The initial state is produced by the real replay: a short bidirectional run in the old mode (with crashes), i.e.
// latest records / snapshot / journals exactly as the tool leaves them.
func runC17ModeSwitch(r *Run, stratum string) *Violation { return runModeSwitch(r, "C17") }

// runModeSwitch: the same run reports under C17 (maintenance keeps the live resume position) or, as a stratum of C14,
// under C14 (stopping and starting again never moves the resume point backwards).
func runModeSwitch(r *Run, prop string) *Violation {
	g := r.Gen()
	modes := []string{"sync", "pipeline", "parallel"}
	from := modes[g.Choose("from", 3)]
	var to string
	if from == "sync" {
		to = modes[1+g.Choose("to", 2)]
	} else {
		to = "sync"
		if g.Choose("samefamily", 5) == 0 { // in-place switch inside one family
			to = map[string]string{"pipeline": "parallel", "parallel": "pipeline"}[from]
		}
	}
	cfg := bisyncCfg(g, from)
	if g.Choose("failoverbias", 2) == 1 {
		cfg.FailoverBias = 7 // half of the histories include a fail-over of the source (+CONTINUE) before the switch
	}
	o := StreamOpts{MaxItems: 4 + g.Choose("items", 14), StartDB: 0, NoUnknown: true, OnlyDB0: true, TxnHeavy: g.Choose("txnheavy", 2) == 0}
	if cfg.FailoverBias > 0 {
		o.MaxItems += 12
	}
	st := GenStream(g, o)
	ps, _ := runBisyncSim(r, prop, cfg, st, 1+g.Choose("ncrashes", 3), -1)
	r.ResetSteps()
	c := &c17sim{r: r, srv: ps.srv, prop: prop}
	ids := []string{ps.runID}
	if ps.prevID != "" { // the run included a fail-over: the source reports both ids
		ids = ps.ids()
		simrt.Probe("c17_modeswitch_after_failover")
	}
	slots := []uint16{0}
	// the tool pins the namespace to its mode when it creates it, before anything is replayed: the marker is there
	// a namespace written by an older release carries no mode field and the tool infers it from what it finds: drawn for
	// the sync format only, whose per-slot latest records identify it; a pipeline/parallel namespace that has not
	// flushed a frontier yet cannot be told from an empty one (the inference answers "unknown", by design)
	withMarker := !(from == "sync" && g.Choose("legacyns", 3) == 0)
	if _, err := c.runOp("plant index", func(ctx context.Context) error {
		cli, e := client.NewRedis(targetRedisCfg())
		if e != nil {
			return e
		}
		defer cli.Close()
		if e = checkpoint.SetCheckpointHash(cli, ps.runID, ps.cpName); e != nil {
			return e
		}
		if withMarker {
			return checkpoint.SaveBisyncNamespaceMode(cli, ps.cpName, checkpoint.BisyncModeFromReplayMode(config.ReplayMode(from)))
		}
		return nil
	}, -1); err != nil {
		Inconc("planting the checkpoint index failed: %v", err)
	}
	initial := c.srv.CloneDBs()

	// start in mode m with namespace name: the tool's UpdateCheckpoint + StartPoint
	startIn := func(mode, name string) (int64, error) {
		var off int64
		_, err := c.runOp("start("+mode+")", func(ctx context.Context) error {
			cli, e := client.NewRedis(targetRedisCfg())
			if e != nil {
				return e
			}
			if e = checkpoint.UpdateCheckpoint(cli, name, ids); e != nil {
				cli.Close()
				return e
			}
			cli.Close()
			pc := cfg
			pc.Mode = mode
			ro := syncer.NewRedisOutput(pc.outputConfig(ps.runID, name))
			sp, e := ro.StartPoint(ctx, ids)
			if e != nil {
				return e
			}
			off = sp.Offset
			if sp.IsInitial() || !sp.IsValid() {
				off = -1
			}
			return nil
		}, -1)
		return off, err
	}
	resolve := func(mode string, crashAfter int) (string, int, error) {
		var name string
		n, err := c.runOp("resolve("+mode+")", func(ctx context.Context) error {
			cli, e := client.NewRedis(targetRedisCfg())
			if e != nil {
				return e
			}
			defer cli.Close()
			name, e = syncer.VerifResolveBisyncCheckpointName(cli, ids, config.ReplayMode(mode), slots)
			return e
		}, crashAfter)
		return name, n, err
	}

	before, err := startIn(from, ps.cpName)
	if err != nil {
		Inconc("start in the old mode failed on the generated state: %v", err)
	}
	c.srv.RestoreDBs(initial)
	r.Sample = fmt.Sprintf("modeswitch %s -> %s (mode marker stored: %v) position before=%d state: %s", from, to, withMarker, before, describeKeyspace(c.srv))
	r.Logf("C17 %s", r.Sample)

	name, n, err := resolve(to, -1)
	refused := err != nil
	if refused {
		// a refusal (e.g. the old namespace holds nothing but the plain checkpoint: the repository's own suite pins
		// "rejects plain checkpoint fallback") is not a loss: the link keeps running in the old mode. What must hold
		// is that the refused switch, stopped anywhere, leaves the old mode's position intact.
		r.Logf("switch %s -> %s refused: %v", from, to, err)
		simrt.Probe("c17_modeswitch_refused")
	}
	check := func(k int, name string) {
		if c.viol != nil {
			return
		}
		if refused {
			after, err := startIn(from, ps.cpName)
			if err != nil {
				c.setViolation("C17.start_failed", "next start fails on the intermediate state", "refused recovery format switch %s -> %s stopped after %d of %d requests: the next start in the old mode failed: %v; state: %s", from, to, k, n, err, describeKeyspace(c.srv))
			} else if before >= 0 && after < before {
				c.setViolation("C17.position_lost", "next start finds a smaller or no position", "refused recovery format switch %s -> %s stopped after %d of %d requests: the next start in the old mode resumes at %d, before the attempt it resumed at %d; state: %s", from, to, k, n, after, before, describeKeyspace(c.srv))
			}
			return
		}
		after, err := startIn(to, name)
		if err != nil {
			c.setViolation("C17.start_failed", "next start fails on the intermediate state", "recovery format switch %s -> %s stopped after %d of %d requests: the next start failed: %v; state: %s", from, to, k, n, err, describeKeyspace(c.srv))
			return
		}
		if before >= 0 && after < before {
			c.setViolation("C17.position_lost", "next start finds a smaller or no position", "recovery format switch %s -> %s stopped after %d of %d requests: the next start (mode %s) resumes at %d, a start in mode %s before the switch resumed at %d; state after restart: %s", from, to, k, n, to, after, from, before, describeKeyspace(c.srv))
		}
	}
	check(n, name)
	r.Evals = 1
	if n > 150 {
		n = 150
	}
	for k := 0; k < n && c.viol == nil; k++ {
		c.srv.RestoreDBs(initial)
		resolve(to, k)
		// next start: the resolution runs again (to completion), then UpdateCheckpoint + StartPoint
		nm, _, err := resolve(to, -1)
		if err != nil && refused {
			check(k, "")
			r.Evals++
			continue
		}
		if err != nil {
			c.setViolation("C17.start_failed", "next start fails on the intermediate state", "recovery format switch %s -> %s stopped after %d requests: resolving the namespace again failed: %v; state: %s", from, to, k, err, describeKeyspace(c.srv))
			break
		}
		check(k, nm)
		r.Evals++
	}
	r.NonTriv = before >= 0
	for _, ss := range c.srv.Sessions {
		if !ss.Dead {
			c.srv.KillSession(ss, 0)
		}
	}
	r.Settle()
	return c.viol
}
