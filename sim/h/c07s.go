package h

import (
	"context"
	"fmt"
	"strconv"
	"strings"
	"time"

	"github.com/mgtv-tech/redis-GunYu/syncer"

	"verifsim/simredis"
)

// C07, clause "a restart never replaces a good position by a smaller or undefined one" for the restart that follows a
// source fail-over: RedisOutput.SetRunId (what RedisInput.syncMeta calls on every connection) moves the stored position
// to the new replication id with checkpoint.UpdateCheckpoint, retrying up to three times inside the call. One target
// connection is reset after the k-th request of the move (every k), the tool carries on (retry, then a second call as
// the next connection attempt would make): every resume offset written to the target from then on, under whatever id,
// must be the good position or greater — never -1, never smaller.
func runC07Switch(r *Run, stratum string) *Violation {
	g := r.Gen()
	c := &c17sim{r: r}
	c.srv = simredis.NewServer(simTargetAddr)
	r.Net.Listen(simTargetAddr, c.srv)
	now := time.Now()
	oldID := hexID(g.Bytes("oldid", 20))
	newID := hexID(g.Bytes("newid", 20))
	if newID == oldID {
		newID = hexID([]byte("another-id-another-id"))
	}
	local := "redis-gunyu-checkpoint"
	ndb := 1 + g.Choose("ndb", 4)
	for db := 0; db < ndb; db++ {
		c.srv.SetString(db, fmt.Sprintf("biz%d", db), "v")
	}
	good := int64(1000 + g.Choose("good", 100000))
	holder := g.Choose("holder", ndb)
	c.plantCheckpoint(holder, local, oldID, good, now.Add(-time.Duration(g.Choose("age", 3600))*time.Second))
	for db := 0; db < ndb; db++ { // older positions of the same id in other databases
		if db != holder && g.Choose("older", 2) == 0 {
			c.plantCheckpoint(db, local, oldID, good-int64(1+g.Choose("less", 900)), now.Add(-2*time.Hour))
		}
	}
	c.plantIndex(oldID, local)
	initial := c.srv.CloneDBs()
	cfgOut := PipeCfg{Resume: true, DBM: DBMap{TargetDb: -1}, BatchCount: 10, BatchBytes: 1024, BatchTicker: time.Second, Keepalive: time.Second, CpTicker: time.Second}.outputConfig(oldID, local)
	r.Sample = fmt.Sprintf("runid-switch old=%s.. new=%s.. position %d held by db %d of %d; state: %s", oldID[:6], newID[:6], good, holder, ndb, describeKeyspace(c.srv))

	// written offsets, read from the target's request log
	logPos := 0
	scan := func(k int) {
		for ; logPos < len(c.srv.Log); logPos++ {
			e := c.srv.Log[logPos]
			if e.IsErr || e.Name != "hset" || len(e.Args) < 3 || string(e.Args[0]) != local {
				continue
			}
			for i := 1; i+1 < len(e.Args); i += 2 {
				if !strings.HasSuffix(string(e.Args[i]), "_offset") {
					continue
				}
				v, err := strconv.ParseInt(string(e.Args[i+1]), 10, 64)
				if err != nil || v < good {
					rule, sig := "C07.decrease", "a restart after a fail-over stored a smaller position"
					if err != nil || v < 0 {
						rule, sig = "C07.undefined", "a restart after a fail-over replaced a good position by the undefined one"
					}
					c.setViolation(rule, sig, "position %d was stored for id %s..; the move to id %s.. (connection reset after request %d of the move, the tool retried) wrote %s = %s in db %d; state: %s", good, oldID[:6], newID[:6], k, e.Args[i], e.Args[i+1], e.DB, describeKeyspace(c.srv))
					c.viol.Property = "C07"
					return
				}
			}
		}
	}
	finish := func() *Violation {
		r.NonTriv = true
		for _, ss := range c.srv.Sessions {
			if !ss.Dead {
				c.srv.KillSession(ss, 0)
			}
		}
		r.Settle()
		return c.viol
	}
	call := func(ctx context.Context, ro *syncer.RedisOutput) error { return ro.SetRunId(ctx, newID) }
	move := func(resetAfter int) (int, error) {
		ro := syncer.NewRedisOutput(cfgOut)
		ctx, cancel := context.WithCancel(context.Background())
		defer cancel()
		done := make(chan error, 1)
		start := c.srv.Stats.Requests
		go func() { done <- call(ctx, ro) }()
		reset := false
		for i := 0; i < 100000; i++ {
			r.Settle()
			select {
			case err := <-done:
				return c.srv.Stats.Requests - start, err
			default:
			}
			if resetAfter >= 0 && !reset && c.srv.Stats.Requests-start >= resetAfter {
				reset = true
				r.W.Fault("conn_reset")
				for _, ss := range c.srv.Sessions {
					if !ss.Dead {
						c.srv.KillSession(ss, 0)
					}
				}
				continue
			}
			if rd := c.srv.Ready(); len(rd) > 0 {
				c.srv.Step(rd[0])
				continue
			}
			r.Advance(500 * time.Millisecond)
		}
		Inconc("SetRunId did not end")
		return 0, nil
	}
	// first: the source answers the reconnect with a full resync under the id the tool already follows (its backlog no
	// longer reaches the stored position): RedisInput calls ResetRunId with that id. Until the new snapshot is replayed
	// completely the stored position is all the target has - whatever the call writes must not be smaller or undefined
	call = func(ctx context.Context, ro *syncer.RedisOutput) error { return ro.ResetRunId(ctx, oldID) }
	if _, err := move(-1); err != nil && c.viol == nil {
		c.setViolation("C07.switch_failed", "a full resync under the followed replication id fails on a healthy target", "ResetRunId(%s..) failed: %v", oldID[:6], err)
		c.viol.Property = "C07"
	}
	scan(-2)
	if c.viol != nil {
		c.viol.Msg = "[full resync under the SAME replication id: ResetRunId(" + oldID[:6] + "..)] " + c.viol.Msg
	}
	if c.viol == nil {
		if off, _, found, serr := c.nextStart(local, []string{oldID, strings.Repeat("0", 40)}); serr != nil || !found || off < good {
			c.setViolation("C07.undefined", "a full resync under the followed replication id replaced a good position by a smaller or undefined one", "position %d was stored for id %s..; after ResetRunId with the same id the next start reads position %d (found=%v, err=%v); state: %s", good, oldID[:6], off, found, serr, describeKeyspace(c.srv))
			c.viol.Property = "C07"
		}
	}
	call = func(ctx context.Context, ro *syncer.RedisOutput) error { return ro.SetRunId(ctx, newID) }
	c.srv.RestoreDBs(initial)
	logPos = len(c.srv.Log)
	if c.viol != nil {
		return finish()
	}
	n, err := move(-1)
	scan(-1)
	if err != nil && c.viol == nil {
		c.setViolation("C07.switch_failed", "the move to the new replication id fails on a healthy target", "SetRunId(%s..) failed: %v", newID[:6], err)
		c.viol.Property = "C07"
	}
	if c.viol == nil {
		// the round goes on under the new id: the incremental sender stores a later position (run id, version and
		// offset, in the database it works in - no modification time), then the tool is restarted
		good2 := good + int64(1+g.Choose("progress", 5000))
		fields := map[string]string{}
		if h := c.srv.Get(holder, local); h != nil {
			for k, v := range h.Hash {
				fields[k] = string(v)
			}
		}
		fields[newID+"_runid"], fields[newID+"_version"], fields[newID+"_offset"] = newID, "1", strconv.FormatInt(good2, 10)
		c.srv.SetHash(holder, local, fields)
		off, _, found, serr := c.nextStart(local, []string{newID, oldID})
		if serr != nil || !found || off < good2 {
			c.setViolation("C07.decrease", "the restart after a fail-over and further progress resumes from an earlier position", "position %d was stored for id %s..; after the move to id %s.. the sender stored %d under the new id; the next start reads position %d (found=%v, err=%v); state: %s", good, oldID[:6], newID[:6], good2, off, found, serr, describeKeyspace(c.srv))
			c.viol.Property = "C07"
		}
	}
	r.Evals = 1
	for k := 0; k < n && k < 120 && c.viol == nil; k++ {
		c.srv.RestoreDBs(initial)
		logPos = len(c.srv.Log)
		move(k)
		scan(k)
		if c.viol != nil {
			break
		}
		move(-1) // the next connection attempt calls SetRunId again
		scan(k)
		// what the next start reads
		off, _, found, serr := c.nextStart(local, []string{newID, oldID})
		scan(k)
		if c.viol == nil && (serr != nil || !found || off < good) {
			c.setViolation("C07.undefined", "a restart after a fail-over replaced a good position by the undefined one", "position %d was stored for id %s..; after a connection reset at request %d of the move and the retries the next start reads position %d (found=%v, err=%v); state: %s", good, oldID[:6], k, off, found, serr, describeKeyspace(c.srv))
			c.viol.Property = "C07"
		}
		r.Evals++
	}
	return finish()
}
