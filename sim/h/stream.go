package h

import (
	"bytes"
	"fmt"
	"strconv"
	"strings"

	"verifsim/resp"
	"verifsim/simrt"
)

// ---------------------------------------------------------------- replication stream generator

type ItemKind int

const (
	KCmd ItemKind = iota
	KSelect
	KMulti
	KExec
	KPing
	KGetAck
	KSentinel
	KAdmin // blacklisted administrative command
)

// Item is one command of the generated replication stream with its ground truth.
type Item struct {
	Idx   int
	Raw   []byte
	Start int64 // absolute offset before the item
	End   int64 // absolute offset after the item
	Name  string
	Args  [][]byte
	Kind  ItemKind
	SrcDB int // source database in force when the item executes (for KSelect: the new one)
	Txn   int // source transaction id (0 = none); MULTI/EXEC carry the id too
}

type Stream struct {
	Base  int64
	Items []Item
	Bytes []byte
	// Boundaries: set of offsets at which an item ends (plus Base).
	Boundaries map[int64]int // offset -> index of the item ending there (-1 for Base)
}

// Expected is one command the target must execute according to the reference removal model.
type Expected struct {
	Src  int // index of the source item
	DB   int
	Name string
	Args [][]byte
	Txn  int
}

type StreamOpts struct {
	MaxItems       int
	StartDB        int  // source db in force at Base (-1: unknown => generator emits SELECT first)
	TxnHeavy       bool // >= 40% of items inside transactions
	TxnInnerSelect bool // some transactions switch the database in their body
	SelectHeavy    bool
	HugeInTxn      bool // one transaction of the stream carries a command whose encoding exceeds 1 MiB (the client's write buffer)
	Burst          bool // long runs of plain commands: database switches and transactions are rare (one item in ~300)
	BigArgs        bool
	Reserved       bool // include commands on reserved keys / bookkeeping traffic
	Filters        *FilterSpec
	NumDBs         int
	NoUnknown      bool          // only commands of the generator's key table (keys always determinable)
	VarKeyCmd      bool          // also VK.PICK, a target-only command whose key position varies (cluster doubles know it)
	OnlyDB0        bool          // SELECT only ever selects database 0 (bidirectional replay)
	KeyGen         func() []byte // optional key source (cluster harnesses control slots)
}

// FilterSpec is the harness' own description of the configured filters (also rendered into the tool's config).
type FilterSpec struct {
	CmdBlacklist []string
	DbBlacklist  []int
	PrefixBlack  []string
	PrefixWhite  []string
	SlotWhite    [][2]int
	SlotBlack    [][2]int
}

// adminCmds: the documented fixed blacklist of non-replayable commands (README / pkg docs: cluster, connection
// management, server administration). Written out here independently of pkg/filter.
var adminCmds = []string{"cluster", "asking", "readonly", "readwrite", "auth", "client", "quit", "reset", "echo",
	"command", "flushall", "flushdb", "latency", "module", "psync", "replconf", "save", "shutdown", "slaveof",
	"slowlog", "swapdb", "sync", "bgsave", "bgrewriteaof", "opinfo", "lastsave", "monitor", "role", "debug",
	"restore-asking", "migrate", "wait", "pfselftest", "pfdebug"}

// key-addressed commands the generator uses, with key positions from the Redis command reference:
// kp = "1" first arg; "all" every arg; "odd" args 0,2,4..; "12" first two.
type cmdShape struct {
	name    string
	kp      string
	minArgs int // number of non-key args after the key(s)
	maxArgs int
}

var keyCmds = []cmdShape{
	{"set", "1", 1, 1}, {"setnx", "1", 1, 1}, {"append", "1", 1, 1}, {"incr", "1", 0, 0}, {"decr", "1", 0, 0},
	{"getdel", "1", 0, 0}, {"setrange", "1", 2, 2}, {"hset", "1", 2, 6}, {"hdel", "1", 1, 3}, {"hsetnx", "1", 2, 2},
	{"hincrby", "1", 2, 2}, {"lpush", "1", 1, 4}, {"rpush", "1", 1, 4}, {"lpop", "1", 0, 0}, {"rpop", "1", 0, 0},
	{"lset", "1", 2, 2}, {"ltrim", "1", 2, 2}, {"lrem", "1", 2, 2}, {"sadd", "1", 1, 4}, {"srem", "1", 1, 3},
	{"spop", "1", 0, 0}, {"zadd", "1", 2, 4}, {"zrem", "1", 1, 3}, {"zincrby", "1", 2, 2}, {"expire", "1", 1, 1},
	{"pexpire", "1", 1, 1}, {"pexpireat", "1", 1, 1}, {"persist", "1", 0, 0}, {"psetex", "1", 2, 2}, {"setex", "1", 2, 2},
	{"del", "all", 0, 0}, {"unlink", "all", 0, 0}, {"mset", "odd", 0, 0}, {"rpoplpush", "12", 0, 0}, {"smove", "12", 1, 1},
	{"lmove", "12", 2, 2}, {"pfadd", "1", 1, 3}, {"xadd", "1", 3, 5}, {"xdel", "1", 1, 2}, {"restore", "1", 2, 3},
	// commands whose first argument is not a key: an operator, a subcommand, a script with a key count
	{"bitop", "bitop", 0, 0}, {"xgroup", "xgroup", 0, 0}, {"eval", "eval", 0, 2},
}

// names no Redis version or module defines (unknown to every key table)
var unknownCmds = []string{"foo.bar", "my.custom", "qq.fetch", "zz9", "cl.throttle", "vv.store", "x"}

type gen struct {
	c    *simrt.Chooser
	opts StreamOpts
	keys [][]byte
}

func (g *gen) arg(maxLen int) []byte {
	switch g.c.Weighted("argkind", []int{6, 2, 2, 1, 1}) {
	case 0:
		n := g.c.Choose("arglen", 12)
		b := g.c.Bytes("argb", n)
		for i := range b {
			b[i] = "abcdefghijklmnopqrstuvwxyz0123456789:{}-_"[int(b[i])%41]
		}
		return b
	case 1: // binary incl. CR LF NUL
		n := g.c.Choose("arglen", 24)
		return g.c.Bytes("argb", n)
	case 2: // number
		return []byte(strconv.Itoa(g.c.Choose("num", 100000) - 500))
	case 3:
		return []byte{}
	default:
		if !g.opts.BigArgs {
			n := 64 + g.c.Choose("arglen", 400)
			return g.c.Bytes("argb", n)
		}
		n := 1024 << g.c.Choose("argbig", 8) // 1 KiB .. 128 KiB
		n += g.c.Choose("argbigx", 1000)
		if n > maxLen {
			n = maxLen
		}
		return g.c.Bytes("argb", n)
	}
}

var braceShapes = []string{"{%s}x", "{%s}{b}", "{}{%s}", "a{%s", "}{%s", "{{%s}}", "x{%s}z{w}", "%s{}", "{%s}", "p:{%s}:q{r}s"}

func (g *gen) filterKey() []byte {
	c := g.c
	var k []byte
	switch c.Choose("fkeykind", 4) {
	case 0: // prefix from the configured lists + suffix
		f := g.opts.Filters
		var pool []string
		if f != nil {
			pool = append(pool, f.PrefixBlack...)
			pool = append(pool, f.PrefixWhite...)
		}
		if len(pool) > 0 {
			k = append(k, pool[c.Choose("fkeypfx", len(pool))]...)
			switch c.Choose("fkeycut", 6) {
			case 0:
				if len(k) > 1 {
					k = k[:len(k)-1] // just short of the prefix
				}
			case 1: // same length, one non-ASCII byte differs: must NOT match the prefix
				k = append([]byte(nil), k...)
				for i := range k {
					if k[i] >= 0x80 {
						k[i] ^= 0x01
						break
					}
				}
			}
		}
		k = append(k, g.arg(16)...)
	case 1: // brace arrangements
		tag := string(g.arg(8))
		k = []byte(fmt.Sprintf(braceShapes[c.Choose("brace", len(braceShapes))], tag))
	case 2: // reserved bookkeeping keys found in a source
		k = []byte([]string{"redis-gunyu-checkpoint", "redis-gunyu-checkpoint-hash", "redis-gunyu-checkpoint-x1", "/redis-gunyu/ns/a"}[c.Choose("resv", 4)])
	default:
		k = g.arg(24)
	}
	if len(k) == 0 {
		k = []byte("k")
	}
	return k
}

func (g *gen) key() []byte {
	if g.opts.KeyGen != nil {
		return g.opts.KeyGen()
	}
	if g.opts.Filters != nil && g.c.Choose("fkey", 4) > 0 {
		return g.filterKey()
	}
	if len(g.keys) > 0 && g.c.Choose("keyreuse", 3) > 0 {
		return g.keys[g.c.Choose("keyidx", len(g.keys))]
	}
	var k []byte
	for {
		k = g.arg(64)
		if len(k) == 0 {
			k = []byte("k")
		}
		if !reservedKey(k) {
			break
		}
	}
	if len(g.keys) < 12 {
		g.keys = append(g.keys, k)
	}
	return k
}

func reservedKey(k []byte) bool {
	for _, p := range []string{"redis-gunyu-checkpoint", "redis-gunyu-bisync:", "/redis-gunyu"} {
		if bytes.HasPrefix(k, []byte(p)) {
			return true
		}
	}
	return false
}

func randCase(c *simrt.Chooser, s string) string {
	switch c.Choose("case", 4) {
	case 0:
		return s
	case 1:
		return strings.ToUpper(s)
	case 2:
		b := []byte(s)
		for i := range b {
			if i%2 == 0 && b[i] >= 'a' && b[i] <= 'z' {
				b[i] -= 32
			}
		}
		return string(b)
	default:
		return strings.ToUpper(s[:1]) + s[1:]
	}
}

func (g *gen) businessCmd() (string, [][]byte) {
	if g.opts.VarKeyCmd && g.c.Choose("varkeycmd", 5) == 0 {
		// a command only the target knows (COMMAND GETKEYS), whose key sits at a different position from call to call
		pos := g.c.Choose("varkeypos", 3)
		args := [][]byte{[]byte(strconv.Itoa(pos)), []byte("ALPHA"), []byte("DESC"), []byte("LIMIT")}
		args[1+pos] = g.key()
		return randCase(g.c, "vk.pick"), args
	}
	if !g.opts.NoUnknown && g.c.Choose("unknowncmd", 6) == 0 {
		name := unknownCmds[g.c.Choose("ucmd", len(unknownCmds))]
		n := g.c.Choose("uargs", 4)
		var args [][]byte
		for i := 0; i < n; i++ {
			var a []byte
			for {
				a = g.arg(1 << 20)
				if !reservedKey(a) {
					break
				}
			}
			args = append(args, a)
		}
		return randCase(g.c, name), args
	}
	sh := keyCmds[g.c.Choose("kcmd", len(keyCmds))]
	var args [][]byte
	switch sh.kp {
	case "1":
		args = append(args, g.key())
	case "12":
		args = append(args, g.key(), g.key())
	case "all":
		n := 1 + g.c.Choose("nkeys", 4)
		if g.c.Choose("manykeys", 24) == 23 {
			n = 50 + g.c.Choose("manykeysn", 150) // bulk deletes: more keys than any fixed-width bookkeeping holds
		}
		for i := 0; i < n; i++ {
			args = append(args, g.key())
		}
	case "odd":
		n := 1 + g.c.Choose("nkeys", 3)
		lim := 1 << 20
		if g.c.Choose("manykeys", 24) == 23 {
			n, lim = 50+g.c.Choose("manykeysn", 150), 48
		}
		for i := 0; i < n; i++ {
			args = append(args, g.key(), g.arg(lim))
		}
	case "bitop": // BITOP <op> <dest> <src> [<src> ...]
		args = append(args, []byte([]string{"AND", "or", "XOR"}[g.c.Choose("bitopop", 3)]), g.key())
		for i := 1 + g.c.Choose("nkeys", 3); i > 0; i-- {
			args = append(args, g.key())
		}
	case "xgroup": // XGROUP <subcommand> <key> <group> ...
		switch g.c.Choose("xgroupsub", 4) {
		case 0:
			args = append(args, []byte("CREATE"), g.key(), []byte("grp"), []byte("$"), []byte("MKSTREAM"))
		case 1:
			args = append(args, []byte("setid"), g.key(), []byte("grp"), []byte("0-0"))
		case 2:
			args = append(args, []byte("DESTROY"), g.key(), []byte("grp"))
		default:
			args = append(args, []byte("createconsumer"), g.key(), []byte("grp"), []byte("c1"))
		}
	case "eval": // EVAL <script> <numkeys> <key> ... <arg> ...
		n := 1 + g.c.Choose("nkeys", 3)
		args = append(args, []byte("return redis.call('set', KEYS[1], 'x')"), []byte(strconv.Itoa(n)))
		for i := 0; i < n; i++ {
			args = append(args, g.key())
		}
	}
	n := sh.minArgs
	if sh.maxArgs > sh.minArgs {
		n += g.c.Choose("xargs", sh.maxArgs-sh.minArgs+1)
	}
	for i := 0; i < n; i++ {
		args = append(args, g.arg(1<<20))
	}
	return randCase(g.c, sh.name), args
}

// GenFilterSpec draws a filter configuration: any number of slot ranges in any order (overlapping, nested,
// adjacent, single-slot), prefix white/black lists (incl. prefixes of each other, binary), DB and command lists.
func GenFilterSpec(c *simrt.Chooser) *FilterSpec {
	f := &FilterSpec{}
	for i := c.Choose("ncmdblack", 3); i > 0; i-- {
		var nm string
		if c.Choose("cmdblackkind", 3) == 0 {
			nm = unknownCmds[c.Choose("cmdblacku", len(unknownCmds))]
		} else {
			nm = keyCmds[c.Choose("cmdblackk", len(keyCmds))].name
		}
		f.CmdBlacklist = append(f.CmdBlacklist, randCase(c, nm))
	}
	if c.Choose("cmdblackpair", 4) == 0 {
		// two blacklisted names of which one is a prefix of the other, the longer one listed first (or last)
		pairs := [][2]string{{"hsetnx", "hset"}, {"setnx", "set"}, {"setex", "set"}, {"pexpireat", "pexpire"}, {"rpoplpush", "rpop"}, {"setrange", "set"}}
		p := pairs[c.Choose("cmdpair", len(pairs))]
		if c.Choose("cmdpairorder", 3) == 0 {
			p[0], p[1] = p[1], p[0]
		}
		f.CmdBlacklist = append(f.CmdBlacklist, randCase(c, p[0]), randCase(c, p[1]))
	}
	for i := c.Choose("ndbblack", 3); i > 0; i-- {
		f.DbBlacklist = append(f.DbBlacklist, c.Choose("dbblack", 4))
	}
	pfx := []string{"a", "ab", "abc", "user:", "k", "{t}", "\xff\x00", "9", "x{", "p:"}
	for i := c.Choose("npfxblack", 4); i > 0; i-- {
		f.PrefixBlack = append(f.PrefixBlack, pfx[c.Choose("pfxb", len(pfx))])
	}
	if c.Choose("usewhite", 3) == 0 {
		for i := 1 + c.Choose("npfxwhite", 3); i > 0; i-- {
			f.PrefixWhite = append(f.PrefixWhite, pfx[c.Choose("pfxw", len(pfx))])
		}
	}
	ranges := func(label string) [][2]int {
		var out [][2]int
		n := c.Choose(label+"_n", 6)
		for i := 0; i < n; i++ {
			var lo, hi int
			switch c.Choose(label+"_kind", 5) {
			case 0: // wide
				lo = c.Choose(label+"_lo", 16384)
				hi = lo + c.Choose(label+"_w", 16384-lo)
			case 1: // single slot
				lo = c.Choose(label+"_lo", 16384)
				hi = lo
			case 2: // nested in / overlapping with a previous one
				if len(out) > 0 {
					p := out[c.Choose(label+"_prev", len(out))]
					lo = p[0] + c.Choose(label+"_in", p[1]-p[0]+1)
					hi = lo + c.Choose(label+"_w2", 4000)
				} else {
					lo, hi = 0, 16383
				}
			case 3: // adjacent to a previous one
				if len(out) > 0 {
					p := out[c.Choose(label+"_prev", len(out))]
					lo = p[1] + 1
					hi = lo + c.Choose(label+"_w3", 3000)
				} else {
					lo, hi = 100, 200
				}
			default:
				lo = c.Choose(label+"_lo", 16384)
				hi = lo + c.Choose(label+"_w4", 2000)
			}
			if hi > 16383 {
				hi = 16383
			}
			if lo > 16383 {
				lo = 16383
			}
			out = append(out, [2]int{lo, hi})
		}
		return out
	}
	switch c.Choose("slotmode", 4) {
	case 1:
		f.SlotWhite = ranges("sw")
	case 2:
		f.SlotBlack = ranges("sb")
	case 3:
		f.SlotWhite = ranges("sw")
		f.SlotBlack = ranges("sb")
	}
	return f
}

// GenStream draws a well-formed replication stream.
func GenStream(c *simrt.Chooser, o StreamOpts) *Stream {
	g := &gen{c: c, opts: o}
	if o.NumDBs == 0 {
		o.NumDBs = 16
	}
	st := &Stream{Boundaries: map[int64]int{}}
	st.Base = int64(c.Choose("base", 5)) * int64(c.Choose("base2", 100000))
	if c.Choose("base0", 4) == 0 {
		st.Base = 0
	}
	if o.StartDB >= 0 && st.Base == 0 {
		st.Base = 4096 // a stream that continues behind a stored position does not begin at offset 0
	}
	st.Boundaries[st.Base] = -1
	off := st.Base
	curDB := o.StartDB
	txnSeq := 0
	add := func(kind ItemKind, txn int, name string, args ...[]byte) {
		all := append([][]byte{[]byte(name)}, args...)
		raw := resp.EncodeCommand(all...)
		it := Item{Idx: len(st.Items), Raw: raw, Start: off, End: off + int64(len(raw)), Name: strings.ToLower(name), Args: args, Kind: kind, SrcDB: curDB, Txn: txn}
		off = it.End
		st.Items = append(st.Items, it)
		st.Bytes = append(st.Bytes, raw...)
		st.Boundaries[off] = it.Idx
	}
	selTxn := 0 // id of the transaction a SELECT is emitted in (0: outside)
	selectDB := func() {
		db := c.Choose("db", o.NumDBs)
		if c.Choose("dbsmall", 2) == 0 {
			db = c.Choose("db3", 3)
		}
		if o.OnlyDB0 {
			db = 0
		}
		curDB = db
		add(KSelect, selTxn, randCase(c, "select"), []byte(strconv.Itoa(db)))
	}
	n := 1 + c.Choose("nitems", o.MaxItems)
	if curDB < 0 {
		selectDB()
	}
	wSel, wTxn, wPing, wAck, wSent, wAdmin := 6, 6, 5, 3, 1, 3
	if o.TxnHeavy {
		wTxn = 40
	}
	if o.SelectHeavy {
		wSel = 25
	}
	wCmd := 60
	hugeDone := false
	if o.Burst {
		wCmd, wSel, wTxn = 600, 1, 1
	}
	for len(st.Items) < n {
		switch c.Weighted("itemkind", []int{wCmd, wSel, wTxn, wPing, wAck, wSent, wAdmin}) {
		case 0:
			nm, a := g.businessCmd()
			add(KCmd, 0, nm, a...)
		case 1:
			selectDB()
		case 2:
			// a master wraps a transaction in MULTI ... EXEC; a SELECT needed by it is emitted before MULTI.
			if c.Choose("txnsel", 4) == 0 {
				selectDB()
			}
			txnSeq++
			id := txnSeq
			add(KMulti, id, randCase(c, "multi"))
			ln := c.Choose("txnlen", 6)
			if c.Choose("txnlong", 6) == 0 {
				ln = 5 + c.Choose("txnlen2", 40)
			}
			for i := 0; i < ln; i++ {
				// a transaction (or script) that writes to two databases: the master emits the SELECT where the
				// database changes, inside the MULTI ... EXEC it propagates
				// (also directly behind MULTI: the shape Redis 7 gives a transaction that starts in another database)
				if o.TxnInnerSelect && !o.OnlyDB0 && c.Choose("txninnersel", 8) == 0 {
					selTxn = id
					selectDB()
					selTxn = 0
				}
				if o.HugeInTxn && !hugeDone && (i == ln-1 || c.Choose("hugehere", 3) == 0) {
					// a value larger than the RESP writer's buffer (1 MiB), with ordinary commands in front of and behind it
					hugeDone = true
					add(KCmd, id, randCase(c, "set"), g.arg(24), c.Bytes("argb", (1<<20)+1+c.Choose("hugelen", 600<<10)))
					continue
				}
				nm, a := g.businessCmd()
				add(KCmd, id, nm, a...)
			}
			add(KExec, id, randCase(c, "exec"))
		case 3:
			add(KPing, 0, randCase(c, "ping"))
		case 4:
			add(KGetAck, 0, randCase(c, "replconf"), []byte(randCase(c, "getack")), []byte("*"))
		case 5:
			add(KSentinel, 0, randCase(c, "publish"), []byte("__sentinel__:hello"), g.arg(200))
		case 6:
			nm := adminCmds[c.Choose("admin", len(adminCmds))]
			var a [][]byte
			for i := c.Choose("adminargs", 3); i > 0; i-- {
				a = append(a, g.arg(64))
			}
			if nm == "echo" && len(a) == 0 {
				a = append(a, []byte("x"))
			}
			add(KAdmin, 0, randCase(c, nm), a...)
		}
	}
	return st
}

// ItemEndingAt returns the index of the item that ends at off (-1 for Base), ok=false if off is no boundary.
func (st *Stream) ItemEndingAt(off int64) (int, bool) {
	i, ok := st.Boundaries[off]
	return i, ok
}

func (st *Stream) End() int64 { return st.Base + int64(len(st.Bytes)) }

// ---------------------------------------------------------------- reference removal model

type DBMap struct {
	TargetDb    int
	TargetDbMap map[int]int
}

func (m DBMap) Map(src int) int {
	if m.TargetDb != -1 {
		return m.TargetDb
	}
	if t, ok := m.TargetDbMap[src]; ok {
		return t
	}
	return src
}

// Reference computes, independently of the tool, the exact list of commands the target must execute
// for items[from:], given the source DB in force at that position.
func Reference(st *Stream, from int, dbm DBMap, f *FilterSpec) []Expected {
	var out []Expected
	admin := map[string]bool{}
	for _, a := range adminCmds {
		admin[a] = true
	}
	cmdBlack := map[string]bool{}
	dbBlack := map[int]bool{}
	if f != nil {
		for _, c := range f.CmdBlacklist {
			cmdBlack[strings.ToLower(c)] = true
		}
		for _, d := range f.DbBlacklist {
			dbBlack[d] = true
		}
	}
	for i := from; i < len(st.Items); i++ {
		it := st.Items[i]
		switch it.Kind {
		case KSelect, KMulti, KExec, KPing, KGetAck, KSentinel, KAdmin:
			continue
		}
		if dbBlack[it.SrcDB] {
			continue
		}
		if admin[it.Name] || cmdBlack[it.Name] {
			continue
		}
		args, drop := refKeyFilter(it.Name, it.Args, f)
		if drop {
			continue
		}
		out = append(out, Expected{Src: i, DB: dbm.Map(it.SrcDB), Name: it.Name, Args: args, Txn: it.Txn})
	}
	return out
}

// refKeyIdx: key positions of the generator's own table.
func refKeyIdx(name string, args [][]byte) ([]int, bool) {
	for _, sh := range keyCmds {
		if sh.name != name {
			continue
		}
		switch sh.kp {
		case "1":
			if len(args) >= 1 {
				return []int{0}, true
			}
		case "12":
			if len(args) >= 2 {
				return []int{0, 1}, true
			}
		case "all":
			idx := make([]int, len(args))
			for i := range args {
				idx[i] = i
			}
			return idx, len(idx) > 0
		case "odd":
			var idx []int
			for i := 0; i < len(args); i += 2 {
				idx = append(idx, i)
			}
			return idx, len(idx) > 0
		case "bitop": // the operator is no key
			var idx []int
			for i := 1; i < len(args); i++ {
				idx = append(idx, i)
			}
			return idx, len(idx) > 0
		case "xgroup": // the subcommand is no key
			if len(args) >= 2 {
				return []int{1}, true
			}
		case "eval": // script, key count, then that many keys
			if len(args) >= 2 {
				n, err := strconv.Atoi(string(args[1]))
				if err == nil && n > 0 && 2+n <= len(args) {
					idx := make([]int, n)
					for i := range idx {
						idx[i] = 2 + i
					}
					return idx, true
				}
			}
		}
		return nil, false
	}
	return nil, false
}

func keyRejected(k []byte, f *FilterSpec) bool {
	if reservedKey(k) && !bytes.HasPrefix(k, []byte("redis-gunyu-bisync:")) {
		return true
	}
	if f == nil {
		return false
	}
	for _, p := range f.PrefixBlack {
		if bytes.HasPrefix(k, []byte(p)) {
			return true
		}
	}
	if len(f.PrefixWhite) > 0 {
		ok := false
		for _, p := range f.PrefixWhite {
			if bytes.HasPrefix(k, []byte(p)) {
				ok = true
			}
		}
		if !ok {
			return true
		}
	}
	if len(f.SlotBlack) > 0 || len(f.SlotWhite) > 0 {
		s := HashSlot(k)
		for _, r := range f.SlotBlack {
			if s >= r[0] && s <= r[1] {
				return true
			}
		}
		if len(f.SlotWhite) > 0 {
			ok := false
			for _, r := range f.SlotWhite {
				if s >= r[0] && s <= r[1] {
					ok = true
				}
			}
			if !ok {
				return true
			}
		}
	}
	return false
}

func refKeyFilter(name string, args [][]byte, f *FilterSpec) ([][]byte, bool) {
	idx, ok := refKeyIdx(name, args)
	if !ok {
		return args, false
	}
	var keep []int
	rejected := 0
	for _, i := range idx {
		if keyRejected(args[i], f) {
			rejected++
		} else {
			keep = append(keep, i)
		}
	}
	if rejected == 0 {
		return args, false
	}
	if len(keep) == 0 {
		return nil, true
	}
	switch name {
	case "del", "unlink":
		var out [][]byte
		for _, i := range keep {
			out = append(out, args[i])
		}
		return out, false
	case "mset":
		var out [][]byte
		for _, i := range keep {
			out = append(out, args[i], args[i+1])
		}
		return out, false
	}
	return nil, true
}

// HashSlot is HASH_SLOT from the Redis Cluster specification: CRC16/XMODEM of the bytes between the first
// '{' and the first following '}' if that substring is non-empty, else of the whole key, mod 16384.
// Bitwise implementation, shares no code with the repository.
func HashSlot(key []byte) int {
	s := bytes.IndexByte(key, '{')
	if s >= 0 {
		e := bytes.IndexByte(key[s+1:], '}')
		if e > 0 {
			key = key[s+1 : s+1+e]
		}
	}
	var crc uint16
	for _, b := range key {
		crc ^= uint16(b) << 8
		for i := 0; i < 8; i++ {
			if crc&0x8000 != 0 {
				crc = crc<<1 ^ 0x1021
			} else {
				crc <<= 1
			}
		}
	}
	return int(crc % 16384)
}

func fmtCmd(name string, args [][]byte) string {
	var sb strings.Builder
	sb.WriteString(name)
	for _, a := range args {
		if len(a) > 40 {
			fmt.Fprintf(&sb, " %q..(%d)", a[:24], len(a))
		} else {
			fmt.Fprintf(&sb, " %q", a)
		}
	}
	return sb.String()
}

func argsEqual(a, b [][]byte) bool {
	if len(a) != len(b) {
		return false
	}
	for i := range a {
		if !bytes.Equal(a[i], b[i]) {
			return false
		}
	}
	return true
}
