package h

import (
	"fmt"
	"strconv"
	"strings"
	"time"

	"github.com/mgtv-tech/redis-GunYu/config"

	"verifsim/rdbgen"
	"verifsim/simrt"
)

// C01 — incremental replay applies every source write once, in order, in the right DB
// (fault-free: uninterrupted run, healthy target). DESIGN.md §3 C01.

func init() {
	Register(&PropertyDef{ID: "C01", Strata: []string{"mixed", "txnmode", "nontxn", "bigargs", "selectheavy", "txnheavy", "configured-out", "burst"}, Run: runC01, StepCap: 30000})
}

func c01Opts(r *Run, stratum string) (PipeCfg, StreamOpts) {
	g := r.Gen()
	txn := -1
	switch stratum {
	case "txnmode", "txnheavy":
		txn = 1
	case "nontxn":
		txn = 0
	}
	cfg := GenPipeCfg(g, txn, -1)
	max := 40
	if r.Tier == "thorough" {
		max = 300
	}
	o := StreamOpts{MaxItems: max, StartDB: -1}
	switch stratum {
	case "bigargs":
		o.BigArgs = true
		o.MaxItems = max / 2
	case "selectheavy":
		o.SelectHeavy = true
	case "txnheavy":
		o.TxnHeavy = true
	case "burst":
		// a burst: more commands than one exchange of the client usually carries arrive within one batch-ticker period
		// and the operator allows batches up to the configured maximum (200 commands): batches of 129..200 commands
		o.MaxItems = 150 + g.Choose("burstitems", 250)
		cfg.BatchCount = uint(129 + g.Choose("burstbatch", 72))
		cfg.BatchBytes = uint64(64<<10) << g.Choose("burstbytes", 5) // 64 KiB .. 1 MiB
		cfg.BatchTicker = tickerChoices[3+g.Choose("burstticker", 3)]
		cfg.Keepalive = tickerChoices[4+g.Choose("burstkeepalive", 3)] + 137*time.Microsecond
		cfg.CpTicker = tickerChoices[4+g.Choose("burstcp", 2)] + 271*time.Microsecond
		o.Burst = true
	case "configured-out":
		// "the documented removals (... administrative and configured-out commands)": command, database and key rules
		// as an operator configures them; what remains must still arrive complete and in order
		cfg.Filters = GenFilterSpec(g)
		o.Filters, o.NumDBs = cfg.Filters, 4
	}
	return cfg, o
}

func runC01(r *Run, stratum string) *Violation {
	cfg, o := c01Opts(r, stratum)
	return runReplayCheck(r, "C01", stratum, cfg, o)
}

// C10 — filters pass exactly the configured set. No schedule axis of its own (DESIGN.md §3 C10): decided inside
// fault-free replay runs of a filter-heavy stratum, end to end at the target log, against a direct evaluation of
// the configured rules (own prefix match, HASH_SLOT from the cluster specification, own key-position table).
func init() {
	Register(&PropertyDef{ID: "C10", Strata: []string{"filters", "filters-txn", "filters-slots", "snapshot"}, Run: runC10, StepCap: 30000})
}

// runC10Snapshot: the filters on the snapshot path. A full sync replays exactly the snapshot keys the key and database
// rules accept (same independent evaluator as the incremental strata); the accepted ones arrive as C03 demands.
func runC10Snapshot(r *Run) *Violation {
	g := r.Gen()
	base := []string{"restore", "expand", "chunked", "parallel"}[g.Choose("c10base", 4)]
	cfg, o := genSnapCfg(g, base)
	o.NowMs = time.Now().UnixMilli()
	if o.MaxKeys == 0 || o.MaxKeys > 40 {
		o.MaxKeys = 40
	}
	ds := rdbgen.Gen(g, o)
	// rules drawn from the dataset itself, so that each kind rejects some keys and accepts others
	f := &FilterSpec{}
	pick := func(label string) *rdbgen.Key { return ds.Keys[g.Choose(label, len(ds.Keys))] }
	prefixOf := func(k *rdbgen.Key) string {
		n := g.Choose("pfxlen", 4)
		if n > len(k.Name) {
			n = len(k.Name)
		}
		return string(k.Name[:n]) // may be empty: the empty prefix matches every key
	}
	if len(ds.Keys) > 0 {
		for i := g.Choose("npfxblack", 3); i > 0; i-- {
			if p := prefixOf(pick("pfxbkey")); p != "" {
				f.PrefixBlack = append(f.PrefixBlack, p)
			}
		}
		if g.Choose("usewhite", 3) == 0 {
			for i := 1 + g.Choose("npfxwhite", 3); i > 0; i-- {
				if p := prefixOf(pick("pfxwkey")); p != "" {
					f.PrefixWhite = append(f.PrefixWhite, p)
				}
			}
		}
		rng := func(label string) [2]int {
			s := HashSlot(pick(label + "key").Name)
			lo := s - g.Choose(label+"lo", 3)*g.Choose(label+"lospan", 3000)
			hi := s + g.Choose(label+"hi", 3)*g.Choose(label+"hispan", 3000)
			if lo < 0 {
				lo = 0
			}
			if hi > 16383 {
				hi = 16383
			}
			return [2]int{lo, hi}
		}
		for i := g.Choose("nslotblack", 3); i > 0; i-- {
			f.SlotBlack = append(f.SlotBlack, rng("slotb"))
		}
		if g.Choose("useslotwhite", 3) == 0 {
			for i := 1 + g.Choose("nslotwhite", 3); i > 0; i-- {
				f.SlotWhite = append(f.SlotWhite, rng("slotw"))
			}
		}
		for i := g.Choose("ndbblack", 3); i > 0; i-- {
			f.DbBlacklist = append(f.DbBlacklist, pick("dbbkey").DB)
		}
	}
	cfg.Filters = f
	ss := NewSnapSim(r, "C10", cfg, ds)
	dbBlack := map[int]bool{}
	for _, d := range f.DbBlacklist {
		dbBlack[d] = true
	}
	rejected := map[string]*rdbgen.Key{}
	accepted := 0
	for _, k := range ds.Keys {
		if dbBlack[k.DB] || keyRejected(k.Name, f) {
			rejected[fmt.Sprintf("%d/%s", cfg.mapDB(k.DB), k.Name)] = k
		} else {
			accepted++
		}
	}
	// a rejected key and an accepted key of another source database may map to the same target key
	for _, k := range ds.Keys {
		id := fmt.Sprintf("%d/%s", cfg.mapDB(k.DB), k.Name)
		if rk := rejected[id]; rk != nil && rk != k && !(dbBlack[k.DB] || keyRejected(k.Name, f)) {
			delete(rejected, id)
		}
	}
	ss.skipKey = func(id string) bool { return rejected[id] != nil }
	r.Sample = fmt.Sprintf("snapshot cfg{%s} filters{db=%v pblack=%q pwhite=%q sblack=%v swhite=%v} keys=%d rejected=%d", cfg, f.DbBlacklist, f.PrefixBlack, f.PrefixWhite, f.SlotBlack, f.SlotWhite, len(ds.Keys), len(rejected))
	r.Logf("C10 %s", r.Sample)
	restore := ss.start()
	defer restore()
	finished := ss.run()
	done, err := ss.isDone()
	tEnd := time.Now()
	elapsed := tEnd.Sub(ss.t0)
	var v *Violation
	switch {
	case !finished:
		ss.shutdown()
		Inconc("step cap reached before the snapshot replay ended")
	case !done:
		v = ss.violation("C10.hang", "snapshot replay with filters does not return", "fed %d/%d bytes, target idle, Send has not returned", ss.fed, len(ss.rdb))
	case err != nil:
		v = ss.violation("C10.failed", "snapshot replay with filters failed without any fault: "+ss.failClass(err), "Send returned an error in a fault-free run: %v%s", strings.SplitN(err.Error(), "\n", 2)[0], ss.suspect())
	}
	if v == nil {
		ss.drainPending(10000)
		r.Advance(time.Millisecond)
		for id, k := range rejected {
			if obj := ss.srv.Get(cfg.mapDB(k.DB), string(k.Name)); obj != nil {
				why := "key rules"
				if dbBlack[k.DB] {
					why = "database blacklist"
				}
				empty := ""
				if len(k.Name) == 0 {
					empty = ", empty key name"
				}
				v = ss.violation("C10.forwarded", "a snapshot key the filters reject reached the target ("+why+empty+")", "snapshot key %s (source db %d, slot %d) is rejected by the %s (%s) but exists on the target as %s (%s)", k.Describe(), k.DB, HashSlot(k.Name), why, r.Sample[strings.Index(r.Sample, "filters{"):], obj.TypeName(), id)
				break
			}
		}
		if v == nil {
			v = ss.compare(elapsed, tEnd.UnixMilli())
		}
	}
	r.NonTriv = done && len(rejected) > 0 && accepted > 0
	if len(rejected) > 0 {
		simrt.Probe("c10_snapshot_keys_rejected")
	}
	ss.shutdown()
	return v
}

func runC10(r *Run, stratum string) *Violation {
	if stratum == "snapshot" {
		return runC10Snapshot(r)
	}
	g := r.Gen()
	txn := -1
	if stratum == "filters-txn" {
		txn = 1
	}
	cfg := GenPipeCfg(g, txn, -1)
	cfg.Filters = GenFilterSpec(g)
	if stratum == "filters-slots" && len(cfg.Filters.SlotWhite) == 0 && len(cfg.Filters.SlotBlack) == 0 {
		cfg.Filters.SlotWhite = [][2]int{{0, 9000}, {100, 200}, {300, 400}}
	}
	max := 40
	if r.Tier == "thorough" {
		max = 200
	}
	o := StreamOpts{MaxItems: max, StartDB: -1, Filters: cfg.Filters, NumDBs: 4}
	return runReplayCheck(r, "C10", stratum, cfg, o)
}

func runReplayCheck(r *Run, prop, stratum string, cfg PipeCfg, o StreamOpts) *Violation {
	// a quarter of the runs CONTINUE a replay: the target already holds a resume position for this history (left by an
	// earlier run of the tool) in the database the source's last SELECT mapped to, and the stream goes on behind that
	// SELECT, in that source database, without repeating it. Nothing is interrupted from here on: a resumed start is
	// ordinary operation, the database rules and the database map apply to the commands in front of the next SELECT too.
	resumed := cfg.Resume && r.Gen().Choose("resumed-start", 4) == 0
	if resumed {
		nd := o.NumDBs
		if nd <= 0 {
			nd = 16
		}
		// the tool never stores a position inside a section of an excluded database (C02's state invariant): a
		// reachable resume state lies in a database the rules admit
		var ok []int
		for d := 0; d < nd; d++ {
			ex := false
			if cfg.Filters != nil {
				for _, b := range cfg.Filters.DbBlacklist {
					ex = ex || b == d
				}
			}
			if !ex {
				ok = append(ok, d)
			}
		}
		if len(ok) == 0 {
			resumed = false
		} else {
			o.StartDB = ok[r.Gen().Choose("resume-db", len(ok))]
		}
	}
	st := GenStream(r.Gen(), o)
	ps := NewPipeSim(r, prop, cfg, st)
	if resumed {
		ps.srv.SetHash(cfg.DBM.Map(o.StartDB), ps.cpName, map[string]string{
			ps.runID + "_runid": ps.runID, ps.runID + "_version": config.Version, ps.runID + "_offset": strconv.FormatInt(st.Base, 10)})
		simrt.Probe("resumed_start")
	}
	expected := Reference(st, 0, cfg.DBM, cfg.Filters)
	r.Sample = fmt.Sprintf("cfg{%s} stream{%s} expected=%d", cfg, describeStream(st, 12), len(expected))
	r.NonTriv = len(expected) >= 2
	r.Logf(prop+" %s cfg %s items=%d expected=%d", stratum, cfg, len(st.Items), len(expected))

	checked := 0
	check := func() {
		for ; checked < len(ps.biz); checked++ {
			b := ps.biz[checked]
			if checked >= len(expected) {
				ps.setViolation(prop+".invented", "target executed more than the stream contains", "target executed %s (db %d) beyond the %d expected commands", fmtCmd(b.Name, b.Args), b.DB, len(expected))
				return
			}
			e := expected[checked]
			if b.Name != e.Name || !argsEqual(b.Args, e.Args) {
				// classify
				kind := "altered_or_invented"
				for j, x := range expected {
					if x.Name == b.Name && argsEqual(x.Args, b.Args) {
						if j < checked {
							kind = "duplicated_or_reordered"
						} else {
							kind = "dropped_or_reordered"
						}
						break
					}
				}
				ps.setViolation(prop+".sequence", kind, "position %d: target executed [%s], expected [%s] (source item %d) — %s", checked, fmtCmd(b.Name, b.Args), fmtCmd(e.Name, e.Args), e.Src, kind)
				return
			}
			if b.DB != e.DB {
				ps.setViolation(prop+".db", "command executed in the wrong database", "position %d: [%s] executed in db %d, expected db %d (source db %d)", checked, fmtCmd(b.Name, b.Args), b.DB, e.DB, st.Items[e.Src].SrcDB)
				return
			}
		}
	}

	ps.startIncarnation()
	for r.BeginStep() {
		r.Settle()
		ps.absorb()
		check()
		if ps.viol != nil {
			break
		}
		ph := ps.inc.getPhase()
		if ph == 2 {
			ps.setViolation(prop+".ended", "replay ended although nothing failed", "Send/StartPoint returned during a fault-free run: spErr=%v sendErr=%v", ps.inc.spErr, ps.inc.sendErr)
			break
		}
		ready := ps.srv.Ready()
		if ph == 1 && ps.remaining() == 0 && len(ready) == 0 {
			break
		}
		acts := ps.healthyActions(true)
		a := ps.pick(acts)
		r.Logf("step %d: %s", r.W.Step(), a.label)
		a.do()
	}
	if ps.viol == nil {
		ps.drain(20, check, func() bool { return ps.viol != nil || len(ps.biz) >= len(expected) })
		r.Settle()
		ps.absorb()
		check()
		if ps.viol == nil && len(ps.biz) != len(expected) {
			e := expected[len(ps.biz)]
			ps.setViolation(prop+".dropped", "commands missing after drain", "after the whole stream was fed and a drain of 20 ticker periods the target executed %d of %d expected commands; first missing: [%s] (source item %d)", len(ps.biz), len(expected), fmtCmd(e.Name, e.Args), e.Src)
		}
		if ps.viol == nil && ps.inc.getPhase() == 2 {
			ps.setViolation(prop+".ended", "replay ended although nothing failed", "Send returned during a fault-free run: %v", ps.inc.sendErr)
		}
	}
	ps.shutdown()
	return ps.viol
}
