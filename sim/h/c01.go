package h

import (
	"fmt"
)

// C01 — incremental replay applies every source write once, in order, in the right DB
// (fault-free: uninterrupted run, healthy target). DESIGN.md §3 C01.

func init() {
	Register(&PropertyDef{ID: "C01", Strata: []string{"mixed", "txnmode", "nontxn", "bigargs", "selectheavy", "txnheavy"}, Run: runC01, StepCap: 30000})
}

func c01Opts(r *Run, stratum string) (PipeCfg, StreamOpts) {
	g := r.Gen()
	txn := -1
	switch stratum {
	case "txnmode", "txnheavy":
		txn = 1
	case "nontxn":
		txn = 0
	}
	cfg := GenPipeCfg(g, txn, -1)
	max := 40
	if r.Tier == "thorough" {
		max = 300
	}
	o := StreamOpts{MaxItems: max, StartDB: -1}
	switch stratum {
	case "bigargs":
		o.BigArgs = true
		o.MaxItems = max / 2
	case "selectheavy":
		o.SelectHeavy = true
	case "txnheavy":
		o.TxnHeavy = true
	}
	return cfg, o
}

func runC01(r *Run, stratum string) *Violation {
	cfg, o := c01Opts(r, stratum)
	return runReplayCheck(r, "C01", stratum, cfg, o)
}

// C10 — filters pass exactly the configured set. No schedule axis of its own (DESIGN.md §3 C10): decided inside
// fault-free replay runs of a filter-heavy stratum, end to end at the target log, against a direct evaluation of
// the configured rules (own prefix match, HASH_SLOT from the cluster specification, own key-position table).
func init() {
	Register(&PropertyDef{ID: "C10", Strata: []string{"filters", "filters-txn", "filters-slots"}, Run: runC10, StepCap: 30000})
}

func runC10(r *Run, stratum string) *Violation {
	g := r.Gen()
	txn := -1
	if stratum == "filters-txn" {
		txn = 1
	}
	cfg := GenPipeCfg(g, txn, -1)
	cfg.Filters = GenFilterSpec(g)
	if stratum == "filters-slots" && len(cfg.Filters.SlotWhite) == 0 && len(cfg.Filters.SlotBlack) == 0 {
		cfg.Filters.SlotWhite = [][2]int{{0, 9000}, {100, 200}, {300, 400}}
	}
	max := 40
	if r.Tier == "thorough" {
		max = 200
	}
	o := StreamOpts{MaxItems: max, StartDB: -1, Filters: cfg.Filters, NumDBs: 4}
	return runReplayCheck(r, "C10", stratum, cfg, o)
}

func runReplayCheck(r *Run, prop, stratum string, cfg PipeCfg, o StreamOpts) *Violation {
	st := GenStream(r.Gen(), o)
	ps := NewPipeSim(r, prop, cfg, st)
	expected := Reference(st, 0, cfg.DBM, cfg.Filters)
	r.Sample = fmt.Sprintf("cfg{%s} stream{%s} expected=%d", cfg, describeStream(st, 12), len(expected))
	r.NonTriv = len(expected) >= 2
	r.Logf(prop+" %s cfg %s items=%d expected=%d", stratum, cfg, len(st.Items), len(expected))

	checked := 0
	check := func() {
		for ; checked < len(ps.biz); checked++ {
			b := ps.biz[checked]
			if checked >= len(expected) {
				ps.setViolation(prop+".invented", "target executed more than the stream contains", "target executed %s (db %d) beyond the %d expected commands", fmtCmd(b.Name, b.Args), b.DB, len(expected))
				return
			}
			e := expected[checked]
			if b.Name != e.Name || !argsEqual(b.Args, e.Args) {
				// classify
				kind := "altered_or_invented"
				for j, x := range expected {
					if x.Name == b.Name && argsEqual(x.Args, b.Args) {
						if j < checked {
							kind = "duplicated_or_reordered"
						} else {
							kind = "dropped_or_reordered"
						}
						break
					}
				}
				ps.setViolation(prop+".sequence", kind, "position %d: target executed [%s], expected [%s] (source item %d) — %s", checked, fmtCmd(b.Name, b.Args), fmtCmd(e.Name, e.Args), e.Src, kind)
				return
			}
			if b.DB != e.DB {
				ps.setViolation(prop+".db", "command executed in the wrong database", "position %d: [%s] executed in db %d, expected db %d (source db %d)", checked, fmtCmd(b.Name, b.Args), b.DB, e.DB, st.Items[e.Src].SrcDB)
				return
			}
		}
	}

	ps.startIncarnation()
	for r.BeginStep() {
		r.Settle()
		ps.absorb()
		check()
		if ps.viol != nil {
			break
		}
		ph := ps.inc.getPhase()
		if ph == 2 {
			ps.setViolation(prop+".ended", "replay ended although nothing failed", "Send/StartPoint returned during a fault-free run: spErr=%v sendErr=%v", ps.inc.spErr, ps.inc.sendErr)
			break
		}
		ready := ps.srv.Ready()
		if ph == 1 && ps.remaining() == 0 && len(ready) == 0 {
			break
		}
		acts := ps.healthyActions(true)
		a := ps.pick(acts)
		r.Logf("step %d: %s", r.W.Step(), a.label)
		a.do()
	}
	if ps.viol == nil {
		ps.drain(20, check, func() bool { return ps.viol != nil || len(ps.biz) >= len(expected) })
		r.Settle()
		ps.absorb()
		check()
		if ps.viol == nil && len(ps.biz) != len(expected) {
			e := expected[len(ps.biz)]
			ps.setViolation(prop+".dropped", "commands missing after drain", "after the whole stream was fed and a drain of 20 ticker periods the target executed %d of %d expected commands; first missing: [%s] (source item %d)", len(ps.biz), len(expected), fmtCmd(e.Name, e.Args), e.Src)
		}
		if ps.viol == nil && ps.inc.getPhase() == 2 {
			ps.setViolation(prop+".ended", "replay ended although nothing failed", "Send returned during a fault-free run: %v", ps.inc.sendErr)
		}
	}
	ps.shutdown()
	return ps.viol
}
