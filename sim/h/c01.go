package h

import (
	"fmt"
)

// C01 — incremental replay applies every source write once, in order, in the right DB
// (fault-free: uninterrupted run, healthy target). DESIGN.md §3 C01.

func init() {
	Register(&PropertyDef{ID: "C01", Strata: []string{"mixed", "txnmode", "nontxn", "bigargs", "selectheavy", "txnheavy"}, Run: runC01, StepCap: 30000})
}

func c01Opts(r *Run, stratum string) (PipeCfg, StreamOpts) {
	g := r.Gen()
	txn := -1
	switch stratum {
	case "txnmode", "txnheavy":
		txn = 1
	case "nontxn":
		txn = 0
	}
	cfg := GenPipeCfg(g, txn, -1)
	max := 40
	if r.Tier == "thorough" {
		max = 300
	}
	o := StreamOpts{MaxItems: max, StartDB: -1}
	switch stratum {
	case "bigargs":
		o.BigArgs = true
		o.MaxItems = max / 2
	case "selectheavy":
		o.SelectHeavy = true
	case "txnheavy":
		o.TxnHeavy = true
	}
	return cfg, o
}

func runC01(r *Run, stratum string) *Violation {
	cfg, o := c01Opts(r, stratum)
	st := GenStream(r.Gen(), o)
	ps := NewPipeSim(r, "C01", cfg, st)
	expected := Reference(st, 0, cfg.DBM, cfg.Filters)
	r.Sample = fmt.Sprintf("cfg{%s} stream{%s} expected=%d", cfg, describeStream(st, 12), len(expected))
	r.NonTriv = len(expected) >= 2
	r.Logf("C01 %s cfg %s items=%d expected=%d", stratum, cfg, len(st.Items), len(expected))

	checked := 0
	check := func() {
		for ; checked < len(ps.biz); checked++ {
			b := ps.biz[checked]
			if checked >= len(expected) {
				ps.setViolation("C01.invented", "target executed more than the stream contains", "target executed %s (db %d) beyond the %d expected commands", fmtCmd(b.Name, b.Args), b.DB, len(expected))
				return
			}
			e := expected[checked]
			if b.Name != e.Name || !argsEqual(b.Args, e.Args) {
				// classify
				kind := "altered_or_invented"
				for j, x := range expected {
					if x.Name == b.Name && argsEqual(x.Args, b.Args) {
						if j < checked {
							kind = "duplicated_or_reordered"
						} else {
							kind = "dropped_or_reordered"
						}
						break
					}
				}
				ps.setViolation("C01.sequence", kind, "position %d: target executed [%s], expected [%s] (source item %d) — %s", checked, fmtCmd(b.Name, b.Args), fmtCmd(e.Name, e.Args), e.Src, kind)
				return
			}
			if b.DB != e.DB {
				ps.setViolation("C01.db", "command executed in the wrong database", "position %d: [%s] executed in db %d, expected db %d (source db %d)", checked, fmtCmd(b.Name, b.Args), b.DB, e.DB, st.Items[e.Src].SrcDB)
				return
			}
		}
	}

	ps.startIncarnation()
	for r.BeginStep() {
		r.Settle()
		ps.absorb()
		check()
		if ps.viol != nil {
			break
		}
		ph := ps.inc.getPhase()
		if ph == 2 {
			ps.setViolation("C01.ended", "replay ended although nothing failed", "Send/StartPoint returned during a fault-free run: spErr=%v sendErr=%v", ps.inc.spErr, ps.inc.sendErr)
			break
		}
		ready := ps.srv.Ready()
		if ph == 1 && ps.remaining() == 0 && len(ready) == 0 {
			break
		}
		acts := ps.healthyActions(true)
		a := ps.pick(acts)
		r.Logf("step %d: %s", r.W.Step(), a.label)
		a.do()
	}
	if ps.viol == nil {
		ps.drain(20, check, func() bool { return ps.viol != nil || len(ps.biz) >= len(expected) })
		r.Settle()
		ps.absorb()
		check()
		if ps.viol == nil && len(ps.biz) != len(expected) {
			e := expected[len(ps.biz)]
			ps.setViolation("C01.dropped", "commands missing after drain", "after the whole stream was fed and a drain of 20 ticker periods the target executed %d of %d expected commands; first missing: [%s] (source item %d)", len(ps.biz), len(expected), fmtCmd(e.Name, e.Args), e.Src)
		}
		if ps.viol == nil && ps.inc.getPhase() == 2 {
			ps.setViolation("C01.ended", "replay ended although nothing failed", "Send returned during a fault-free run: %v", ps.inc.sendErr)
		}
	}
	ps.shutdown()
	return ps.viol
}
