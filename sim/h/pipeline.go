package h

import (
	"bufio"
	"context"
	"fmt"
	"io"
	"strconv"
	"strings"
	"sync"
	"time"

	"github.com/mgtv-tech/redis-GunYu/config"
	"github.com/mgtv-tech/redis-GunYu/pkg/redis/checkpoint"
	"github.com/mgtv-tech/redis-GunYu/pkg/redis/client"
	usync "github.com/mgtv-tech/redis-GunYu/pkg/sync"
	"github.com/mgtv-tech/redis-GunYu/syncer"

	"verifsim/resp"
	"verifsim/simredis"
	"verifsim/simrt"
)

// ---------------------------------------------------------------- input stub

// feedPipe is a byte pipe whose writer is the scheduler: Read blocks (durably) until bytes are fed.
type feedPipe struct {
	mu     sync.Mutex
	cond   *sync.Cond
	buf    []byte
	closed bool
	err    error
}

func newFeedPipe() *feedPipe {
	p := &feedPipe{}
	p.cond = sync.NewCond(&p.mu)
	return p
}

func (p *feedPipe) Read(b []byte) (int, error) {
	p.mu.Lock()
	defer p.mu.Unlock()
	for len(p.buf) == 0 {
		if p.closed {
			if p.err != nil {
				return 0, p.err
			}
			return 0, io.EOF
		}
		p.cond.Wait()
	}
	n := copy(b, p.buf)
	p.buf = p.buf[n:]
	return n, nil
}

func (p *feedPipe) Feed(b []byte) {
	p.mu.Lock()
	p.buf = append(p.buf, b...)
	p.cond.Broadcast()
	p.mu.Unlock()
}

func (p *feedPipe) CloseWith(err error) {
	p.mu.Lock()
	p.closed = true
	p.err = err
	p.cond.Broadcast()
	p.mu.Unlock()
}

// stubReader is the harness' ChannelReader: the exact bytes handed to RedisOutput.Send.
type stubReader struct {
	left  int64
	size  int64
	runID string
	aof   bool
	pipe  *feedPipe
	br    *bufio.Reader
}

func (s *stubReader) Start(wait usync.WaitCloser) {}
func (s *stubReader) Left() int64                 { return s.left }
func (s *stubReader) RunId() string               { return s.runID }
func (s *stubReader) Size() int64                 { return s.size }
func (s *stubReader) IoReader() *bufio.Reader     { return s.br }
func (s *stubReader) IsAof() bool                 { return s.aof }
func (s *stubReader) Close()                      { s.pipe.CloseWith(nil) }

// ---------------------------------------------------------------- configuration

type PipeCfg struct {
	BatchCount  uint
	BatchBytes  uint64
	BatchTicker time.Duration
	Keepalive   time.Duration
	CpTicker    time.Duration
	Pipeline    bool
	Txn         bool
	Resume      bool
	DBM         DBMap
	Filters     *FilterSpec
	BufSize     int
	// bidirectional replay
	Bisync      bool
	Mode        string // sync | pipeline | parallel
	Parallelism int
	// cluster target
	ClusterAddrs []string
	// NoRedirectFollow: the operator has switched the cluster client's following of MOVED / ASK answers off
	// (clusterOptions.handleMoveErr / handleAskErr: false): a redirect is an error the replay has to deal with
	NoRedirectFollow bool
	FailoverBias     int  // >0: weight of the bidirectional harness's failover-continue action (default 3)
	NoRestore        bool // snapshot replay by native commands instead of RESTORE
	// the tool's whole start path: a process start runs syncer.newOutput's checkpoint.UpdateCheckpoint (index entry,
	// "none yet" marker with a modification time) before StartPoint; AfterFullSync: the stream follows a full sync,
	// which ended with checkpoint.SetCheckpoint(stream base) on a fresh connection (database 0, with modification time)
	StartPath     bool
	AfterFullSync bool
	FaultPace     int // crash harness: weight factor of the healthy actions against the restart actions (0/1: as drawn)
}

func (c PipeCfg) String() string {
	s := fmt.Sprintf("batch=%d/%dB tick=%v ka=%v cp=%v pipeline=%v txn=%v resume=%v targetDb=%d map=%v buf=%d",
		c.BatchCount, c.BatchBytes, c.BatchTicker, c.Keepalive, c.CpTicker, c.Pipeline, c.Txn, c.Resume, c.DBM.TargetDb, c.DBM.TargetDbMap, c.BufSize)
	if c.Bisync {
		s += fmt.Sprintf(" bisync{mode=%s parallelism=%d}", c.Mode, c.Parallelism)
	}
	if c.StartPath {
		s += fmt.Sprintf(" startpath{afterFullSync=%v}", c.AfterFullSync)
	}
	if f := c.Filters; f != nil {
		s += fmt.Sprintf(" filters{cmd=%q db=%v pblack=%q pwhite=%q swhite=%v sblack=%v}", f.CmdBlacklist, f.DbBlacklist, f.PrefixBlack, f.PrefixWhite, f.SlotWhite, f.SlotBlack)
	}
	return s
}

var tickerChoices = []time.Duration{time.Millisecond, 10 * time.Millisecond, 50 * time.Millisecond, 300 * time.Millisecond, time.Second, 3 * time.Second, 30 * time.Second, time.Hour}

func GenPipeCfg(c *simrt.Chooser, txn, resume int) PipeCfg {
	var cfg PipeCfg
	switch c.Choose("batchkind", 4) {
	case 0:
		cfg.BatchCount = 1
	case 1:
		cfg.BatchCount = uint(2 + c.Choose("batchsmall", 5))
	case 2:
		cfg.BatchCount = uint(5 + c.Choose("batchmid", 30))
	default:
		cfg.BatchCount = uint(10 + c.Choose("batchbig", 200))
	}
	cfg.BatchBytes = uint64(16) << c.Choose("batchbytes", 13) // 16 B .. 64 KiB
	// the three tickers are created at the same virtual instant; periods that are multiples of each other would
	// make them fire at the SAME instant, and the order in which the runtime delivers same-instant timers is not
	// ours to decide (measured: run-to-run digest differences). Distinct sub-millisecond offsets keep every firing
	// instant unique, so "which ticker first" is decided by virtual time, i.e. by the schedule.
	cfg.BatchTicker = tickerChoices[c.Choose("batchticker", 6)]
	cfg.Keepalive = tickerChoices[1+c.Choose("keepalive", 7)] + 137*time.Microsecond
	cfg.CpTicker = tickerChoices[c.Choose("cpticker", 7)] + 271*time.Microsecond
	cfg.Pipeline = c.Choose("pipeline", 2) == 1
	switch txn {
	case 0:
		cfg.Txn = false
	case 1:
		cfg.Txn = true
	default:
		cfg.Txn = c.Choose("txn", 2) == 1
	}
	switch resume {
	case 0:
		cfg.Resume = false
	case 1:
		cfg.Resume = true
	default:
		cfg.Resume = c.Choose("resume", 4) != 0
	}
	cfg.DBM.TargetDb = -1
	switch c.Choose("dbmap", 5) {
	case 0:
		cfg.DBM.TargetDb = c.Choose("targetdb", 16)
	case 1:
		cfg.DBM.TargetDbMap = map[int]int{}
		for i := 0; i < 1+c.Choose("ndbmap", 4); i++ {
			cfg.DBM.TargetDbMap[c.Choose("dbfrom", 4)] = c.Choose("dbto", 16)
		}
	}
	cfg.BufSize = 16 << c.Choose("bufsize", 13)
	return cfg
}

const simTargetAddr = "10.0.0.1:6379"

func (c PipeCfg) outputConfig(runID, cpName string) syncer.RedisOutputConfig {
	rc := config.RedisConfig{
		Addresses: []string{simTargetAddr},
		Type:      config.RedisTypeStandalone,
		Otype:     config.RedisTypeStandalone,
		Version:   "7.2.0",
	}
	oc := syncer.RedisOutputConfig{
		InputName:                  "sim-input",
		CheckpointName:             cpName,
		RunId:                      runID,
		CanTransaction:             c.Txn,
		Redis:                      rc,
		EnableResumeFromBreakPoint: c.Resume,
		KeyExists:                  "replace",
		TargetDb:                   c.DBM.TargetDb,
		TargetDbMap:                c.DBM.TargetDbMap,
		BatchCmdCount:              c.BatchCount,
		BatchTicker:                c.BatchTicker,
		BatchBufferSize:            c.BatchBytes,
		KeepaliveTicker:            c.Keepalive,
		ReplayRdbParallel:          1,
		ReplayRdbEnableRestore:     !c.NoRestore,
		ReplayPipeline:             c.Pipeline,
		UpdateCheckpointTicker:     c.CpTicker,
		MaxProtoBulkLen:            512 * 1024 * 1024,
	}
	oc.Stats.DisableLog = true
	if len(c.ClusterAddrs) > 0 {
		oc.Redis.Addresses = c.ClusterAddrs
		oc.Redis.Type = config.RedisTypeCluster
		oc.Redis.Otype = config.RedisTypeCluster
		oc.Redis.ClusterOptions = &config.RedisClusterOptions{HandleMoveErr: !c.NoRedirectFollow, HandleAskErr: !c.NoRedirectFollow}
		oc.Redis.KeepAlive = 8
		oc.Redis.AliveTime = time.Minute
	}
	if c.Bisync {
		oc.BisyncEnabled = true
		oc.ReplayMode = config.ReplayMode(c.Mode)
		oc.ReplayPipeline = c.Mode == "pipeline"
		oc.Parallelism = c.Parallelism
	}
	if f := c.Filters; f != nil {
		oc.Filter.CmdBlacklist = f.CmdBlacklist
		oc.Filter.DbBlacklist = f.DbBlacklist
		if len(f.PrefixBlack) > 0 || len(f.PrefixWhite) > 0 {
			oc.Filter.KeyFilter = &config.FilterKeyConfig{PrefixKeyBlacklist: f.PrefixBlack, PrefixKeyWhitelist: f.PrefixWhite}
		}
		if len(f.SlotBlack) > 0 || len(f.SlotWhite) > 0 {
			sf := &config.FilterSlotConfig{}
			for _, r := range f.SlotWhite {
				sf.KeySlotWhitelist = append(sf.KeySlotWhitelist, []uint16{uint16(r[0]), uint16(r[1])})
			}
			for _, r := range f.SlotBlack {
				sf.KeySlotBlacklist = append(sf.KeySlotBlacklist, []uint16{uint16(r[0]), uint16(r[1])})
			}
			oc.Filter.SlotFilter = sf
		}
	}
	return oc
}

// ---------------------------------------------------------------- pipeline simulation

type incarnation struct {
	id       int
	ctx      context.Context
	cancel   context.CancelFunc
	ro       *syncer.RedisOutput
	reader   *stubReader
	sp       syncer.StartPoint
	spErr    error
	phase    int // 0 starting, 1 sending, 2 ended
	sendErr  error
	wasReset bool  // the target dropped this incarnation's connections (fault target_reset_reachable)
	refused  bool  // the target, still loading its dataset, refused a request of this incarnation's start (fault target_loading)
	startOff int64 // offset the input stub resumed the stream at
	startIdx int   // first item fed to this incarnation
	startDB  int   // DB returned by StartPoint
	fedTo    int64 // absolute offset fed so far
	pathDone bool  // the start path that precedes the output object has completed (always true without StartPath)
	mu       sync.Mutex
}

func (in *incarnation) getPhase() int { in.mu.Lock(); defer in.mu.Unlock(); return in.phase }

type cpWrite struct {
	Seq   int
	Tag   int
	DB    int
	Value int64
	Txn   int
	Had   bool // a position was stored somewhere at that moment
}

type bizEntry struct {
	Seq  int
	Tag  int
	DB   int
	Name string
	Args [][]byte
	Txn  int
}

type PipeSim struct {
	reuse    *syncer.RedisOutput // output object the next incarnation runs on (in-process restart)
	pathEver bool                // a start path has completed at least once (the full sync it follows is over)
	r        *Run
	cfg      PipeCfg
	st       *Stream
	srv      *simredis.Server
	runID    string
	cpName   string
	inc      *incarnation
	incs     []*incarnation
	logPos   int
	biz      []bizEntry
	cps      []cpWrite
	viol     *Violation
	viols    []*Violation
	prop     string
	// loadingLeft > 0: the target was restarted and is still loading its dataset; the next loadingLeft requests that
	// Redis does not serve while loading are answered -LOADING (fault target_loading, crash harness)
	// prevID: the replication id the source had before its last fail-over (its second id); forcePath: the next
	// incarnation first moves the bookkeeping to the current id, as a process start does (fault source_failover_continue)
	prevID      string
	forcePath   bool
	loadingLeft int
	// busyLeft > 0: the target answers the next busyLeft replayed business commands with -BUSY (a script of another
	// client runs past its time limit): fault target_busy of the crash harness
	// oomLeft > 0: the target is out of memory during the tool's next start: the next oomLeft commands that may grow
	// the dataset are refused with -OOM, deletions and reads are served (fault target_oom_at_start, bidirectional harness)
	oomLeft     int
	busyLeft    int
	loadingSkip int // requests served before the refusals begin (the load - or a blocking script - ends or begins in the middle of the start)
}

// okLoading: commands Redis serves while it loads its dataset (command flag "loading"), as far as the tool uses them.
var okLoading = map[string]bool{"auth": true, "hello": true, "info": true, "select": true, "multi": true, "exec": true, "discard": true,
	"client": true, "command": true, "config": true, "script": true}

const loadingReply = "LOADING Redis is loading the dataset in memory"
const oomReply = "OOM command not allowed when used memory > 'maxmemory'."
const busyReply = "BUSY Redis is busy running a script. You can only call SCRIPT KILL or SHUTDOWN NOSAVE."

func NewPipeSim(r *Run, prop string, cfg PipeCfg, st *Stream) *PipeSim {
	ps := &PipeSim{r: r, cfg: cfg, st: st, prop: prop}
	ps.srv = simredis.NewServer(simTargetAddr)
	ps.srv.Lenient = true
	r.Net.Listen(simTargetAddr, ps.srv)
	ps.srv.Intercept = func(ss *simredis.Session, name string, args [][]byte) *resp.Value {
		if ps.busyLeft > 0 && !okLoading[name] && name != "ping" && len(args) > 0 && !simredis.IsReservedKey(args[0]) {
			ps.busyLeft--
			if ss.InMulti {
				ss.QueueErr = true
			}
			if ps.inc != nil {
				ps.inc.refused = true
			}
			v := resp.Err(busyReply)
			return &v
		}
		if ps.oomLeft > 0 && denyOOM[name] {
			ps.oomLeft--
			if ss.InMulti {
				ss.QueueErr = true
			}
			if ps.inc != nil {
				ps.inc.refused = true
			}
			v := resp.Err(oomReply)
			return &v
		}
		if ps.loadingLeft <= 0 || okLoading[name] {
			return nil
		}
		if ps.loadingSkip > 0 {
			ps.loadingSkip--
			return nil
		}
		ps.loadingLeft--
		if ss.InMulti {
			ss.QueueErr = true
		}
		if ps.inc != nil {
			ps.inc.refused = true
		}
		v := resp.Err(loadingReply)
		return &v
	}
	ps.runID = "5f3c0a9e1b2d4c6f8a7b9c0d1e2f3a4b5c6d7e8f"
	ps.cpName = "redis-gunyu-checkpoint-sim"
	return ps
}

// startPath is what a process start does on the target before the output exists (syncer.newOutput -> updateCheckpoint),
// through the real code; first: also what the end of the preceding full sync left behind (RedisOutput.setCheckpoint).
// ids: what the input reports as the source's replication ids (master_replid, master_replid2).
func (ps *PipeSim) ids() []string {
	if ps.prevID != "" {
		return []string{ps.runID, ps.prevID}
	}
	return []string{ps.runID, strings.Repeat("0", 40)}
}

func (ps *PipeSim) startPath(first bool) error {
	cli, err := client.NewRedis(ps.cfg.outputConfig(ps.runID, ps.cpName).Redis)
	if err != nil {
		return err
	}
	defer cli.Close()
	// the ids the input reports: master_replid and master_replid2 (all zeros when the source never failed over)
	if err = checkpoint.UpdateCheckpoint(cli, ps.cpName, ps.ids()); err != nil {
		return err
	}
	if first && ps.cfg.AfterFullSync {
		err = checkpoint.SetCheckpoint(cli, &checkpoint.CheckpointInfo{Key: ps.cpName, RunId: ps.runID, Offset: ps.st.Base, Version: config.Version})
	}
	return err
}

// setViolation records a violation; the run's verdict is the first one whose rule belongs to the
// property being checked (rules of sibling properties are logged but do not decide this check).
func (ps *PipeSim) setViolation(rule, sig, format string, a ...any) {
	v := &Violation{Property: rule[:3], Rule: rule, Sig: sig, Msg: fmt.Sprintf(format, a...)}
	for _, o := range ps.viols {
		if o.Rule == rule {
			return
		}
	}
	ps.viols = append(ps.viols, v)
	ps.r.Logf("VIOLATION %s: %s", rule, v.Msg)
	if ps.viol == nil && strings.HasPrefix(rule, ps.prop+".") {
		ps.viol = v
	}
}

// startIncarnation starts the real output: StartPoint, then Send with the input stub resuming the
// same stream at the returned position.
func (ps *PipeSim) startIncarnation() {
	id := len(ps.incs) + 1
	ctx, cancel := context.WithCancel(context.Background())
	in := &incarnation{id: id, ctx: ctx, cancel: cancel}
	ps.r.Net.SetTag(id)
	reused := ps.reuse != nil
	if ps.reuse != nil {
		// restart inside the same process: RedisInput.Run calls run() again with the SAME output object, whatever it
		// remembers in memory (local checkpoint, bidirectional sequence/offset, frontier-miss fast path) is still there
		in.ro, ps.reuse = ps.reuse, nil
	} else {
		in.ro = syncer.NewRedisOutput(ps.cfg.outputConfig(ps.runID, ps.cpName))
	}
	ps.inc = in
	ps.incs = append(ps.incs, in)
	ps.r.Logf("start incarnation %d", id)
	fresh := !reused
	forced := ps.forcePath && fresh
	ps.forcePath = false
	in.pathDone = !((ps.cfg.StartPath || forced) && fresh)
	go func() {
		if (ps.cfg.StartPath || forced) && fresh {
			if err := ps.startPath(!ps.pathEver && !forced); err != nil {
				in.mu.Lock()
				in.spErr = err
				in.phase = 2
				in.mu.Unlock()
				return
			}
			ps.pathEver = true
			in.mu.Lock()
			in.pathDone = true
			in.mu.Unlock()
		}
		spIDs := []string{ps.runID}
		if ps.prevID != "" {
			spIDs = ps.ids()
		}
		sp, err := in.ro.StartPoint(ctx, spIDs)
		in.mu.Lock()
		in.sp, in.spErr = sp, err
		in.mu.Unlock()
		if err != nil {
			in.mu.Lock()
			in.phase = 2
			in.mu.Unlock()
			return
		}
		start := sp.Offset
		if sp.IsInitial() || !sp.IsValid() || sp.Offset < 0 {
			start = ps.st.Base
		}
		pipe := newFeedPipe()
		rd := &stubReader{left: start, size: -1, runID: ps.runID, aof: true, pipe: pipe}
		rd.br = bufio.NewReaderSize(pipe, ps.cfg.BufSize)
		in.mu.Lock()
		in.reader = rd
		in.startOff = start
		in.startDB = sp.DbId
		if reused && len(ps.incs) >= 2 {
			if prev := ps.incs[len(ps.incs)-2]; prev.startDB > 0 && sp.DbId == 0 && !sp.IsInitial() {
				simrt.Probe("reuse_resumes_in_db0_after_resume_in_other_db") // in-memory resume database must be reset
			}
		}
		in.fedTo = start
		in.phase = 1
		in.mu.Unlock()
		err = in.ro.Send(ctx, rd)
		in.mu.Lock()
		in.sendErr = err
		in.phase = 2
		in.mu.Unlock()
	}()
}

// absorb reads new entries of the target log into the business log / checkpoint-write list.
func (ps *PipeSim) absorb() {
	for ; ps.logPos < len(ps.srv.Log); ps.logPos++ {
		e := ps.srv.Log[ps.logPos]
		if e.IsErr && (e.Reply == loadingReply || e.Reply == busyReply || e.Reply == oomReply) {
			continue // injected: the target is loading
		}
		if e.IsErr {
			ps.setViolation(ps.prop+".target_error", "target answered an error", "target answered an error to %s", e.String())
			continue
		}
		switch e.Name {
		case "select", "ping", "info", "exec", "multi", "exists", "hgetall", "hget":
			continue
		}
		if len(e.Args) > 0 && simredis.IsReservedKey(e.Args[0]) {
			if e.Name == "hset" && string(e.Args[0]) == ps.cpName {
				for i := 1; i+1 < len(e.Args); i += 2 {
					if strings.HasSuffix(string(e.Args[i]), "_offset") {
						v, err := strconv.ParseInt(string(e.Args[i+1]), 10, 64)
						if err != nil {
							ps.setViolation(ps.prop+".cp_garbage", "unparsable offset written", "checkpoint offset %q", e.Args[i+1])
							continue
						}
						ps.cps = append(ps.cps, cpWrite{Seq: e.Seq, Tag: e.Tag, DB: e.DB, Value: v, Txn: e.Txn})
						ps.r.Logf("cp db%d = %d", e.DB, v)
					}
				}
			}
			continue
		}
		ps.biz = append(ps.biz, bizEntry{Seq: e.Seq, Tag: e.Tag, DB: e.DB, Name: e.Name, Args: e.Args, Txn: e.Txn})
	}
}

// StoredPosition reads the resume position as the documented rule says: the DB holding the newest
// (greatest) offset for the run id; ties are returned all.
func (ps *PipeSim) StoredPosition() (off int64, dbs []int, ok bool) {
	off = -1 << 62
	for db := 0; db < ps.srv.NumDB; db++ {
		o := ps.srv.Get(db, ps.cpName)
		if o == nil || o.T != 'h' {
			continue
		}
		v, has := o.Hash[ps.runID+"_offset"]
		if !has {
			continue
		}
		if _, hasRun := o.Hash[ps.runID+"_runid"]; !hasRun {
			continue
		}
		n, err := strconv.ParseInt(string(v), 10, 64)
		if err != nil {
			continue
		}
		if n > off {
			off = n
			dbs = []int{db}
		} else if n == off {
			dbs = append(dbs, db)
		}
	}
	if len(dbs) == 0 {
		return -1, nil, false
	}
	return off, dbs, true
}

type pipeAction struct {
	label  string
	weight int
	do     func()
}

var idleDurations = []time.Duration{time.Millisecond, 7 * time.Millisecond, 50 * time.Millisecond, 333 * time.Millisecond, time.Second, 5 * time.Second, 61 * time.Second, 2 * time.Hour}

// remaining bytes of the stream not yet fed to the current incarnation
func (ps *PipeSim) remaining() int64 {
	in := ps.inc
	if in == nil || in.getPhase() != 1 {
		return 0
	}
	return ps.st.End() - in.fedTo
}

func (ps *PipeSim) feed(n int64) {
	in := ps.inc
	lo := in.fedTo - ps.st.Base
	hi := lo + n
	if hi > int64(len(ps.st.Bytes)) {
		hi = int64(len(ps.st.Bytes))
	}
	in.reader.pipe.Feed(ps.st.Bytes[lo:hi])
	in.fedTo = ps.st.Base + hi
	ps.r.Logf("feed %d bytes -> %d", hi-lo, in.fedTo)
}

// chooseFeed draws how many bytes become readable next.
func (ps *PipeSim) chooseFeed() int64 {
	rem := ps.remaining()
	c := ps.r.Sched()
	in := ps.inc
	// distance to the end of the item containing fedTo
	nextBoundary := func(k int) int64 {
		off := in.fedTo
		cnt := 0
		for _, it := range ps.st.Items {
			if it.End > off {
				cnt++
				if cnt == k {
					return it.End - off
				}
			}
		}
		return rem
	}
	var n int64
	switch c.Weighted("feedkind", []int{4, 2, 2, 3, 2, 1}) {
	case 0:
		n = nextBoundary(1)
	case 1:
		n = 1
	case 2:
		n = 1 + int64(c.Choose("feedsmall", 40))
	case 3:
		n = nextBoundary(1 + c.Choose("feeditems", 12))
	case 4:
		n = rem
	default:
		n = nextBoundary(1) - 1 // stop one byte short of a boundary
		if n <= 0 {
			n = 1
		}
	}
	if n > rem {
		n = rem
	}
	return n
}

// healthyActions: the enabled actions in a fault-free run.
func (ps *PipeSim) healthyActions(allowIdle bool) []pipeAction {
	var acts []pipeAction
	ready := ps.srv.Ready()
	for _, ss := range ready {
		ss := ss
		acts = append(acts, pipeAction{fmt.Sprintf("exec %s", ss.LabelString()), 10, func() { ps.srv.Step(ss) }})
	}
	if ps.remaining() > 0 {
		acts = append(acts, pipeAction{"feed", 8, func() { ps.feed(ps.chooseFeed()) }})
	}
	if allowIdle {
		maxIdle := len(idleDurations)
		w := 3
		if len(ready) > 0 {
			maxIdle = 3 // a healthy target answers within 50 ms
			w = 2
		}
		acts = append(acts, pipeAction{"idle", w, func() {
			d := idleDurations[ps.r.Sched().Biased("idledur", maxIdle, 1, 3)]
			// a long idle period with millisecond tickers costs one wake-up per tick: cap the tick count
			if lim := 1500 * ps.minTicker(); d > lim {
				d = lim
			}
			ps.r.Logf("idle %v", d)
			ps.r.Advance(d)
		}})
	}
	return acts
}

func (ps *PipeSim) pick(acts []pipeAction) pipeAction {
	w := make([]int, len(acts))
	for i, a := range acts {
		w[i] = a.weight
	}
	return acts[ps.r.Sched().Weighted("act", w)]
}

func (ps *PipeSim) minTicker() time.Duration {
	m := ps.cfg.BatchTicker
	if ps.cfg.Keepalive < m {
		m = ps.cfg.Keepalive
	}
	if !ps.cfg.Txn && ps.cfg.CpTicker < m {
		m = ps.cfg.CpTicker
	}
	return m
}

func (ps *PipeSim) maxTicker() time.Duration {
	m := ps.cfg.BatchTicker
	if ps.cfg.Keepalive > m {
		m = ps.cfg.Keepalive
	}
	if !ps.cfg.Txn && ps.cfg.CpTicker > m && ps.cfg.CpTicker < time.Hour {
		m = ps.cfg.CpTicker
	}
	if m > 31*time.Second {
		m = 31 * time.Second
	}
	return m
}

// drain lets a healthy system finish: execute everything pending, advance past the batch ticker, repeat
// until done() or the round budget is used up (the budget is the bounded-liveness part of the oracles).
func (ps *PipeSim) drain(rounds int, check func(), done func() bool) {
	ps.r.Calm()
	step := ps.cfg.BatchTicker + time.Millisecond
	for i := 0; i < rounds; i++ {
		for guard := 0; guard < 100000; guard++ {
			ps.r.Settle()
			ready := ps.srv.Ready()
			if len(ready) == 0 {
				break
			}
			ps.srv.Step(ready[0])
		}
		ps.r.Settle()
		ps.absorb()
		if check != nil {
			check()
		}
		if done != nil && done() {
			return
		}
		if i == rounds/2 {
			// second half: also let the slower tickers (keep-alive, checkpoint) fire
			step = ps.maxTicker() + time.Millisecond
			if lim := 3000 * ps.minTicker(); step > lim {
				step = lim
			}
		}
		ps.r.Advance(step)
	}
}

// shutdown stops the current incarnation gracefully and lets its goroutines end.
func (ps *PipeSim) shutdown() {
	in := ps.inc
	if in == nil {
		return
	}
	in.cancel()
	// the input side goes away together with the context (as the syncer does on stop); without the
	// reader ending, the sender loop may spin on its cancelled context and never block.
	in.mu.Lock()
	if in.reader != nil {
		in.reader.pipe.CloseWith(nil)
	}
	in.mu.Unlock()
	for i := 0; i < 2000 && in.getPhase() != 2; i++ {
		ps.r.Settle()
		in.mu.Lock()
		rd := in.reader
		in.mu.Unlock()
		if rd != nil {
			rd.pipe.CloseWith(nil)
		}
		ready := ps.srv.Ready()
		if len(ready) > 0 {
			ps.srv.Step(ready[0])
			continue
		}
		ps.r.Advance(50 * time.Millisecond)
	}
	ps.r.Settle()
	ps.absorb()
	// sever whatever is left so that no goroutine stays blocked on the network
	for _, ss := range ps.srv.Sessions {
		if !ss.Dead {
			ps.srv.KillSession(ss, 0)
		}
	}
	ps.r.Settle()
}

func describeStream(st *Stream, max int) string {
	var sb strings.Builder
	fmt.Fprintf(&sb, "base=%d items=%d:", st.Base, len(st.Items))
	for i, it := range st.Items {
		if i >= max {
			sb.WriteString(" ...")
			break
		}
		sb.WriteString(" [" + fmtCmd(it.Name, it.Args) + "]")
	}
	return sb.String()
}
