package h

import (
	"bytes"
	"context"
	"errors"
	"fmt"
	"io"
	"os"
	"strings"
	"sync"
	"time"

	"github.com/mgtv-tech/redis-GunYu/config"
	"github.com/mgtv-tech/redis-GunYu/syncer"

	"verifsim/simfs"
	"verifsim/simredis"
	"verifsim/simrt"
)

// C06 — each source (re)connection continues the stream gap-free or takes a snapshot. DESIGN.md §3 C06.
// Stratum (a): real RedisInput.Run() + real Channel + source double implementing PSYNC admission + Output stub.

const simSourceAddr = "10.0.1.1:6379"

var syncerCfgOnce sync.Once

// initSyncerConfig initialises the repository's global syncer configuration once per process (several
// packages dereference config.GetSyncerConfig()). The YAML is written into the worker's scratch cwd.
func initSyncerConfig() {
	syncerCfgOnce.Do(func() {
		y := `
server:
  listen: 127.0.0.1:18000
input:
  redis:
    addresses: [` + simSourceAddr + `]
    type: standalone
  mode: dynamic
channel:
  type: memory
  memory:
    maxSize: 1048576
    logSize: 4096
  storer:
    dirPath: /simfs/cache
    maxSize: 1048576
    logSize: 4096
output:
  replay:
    resumeFromBreakPoint: true
    keyExists: replace
    targetDb: -1
  redis:
    addresses: [` + simTargetAddr + `]
    type: standalone
log:
  level: panic
  handler:
    stdout: true
`
		path := fmt.Sprintf("sim_syncer_%d.yaml", os.Getpid())
		if err := os.WriteFile(path, []byte(y), 0o644); err != nil {
			panic(err)
		}
		defer os.Remove(path)
		if err := config.InitSyncerConfig(path); err != nil {
			panic(fmt.Sprintf("InitSyncerConfig: %v", err))
		}
	})
}

// history is one replication history: an id and a byte function over absolute offsets (1-based).
type history struct {
	id   string
	salt byte
	// bytes at offsets <= shared are taken from parent (failover continuity)
	parent *history
	shared int64
}

func (h *history) at(p int64) byte {
	if h.parent != nil && p <= h.shared {
		return h.parent.at(p)
	}
	x := uint64(p)*0x9e3779b97f4a7c15 + uint64(h.salt)*0x632be59bd9b4e019
	x ^= x >> 29
	x *= 0xbf58476d1ce4e5b9
	x ^= x >> 32
	return byte(x)
}

func (h *history) bytes(from, to int64) []byte { // offsets from..to inclusive
	if to < from {
		return nil
	}
	b := make([]byte, to-from+1)
	for i := range b {
		b[i] = h.at(from + int64(i))
	}
	return b
}

type c06send struct {
	attempt int
	aof     bool
	left    int64
	size    int64
	runID   string
	data    []byte
	done    bool
	err     error
}

type c06attempt struct {
	pos     syncer.StartPoint // what StartPoint returned
	carried string            // non-empty: that position was carried over from this other, unrelated history by SetRunId
	ids     []string
	psyncAt int // index into source psync records at the time StartPoint was called
}

// outStub is the harness Output: stored resume position + exact observation of every reader handed to Send.
type outStub struct {
	mu       sync.Mutex
	stored   syncer.StartPoint // RunId "" = nothing stored
	carried  string            // the stored position was moved here from this id although the new history does not continue it
	related  func(oldID string, off int64, newID string) bool
	cfgRunID string
	sends    []*c06send
	attempts []*c06attempt
	src      *simredis.SourceImpl
	failSP   int // the next failSP start-point requests fail: the target cannot be reached (fault)
	failedSP int
}

func (o *outStub) StartPoint(ctx context.Context, runIds []string) (syncer.StartPoint, error) {
	o.mu.Lock()
	defer o.mu.Unlock()
	var sp syncer.StartPoint
	sp.Initialize()
	if o.failSP > 0 {
		o.failSP--
		o.failedSP++
		if w := simrt.Cur(); w != nil {
			w.Logf("output.StartPoint(%v) -> error: the target cannot be reached", shortIDs(runIds))
		}
		return sp, errors.New("dial tcp 10.0.0.1:6379: connect: no route to host")
	}
	for _, id := range runIds {
		if id != "" && id == o.stored.RunId {
			sp = syncer.StartPoint{DbId: 0, RunId: o.stored.RunId, Offset: o.stored.Offset}
		}
	}
	at := &c06attempt{pos: sp, ids: append([]string(nil), runIds...), psyncAt: len(o.src.Psyncs)}
	if sp.RunId != "" && sp.RunId == o.stored.RunId {
		at.carried = o.carried
	}
	o.attempts = append(o.attempts, at)
	if w := simrt.Cur(); w != nil {
		w.Logf("output.StartPoint(%v) -> %s %d", shortIDs(runIds), shortID(sp.RunId), sp.Offset)
	}
	return sp, nil
}

func (o *outStub) SetRunId(ctx context.Context, id string) error {
	o.mu.Lock()
	defer o.mu.Unlock()
	// as checkpoint.UpdateCheckpoint(name, [id, cfg.RunId]): a position stored under the configured id moves
	// to the new id keeping its offset; a position under any other id is not found.
	if o.stored.RunId != "" && o.stored.RunId != id {
		if o.stored.RunId == o.cfgRunID {
			if o.related != nil && o.stored.Offset >= 0 && !o.related(o.stored.RunId, o.stored.Offset, id) {
				o.carried = o.stored.RunId
			}
			o.stored.RunId = id
		} else {
			o.carried = ""
			o.stored = syncer.StartPoint{RunId: id, Offset: -1}
		}
	}
	o.cfgRunID = id
	if w := simrt.Cur(); w != nil {
		w.Logf("output.SetRunId(%s)", shortID(id))
	}
	return nil
}

// ResetRunId (the tool calls it instead of SetRunId when the source answered FULLRESYNC, since the repair of
// C06.carried_position): as checkpoint.UpdateCheckpoint(name, [id, ""]) - nothing is moved, the new id gets the
// 'none yet' marker; a FULLRESYNC under the id the output already works with changes nothing.
func (o *outStub) ResetRunId(ctx context.Context, id string) error {
	o.mu.Lock()
	defer o.mu.Unlock()
	if o.cfgRunID != id && o.stored.RunId != id {
		o.stored = syncer.StartPoint{RunId: id, Offset: -1}
		o.carried = ""
	}
	o.cfgRunID = id
	if w := simrt.Cur(); w != nil {
		w.Logf("output.ResetRunId(%s)", shortID(id))
	}
	return nil
}

func (o *outStub) Close() {}

func (o *outStub) Send(ctx context.Context, reader syncer.ChannelReader) error {
	o.mu.Lock()
	rec := &c06send{attempt: len(o.attempts) - 1, aof: reader.IsAof(), left: reader.Left(), size: reader.Size(), runID: reader.RunId()}
	o.sends = append(o.sends, rec)
	o.mu.Unlock()
	if w := simrt.Cur(); w != nil {
		w.Logf("output.Send(aof=%v left=%d size=%d id=%s)", rec.aof, rec.left, rec.size, shortID(rec.runID))
	}
	br := reader.IoReader()
	if !rec.aof {
		buf := make([]byte, rec.size)
		n, err := io.ReadFull(br, buf)
		o.mu.Lock()
		rec.data = buf[:n]
		rec.done = true
		rec.err = err
		if err == nil {
			o.stored = syncer.StartPoint{RunId: rec.runID, Offset: rec.left} // full sync completed
			o.carried = ""
		}
		o.mu.Unlock()
		return err
	}
	buf := make([]byte, 512)
	for {
		n, err := br.Read(buf)
		o.mu.Lock()
		if n > 0 {
			rec.data = append(rec.data, buf[:n]...)
			o.stored = syncer.StartPoint{RunId: rec.runID, Offset: rec.left + int64(len(rec.data))}
		}
		if err != nil {
			rec.done = true
			rec.err = err
			o.mu.Unlock()
			return err
		}
		o.mu.Unlock()
		select {
		case <-ctx.Done():
			return ctx.Err()
		default:
		}
	}
}

func shortID(id string) string {
	if len(id) > 6 {
		return id[:6]
	}
	return id
}

func shortIDs(ids []string) []string {
	out := make([]string, len(ids))
	for i, id := range ids {
		out[i] = shortID(id)
	}
	return out
}

type c06sim struct {
	r            *Run
	src          *simredis.Server
	si           *simredis.SourceImpl
	stub         *outStub
	cur          *history
	prev         *history // previous history exposed as replid2 (nil if none)
	snaps        map[string]snapInfo
	nSnap        int
	ri           *syncer.RedisInput
	riDone       chan error
	ch           syncer.Channel
	viol         *Violation
	hist         map[string]*history
	epoch1       bool
	spFailsLeft  int
	notReadyLeft int
	killsLeft    int
}

type snapInfo struct {
	id   string
	off  int64
	data []byte
}

func (c *c06sim) setViolation(rule, sig, format string, a ...any) {
	if c.viol == nil {
		c.viol = &Violation{Property: "C06", Rule: rule, Sig: sig, Msg: fmt.Sprintf(format, a...)}
		c.r.Logf("VIOLATION %s: %s", rule, c.viol.Msg)
	}
}

func init() {
	Register(&PropertyDef{ID: "C06", Strata: []string{"mem-disconnect", "mem-restart", "mem-failover", "mem-newid", "mem-trim",
		"disk-disconnect", "disk-restart", "disk-failover", "disk-newid", "disk-trim", "real-switch"}, Run: runC06, StepCap: 20000})
}

func (c *c06sim) newSnapshot() []byte {
	c.nSnap++
	n := 40 + c.r.Gen().Choose("snaplen", 1500)
	b := make([]byte, n)
	for i := range b {
		b[i] = byte(int(c.cur.salt)*31 + c.nSnap*7 + i*13)
	}
	copy(b, fmt.Sprintf("SNAP%03d", c.nSnap))
	c.snaps[string(b[:7])] = snapInfo{id: c.src.Repl.ID, off: c.src.Repl.End(), data: b}
	return b
}

func (c *c06sim) grow(n int64) {
	r := c.src.Repl
	from := r.End() + 1
	r.AppendStream(c.cur.bytes(from, from+n-1))
	c.r.Logf("source grows by %d -> %d", n, r.End())
}

func (c *c06sim) startInput() {
	cfg := config.RedisConfig{Addresses: []string{simSourceAddr}, Type: config.RedisTypeStandalone, Otype: config.RedisTypeStandalone, Version: "7.2.0"}
	ri := syncer.NewRedisInput(cfg)
	ri.SetChannel(c.ch)
	ri.SetOutput(c.stub)
	c.ri = ri
	c.riDone = make(chan error, 1)
	done := c.riDone
	go func() { done <- ri.Run() }()
	c.r.Logf("start input")
}

func (c *c06sim) stopInput() {
	if c.ri == nil {
		return
	}
	c.ri.Stop()
	for i := 0; i < 400; i++ {
		c.r.Settle()
		select {
		case <-c.riDone:
			c.ri = nil
			c.r.Logf("input stopped")
			return
		default:
		}
		for _, ss := range c.src.Ready() {
			c.src.Step(ss)
		}
		c.r.Advance(100 * time.Millisecond)
	}
	Inconc("input did not stop")
}

// step applies one scheduler action of the healthy kind.
func (c *c06sim) step() {
	r := c.r
	s := r.Sched()
	type act struct {
		label string
		w     int
		do    func()
	}
	var acts []act
	for _, ss := range c.src.Ready() {
		ss := ss
		acts = append(acts, act{fmt.Sprintf("exec %s", ss.LabelString()), 10, func() { c.src.Step(ss) }})
	}
	for _, ss := range c.src.Replicas() {
		ss := ss
		if bl := c.src.ReplicaBacklog(ss); bl > 0 {
			acts = append(acts, act{fmt.Sprintf("send %s", ss.LabelString()), 8, func() {
				var n int64
				switch s.Weighted("sendkind", []int{3, 2, 2}) {
				case 0:
					n = bl
				case 1:
					n = 1 + int64(s.Choose("sendsmall", 30))
				default:
					n = 1 + int64(s.Choose("sendmid", 700))
				}
				sent := c.src.FeedReplica(ss, n)
				r.Logf("source sends %d bytes to %s", sent, ss.LabelString())
			}})
		}
	}
	acts = append(acts, act{"grow", 3, func() { c.grow(1 + int64(s.Choose("grow", 600))) }})
	if c.epoch1 && c.killsLeft > 0 {
		// a further connection loss, wherever the round happens to be (psync reply, snapshot transfer, stream)
		acts = append(acts, act{"source connection lost", 1, func() {
			c.killsLeft--
			r.W.Fault("source_conn_lost_again")
			for _, ss := range c.src.Sessions {
				if !ss.Dead {
					c.src.KillSession(ss, 0)
				}
			}
		}})
	}
	if c.epoch1 && c.notReadyLeft > 0 {
		// the source connection is lost and the source is not ready for a while (a replica that has lost its own master,
		// a node still loading): it refuses PSYNC with an error and keeps the connection; asked again later it grants
		// what it would have granted - the request must be the same one
		acts = append(acts, act{"source connection lost, source not ready", 1, func() {
			c.notReadyLeft--
			r.W.Fault("source_not_ready")
			c.si.NotReady = 1 + s.Choose("notready", 2)
			c.si.NotReadyText = []string{"NOMASTERLINK Can't SYNC while not connected with my master", "LOADING Redis is loading the dataset in memory"}[s.Choose("notreadykind", 2)]
			for _, ss := range c.src.Sessions {
				if !ss.Dead {
					c.src.KillSession(ss, 0)
				}
			}
		}})
	}
	if c.epoch1 && c.spFailsLeft > 0 && len(c.stub.sends) > 0 {
		// the source connection is lost while the target cannot be reached: the start-point request of the reconnect
		// fails, every retry of it too. The input must give the round up (the tool restarts it) - it has no way to
		// know where the target stands, least of all from what it was told at an earlier connection
		acts = append(acts, act{"source connection lost, target unreachable", 1, func() {
			c.spFailsLeft--
			r.W.Fault("target_unreachable_at_reconnect")
			c.stub.mu.Lock()
			c.stub.failSP = 3 + s.Choose("spfails", 3)
			c.stub.mu.Unlock()
			for _, ss := range c.src.Sessions {
				if !ss.Dead {
					c.src.KillSession(ss, 0)
				}
			}
		}})
	}
	if c.ri != nil && c.stub.failedSP > 0 {
		select {
		case err := <-c.riDone:
			// the input gave up (ErrBreak): what runs the input (the leader loop of cmd) starts it again
			r.Logf("input ended: %v; started again", err)
			simrt.Probe("c06_input_gave_up_and_was_restarted")
			c.ri = nil
			c.stub.mu.Lock()
			c.stub.failSP = 0
			c.stub.mu.Unlock()
			c.startInput()
		default:
		}
	}
	acts = append(acts, act{"idle", 4, func() {
		d := []time.Duration{10 * time.Millisecond, 100 * time.Millisecond, 700 * time.Millisecond, 2100 * time.Millisecond}[s.Biased("idle", 4, 1, 2)]
		r.Logf("idle %v", d)
		r.Advance(d)
	}})
	w := make([]int, len(acts))
	for i, a := range acts {
		w[i] = a.w
	}
	a := acts[s.Weighted("act", w)]
	r.Logf("step %d: %s", r.W.Step(), a.label)
	a.do()
}

// quiesce lets everything in flight arrive: all source bytes sent, requests executed, time passed.
func (c *c06sim) quiesce() {
	for i := 0; i < 60; i++ {
		c.r.Settle()
		progressed := false
		for _, ss := range c.src.Ready() {
			c.src.Step(ss)
			progressed = true
		}
		for _, ss := range c.src.Replicas() {
			if c.src.ReplicaBacklog(ss) > 0 {
				c.src.FeedReplica(ss, 1<<30)
				progressed = true
			}
		}
		c.r.Advance(300 * time.Millisecond)
		if !progressed && i > 12 {
			break
		}
	}
	c.r.Settle()
}

func runC06(r *Run, stratum string) *Violation {
	if stratum == "real-switch" {
		return runC06RealSwitch(r, stratum)
	}
	g := r.Gen()
	c := &c06sim{r: r, snaps: map[string]snapInfo{}, hist: map[string]*history{}}
	id1 := "1" + hexID(g.Bytes("id1", 20))[1:] // first nibble makes ids of one run distinct by construction
	h1 := &history{id: id1, salt: 1}
	c.cur = h1
	c.hist[id1] = h1
	c.src = simredis.NewServer(simSourceAddr)
	c.si = simredis.NewSource(c.src, id1)
	c.si.Snapshot = c.newSnapshot
	r.Net.Listen(simSourceAddr, c.src)
	base := int64(g.Choose("base", 100000))
	fresh := g.Choose("fresh-source", 8) == 7 // a source that was just started: its first snapshot is taken at replication offset 0
	if fresh {
		base = 0
	}
	c.src.Repl.BacklogBase = base
	c.src.Repl.BacklogStart = base
	if !fresh {
		c.grow(1 + int64(g.Choose("initlen", 800)))
	} else {
		simrt.Probe("c06_fresh_source_offset_0")
	}
	c.stub = &outStub{src: c.si, cfgRunID: id1}
	c.stub.related = func(oldID string, off int64, newID string) bool {
		ho, hn := c.hist[oldID], c.hist[newID]
		if ho == nil || hn == nil {
			return true // an id the harness planted (position variants): not judged
		}
		return ho == hn || (hn.parent == ho && off <= hn.shared)
	}

	mcfg := config.ChannelConfig{Type: config.ChannelTypeMemory, Memory: &config.MemoryConfig{MaxSize: 1 << 20, LogSize: int64(64 << g.Choose("logsize", 6))}}
	disk := strings.HasPrefix(stratum, "disk")
	if disk {
		// disk cache over the in-memory file system; a tool restart reopens the directory with a fresh StoreChannel
		fs := simfs.New()
		simfs.SetFS(fs)
		defer simfs.SetFS(nil)
		fs.MkdirAll("/c06cache", 0o777)
		cacheSetVerify(g.Choose("verifycrc", 2) == 1) // deployment knob: sealed segments are checked when a reader opens them
		defer cacheSetVerify(false)
		mcfg = config.ChannelConfig{Type: config.ChannelTypeStorer, Storer: &config.StorerConfig{DirPath: "/c06cache", MaxSize: 1 << 30, LogSize: mcfg.Memory.LogSize}}
	}
	c.ch = syncer.NewChannel(mcfg, simSourceAddr)

	// ---- epoch 0: fill the cache through the real code
	c.startInput()
	n0 := 20 + g.Choose("epoch0steps", 60)
	for i := 0; i < n0 && r.BeginStep(); i++ {
		r.Settle()
		c.step()
	}
	c.quiesce()
	c.check("epoch0")
	if c.viol != nil {
		c.teardown()
		return c.viol
	}

	// ---- transition
	s := r.Sched()
	positionBefore := c.stub.stored
	desc := stratum
	restart := strings.HasSuffix(stratum, "restart") || g.Choose("restart", 3) == 0
	if restart {
		c.stopInput()
		if disk {
			// process restart: the cache directory is reopened by a new StoreChannel (or was wiped)
			c.ch.Close()
			r.Settle()
			if g.Choose("losecache", 3) == 0 {
				simfs.Cur().RemoveAll("/c06cache")
				simfs.Cur().MkdirAll("/c06cache", 0o777)
				desc += "+cache-wiped"
			} else {
				desc += "+cache-reopened"
			}
			c.ch = syncer.NewChannel(mcfg, simSourceAddr)
		} else if g.Choose("losecache", 2) == 0 {
			// a process restart loses the memory cache
			c.ch.Close()
			c.ch = syncer.NewChannel(mcfg, simSourceAddr)
			desc += "+cache-lost"
		}
	}
	// connection loss at the source
	for _, ss := range c.src.Sessions {
		if !ss.Dead {
			c.src.KillSession(ss, 0)
		}
	}
	// the source moves on while the tool is away
	if g.Choose("growaway", 2) == 0 {
		c.grow(1 + int64(g.Choose("growawayn", 500)))
	}
	switch {
	case strings.HasSuffix(stratum, "failover"):
		// new master: new id, previous id valid up to the switch offset; streams share bytes up to it
		sw := c.src.Repl.End() - int64(g.Choose("failback", 200))
		if sw < c.src.Repl.BacklogBase {
			sw = c.src.Repl.BacklogBase
		}
		id2 := "2" + hexID(g.Bytes("id2", 20))[1:]
		h2 := &history{id: id2, salt: 2, parent: h1, shared: sw}
		c.hist[id2] = h2
		c.prev, c.cur = h1, h2
		rp := c.src.Repl
		// the new master's stream: identical up to sw, its own bytes afterwards
		keep := sw - rp.BacklogBase
		rp.Stream = append([]byte(nil), rp.Stream[:keep]...)
		rp.ID2, rp.ID, rp.SecondOffset = rp.ID, id2, sw+1
		c.src.RunID = id2
		c.grow(1 + int64(g.Choose("growh2", 400)))
		desc += fmt.Sprintf("+failover@%d", sw)
	case strings.HasSuffix(stratum, "newid"):
		id3 := "3" + hexID(g.Bytes("id3", 20))[1:]
		h3 := &history{id: id3, salt: 3}
		c.hist[id3] = h3
		c.prev, c.cur = nil, h3
		rp := c.src.Repl
		nb := int64(g.Choose("newbase", 100000))
		if g.Choose("newbase_near", 2) == 0 && c.stub.stored.Offset > 0 {
			// the brand-new history happens to cover the offset the target holds of the old one
			nb = c.stub.stored.Offset - int64(g.Choose("newbase_below", 300))
			if nb < 0 {
				nb = 0
			}
		}
		rp.ID, rp.ID2, rp.SecondOffset = id3, strings.Repeat("0", 40), -1
		rp.Stream, rp.BacklogBase, rp.BacklogStart = nil, nb, nb
		c.src.RunID = id3
		c.grow(1 + int64(g.Choose("growh3", 400)))
		desc += "+newid"
	case strings.HasSuffix(stratum, "trim"):
		rp := c.src.Repl
		to := rp.BacklogBase + int64(g.Choose("trimto", int(rp.End()-rp.BacklogBase)+1))
		rp.TrimBacklog(to)
		desc += fmt.Sprintf("+trim@%d", to)
	}
	// stored position variants
	switch s.Choose("posvariant", 6) {
	case 1:
		c.stub.stored = syncer.StartPoint{}
		desc += "+pos-absent"
	case 2:
		if c.stub.stored.RunId != "" {
			c.stub.stored.Offset -= int64(1 + g.Choose("posback", 300))
			if c.stub.stored.Offset < 0 {
				c.stub.stored.Offset = 0
			}
			desc += "+pos-back"
		}
	case 3:
		if c.stub.stored.RunId != "" {
			c.stub.stored.Offset += int64(1 + g.Choose("posfwd", 300))
			desc += "+pos-forward"
		}
	case 4:
		c.stub.stored.RunId = "f" + hexID([]byte("unknown-unknown-unknown"))[1:]
		desc += "+pos-unknown-id"
	}
	c.stub.carried = ""
	c.epoch1 = true
	c.killsLeft = g.Choose("epoch1kills", 3)
	c.spFailsLeft = g.Choose("epoch1spfails", 2)
	c.notReadyLeft = g.Choose("epoch1notready", 2)
	r.Sample = fmt.Sprintf("%s: position before %s@%d, now %s@%d, source id=%s id2=%s second=%d backlog=(%d,%d]", desc, shortID(positionBefore.RunId), positionBefore.Offset,
		shortID(c.stub.stored.RunId), c.stub.stored.Offset, shortID(c.src.Repl.ID), shortID(c.src.Repl.ID2), c.src.Repl.SecondOffset, c.src.Repl.BacklogStart, c.src.Repl.End())
	r.Logf("TRANSITION %s", r.Sample)
	r.NonTriv = true
	if restart {
		c.startInput()
	}

	// ---- epoch 1
	n1 := 30 + g.Choose("epoch1steps", 80)
	for i := 0; i < n1 && r.BeginStep(); i++ {
		r.Settle()
		c.step()
	}
	c.quiesce()
	c.check("epoch1")
	c.teardown()
	return c.viol
}

func (c *c06sim) teardown() {
	c.stopInput()
	for _, ss := range c.src.Sessions {
		if !ss.Dead {
			c.src.KillSession(ss, 0)
		}
	}
	c.ch.Close()
	c.r.Settle()
}

// validFor reports whether a position (id, off) lies on the current history.
func (c *c06sim) validFor(id string, off int64) bool {
	rp := c.src.Repl
	if id == rp.ID {
		return true
	}
	if id == rp.ID2 && off+1 <= rp.SecondOffset {
		return true
	}
	return false
}

// check evaluates the oracle over every attempt recorded so far.
func (c *c06sim) check(when string) {
	o := c.stub
	o.mu.Lock()
	defer o.mu.Unlock()
	for ai, at := range o.attempts {
		var sends []*c06send
		for _, s := range o.sends {
			if s.attempt == ai {
				sends = append(sends, s)
			}
		}
		if len(sends) == 0 {
			continue
		}
		// which history was current during this attempt? the one whose id the tool was told first
		hc := c.hist[at.ids[0]]
		if hc == nil {
			continue
		}
		first := sends[0]
		expectStreamFrom := int64(-1)
		rest := sends
		if !first.aof {
			// (B) snapshot: complete, byte-equal to one the source produced, belonging to this history
			if first.done && first.err == nil {
				tag := ""
				if len(first.data) >= 7 {
					tag = string(first.data[:7])
				}
				sn, known := c.snaps[tag]
				if !known || !bytes.Equal(sn.data, first.data) {
					c.setViolation("C06.snapshot_bytes", "snapshot handed to the output is not what the source sent", "%s attempt %d: snapshot reader delivered %d bytes that equal no snapshot the source sent", when, ai, len(first.data))
					return
				}
				if first.left != sn.off {
					c.setViolation("C06.snapshot_offset", "snapshot handed over with a wrong offset", "%s attempt %d: snapshot %s was taken at source offset %d but is handed to the output with offset %d", when, ai, tag, sn.off, first.left)
					return
				}
				h := c.hist[sn.id]
				onHistory := sn.id == at.ids[0] || (len(at.ids) > 1 && sn.id == at.ids[1] && h != nil && hc.parent == h && sn.off <= hc.shared)
				if !onHistory {
					c.setViolation("C06.foreign_snapshot", "cached snapshot of another replication history replayed", "%s attempt %d: snapshot %s of history %s@%d replayed while the source is on history %s", when, ai, tag, shortID(sn.id), sn.off, shortID(at.ids[0]))
					return
				}
				expectStreamFrom = sn.off
			}
			rest = sends[1:]
		} else {
			// (A) continuation: exactly from the stored position, which must lie on the current history
			if at.pos.IsInitial() || at.pos.Offset < 0 {
				c.setViolation("C06.continue_without_position", "stream continued although the target stores no position", "%s attempt %d: output stores no position for ids %v but received a log reader from %d", when, ai, shortIDs(at.ids), first.left)
				return
			}
			if at.carried != "" {
				c.setViolation("C06.carried_position", "stream continued from a position carried over from another replication history", "%s attempt %d: the output was told to move its position %s@%d to id %s although that history does not continue it (the source had answered FULLRESYNC); the round ended before a snapshot was complete and this attempt continues the stream of %s from %d, which the target never reached", when, ai, shortID(at.carried), at.pos.Offset, shortID(at.pos.RunId), shortID(at.pos.RunId), first.left)
				return
			}
			if first.left != at.pos.Offset {
				kind := "later"
				if first.left < at.pos.Offset {
					kind = "earlier"
				}
				c.setViolation("C06.wrong_position", "stream continued from a position other than the stored one ("+kind+")", "%s attempt %d: target stores %s@%d but the log reader starts at %d", when, ai, shortID(at.pos.RunId), at.pos.Offset, first.left)
				return
			}
			expectStreamFrom = at.pos.Offset
		}
		// stream bytes: contiguous, equal to the current history
		pos := expectStreamFrom
		for _, s := range rest {
			if !s.aof {
				continue
			}
			if pos >= 0 && s.left != pos {
				c.setViolation("C06.gap", "log reader does not continue where the previous data ended", "%s attempt %d: log reader starts at %d, expected %d", when, ai, s.left, pos)
				return
			}
			for i, b := range s.data {
				p := s.left + 1 + int64(i)
				if want := hc.at(p); b != want {
					other := ""
					for id, h := range c.hist {
						if h != hc && h.at(p) == b {
							other = " (it is the byte of history " + shortID(id) + ")"
						}
					}
					c.setViolation("C06.wrong_byte", "delivered byte differs from the current history's byte at that offset", "%s attempt %d: byte at offset %d delivered to the output is %#x, the current history %s has %#x%s", when, ai, p, b, shortID(hc.id), want, other)
					return
				}
			}
			pos = s.left + int64(len(s.data))
		}
	}
	// (iii) a partial resync may be relied on only if the source granted it
	for ai, at := range o.attempts {
		hi := len(c.si.Psyncs)
		if ai+1 < len(o.attempts) {
			hi = o.attempts[ai+1].psyncAt
		}
		full := false
		for _, p := range c.si.Psyncs[at.psyncAt:hi] {
			if !p.Continue && !p.Refused {
				full = true
			}
		}
		if !full {
			continue
		}
		for _, s := range o.sends {
			if s.attempt == ai {
				if s.aof && (len(s.data) > 0) {
					// first reader of the attempt is a log reader although the source answered FULLRESYNC
					c.setViolation("C06.ignored_fullresync", "source answered FULLRESYNC but the stream was continued", "%s attempt %d: source answered +FULLRESYNC, yet the output received a log reader from %d first", when, ai, s.left)
					return
				}
				break
			}
		}
	}
}
