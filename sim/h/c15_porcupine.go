package h

import (
	"fmt"

	"github.com/anishathalye/porcupine"

	"verifsim/simrt"
)

// Second C15 oracle: the client-visible history (invoke/return stamped with the scheduler's event sequence number)
// is checked for linearizability against a sequential lease object. Every operation carries the store time at which
// the store executed it; the specification refuses to go back in time, so a linearization must respect store time.

type c15In struct {
	Kind string
	Who  int
	T    int64 // store execution time (ns)
}

type c15Out struct {
	Known bool // the contender got the store's answer
	OK    bool
	Addr  string
}

type c15State struct {
	Holder int
	Expiry int64
	LastT  int64
}

func (s *c15Sim) porcupineCheck(ex []*c15Op) *Violation {
	if len(ex) == 0 {
		return nil
	}
	if len(ex) > 400 {
		simrt.Probe("c15_porcupine_skipped_long_history")
		return nil
	}
	ttl := s.ttlNs
	ids := make([]string, len(s.cs))
	for i, c := range s.cs {
		ids[i] = c.id
	}
	model := porcupine.Model{
		Init: func() interface{} { return c15State{Holder: -1} },
		Step: func(state, input, output interface{}) (bool, interface{}) {
			st := state.(c15State)
			in := input.(c15In)
			out := output.(c15Out)
			if in.T < st.LastT {
				return false, st
			}
			st.LastT = in.T
			live := st.Holder >= 0 && in.T < st.Expiry
			switch in.Kind {
			case "campaign", "renew":
				grant := !live || st.Holder == in.Who
				if out.Known && out.OK != grant {
					return false, st
				}
				if grant {
					st.Holder, st.Expiry = in.Who, in.T+ttl
				}
			case "resign":
				if live && st.Holder == in.Who {
					st.Holder = -1
				}
			case "leader":
				if out.Known {
					if live && (!out.OK || out.Addr != ids[st.Holder]) {
						return false, st
					}
					if !live && out.OK && out.Addr != "" {
						return false, st
					}
				}
			}
			return true, st
		},
		Equal: func(a, b interface{}) bool { return a.(c15State) == b.(c15State) },
		DescribeOperation: func(input, output interface{}) string {
			return fmt.Sprintf("%+v -> %+v", input, output)
		},
	}
	var hist []porcupine.Operation
	for _, o := range ex {
		ret := o.Ret
		if !o.Done {
			ret = 1 << 60
		}
		out := c15Out{Known: o.told()}
		if out.Known {
			out.OK = o.success()
			out.Addr = o.Addr
		}
		hist = append(hist, porcupine.Operation{ClientId: o.Who, Input: c15In{Kind: o.Kind, Who: o.Who, T: o.ExecNs}, Call: o.Inv, Output: out, Return: ret})
	}
	switch porcupine.CheckOperationsTimeout(model, hist, 0) {
	case porcupine.Ok:
		simrt.Probe("c15_porcupine_ok")
		return nil
	case porcupine.Unknown:
		Inconc("porcupine: unknown")
	}
	var sb string
	for i, o := range ex {
		if i > 40 {
			sb += " ..."
			break
		}
		sb += fmt.Sprintf(" %s(inv %d, ret %d)", s.opString(o), o.Inv, o.Ret)
	}
	return s.viol("C15.porcupine", "call history is not linearizable against the sequential lease specification",
		"no linearization of the call history respects both real-time order and the lease specification (ttl %ds):%s", s.ttl, sb)
}
