package h

import (
	"bufio"
	"context"
	"fmt"
	"strconv"
	"strings"
	"sync"
	"time"

	"github.com/mgtv-tech/redis-GunYu/pkg/rdb"
	"github.com/mgtv-tech/redis-GunYu/syncer"

	"verifsim/rdbgen"
	"verifsim/simredis"
	"verifsim/simrt"
)

// C13 — bidirectional sync never echoes its own writes nor swallows foreign ones. DESIGN.md §3 C13.
// Two sites (Redis doubles in target AND master role: every executed write is propagated into the site's
// replication stream by the master rules), two real bisync links, simulated clients at both sites.

type c13site struct {
	name    string
	addr    string
	srv     *simredis.Server
	si      *simredis.SourceImpl
	client  *simredis.Session
	client1 *simredis.Session // works in database 1
	id      string
	nOps    int
}

type c13link struct {
	name    string
	from    *c13site
	to      *c13site
	cfg     PipeCfg
	cpName  string
	ctx     context.Context
	cancel  context.CancelFunc
	ro      *syncer.RedisOutput
	reader  *stubReader
	fedTo   int64
	phase   int
	spErr   error
	sendErr error
	mu      sync.Mutex
	rdb     []byte // snapshot phase first: this link begins with a full sync of these bytes
}

func (l *c13link) getPhase() int { l.mu.Lock(); defer l.mu.Unlock(); return l.phase }

type c13op struct {
	db    int // database the client wrote in
	site  *c13site
	id    string // unique key carried by every command of the op
	cmds  [][]string
	txn   bool
	logAt int
}

type c13sim struct {
	snapKeys    map[string]bool // keys of the dataset site A held before the links started (snapshot stratum)
	snapApplied map[string]int
	r           *Run
	a, b        *c13site
	ab, ba      *c13link
	ops         []*c13op
	byKey       map[string]*c13op
	viol        *Violation
	scanned     map[*c13site]int
	applied     map[string]int // op id -> times executed at the peer by a link
	applTxn     map[string]map[int]bool
	marker      []byte // a marker value observed in the wild (reused as a client value)
	trackExists bool   // the sites model key existence: a mirrored DEL is a no-op at the peer and is left out of its stream
	multiDB     bool   // clients also write in database 1
	bigTxn      bool   // this run may contain one client transaction of 1000+ commands
	bigTxnDone  bool
	db1Excluded bool   // ... which both links exclude
}

func (c *c13sim) setViolation(rule, sig, format string, a ...any) {
	if c.viol == nil {
		c.viol = &Violation{Property: "C13", Rule: rule, Sig: sig, Msg: fmt.Sprintf(format, a...)}
		c.r.Logf("VIOLATION %s: %s", rule, c.viol.Msg)
	}
}

func init() {
	Register(&PropertyDef{ID: "C13", Strata: []string{"sync", "pipeline", "parallel", "mixed", "rewrite5", "snapshot"}, Run: runC13, StepCap: 20000})
}

func (c *c13sim) newSite(name, addr, id, flavour string) *c13site {
	s := &c13site{name: name, addr: addr, id: id}
	s.srv = simredis.NewServer(addr)
	s.srv.Lenient = true
	s.si = simredis.NewSource(s.srv, id)
	s.si.Propagate = true
	s.si.Flavour = flavour
	s.srv.Repl.BacklogBase = int64(1000 + c.r.Gen().Choose("base"+name, 50000))
	s.srv.Repl.BacklogStart = s.srv.Repl.BacklogBase
	c.r.Net.Listen(addr, s.srv)
	s.client = s.srv.LocalSession("client-" + name)
	// a second application client that works in database 1: its writes make the master switch databases in the
	// stream, from 7.0 on with the SELECT behind the MULTI of the next transaction
	s.client1 = s.srv.LocalSession("client1-" + name)
	s.srv.Dispatch(s.client1, [][]byte{[]byte("select"), []byte("1")})
	return s
}

func (c *c13sim) startLink(l *c13link) {
	// state after a completed full sync of an empty site: root checkpoint at the source's current offset
	off := l.from.srv.Repl.End()
	if l.rdb == nil {
		l.to.srv.SetHash(0, l.cpName, map[string]string{
			l.from.id + "_runid":   l.from.id,
			l.from.id + "_version": "1",
			l.from.id + "_offset":  strconv.FormatInt(off, 10),
			l.from.id + "_mtime":   strconv.FormatInt(time.Now().UnixNano(), 10),
		})
	}
	oc := l.cfg.outputConfig(l.from.id, l.cpName)
	oc.Redis.Addresses = []string{l.to.addr}
	oc.InputName = "link-" + l.name
	l.ctx, l.cancel = context.WithCancel(context.Background())
	l.ro = syncer.NewRedisOutput(oc)
	go func() {
		if l.rdb != nil {
			// snapshot phase: the real full-sync replay (bidirectional snapshot path) of the source site's dataset; it
			// ends by writing the root checkpoint at the snapshot's offset
			p := newFeedPipe()
			rrd := &stubReader{left: off, size: int64(len(l.rdb)), runID: l.from.id, aof: false, pipe: p}
			rrd.br = bufio.NewReaderSize(p, l.cfg.BufSize)
			p.Feed(l.rdb)
			if err := l.ro.Send(l.ctx, rrd); err != nil {
				l.mu.Lock()
				l.spErr, l.phase = fmt.Errorf("snapshot replay: %w", err), 2
				l.mu.Unlock()
				return
			}
			c.r.Logf("link %s: snapshot phase done", l.name)
		}
		sp, err := l.ro.StartPoint(l.ctx, []string{l.from.id})
		if err != nil {
			l.mu.Lock()
			l.spErr, l.phase = err, 2
			l.mu.Unlock()
			return
		}
		start := sp.Offset
		pipe := newFeedPipe()
		rd := &stubReader{left: start, size: -1, runID: l.from.id, aof: true, pipe: pipe}
		rd.br = bufio.NewReaderSize(pipe, l.cfg.BufSize)
		l.mu.Lock()
		l.reader, l.fedTo, l.phase = rd, start, 1
		l.mu.Unlock()
		err = l.ro.Send(l.ctx, rd)
		l.mu.Lock()
		l.sendErr, l.phase = err, 2
		l.mu.Unlock()
	}()
}

func (l *c13link) backlog() int64 {
	if l.getPhase() != 1 {
		return 0
	}
	return l.from.srv.Repl.End() - l.fedTo
}

func (l *c13link) feed(n int64) int64 {
	rp := l.from.srv.Repl
	lo := l.fedTo - rp.BacklogBase
	hi := lo + n
	if hi > int64(len(rp.Stream)) {
		hi = int64(len(rp.Stream))
	}
	l.reader.pipe.Feed(rp.Stream[lo:hi])
	l.fedTo = rp.BacklogBase + hi
	return hi - lo
}

var c13shapes = [][]string{
	{"set", "K", "V"}, {"hset", "K", "f", "V"}, {"lpush", "K", "V"}, {"rpush", "K", "V", "V"}, {"sadd", "K", "V"},
	{"zadd", "K", "1.5", "V"}, {"append", "K", "V"}, {"setex", "K", "100", "V"}, {"psetex", "K", "90000", "V"},
	{"set", "K", "V", "EX", "50"}, {"set", "K", "V", "PX", "70000"}, {"expire", "K", "300"}, {"pexpire", "K", "250000"},
	{"del", "K"}, {"incr", "K"}, {"set", "K", "V", "KEEPTTL"},
}

func (c *c13sim) clientOp(s *c13site) {
	g := c.r.Sched()
	s.nOps++
	op := &c13op{site: s, id: fmt.Sprintf("%s:op%d", s.name, s.nOps)}
	value := func() string {
		switch g.Choose("valkind", 5) {
		case 0:
			if c.marker != nil {
				return string(c.marker) // a syntactically valid marker as an ordinary value
			}
		case 1:
			return "redis-gunyu-bisync:looks:marker:{x}"
		}
		return "v" + strconv.Itoa(g.Choose("val", 1000))
	}
	key := func(k int) string {
		switch g.Choose("keykind", 6) {
		case 0:
			return fmt.Sprintf("user:marker:{%s#%d}", op.id, k) // contains ':marker:{' but is outside the reserved namespace
		case 1:
			return fmt.Sprintf("x-redis-gunyu-checkpoint-%s#%d", op.id, k)
		}
		return fmt.Sprintf("k-%s#%d", op.id, k)
	}
	n := 1
	if g.Choose("optxn", 3) == 0 {
		op.txn = true
		n = 1 + g.Choose("txnlen", 4)
		if c.bigTxn && !c.bigTxnDone && g.Choose("bigtxn", 4) == 0 {
			// one bulk-loader sized transaction per run (longer than any internal slice or batch bound)
			n, c.bigTxnDone = 1000+g.Choose("bigtxnlen", 700), true
			simrt.Probe("c13_big_client_transaction")
		}
	}
	for k := 0; k < n; k++ {
		sh := c13shapes[g.Choose("shape", len(c13shapes))]
		if op.txn && k == 0 && g.Choose("markerfirst", 2) == 0 {
			sh = []string{"set", "K", "V"} // a transaction whose first command is a SET of an ordinary key
		}
		cmd := make([]string, len(sh))
		for i, t := range sh {
			switch t {
			case "K":
				cmd[i] = key(k)
			case "V":
				cmd[i] = value()
			default:
				cmd[i] = t
			}
		}
		op.cmds = append(op.cmds, cmd)
		c.byKey[cmd[1]] = op
	}
	c.ops = append(c.ops, op)
	if len(op.cmds) > 16 {
		c.r.Logf("client %s: %s txn=%v %d commands, first %v", s.name, op.id, op.txn, len(op.cmds), op.cmds[:4])
	} else {
		c.r.Logf("client %s: %s txn=%v %v", s.name, op.id, op.txn, op.cmds)
	}
	cl := s.client
	if c.multiDB && g.Choose("opdb", 4) == 0 {
		cl = s.client1
		op.db = 1
	}
	disp := func(args ...string) {
		bs := make([][]byte, len(args))
		for i, a := range args {
			bs[i] = []byte(a)
		}
		s.srv.Dispatch(cl, bs)
	}
	if c.trackExists {
		for _, cmd := range op.cmds {
			if cmd[0] == "del" {
				s.srv.MarkExists(op.db, cmd[1])
			}
		}
	}
	if op.txn {
		disp("multi")
	}
	for _, cmd := range op.cmds {
		disp(cmd...)
	}
	if op.txn {
		disp("exec")
	}
}

// scan consumes new log entries of a site: commands executed there through a connection were executed by the
// link that targets this site.
func (c *c13sim) scan(s *c13site) {
	for ; c.scanned[s] < len(s.srv.Log); c.scanned[s]++ {
		e := s.srv.Log[c.scanned[s]]
		if e.Conn < 0 { // local client
			continue
		}
		if e.IsErr {
			c.setViolation("C13.target_error", "site answered an error to a link", "site %s answered an error to %s", s.name, e.String())
			continue
		}
		if len(e.Args) == 0 {
			continue
		}
		k := string(e.Args[0])
		if simredis.IsReservedKey(e.Args[0]) {
			if e.Name == "set" && strings.Contains(k, ":marker:{") && len(e.Args) > 1 && c.marker == nil {
				c.marker = e.Args[1]
			}
			continue
		}
		switch e.Name {
		case "select", "ping", "info", "exec", "multi", "command":
			continue
		case "xgroup", "xinfo":
			if len(e.Args) > 1 {
				k = string(e.Args[1]) // XGROUP CREATE <key> ...
			}
		case "script", "function":
			// scripts and function libraries of the snapshot (no key): part of the snapshot phase at B
			if c.snapKeys != nil {
				if s == c.a {
					c.setViolation("C13.echo", "a write came back to the site it was made at", "a script/function of site A's snapshot, loaded at site B by the snapshot phase of link A>B, was sent back to site A by the opposite link: %s", e.String())
				}
				continue
			}
		}
		if c.snapKeys[k] {
			if s == c.a {
				c.setViolation("C13.echo", "a write came back to the site it was made at", "key %q of site A's snapshot, written to site B by the snapshot phase of link A>B, was sent back to site A by the opposite link: %s", k, e.String())
			} else {
				c.snapApplied[k]++
			}
			continue
		}
		op := c.byKey[k]
		if op == nil {
			switch e.Name {
			case "select", "ping", "info", "exec", "multi", "command":
				continue
			}
			c.setViolation("C13.invented", "a link executed a command no client issued", "site %s: link executed %s", s.name, e.String())
			continue
		}
		if op.site == s {
			c.setViolation("C13.echo", "a write came back to the site it was made at", "client write %s made at site %s was applied at %s again by the opposite link: %s", op.id, op.site.name, s.name, e.String())
			continue
		}
		key := op.id + "/" + k
		c.applied[key]++
		if c.applied[key] > 1 {
			c.setViolation("C13.duplicate", "a foreign write was applied more than once", "client write %s (%s %q) was applied %d times at site %s", op.id, e.Name, k, c.applied[key], s.name)
		}
		if op.txn {
			if e.Txn == 0 {
				c.setViolation("C13.txn_lost", "a client transaction was not applied as a transaction", "command of client transaction %s applied outside MULTI/EXEC at site %s: %s", op.id, s.name, e.String())
			}
			m := c.applTxn[op.id]
			if m == nil {
				m = map[int]bool{}
				c.applTxn[op.id] = m
			}
			m[e.Txn] = true
			if len(m) > 1 {
				c.setViolation("C13.txn_split", "a client transaction was split over several target transactions", "client transaction %s was applied in %d different transactions at site %s", op.id, len(m), s.name)
			}
		}
	}
}

func runC13(r *Run, stratum string) *Violation {
	g := r.Gen()
	c := &c13sim{r: r, byKey: map[string]*c13op{}, scanned: map[*c13site]int{}, applied: map[string]int{}, applTxn: map[string]map[int]bool{}}
	flavour := "7"
	if stratum == "rewrite5" || g.Choose("flavour", 4) == 0 {
		flavour = "5"
	}
	c.multiDB = stratum != "snapshot" && g.Choose("multidb", 2) == 0
	c.bigTxn = stratum != "snapshot" && g.Choose("bigtxnrun", 10) == 0
	// with two databases in use, both links may exclude database 1 (output.filter.dbBlacklist): what clients write
	// there stays local, everything else crosses over exactly once as before
	c.db1Excluded = c.multiDB && g.Choose("db1excluded", 3) == 0
	c.a = c.newSite("A", "10.1.0.1:6379", "a"+hexID(g.Bytes("ida", 20))[1:], flavour)
	c.b = c.newSite("B", "10.2.0.1:6379", "b"+hexID(g.Bytes("idb", 20))[1:], flavour)
	if stratum != "snapshot" && g.Choose("noop-omission", 2) == 0 {
		// "the rewrites a Redis master applies when propagating (... omission of no-op commands)" for a BUSINESS command:
		// the sites keep a minimal existence model; a key a client deletes is there at the client's site (the DEL is
		// effective and propagates) and is not at the peer (already gone there: expired, evicted, deleted), so the
		// mirrored DEL is a no-op at the peer and its master leaves it out of the transaction it propagates - which the
		// opposite link must still recognise as mirrored
		c.a.srv.LenientTrack, c.b.srv.LenientTrack = true, true
		c.trackExists = true
		simrt.Probe("c13_noop_omission_modelled")
	}
	modes := []string{"sync", "pipeline", "parallel"}
	mode := func() string {
		switch stratum {
		case "sync", "pipeline", "parallel":
			return stratum
		}
		return modes[g.Choose("mode", 3)]
	}
	c.ab = &c13link{name: "A>B", from: c.a, to: c.b, cfg: bisyncCfg(g, mode()), cpName: "redis-gunyu-checkpoint-bisync:aaaaaaaaaaaaaaaaaaaaaaaa"}
	c.ba = &c13link{name: "B>A", from: c.b, to: c.a, cfg: bisyncCfg(g, mode()), cpName: "redis-gunyu-checkpoint-bisync:bbbbbbbbbbbbbbbbbbbbbbbb"}
	if c.db1Excluded {
		c.ab.cfg.Filters = &FilterSpec{DbBlacklist: []int{1}}
		c.ba.cfg.Filters = &FilterSpec{DbBlacklist: []int{1}}
	}
	if stratum == "snapshot" {
		o := rdbgen.GenOpts{NowMs: time.Now().UnixMilli(), MaxKeys: 1 + g.Choose("snapkeys", 14), MaxElems: 1 + g.Choose("snapelems", 10), MaxElemLen: 48,
			UniqueAcrossDBs: true, MaxDBs: 1, NoStreams: flavour == "5" && g.Choose("nostreams", 2) == 0}
		if flavour == "5" {
			o.MaxVersion = 9
		}
		ds := rdbgen.Gen(g, o)
		c.snapKeys, c.snapApplied = map[string]bool{}, map[string]int{}
		for _, k := range ds.Keys {
			k.DB = 0
			c.snapKeys[string(k.Name)] = true
		}
		c.ab.rdb, _ = rdbgen.Encode(ds, rdbgen.EncodeOpts{})
		if g.Choose("snapexpand", 3) == 0 {
			c.ab.cfg.NoRestore = true // native commands instead of RESTORE payloads
		}
		if g.Choose("snapchunk", 3) == 0 {
			// values above a (lowered) threshold are replayed in several chunks, each its own marked transaction
			old := rdb.VerifSetMaxBinEntryBuffer(32 << g.Choose("snapchunkat", 5))
			defer rdb.VerifSetMaxBinEntryBuffer(old)
			simrt.Probe("c13_snapshot_chunked")
		}
		if g.Choose("snapprepop", 3) == 0 {
			// site B already holds some of these keys (written there before the links existed, so not in B's stream):
			// the default key-exists policy replaces them - inside the marked transaction, or B's master propagates it
			for _, k := range ds.Keys {
				if g.Choose("snapprepopkey", 2) == 0 {
					if g.Choose("snapprepopkind", 2) == 0 {
						c.b.srv.SetString(0, string(k.Name), "held-before")
					} else {
						c.b.srv.SetHash(0, string(k.Name), map[string]string{"held": "before"})
					}
				}
			}
			simrt.Probe("c13_snapshot_target_prepopulated")
		}
		r.Logf("snapshot of site A: %s", ds.Summary(6))
	}
	c.startLink(c.ab)
	c.startLink(c.ba)
	r.Sample = fmt.Sprintf("flavour=%s A>B{%s} B>A{%s}", flavour, c.ab.cfg, c.ba.cfg)
	maxOps := 6 + g.Choose("nops", 30)
	if r.Tier == "thorough" {
		maxOps = 10 + g.Choose("nops2", 80)
	}
	sites := []*c13site{c.a, c.b}
	links := []*c13link{c.ab, c.ba}

	type act struct {
		label string
		w     int
		do    func()
	}
	step := func(allowClients bool) bool {
		r.Settle()
		for _, s := range sites {
			c.scan(s)
		}
		if c.viol != nil {
			return false
		}
		var acts []act
		for _, l := range links {
			l := l
			if l.getPhase() == 2 {
				c.setViolation("C13.link_ended", "a link stopped although nothing failed", "link %s ended: spErr=%v sendErr=%v", l.name, l.spErr, l.sendErr)
				return false
			}
			if bl := l.backlog(); bl > 0 {
				acts = append(acts, act{"feed " + l.name, 6, func() {
					s := r.Sched()
					n := bl
					switch s.Choose("feedkind", 3) {
					case 1:
						n = 1 + int64(s.Choose("feedsmall", 60))
					case 2:
						n = 1 + int64(s.Choose("feedmid", 400))
					}
					r.Logf("feed %s %d bytes", l.name, l.feed(n))
				}})
			}
		}
		for _, s := range sites {
			s := s
			for _, ss := range s.srv.Ready() {
				ss := ss
				acts = append(acts, act{fmt.Sprintf("exec %s %s", s.name, ss.LabelString()), 8, func() { s.srv.Step(ss) }})
			}
			if allowClients && len(c.ops) < maxOps {
				acts = append(acts, act{"client " + s.name, 4, func() { c.clientOp(s) }})
			}
		}
		acts = append(acts, act{"idle", 3, func() {
			d := []time.Duration{time.Millisecond, 20 * time.Millisecond, 110 * time.Millisecond, time.Second}[r.Sched().Biased("idle", 4, 1, 2)]
			r.Logf("idle %v", d)
			r.Advance(d)
		}})
		w := make([]int, len(acts))
		for i, a := range acts {
			w[i] = a.w
		}
		a := acts[r.Sched().Weighted("act", w)]
		r.Logf("step %d: %s", r.W.Step(), a.label)
		a.do()
		return true
	}
	for len(c.ops) < maxOps && r.BeginStep() {
		if !step(true) {
			break
		}
	}
	// quiescence: clients stopped; within the bound both links are idle and neither stream grows
	if c.viol == nil {
		quiet := 0
		endA, endB := int64(-1), int64(-1)
		// the round budget covers the backlog the clients left behind (a unit per client write, a few requests per unit,
		// one request per session and round) plus 400 rounds; an echo that keeps going exhausts any budget
		// the backlog is counted in commands: a link needs about one round per command it still has to apply (one
		// request per session and round), a bulk transaction of 1500 commands as many as 1500 single writes
		ncmds := 0
		for _, op := range c.ops {
			ncmds += len(op.cmds)
		}
		quiesceRounds := 400 + 40*maxOps + 8*ncmds
		for round := 0; round < quiesceRounds && c.viol == nil; round++ {
			r.Settle()
			progressed := false
			for _, l := range links {
				if l.backlog() > 0 {
					l.feed(1 << 30)
					progressed = true
				}
			}
			for _, s := range sites {
				for _, ss := range s.srv.Ready() {
					s.srv.Step(ss)
					progressed = true
				}
				c.scan(s)
			}
			for _, l := range links {
				if l.getPhase() == 2 {
					c.setViolation("C13.link_ended", "a link stopped although nothing failed", "link %s ended: spErr=%v sendErr=%v", l.name, l.spErr, l.sendErr)
				}
			}
			if progressed {
				quiet = 0
				continue
			}
			r.Advance(100 * time.Millisecond)
			ea, eb := c.a.srv.Repl.End(), c.b.srv.Repl.End()
			if ea == endA && eb == endB {
				quiet++
			} else {
				quiet = 0
			}
			endA, endB = ea, eb
			if quiet >= 12 {
				break
			}
		}
		if c.viol == nil && quiet < 12 {
			c.setViolation("C13.no_quiescence", "the exchange does not quiesce", "%d rounds after the last of %d client writes (each round: every session executes one request, or 100 ms pass) the replication streams still grow (A=%d B=%d)", quiesceRounds, len(c.ops), c.a.srv.Repl.End(), c.b.srv.Repl.End())
		}
	}
	if c.viol == nil {
		for _, op := range c.ops {
			for _, cmd := range op.cmds {
				key := op.id + "/" + cmd[1]
				if c.db1Excluded && op.db == 1 {
					if c.applied[key] != 0 {
						c.setViolation("C13.excluded_db_forwarded", "a write in an excluded database was sent to the other site", "client write %s [%s] made in database 1 of site %s, which both links exclude, was applied %d times at the other site", op.id, strings.Join(cmd, " "), op.site.name, c.applied[key])
					}
					continue
				}
				if c.applied[key] != 1 {
					peer := "B"
					if op.site == c.b {
						peer = "A"
					}
					c.setViolation("C13.swallowed", "a foreign write was never applied at the other site", "client write %s [%s] made at site %s was applied %d times at site %s after quiescence", op.id, strings.Join(cmd, " "), op.site.name, c.applied[key], peer)
					break
				}
			}
			if c.viol != nil {
				break
			}
		}
	}
	r.NonTriv = len(c.ops) >= 4 && c.a.nOps > 0 && c.b.nOps > 0
	// teardown
	for _, l := range links {
		l.cancel()
		l.mu.Lock()
		if l.reader != nil {
			l.reader.pipe.CloseWith(nil)
		}
		l.mu.Unlock()
	}
	for i := 0; i < 300; i++ {
		r.Settle()
		if c.ab.getPhase() == 2 && c.ba.getPhase() == 2 {
			break
		}
		busy := false
		for _, s := range sites {
			for _, ss := range s.srv.Ready() {
				s.srv.Step(ss)
				busy = true
			}
		}
		if !busy {
			r.Advance(50 * time.Millisecond)
		}
	}
	for _, s := range sites {
		for _, ss := range s.srv.Sessions {
			if !ss.Dead && !ss.Local {
				s.srv.KillSession(ss, 0)
			}
		}
	}
	r.Settle()
	return c.viol
}
