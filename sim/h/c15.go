package h

import (
	"context"
	"errors"
	"fmt"
	"sort"
	"strings"
	"sync"
	"sync/atomic"
	"syscall"
	"time"

	"github.com/mgtv-tech/redis-GunYu/cmd"
	"github.com/mgtv-tech/redis-GunYu/config"
	pb "github.com/mgtv-tech/redis-GunYu/pkg/api/golang"
	"github.com/mgtv-tech/redis-GunYu/pkg/cluster"
	usync "github.com/mgtv-tech/redis-GunYu/pkg/sync"
	"github.com/mgtv-tech/redis-GunYu/syncer"

	"verifh/simsyncer"
	"verifsim/simredis"
	"verifsim/simrt"
)

// C15 — at most one instance holds a source's leader lease at any time. DESIGN.md §3 C15.
//
// Real: pkg/cluster redisCluster/redisElection (Lua scripts executed by the double's mini-Lua), pkg/redis/client
// standalone connection, config.ClusterConfig.fix, and (strata renewloop*) cmd.SyncerCmd.clusterTicker /
// clusterCampaign / clusterRenew through the injected accessor. The skeleton of cmd.runCluster around the ticker
// (campaign -> ticker -> resign -> restart) is re-stated by the harness (runLoop) because the original needs a
// whole syncer; the leader/follower body itself (RunLeader/RunFollower) is not simulated.

func init() {
	Register(&PropertyDef{ID: "C15", Strata: []string{"free", "nofault", "expiry", "renewloop", "free", "renewloop_faults", "runcluster", "runcluster_faults", "twostore", "twostore_loop", "refusal", "refusal_loop"}, Run: runC15, StepCap: 1200})
}

const c15StoreAddr = "10.0.9.1:6379"

// c15StoreAddr2: strata twostore*: the input is a standalone configuration with TWO addresses (two independent sources
// behind one configuration, as RedisConfig.SelNodes allows). They share no key space, so the lease is an arbiter only
// if every instance of the group contends through the SAME one, whichever address happens to accept connections when an
// instance starts. The second address is a healthy, empty Redis; the first one refuses new connections for drawn
// stretches (fault store_unreachable_for_dial: a proxy restart, a full accept queue, a one-sided partition) while the
// connections it already has keep working.
const c15StoreAddr2 = "10.0.9.2:6379"

type c15Op struct {
	N         int
	Who       int
	Kind      string // connect | campaign | renew | resign | leader
	Inv, Ret  int64  // scheduler event stamps (2*step, 2*step+1)
	RetNs     int64
	Done      bool
	Role      cluster.ClusterRole
	Err       error
	Addr      string
	Tag       int
	Executed  bool
	ExecNs    int64
	ExecSeq   int
	Store     int    // which lease store executed it (strata twostore*: 0 = first address, 1 = second)
	ExecErr   string // error reply of the store, if any
	Delivered bool   // the whole reply was handed to the client before the connection died
	Reported  bool   // renew-loop strata: the leader loop's wait-closer was already closed (loss reported) when the call began
	// lease key as the store held it right before / after the execution (for the resign rule)
	Before, After c15Snap
}

type c15Snap struct {
	Present  bool
	Value    string
	ExpireAt int64
}

func (o *c15Op) told() bool { return o.Done && o.Executed && o.Delivered }

// success as the contender was told
func (o *c15Op) success() bool {
	switch o.Kind {
	case "campaign":
		return o.Err == nil && o.Role == cluster.RoleLeader
	default:
		return o.Err == nil
	}
}

type c15Contender struct {
	idx   int
	id    string
	sim   *c15Sim
	cmdCh chan string

	mu       sync.Mutex
	busy     bool
	hasCli   bool
	broken   bool
	down     bool // renewloop: instance not running, waits for a (re)start
	inflight *c15Op
	tag      int
	events   []string
	nops     int
	closeQ   []cluster.Cluster // clients to be closed by the scheduler goroutine (keeps "close" log lines ordered)
	exited   atomic.Bool
	parent   usync.WaitCloser
	loopWait atomic.Pointer[usync.WaitCloser] // wait-closer of the leader/follower loop currently running (renew-loop strata)

	cl cluster.Cluster
	el cluster.Election

	// runcluster strata: the real cmd.runCluster drives this instance; its syncer is a stub
	callSem   chan struct{} // see begin()
	cfg       syncer.SyncerConfig
	stopDelay atomic.Int64 // virtual ns the next Stop() of the stub syncer takes (a replication that is slow to wind down)
	bodies    []c15Body    // leader/follower bodies started by runCluster (guarded by mu)
}

// c15Body: runCluster started the leader (or follower) body of this instance.
type c15Body struct {
	Leader  bool
	StartNs int64
	// the instance's last completed election call before the body started
	LastKind string
	LastTold bool // it was a campaign that told the instance it is leader
	LastRet  int64
	LastN    int
}

type c15Sim struct {
	r        *Run
	srv      *simredis.Server
	ttl      int // seconds, as handed to NewRedisCluster
	ttlNs    int64
	renew    time.Duration
	key      string
	cs       []*c15Contender
	step     atomic.Int64
	opsMu    sync.Mutex
	ops      []*c15Op
	tagOwner map[int]*c15Contender
	nextTag  int
	startNs  int64
	lastSnap c15Snap
	endNs    int64
	loop     *cmd.VerifLoop
	faults   bool
	calls    int
	// runcluster strata
	realRunCluster bool
	keyMismatch    atomic.Bool
	src            *simredis.Server // the source shard's master (answers runCluster's role question at once)
	// strata twostore*
	srv2      *simredis.Server
	lastSnap2 c15Snap
	refuseA   bool // the first address refuses new connections
	refusals  bool // strata refusal*: the store refuses writes for drawn stretches (fault store_refuses_writes_*)
	execCtr   int  // global execution order over both stores
	// contender goroutines by goroutine number: a connection belongs to the contender whose goroutine dialled it
	gMu  sync.Mutex
	gOwn map[int64]*c15Contender
}

// pumpSource lets the source shard answer whatever it was asked: it is healthy and no subject of this property.
func (s *c15Sim) pumpSource() {
	if s.src == nil {
		return
	}
	for i := 0; i < 1000; i++ {
		rd := s.src.Ready()
		if len(rd) == 0 {
			return
		}
		s.src.Step(rd[0])
		s.r.Settle()
	}
}

// adopt: the calling goroutine is contender c's (it builds c's clients, i.e. dials c's connections).
func (s *c15Sim) adopt(c *c15Contender) {
	s.gMu.Lock()
	if s.gOwn == nil {
		s.gOwn = map[int64]*c15Contender{}
	}
	s.gOwn[simrt.GoID()] = c
	s.gMu.Unlock()
}

// dialTag: the incarnation tag of the contender whose goroutine is dialling (simnet.Net.TagOf).
func (s *c15Sim) dialTag() (int, bool) {
	s.gMu.Lock()
	c := s.gOwn[simrt.GoID()]
	s.gMu.Unlock()
	if c == nil {
		return 0, false
	}
	c.mu.Lock()
	defer c.mu.Unlock()
	return c.tag, true
}

func (s *c15Sim) stores() []*simredis.Server {
	if s.srv2 != nil {
		return []*simredis.Server{s.srv, s.srv2}
	}
	return []*simredis.Server{s.srv}
}

func (s *c15Sim) sessions() []*simredis.Session {
	if s.srv2 == nil {
		return s.srv.Sessions
	}
	return append(append([]*simredis.Session(nil), s.srv.Sessions...), s.srv2.Sessions...)
}

func (s *c15Sim) srvOf(ss *simredis.Session) *simredis.Server {
	if s.srv2 != nil {
		for _, x := range s.srv2.Sessions {
			if x == ss {
				return s.srv2
			}
		}
	}
	return s.srv
}

// storeConfig: the Redis configuration the instance hands to NewRedisCluster (cmd/syncer.go run(): input.redis).
func (s *c15Sim) storeConfig() config.RedisConfig {
	rc := config.RedisConfig{Addresses: []string{c15StoreAddr}, Type: config.RedisTypeStandalone, Otype: config.RedisTypeStandalone, Version: "7.2.0"}
	if s.srv2 != nil {
		rc.Addresses = []string{c15StoreAddr, c15StoreAddr2}
	}
	return rc
}

func (s *c15Sim) snap() c15Snap { return s.snapOf(s.srv) }

func (s *c15Sim) snapOf(srv *simredis.Server) c15Snap {
	o := srv.Get(0, s.key)
	if o == nil {
		return c15Snap{}
	}
	return c15Snap{Present: true, Value: string(o.Str), ExpireAt: o.ExpireAt}
}

func (s *c15Sim) rel(ns int64) string {
	return time.Duration(ns - s.startNs).String()
}

// ---------------------------------------------------------------- recording wrapper around the real election

func (c *c15Contender) begin(kind string) *c15Op {
	s := c.sim
	// one recorded call at a time per instance: the instance's calls share one connection, whose Do is exclusive
	// anyway (runCluster's follower body asks for the leader while the ticker campaigns); the recorder takes that
	// exclusion one level up so that every execution the store reports has exactly one call to belong to
	if c.callSem != nil {
		c.callSem <- struct{}{}
	}
	op := &c15Op{Who: c.idx, Kind: kind, Inv: 2 * s.step.Load()}
	if w := c.loopWait.Load(); w != nil && (*w).IsClosed() {
		op.Reported = true
	}
	c.mu.Lock()
	op.Tag = c.tag
	c.inflight = op
	c.mu.Unlock()
	s.opsMu.Lock()
	op.N = c.nops // numbered per contender: several contenders may start calls in the same scheduler step
	c.nops++
	s.ops = append(s.ops, op)
	s.opsMu.Unlock()
	return op
}

func (c *c15Contender) end(op *c15Op, role cluster.ClusterRole, addr string, err error) {
	c.mu.Lock()
	op.Role, op.Addr, op.Err = role, addr, err
	op.Ret = 2*c.sim.step.Load() + 1
	op.RetNs = time.Now().UnixNano() / 1e6 * 1e6
	op.Done = true
	c.inflight = nil
	res := "ok"
	switch {
	case err != nil:
		res = "error(" + shortErr(err) + ")"
	case op.Kind == "campaign":
		res = role.String()
	case op.Kind == "leader":
		res = "holder=" + addr
	}
	c.events = append(c.events, fmt.Sprintf("%s.%s#%d -> %s", c.id, op.Kind, op.N, res))
	c.mu.Unlock()
	if c.callSem != nil {
		<-c.callSem
	}
}

func shortErr(err error) string {
	s := err.Error()
	if len(s) > 90 {
		s = s[:90] + "..."
	}
	return strings.ReplaceAll(s, "\n", " ")
}

type c15Rec struct {
	c  *c15Contender
	el cluster.Election
}

func (e *c15Rec) Campaign(ctx context.Context) (cluster.ClusterRole, error) {
	op := e.c.begin("campaign")
	role, err := e.el.Campaign(ctx)
	e.c.end(op, role, "", err)
	return role, err
}
func (e *c15Rec) Renew(ctx context.Context) error {
	op := e.c.begin("renew")
	err := e.el.Renew(ctx)
	e.c.end(op, 0, "", err)
	return err
}
func (e *c15Rec) Resign(ctx context.Context) error {
	op := e.c.begin("resign")
	err := e.el.Resign(ctx)
	e.c.end(op, 0, "", err)
	return err
}
func (e *c15Rec) Leader(ctx context.Context) (*cluster.RoleInfo, error) {
	op := e.c.begin("leader")
	ri, err := e.el.Leader(ctx)
	addr := ""
	if ri != nil {
		addr = ri.Address
	}
	e.c.end(op, 0, addr, err)
	return ri, err
}

// connect builds the cluster client and the election exactly as cmd/syncer.go does (run(): NewRedisCluster with
// ttl = LeaseTimeout/second on the input's Redis config; runCluster(): NewElection(ctx, key, listenPeer)).
func (c *c15Contender) connect(ctx context.Context) (cluster.Election, error) {
	s := c.sim
	op := c.begin("connect")
	c.retire()
	rc := s.storeConfig()
	cl, err := cluster.NewRedisCluster(ctx, rc, s.ttl)
	if err != nil {
		c.end(op, 0, "", err)
		return nil, err
	}
	c.cl = cl
	el := &c15Rec{c: c, el: cl.NewElection(ctx, s.key, c.id)}
	c.end(op, 0, "", nil)
	return el, nil
}

// retire hands the current client to the scheduler goroutine, which closes it (drainEvents).
func (c *c15Contender) retire() {
	if c.cl != nil {
		c.mu.Lock()
		c.closeQ = append(c.closeQ, c.cl)
		c.mu.Unlock()
		c.cl = nil
	}
}

// free strata: one call per release.
func (c *c15Contender) serve() {
	defer c.exited.Store(true)
	c.sim.adopt(c)
	ctx := context.Background()
	for what := range c.cmdCh {
		switch what {
		case "connect":
			el, err := c.connect(ctx)
			c.mu.Lock()
			c.el = el
			c.hasCli = err == nil
			c.broken = err != nil
			c.mu.Unlock()
		default:
			var err error
			switch what {
			case "campaign":
				_, err = c.el.Campaign(ctx)
			case "renew":
				err = c.el.Renew(ctx)
			case "resign":
				err = c.el.Resign(ctx)
			case "leader":
				_, err = c.el.Leader(ctx)
			}
			if err != nil && !errors.Is(err, cluster.ErrNotLeader) {
				// the standalone client never reconnects: after a transport error every later call fails too
				c.mu.Lock()
				if c.tagDead() {
					c.broken = true
				}
				c.mu.Unlock()
			}
		}
		c.mu.Lock()
		c.busy = false
		c.mu.Unlock()
	}
	c.retire()
}

// tagDead: the contender's current connection was severed by the simulator (c.mu held).
func (c *c15Contender) tagDead() bool {
	for _, ss := range c.sim.sessions() {
		if ss.Conn.Tag == c.tag {
			return ss.Dead
		}
	}
	return true
}

// renewloop strata: the instance life cycle of cmd.run()/runCluster() around the REAL clusterTicker.
func (c *c15Contender) runLoop() {
	defer c.exited.Store(true)
	c.sim.adopt(c)
	for range c.cmdCh { // each token = permission to (re)start the instance
		c.mu.Lock()
		c.down = false
		c.mu.Unlock()
		if c.sim.realRunCluster {
			c.clusterIncarnation()
		} else {
			c.incarnation()
		}
		c.mu.Lock()
		c.down = true
		c.busy = false
		c.events = append(c.events, c.id+" instance stopped")
		c.mu.Unlock()
	}
}

func (c *c15Contender) incarnation() {
	s := c.sim
	runWait := usync.NewWaitCloserFromParent(c.parent, nil)
	defer runWait.Close(nil)
	elect, err := c.connect(runWait.Context())
	if err != nil {
		return
	}
	defer c.retire()
	role := cluster.RoleCandidate
	for !runWait.IsClosed() {
		if role == cluster.RoleCandidate {
			newRole, err := s.loop.Campaign(runWait.Context(), elect) // real clusterCampaign
			if err != nil {
				return // runWait.Close(syncer.ErrRestart)
			}
			role = newRole
			if role == cluster.RoleCandidate {
				runWait.Sleep(time.Second)
			}
			continue
		}
		syncerWait := usync.NewWaitCloserFromParent(runWait, nil)
		if role == cluster.RoleFollower {
			// the follower body asks for the leader first (done here before the ticker starts: the real code does it
			// from a second goroutine on the same connection)
			if _, lerr := elect.Leader(syncerWait.Context()); lerr != nil && lerr != cluster.ErrNoLeader {
				syncerWait.Close(errors.Join(lerr, syncer.ErrBreak))
			}
		}
		c.loopWait.Store(&syncerWait)
		s.loop.Ticker(syncerWait, role, elect, c15StoreAddr, s.key) // real clusterTicker
		c.loopWait.Store(nil)
		err := syncerWait.Error()
		syncerWait.Close(nil)
		if role == cluster.RoleLeader {
			ctx, cancel := context.WithTimeout(context.Background(), 5*time.Second)
			terr := elect.Resign(ctx)
			cancel()
			if terr != nil {
				err = errors.Join(err, terr, syncer.ErrBreak)
			}
		}
		role = cluster.RoleCandidate
		if err != nil {
			if errors.Is(err, syncer.ErrBreak) {
				return
			}
			time.Sleep(time.Second)
		}
	}
}

// runcluster strata: one instance life cycle = the REAL cmd.runCluster (through an injected accessor) on the real
// Redis-based cluster client; only the replication it would start is a stub (simsyncer.Factory).
func (c *c15Contender) clusterIncarnation() {
	s := c.sim
	runWait := usync.NewWaitCloserFromParent(c.parent, nil)
	defer runWait.Close(nil)
	op := c.begin("connect")
	c.retire()
	rc := s.storeConfig()
	cl, err := cluster.NewRedisCluster(runWait.Context(), rc, s.ttl)
	c.end(op, 0, "", err)
	if err != nil {
		return
	}
	c.cl = cl
	defer c.retire()
	cmd.VerifRunCluster(runWait, &c15Cluster{c: c, cl: cl}, []syncer.SyncerConfig{c.cfg})
}

// c15Cluster hands runCluster recorded elections. All instances of the simulation live in one process and share the
// global configuration, so the contender id (server.listenPeer, one per process in production) is supplied here.
type c15Cluster struct {
	c  *c15Contender
	cl cluster.Cluster
}

func (k *c15Cluster) Close() error { return nil }
func (k *c15Cluster) Register(ctx context.Context, svc, id string) error {
	return nil
}
func (k *c15Cluster) Discover(ctx context.Context, svc string) ([]string, error) { return nil, nil }
func (k *c15Cluster) NewElection(ctx context.Context, key string, id string) cluster.Election {
	if key != k.c.sim.key {
		k.c.mu.Lock()
		k.c.events = append(k.c.events, fmt.Sprintf("%s contends for %q, the other instances for %q", k.c.id, key, k.c.sim.key))
		k.c.mu.Unlock()
		k.c.sim.keyMismatch.Store(true)
	}
	return &c15Rec{c: k.c, el: k.cl.NewElection(ctx, key, k.c.id)}
}

// c15Stub is the replication runCluster starts and stops: it does nothing but exist for as long as it is told to.
type c15Stub struct {
	c    *c15Contender
	stop chan struct{}
	once sync.Once
}

func (st *c15Stub) body(leader bool) {
	c := st.c
	b := c15Body{Leader: leader, StartNs: time.Now().UnixNano()}
	c.sim.opsMu.Lock()
	for i := len(c.sim.ops) - 1; i >= 0; i-- {
		if o := c.sim.ops[i]; o.Who == c.idx && o.Done && o.Kind != "connect" && o.Kind != "leader" {
			b.LastKind, b.LastRet, b.LastN = o.Kind, o.RetNs, o.N
			b.LastTold = o.Kind == "campaign" && o.Err == nil && o.Role == cluster.RoleLeader
			break
		}
	}
	c.sim.opsMu.Unlock()
	c.mu.Lock()
	c.bodies = append(c.bodies, b)
	c.events = append(c.events, fmt.Sprintf("%s starts its %s body", c.id, map[bool]string{true: "LEADER", false: "follower"}[leader]))
	c.mu.Unlock()
	<-st.stop
}
func (st *c15Stub) RunLeader() error                           { st.body(true); return nil }
func (st *c15Stub) RunFollower(leader *cluster.RoleInfo) error { st.body(false); return nil }
func (st *c15Stub) Stop() {
	if d := st.c.stopDelay.Swap(0); d > 0 {
		st.c.mu.Lock()
		st.c.events = append(st.c.events, fmt.Sprintf("%s: stopping the replication takes %v", st.c.id, time.Duration(d)))
		st.c.mu.Unlock()
		time.Sleep(time.Duration(d))
	}
	st.once.Do(func() { close(st.stop) })
}
func (st *c15Stub) ServiceReplica(req *pb.SyncRequest, stream pb.ApiService_SyncServer) error {
	return nil
}
func (st *c15Stub) RunIds() []string          { return nil }
func (st *c15Stub) IsLeader() bool            { return false }
func (st *c15Stub) Pause()                    {}
func (st *c15Stub) DelRunId()                 {}
func (st *c15Stub) Resume()                   {}
func (st *c15Stub) State() syncer.SyncerState { return 0 }
func (st *c15Stub) Role() syncer.SyncerRole   { return 0 }
func (st *c15Stub) TransactionMode() bool     { return false }

// ---------------------------------------------------------------- run

var c15LeaseChoices = []time.Duration{0, 3 * time.Second, time.Second, 3500 * time.Millisecond, 5 * time.Second, 9999 * time.Millisecond,
	10 * time.Second, 30 * time.Second, 60 * time.Second, 600 * time.Second, 3000 * time.Second}
var c15RenewChoices = []time.Duration{0, time.Second, 500 * time.Millisecond, 2 * time.Second, 5 * time.Second, 100 * time.Second, 1000 * time.Second}

func runC15(r *Run, stratum string) *Violation {
	g := r.Gen()
	s := &c15Sim{r: r, tagOwner: map[int]*c15Contender{}}
	n := 2 + g.Biased("contenders", 4, 1, 2)
	cc := &config.ClusterConfig{GroupName: "g" + fmt.Sprint(g.Choose("group", 3)),
		LeaseTimeout:       c15LeaseChoices[g.Choose("leaseTimeout", len(c15LeaseChoices))],
		LeaseRenewInterval: c15RenewChoices[g.Choose("renewInterval", len(c15RenewChoices))]}
	raw := *cc
	if err := config.VerifFixCluster(cc); err != nil {
		Inconc("cluster config rejected: %v", err)
	}
	// the mechanism the property is anchored in: a healthy leader renews at least three times per lease period, so that
	// one lost renewal (or two) does not cost it the lease while it believes it leads. Whatever the operator wrote,
	// the normalised interval must fit the normalised lease that way.
	if cc.LeaseRenewInterval*3 > cc.LeaseTimeout {
		return &Violation{Property: "C15", Rule: "C15.renew_interval", Sig: "normalised renewal interval exceeds a third of the lease period",
			Msg: fmt.Sprintf("cluster.leaseTimeout=%v leaseRenewInterval=%v are normalised to lease %v, renewal every %v: a healthy leader renews less than three times per lease period (with more than one period between renewals its lease lapses while it acts as leader and another instance is granted the lease)", raw.LeaseTimeout, raw.LeaseRenewInterval, cc.LeaseTimeout, cc.LeaseRenewInterval)}
	}
	gc := config.GetSyncerConfig()
	oldCluster := gc.Cluster
	gc.Cluster = cc
	defer func() { gc.Cluster = oldCluster }()
	s.ttl = int(cc.LeaseTimeout / time.Second) // cmd/syncer.go run()
	s.ttlNs = int64(s.ttl) * int64(time.Second)
	s.renew = cc.LeaseRenewInterval
	// which lease an instance contends for is decided by the real cmd.runCluster from the instance's per-shard syncer
	// configuration (asked through an injected accessor): all instances of the group serve the same source shard (one
	// master, two replicas) but, as input.syncFrom allows, need not read from the same node of it
	shardMaster := []string{"10.1.1.1:6379", "10.1.1.2:6380"}[g.Choose("shard", 2)]
	keyOf := make([]string, n)
	readsFrom := make([]string, n)
	oldPeer := gc.Server.ListenPeer
	defer func() { gc.Server.ListenPeer = oldPeer }()
	for i := 0; i < n; i++ {
		in := config.RedisConfig{Addresses: []string{shardMaster}, Type: config.RedisTypeCluster, ClusterOptions: &config.RedisClusterOptions{}}
		health := func(label string) string {
			if g.Choose(label, 4) == 0 {
				return "offline"
			}
			return "online"
		}
		slaves := []config.RedisNode{
			{Address: "10.1.1.8:6379", Role: config.RedisRoleSlave, Health: health("replica1health")},
			{Address: "10.1.1.9:6379", Role: config.RedisRoleSlave, Health: health("replica2health")},
		}
		if g.Choose("replicaorder", 2) == 1 {
			slaves[0], slaves[1] = slaves[1], slaves[0]
		}
		in.SetClusterShards([]*config.RedisClusterShard{{
			Slots:  config.RedisSlots{Ranges: []config.RedisSlotRange{{Left: 0, Right: 16383}}},
			Master: config.RedisNode{Address: shardMaster, Role: config.RedisRoleMaster, Health: "online"},
			Slaves: slaves,
		}})
		strategy := []config.SelNodeStrategy{config.SelNodeStrategyPreferSlave, config.SelNodeStrategyMaster, config.SelNodeStrategySlave}[g.Choose("syncfrom", 3)]
		nodes := in.SelNodes(true, strategy)
		if len(nodes) != 1 {
			// no node of the shard qualifies under this strategy: this instance reads from the master
			nodes = in.SelNodes(true, config.SelNodeStrategyMaster)
		}
		id := fmt.Sprintf("10.0.1.%d:18001", i+1)
		gc.Server.ListenPeer = id
		keys, ids := cmd.VerifElectionKeys([]syncer.SyncerConfig{{Id: 0, Input: nodes[0]}})
		if len(keys) != 1 || ids[0] != id {
			Inconc("runCluster created %d elections for one shard (ids %v)", len(keys), ids)
		}
		keyOf[i], readsFrom[i] = keys[0], nodes[0].Address()
	}
	s.key = keyOf[0]
	for i := 1; i < n; i++ {
		if keyOf[i] != keyOf[0] {
			// two leases for one source shard: each is free for its own contender, so both instances are granted
			// leadership by their first campaign and keep it for as long as they renew
			return &Violation{Property: "C15", Rule: "C15.lease_key", Sig: "instances serving the same source shard contend for different leases",
				Msg: fmt.Sprintf("source shard of master %s: instance 10.0.1.1:18001 (reads from %s) contends for lease %q, instance 10.0.1.%d:18001 (reads from %s) for lease %q - both leases are free for their only contender, both instances are told they are leader at the same time", shardMaster, readsFrom[0], keyOf[0], i+1, readsFrom[i], keyOf[i])}
		}
	}
	twoStore := strings.HasPrefix(stratum, "twostore")
	s.refusals = strings.HasPrefix(stratum, "refusal")
	s.faults = stratum == "free" || stratum == "expiry" || stratum == "renewloop_faults" || stratum == "runcluster_faults" || twoStore || s.refusals
	s.realRunCluster = strings.HasPrefix(stratum, "runcluster")
	looping := strings.HasPrefix(stratum, "renewloop") || s.realRunCluster || stratum == "twostore_loop" || stratum == "refusal_loop"
	maxCalls := 8 + g.Choose("maxcalls", 53)
	maxSteps := 120 + g.Choose("maxsteps", 500)

	s.srv = simredis.NewServer(c15StoreAddr)
	s.srv.AutoDeliver = false
	r.Net.Listen(c15StoreAddr, s.srv)
	r.Net.TagOf = s.dialTag
	defer func() { r.Net.TagOf = nil }()
	s.startNs = time.Now().UnixNano()
	s.srv.OnExec = s.onExec
	if twoStore {
		s.srv2 = simredis.NewServer(c15StoreAddr2)
		s.srv2.AutoDeliver = false
		r.Net.Listen(c15StoreAddr2, s.srv2)
		s.srv2.OnExec = func(e *simredis.Exec) { s.onExecAt(1, e) }
		r.Net.DialFault = func(addr string) error {
			if s.refuseA && addr == c15StoreAddr {
				return syscall.ECONNREFUSED
			}
			return nil
		}
		defer func() { r.Net.DialFault = nil }()
	}
	if looping && !s.realRunCluster {
		s.loop = cmd.VerifNewLoop()
	}
	var runClusterInput config.RedisConfig
	if s.realRunCluster {
		// the source shard runCluster asks for its role (INFO replication) before every campaign round: a master
		src := simredis.NewServer(shardMaster)
		src.Immediate = true
		simredis.NewSource(src, "c15c15c15c15c15c15c15c15c15c15c15c15c15c1")
		r.Net.Listen(shardMaster, src)
		s.src = src
		runClusterInput = config.RedisConfig{Addresses: []string{shardMaster}, Type: config.RedisTypeStandalone, Otype: config.RedisTypeStandalone, Version: "7.2.0", ClusterOptions: &config.RedisClusterOptions{}}
		runClusterInput.SetClusterShards([]*config.RedisClusterShard{{Master: config.RedisNode{Address: shardMaster}}})
		simsyncer.Factory = func(cfg simsyncer.SyncerConfig) simsyncer.Syncer {
			return &c15Stub{c: s.cs[cfg.Id], stop: make(chan struct{})}
		}
		defer func() { simsyncer.Factory = nil }()
	}
	for i := 0; i < n; i++ {
		c := &c15Contender{idx: i, id: fmt.Sprintf("10.0.1.%d:18001", i+1), sim: s, cmdCh: make(chan string, 1), down: true, parent: usync.NewWaitCloser(nil)}
		c.cfg = syncer.SyncerConfig{Id: i, Input: runClusterInput}
		if s.realRunCluster {
			c.callSem = make(chan struct{}, 1)
		}
		s.cs = append(s.cs, c)
		if looping {
			go c.runLoop()
		} else {
			go c.serve()
		}
	}
	r.Logf("C15 %s contenders=%d leaseTimeout(raw %v -> %v) ttl=%ds renew(raw %v -> %v) key=%s", stratum, n, raw.LeaseTimeout, cc.LeaseTimeout, s.ttl, raw.LeaseRenewInterval, cc.LeaseRenewInterval, s.key)

	steps := 0
	for r.BeginStep() && steps < maxSteps {
		steps++
		s.step.Add(1)
		r.Settle()
		s.pumpSource()
		s.drainEvents()
		s.checkUnsupported()
		acts := s.actions(stratum, looping, maxCalls)
		if len(acts) == 0 {
			break
		}
		w := make([]int, len(acts))
		for i, a := range acts {
			w[i] = a.weight
		}
		a := acts[r.Sched().Weighted("act", w)]
		r.Logf("step %d @%s: %s", steps, s.rel(time.Now().UnixNano()), a.label)
		a.do()
	}
	s.finish(looping)
	s.checkUnsupported()

	ops := s.snapshotOps()
	r.Sample = s.describe(stratum, n, raw, cc, ops)
	v := s.oracle(ops)
	if v != nil {
		r.Logf("VIOLATION %s: %s", v.Rule, v.Msg)
	}
	return v
}

func (s *c15Sim) snapshotOps() []*c15Op {
	s.opsMu.Lock()
	defer s.opsMu.Unlock()
	ops := append([]*c15Op(nil), s.ops...)
	sort.SliceStable(ops, func(i, j int) bool {
		if ops[i].Inv != ops[j].Inv {
			return ops[i].Inv < ops[j].Inv
		}
		if ops[i].Who != ops[j].Who {
			return ops[i].Who < ops[j].Who
		}
		return ops[i].N < ops[j].N
	})
	return ops
}

func (s *c15Sim) drainEvents() {
	for _, c := range s.cs {
		c.mu.Lock()
		ev := c.events
		c.events = nil
		cq := c.closeQ
		c.closeQ = nil
		c.mu.Unlock()
		for _, e := range ev {
			s.r.Logf("  %s", e)
		}
		for _, cl := range cq {
			cl.Close()
		}
	}
}

func (s *c15Sim) allLog() []simredis.Exec {
	if s.srv2 == nil {
		return s.srv.Log
	}
	return append(append([]simredis.Exec(nil), s.srv.Log...), s.srv2.Log...)
}

func (s *c15Sim) ready() []*simredis.Session {
	rd := s.srv.Ready()
	if s.srv2 != nil {
		rd = append(append([]*simredis.Session(nil), rd...), s.srv2.Ready()...)
	}
	return rd
}

func (s *c15Sim) undelivered() []*simredis.Session {
	un := s.srv.Undelivered()
	if s.srv2 != nil {
		un = append(append([]*simredis.Session(nil), un...), s.srv2.Undelivered()...)
	}
	return un
}

// cn names a connection in action labels: connection ids are per run, the store is named where there are two.
func (s *c15Sim) cn(ss *simredis.Session) string {
	if s.srv2 != nil && s.srvOf(ss) == s.srv2 {
		return fmt.Sprintf("c%d@store2", ss.Conn.ID)
	}
	return fmt.Sprintf("c%d", ss.Conn.ID)
}

func (s *c15Sim) checkUnsupported() {
	for _, e := range s.allLog() {
		if e.IsErr && simredis.IsUnsupportedScript(e.Reply) {
			// DESIGN §2.2: outside the mini-Lua subset there is no verdict at all -> harness error (driver exit 2)
			panic("C15 not decidable: the lease-store double could not interpret the election script (" + e.Reply + "); mini-Lua subset exceeded — this is NOT a verdict")
		}
	}
}

// onExec runs on the scheduler goroutine while the store executes one request.
func (s *c15Sim) onExec(e *simredis.Exec) { s.onExecAt(0, e) }

func (s *c15Sim) onExecAt(store int, e *simredis.Exec) {
	last := &s.lastSnap
	srv := s.srv
	if store == 1 {
		last, srv = &s.lastSnap2, s.srv2
	}
	after := s.snapOf(srv)
	before := *last
	if before.Present && before.ExpireAt > 0 && before.ExpireAt <= e.AtNs/1e6 {
		before = c15Snap{} // expired in the meantime
	}
	*last = after
	c := s.tagOwner[e.Tag]
	if c == nil {
		return
	}
	c.mu.Lock()
	defer c.mu.Unlock()
	op := c.inflight
	if op == nil || op.Executed || op.Tag != e.Tag {
		return
	}
	switch e.Name {
	case "eval", "evalsha", "get", "ping":
		op.Executed = true
		op.ExecNs = e.AtNs / 1e6 * 1e6 // store time: the store's clock ticks in milliseconds (as Redis' does)
		op.ExecSeq = e.Seq
		if s.srv2 != nil {
			s.execCtr++
			op.ExecSeq, op.Store = s.execCtr, store
		}
		op.Before, op.After = before, after
		if e.IsErr {
			op.ExecErr = e.Reply
		}
	}
}

func (s *c15Sim) sessionOwner(ss *simredis.Session) *c15Contender { return s.tagOwner[ss.Conn.Tag] }

func (s *c15Sim) idleChoices() []time.Duration {
	ttl := time.Duration(s.ttlNs)
	return []time.Duration{time.Millisecond, s.renew, ttl / 10, ttl / 3, ttl / 2, ttl - time.Millisecond, ttl, ttl + time.Millisecond, 2 * ttl, s.renew / 2, time.Second, 5 * ttl}
}

func (s *c15Sim) actions(stratum string, looping bool, maxCalls int) []pipeAction {
	var acts []pipeAction
	r := s.r
	anyBusy := false
	for _, c := range s.cs {
		c := c
		c.mu.Lock()
		busy, has, broken, down := c.busy, c.hasCli, c.broken, c.down
		c.mu.Unlock()
		if busy {
			anyBusy = true
		}
		if looping {
			if down && !busy {
				acts = append(acts, pipeAction{"start " + c.id, 6, func() { s.release(c, "start") }})
			} else {
				anyBusy = true
				if s.realRunCluster && c.stopDelay.Load() == 0 {
					// the replication of this instance will be slow to wind down the next time runCluster stops it
					acts = append(acts, pipeAction{"slow-stop " + c.id, 1, func() {
						d := time.Duration(s.ttl)*time.Second/2 + time.Duration(r.Sched().Choose("stopdelay", 4))*time.Duration(s.ttl)*time.Second/2
						c.stopDelay.Store(int64(d))
						r.W.Fault("slow_replication_stop")
					}})
				}
			}
			continue
		}
		if busy || s.calls >= maxCalls {
			continue
		}
		if !has || broken {
			acts = append(acts, pipeAction{"connect " + c.id, 6, func() { s.release(c, "connect") }})
			if has {
				acts = append(acts, pipeAction{"call " + c.id + " (dead connection)", 1, func() { s.release(c, s.drawCall()) }})
			}
			continue
		}
		acts = append(acts, pipeAction{"call " + c.id, 8, func() { s.release(c, s.drawCall()) }})
		acts = append(acts, pipeAction{"reconnect " + c.id, 1, func() { s.release(c, "connect") }})
	}
	ready := s.ready()
	for _, ss := range ready {
		ss := ss
		acts = append(acts, pipeAction{"exec " + s.cn(ss), 10, func() { s.srvOf(ss).Step(ss) }})
	}
	und := s.undelivered()
	for _, ss := range und {
		ss := ss
		acts = append(acts, pipeAction{"deliver " + s.cn(ss), 10, func() { s.deliver(ss) }})
	}
	if s.faults {
		for _, ss := range ready {
			ss := ss
			acts = append(acts, pipeAction{"fault request-lost " + s.cn(ss), 1, func() {
				r.W.Fault("request_lost")
				s.srvOf(ss).KillSession(ss, 0)
			}})
		}
		for _, ss := range und {
			ss := ss
			acts = append(acts, pipeAction{"fault reply-lost " + s.cn(ss), 1, func() {
				r.W.Fault("reply_lost")
				s.srvOf(ss).KillSession(ss, 0)
			}})
		}
		var idle []*simredis.Session
		for _, ss := range s.sessions() {
			if !ss.Dead && !ss.Conn.ClientClosed() && len(ss.Outbox) == 0 && !s.srvOf(ss).HasRequest(ss) {
				idle = append(idle, ss)
			}
		}
		if len(idle) > 0 {
			acts = append(acts, pipeAction{"fault reset", 1, func() {
				ss := idle[r.Sched().Choose("resetconn", len(idle))]
				r.W.Fault("conn_reset")
				r.Logf("  reset %s", s.cn(ss))
				s.srvOf(ss).KillSession(ss, 0)
			}})
		}
		if s.refusals {
			// the store stays up and refuses writes for a stretch: out of memory, or demoted to a read-only replica
			if s.srv.RefuseWrites == "" {
				acts = append(acts, pipeAction{"fault store refuses writes", 2, func() {
					s.srv.RefuseWrites = []string{"OOM", "READONLY"}[r.Sched().Choose("refusal", 2)]
					r.W.Fault("store_refuses_writes_" + strings.ToLower(s.srv.RefuseWrites))
					r.Logf("  store answers writes with -%s", s.srv.RefuseWrites)
				}})
			} else {
				acts = append(acts, pipeAction{"store accepts writes again", 3, func() { s.srv.RefuseWrites = "" }})
			}
		}
		if s.srv2 != nil {
			// the first address stops / resumes accepting NEW connections; the connections it has keep working
			if !s.refuseA {
				acts = append(acts, pipeAction{"fault first address refuses new connections", 3, func() {
					r.W.Fault("store_unreachable_for_dial")
					s.refuseA = true
				}})
			} else {
				acts = append(acts, pipeAction{"first address accepts connections again", 3, func() { s.refuseA = false }})
			}
		}
	}
	inFlight := len(ready) > 0 || len(und) > 0
	if len(acts) > 0 || anyBusy {
		w := 4
		if looping {
			w = 14 // nothing happens in the renew loop unless time passes
		}
		if stratum == "expiry" {
			w = 8
		}
		if inFlight {
			w = 2 // a healthy store answers promptly; stalls are the rarer case
		}
		acts = append(acts, pipeAction{"idle", w, func() {
			ch := s.idleChoices()
			d := ch[r.Sched().Choose("idledur", len(ch))]
			if d <= 0 {
				d = time.Millisecond
			}
			r.Logf("  idle %v", d)
			r.Advance(d)
		}})
	}
	if !looping && s.calls >= maxCalls && !anyBusy && !inFlight {
		return nil
	}
	return acts
}

func (s *c15Sim) drawCall() string {
	return []string{"campaign", "renew", "resign", "leader"}[s.r.Sched().Weighted("callkind", []int{5, 5, 2, 1})]
}

func (s *c15Sim) release(c *c15Contender, what string) {
	c.mu.Lock()
	c.busy = true
	if what == "connect" || what == "start" {
		s.nextTag++
		c.tag = s.nextTag
		s.tagOwner[c.tag] = c
		s.r.Net.SetTag(c.tag)
		c.hasCli = false
	}
	c.mu.Unlock()
	if what != "connect" && what != "start" {
		s.calls++
	}
	s.r.Logf("  release %s %s", c.id, what)
	c.cmdCh <- what
}

func (s *c15Sim) deliver(ss *simredis.Session) {
	if c := s.sessionOwner(ss); c != nil {
		c.mu.Lock()
		if op := c.inflight; op != nil && op.Executed && op.Tag == ss.Conn.Tag {
			op.Delivered = true
		}
		c.mu.Unlock()
	}
	s.srvOf(ss).DeliverOutbox(ss)
}

// finish lets outstanding calls complete (execute + deliver everything), then stops all contenders.
func (s *c15Sim) finish(looping bool) {
	r := s.r
	s.endNs = time.Now().UnixNano()
	if !looping {
		for i := 0; i < 200; i++ {
			r.Settle()
			if rd := s.ready(); len(rd) > 0 {
				s.srvOf(rd[0]).Step(rd[0])
				continue
			}
			if un := s.undelivered(); len(un) > 0 {
				s.deliver(un[0])
				continue
			}
			break
		}
	}
	r.Settle()
	s.drainEvents()
	// stop the contenders one after the other (a common shutdown would let them log concurrently)
	for _, c := range s.cs {
		// No context is cancelled here: closing a WaitCloser parent races (benignly, in the real code) with the
		// watcher goroutine that marks the child closed, and the Go scheduler would decide whether one more
		// Campaign is issued. The instance is stopped the way a dying network stops it: its connections are severed
		// and the next call / tick fails.
		close(c.cmdCh)
		adv := s.renew / 2
		if adv < 500*time.Millisecond {
			adv = 500 * time.Millisecond
		}
		for i := 0; i < 400 && !c.exited.Load(); i++ {
			r.Settle()
			s.pumpSource()
			if c.exited.Load() {
				break
			}
			for _, ss := range s.sessions() {
				if !ss.Dead && s.sessionOwner(ss) == c {
					s.srvOf(ss).KillSession(ss, 0)
				}
			}
			if s.realRunCluster && i >= 20 {
				// a replication that is slow to stop (fault slow_replication_stop) may keep the instance for up to two
				// lease periods
				c.stopDelay.Store(0)
				r.Advance(time.Duration(s.ttlNs)/4 + adv)
				continue
			}
			r.Advance(adv)
		}
		if !c.exited.Load() {
			Inconc("contender goroutine did not stop")
		}
		r.Settle()
		s.drainEvents()
	}
	for _, ss := range s.sessions() {
		if !ss.Dead {
			s.srvOf(ss).KillSession(ss, 0)
		}
	}
	r.Settle()
	s.drainEvents()
}

func (s *c15Sim) describe(stratum string, n int, raw config.ClusterConfig, cc *config.ClusterConfig, ops []*c15Op) string {
	var sb strings.Builder
	fmt.Fprintf(&sb, "%s contenders=%d leaseTimeout=%v(raw %v) ttl=%ds renewInterval=%v(raw %v) calls:", stratum, n, cc.LeaseTimeout, raw.LeaseTimeout, s.ttl, cc.LeaseRenewInterval, raw.LeaseRenewInterval)
	k := 0
	for _, o := range ops {
		if o.Kind == "connect" {
			continue
		}
		if k++; k > 30 {
			sb.WriteString(" ...")
			break
		}
		sb.WriteString(" " + s.opString(o))
	}
	return sb.String()
}

func (s *c15Sim) opString(o *c15Op) string {
	who := s.cs[o.Who].id
	at := "not-executed"
	if o.Executed {
		at = "@" + s.rel(o.ExecNs)
	}
	res := "?"
	switch {
	case !o.Done:
		res = "pending"
	case o.Err != nil && errors.Is(o.Err, cluster.ErrNotLeader):
		res = "not-leader"
	case o.Err != nil:
		res = "error"
		if o.Executed && !o.Delivered {
			res = "reply-lost"
		}
	case o.Kind == "campaign":
		res = o.Role.String()
	case o.Kind == "leader":
		res = "holder=" + o.Addr
	default:
		res = "ok"
	}
	if o.Store != 0 {
		at += " by the second store"
	}
	return fmt.Sprintf("[%s.%s#%d %s %s]", who, o.Kind, o.N, at, res)
}

// ---------------------------------------------------------------- oracles

func (s *c15Sim) viol(rule, sig, format string, a ...any) *Violation {
	return &Violation{Property: "C15", Rule: rule, Sig: sig, Msg: fmt.Sprintf(format, a...)}
}

func (s *c15Sim) oracle(ops []*c15Op) *Violation {
	r := s.r
	var ex []*c15Op
	for _, o := range ops {
		if o.Executed && o.Kind != "connect" {
			ex = append(ex, o)
		}
	}
	sort.Slice(ex, func(i, j int) bool { return ex[i].ExecSeq < ex[j].ExecSeq })

	// (1) sequential lease specification applied in the store's execution order.
	// (strata twostore*: one specification per store - each store is a correct lease arbiter for those who ask IT; that
	// the instances of a group must not end up with different arbiters is what the interval rule (2) decides)
	holder, expiry := -1, int64(0)
	holders, expiries := [2]int{-1, -1}, [2]int64{}
	curStore := 0
	grants, denials, takeovers := 0, 0, 0
	grantedTo := map[int]bool{}
	hist := func(upto *c15Op) string {
		var sb strings.Builder
		k := 0
		for _, o := range ex {
			sb.WriteString(" " + s.opString(o))
			if k++; o == upto || k > 40 {
				break
			}
		}
		return sb.String()
	}
	for _, o := range ex {
		t := o.ExecNs
		holders[curStore], expiries[curStore] = holder, expiry
		curStore = o.Store
		holder, expiry = holders[curStore], expiries[curStore]
		if o.Store == 1 {
			r.W.Probe("c15_second_store_asked")
		}
		live := holder >= 0 && t < expiry
		hname := "nobody"
		if live {
			hname = fmt.Sprintf("%s until %s", s.cs[holder].id, s.rel(expiry))
		}
		if o.ExecErr != "" && o.Kind != "leader" {
			// the store answered the call with an error (strata refusal*: a write it refuses while out of memory or
			// read-only): a failed call. Nothing was stored, extended or deleted (verified on the stored lease), and the
			// caller must not have been told a success.
			r.W.Probe("c15_call_refused_by_store")
			if o.Before != o.After {
				return s.viol("C15.refused_changed", "a call the store answered with an error changed the stored lease",
					"%s of %s executed at %s was answered %q and changed the stored lease from %+v to %+v. History (store order):%s", o.Kind, s.cs[o.Who].id, s.rel(t), o.ExecErr, o.Before, o.After, hist(o))
			}
			if o.told() && o.success() && (o.Kind == "campaign" || o.Kind == "renew") {
				return s.viol("C15.told_despite_error", "an instance was told it is leader although the store answered its call with an error",
					"%s of %s executed at %s was answered %q by the store, the instance was told success. History (store order):%s", o.Kind, s.cs[o.Who].id, s.rel(t), o.ExecErr, hist(o))
			}
			continue
		}
		switch o.Kind {
		case "campaign", "renew":
			grant := !live || holder == o.Who
			if o.told() {
				ok := o.success()
				if ok && (!o.After.Present || o.After.Value != s.cs[o.Who].id) {
					return s.viol("C15.told_without_lease", "an instance was told it is leader although the store holds no lease for it",
						"%s of %s executed by the store at %s was answered with success, but the lease the store holds right after the execution is %+v (before: %+v): the instance acts as leader without a lease, the next contender is granted one. History (store order):%s",
						o.Kind, s.cs[o.Who].id, s.rel(t), o.After, o.Before, hist(o))
				}
				if ok && !grant {
					return s.viol("C15.two_holders", "grant while another contender holds an unexpired lease",
						"%s of %s executed by the store at %s was answered with success although the lease is held by %s (ttl %ds). History (store order):%s",
						o.Kind, s.cs[o.Who].id, s.rel(t), hname, s.ttl, hist(o))
				}
				if !ok && grant {
					return s.viol("C15.liveness", "campaign/renew denied although no other unexpired lease exists",
						"%s of %s executed by the store at %s with its reply delivered was answered %s although the lease was held by %s (ttl %ds): a contender must obtain or extend the lease when nobody else holds it. History (store order):%s",
						o.Kind, s.cs[o.Who].id, s.rel(t), s.opString(o), hname, s.ttl, hist(o))
				}
				if !ok && !grant && o.Kind == "renew" && o.ExecErr == "" && !errors.Is(o.Err, cluster.ErrNotLeader) {
					return s.viol("C15.renew_sentinel", "renew by a non-holder did not return ErrNotLeader",
						"Renew of %s executed at %s while %s holds the lease returned %v instead of cluster.ErrNotLeader", s.cs[o.Who].id, s.rel(t), hname, o.Err)
				}
				if ok {
					grants++
					grantedTo[o.Who] = true
					if holder >= 0 && holder != o.Who {
						takeovers++
						simrt.Probe("c15_takeover")
					}
				} else {
					denials++
					if o.Kind == "renew" {
						simrt.Probe("c15_renew_not_leader")
					} else {
						simrt.Probe("c15_campaign_denied")
					}
				}
			} else if grant {
				simrt.Probe("c15_grant_reply_lost")
			}
			if grant {
				if live && holder == o.Who {
					simrt.Probe("c15_extend")
				}
				holder, expiry = o.Who, t+s.ttlNs
			}
		case "resign":
			if live && holder == o.Who {
				holder = -1
				simrt.Probe("c15_resign_holder")
			} else if live {
				simrt.Probe("c15_resign_nonholder")
				if o.Before.Present && (!o.After.Present || o.After.Value != o.Before.Value || o.After.ExpireAt != o.Before.ExpireAt) {
					return s.viol("C15.resign_foreign", "resign by a non-holder changed the lease",
						"Resign of %s executed at %s while %s holds the lease changed the stored lease from %+v to %+v. History (store order):%s",
						s.cs[o.Who].id, s.rel(t), hname, o.Before, o.After, hist(o))
				}
			}
		case "leader":
			if o.told() {
				if live && (o.Err != nil || o.Addr != s.cs[holder].id) {
					return s.viol("C15.leader_view", "Leader() does not name the holder of the unexpired lease",
						"Leader of %s executed at %s returned (%q, %v) while the lease is held by %s", s.cs[o.Who].id, s.rel(t), o.Addr, o.Err, hname)
				}
				if !live && o.Err == nil && o.Addr != "" {
					return s.viol("C15.leader_view", "Leader() names a holder although no unexpired lease exists",
						"Leader of %s executed at %s returned %q although no unexpired lease exists", s.cs[o.Who].id, s.rel(t), o.Addr)
				}
			}
		}
	}
	r.NonTriv = grants >= 1 && len(ex) >= 3 && (denials >= 1 || takeovers >= 1)

	// (2) interval oracle of the property text: leadership intervals the contenders were TOLD about.
	type iv struct {
		who        int
		start, end int64
		op         *c15Op
	}
	var ivs []iv
	for _, o := range ex {
		if (o.Kind == "campaign" || o.Kind == "renew") && o.told() && o.success() {
			ivs = append(ivs, iv{o.Who, o.ExecNs, o.ExecNs + s.ttlNs, o})
		}
	}
	cut := func(who int, at int64) {
		for i := range ivs {
			if ivs[i].who == who && ivs[i].start <= at && at < ivs[i].end {
				ivs[i].end = at
			}
		}
	}
	for _, o := range ops {
		if !o.Done {
			continue
		}
		switch o.Kind {
		case "resign":
			if o.Executed && o.ExecErr == "" {
				cut(o.Who, o.ExecNs)
			}
		case "renew", "campaign":
			if !o.success() {
				if o.Executed {
					cut(o.Who, o.ExecNs)
				} else {
					cut(o.Who, o.RetNs)
				}
			}
		}
	}
	for i := range ivs {
		for j := i + 1; j < len(ivs); j++ {
			a, b := ivs[i], ivs[j]
			if a.who == b.who {
				continue
			}
			lo, hi := max(a.start, b.start), min(a.end, b.end)
			if lo < hi {
				return s.viol("C15.overlap", "two contenders were told they hold the lease for intersecting intervals",
					"%s was told leader for [%s,%s) by %s and %s for [%s,%s) by %s (ttl %ds): the intervals intersect in [%s,%s). History (store order):%s",
					s.cs[a.who].id, s.rel(a.start), s.rel(a.end), s.opString(a.op), s.cs[b.who].id, s.rel(b.start), s.rel(b.end), s.opString(b.op), s.ttl, s.rel(lo), s.rel(hi), hist(nil))
			}
		}
	}

	// (2a) an instance is told it holds the lease only by the store: a campaign or renewal that reports success without
	// the store having executed anything for it answered from the instance's own memory of an earlier grant
	for _, o := range ops {
		if o.Done && !o.Executed && (o.Kind == "campaign" || o.Kind == "renew") && o.success() {
			return s.viol("C15.told_without_store", "an instance was told it is leader without the lease store being asked",
				"%s of %s returned success at %s although the store executed no request for it: the answer cannot reflect who holds the lease now. History (store order):%s", o.Kind, s.cs[o.Who].id, s.rel(o.RetNs), hist(nil))
		}
	}

	// (2b) runcluster strata: the real runCluster starts the leader body of an instance only on the strength of a grant
	// it has just received. A leader body that starts a whole lease period (or more) after the instance's last
	// election call returned acts on a lease that, by the store's own clock, is over - whoever holds it now.
	if s.realRunCluster {
		if s.keyMismatch.Load() {
			return s.viol("C15.lease_key", "instances serving the same source shard contend for different leases", "runCluster asked for another election key than %q (see the event log)", s.key)
		}
		for _, c := range s.cs {
			c.mu.Lock()
			bodies := append([]c15Body(nil), c.bodies...)
			c.mu.Unlock()
			for _, b := range bodies {
				if !b.Leader {
					continue
				}
				r.W.Probe("c15_leader_body_started")
				if !b.LastTold {
					return s.viol("C15.leader_without_grant", "an instance started acting as leader without having been told it is leader",
						"%s started its leader body at %s; its last election call before that was %s#%d, which did not tell it that it is leader. History (store order):%s", c.id, s.rel(b.StartNs), b.LastKind, b.LastN, hist(nil))
				}
				if age := b.StartNs - b.LastRet; age >= s.ttlNs {
					return s.viol("C15.leader_on_expired_grant", "an instance started acting as leader on a grant older than the lease",
						"%s started its leader body at %s on the strength of campaign#%d, which had returned %v earlier (at %s); the lease lasts %ds and nothing renewed it in between, so by the store's clock it was over and free for (or held by) another instance. History (store order):%s",
						c.id, s.rel(b.StartNs), b.LastN, time.Duration(age), s.rel(b.LastRet), s.ttl, hist(nil))
				}
			}
		}
	}

	// (3) "a failed renewal is reported as loss of leadership" at the level of the real leader loop (cmd/syncer.go
	// clusterTicker / clusterRenew, renew-loop strata): once a renewal has failed — whatever the reason: not the holder
	// any more, store error, lost reply — the instance must stop acting as leader, i.e. its loop ends; the next call of
	// that instance is its Resign or a new Campaign, never another renewal issued from the same leader loop.
	if s.loop != nil {
		// The loop repeats a failed renewal once, at once (one more attempt inside the same tick): two failures in a row
		// are the loop's own retry, a third renewal after them means the loss was not reported — unless the loop's
		// wait-closer was already closed when that renewal began (the loss WAS reported; the ticker goroutine may run
		// one more round when its tick and the closed context are ready together, which harms nothing).
		failed := map[int][]*c15Op{}
		for _, o := range ops {
			if !o.Done && o.Kind != "renew" {
				continue
			}
			switch o.Kind {
			case "renew":
				if prev := failed[o.Who]; len(prev) >= 2 && !o.Reported {
					return s.viol("C15.loss_not_reported", "failed renewals did not end the leader loop",
						"%s: renewals %s and %s failed (%v) but the instance went on as leader: its next call is another renewal (%s) instead of a resignation or a new campaign. History (store order):%s",
						s.cs[o.Who].id, s.opString(prev[0]), s.opString(prev[1]), prev[1].Err, s.opString(o), hist(nil))
				}
				if o.Done && !o.success() {
					failed[o.Who] = append(failed[o.Who], o)
				} else if o.Done {
					delete(failed, o.Who)
				}
			case "campaign", "resign", "connect":
				delete(failed, o.Who)
			}
		}
	}

	// Informational probe (NOT a verdict; the property is stated in store time): in the renew-loop strata, do two
	// instances act as leader at the same virtual instant? An instance acts as leader from the return of a granted
	// call until one of its calls returns anything else (or it resigns).
	if s.loop != nil {
		type bel struct {
			who    int
			lo, hi int64
		}
		var bels []bel
		for _, c := range s.cs {
			believing := false
			var lo int64
			for _, o := range ops {
				if o.Who != c.idx || !o.Done {
					continue
				}
				switch o.Kind {
				case "campaign", "renew":
					if o.told() && o.success() {
						if !believing {
							believing, lo = true, o.RetNs
						}
					} else if believing {
						bels = append(bels, bel{c.idx, lo, o.RetNs})
						believing = false
					}
				case "resign":
					if believing {
						bels = append(bels, bel{c.idx, lo, o.RetNs})
						believing = false
					}
				}
			}
			if believing {
				bels = append(bels, bel{c.idx, lo, s.endNs})
			}
		}
	overlap:
		for i := range bels {
			for j := i + 1; j < len(bels); j++ {
				if bels[i].who != bels[j].who && max(bels[i].lo, bels[j].lo) < min(bels[i].hi, bels[j].hi) {
					simrt.Probe("c15_info_two_instances_act_as_leader_in_wall_time")
					r.Logf("info: %s acts as leader during [%s,%s) and %s during [%s,%s) (virtual wall time; stalled replies)", s.cs[bels[i].who].id, s.rel(bels[i].lo), s.rel(bels[i].hi), s.cs[bels[j].who].id, s.rel(bels[j].lo), s.rel(bels[j].hi))
					break overlap
				}
			}
		}
	}

	// (3) porcupine on the client-visible history (invoke/return stamps only).
	// (single-lease model: not applicable to a history in which the second store of strata twostore* was asked)
	for _, o := range ex {
		if o.Store != 0 {
			return nil
		}
	}
	// (a call the store answered with an error is a failed call that changed nothing - rule (1) verified that - and no
	// operation of the sequential lease object)
	exOK := ex[:0:0]
	for _, o := range ex {
		if o.ExecErr == "" || o.Kind == "leader" {
			exOK = append(exOK, o)
		}
	}
	if v := s.porcupineCheck(exOK); v != nil {
		return v
	}
	return nil
}
