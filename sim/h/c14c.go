package h

import (
	"errors"
	"fmt"
	"strconv"
	"strings"
	"time"

	"verifsim/simredis"
	"verifsim/simrt"
)

// C14 on a CLUSTER target — the only topology where `parallel` mode has several lanes (on a standalone target
// bisyncPipelineWorkerCount is 1), i.e. where units complete out of order across lanes and the frontier has to be
// rebuilt from a snapshot plus a journal with holes. DESIGN.md §3 C14.
//
// One real RedisOutput (sendAofBisync; sync / pipeline / parallel) replays a stream of single-slot units, each with a
// unique payload, into three node doubles. The scheduler decides which node answers next (completion order across
// lanes), stalls a node, feeds, idles (frontier flush ticker), crashes the tool (connections severed, a drawn prefix of
// the already written requests still executes) or stops and starts it gracefully. Oracle: at every start the resume
// offset ends a unit of the contiguous committed prefix (or is the base); never backwards; sync mode: exactly the
// last committed unit; after the last restart everything gets committed.

type c14cUnit struct {
	cmds   [][][]byte
	txn    bool
	endOff int64
	uniq   string // unique value carried by the unit's first command
}

func runC14Cluster(r *Run, stratum string) *Violation {
	g := r.Gen()
	mode := splitDash(stratum)[1]
	cfg := bisyncCfg(g, mode)
	cfg.ClusterAddrs = clusterAddrs
	cfg.Parallelism = 2 + g.Choose("lanes", 3)
	max := 14
	if r.Tier == "thorough" {
		max = 40
	}
	ntags := 3 + g.Choose("ntags", 4)
	tags := make([]string, ntags)
	for i := range tags {
		tags[i] = fmt.Sprintf("%c%d", 'a'+i, g.Choose("tag", 1000))
	}
	nUnits := 3 + g.Choose("nunits", max)
	st := &Stream{Boundaries: map[int64]int{}}
	st.Base = int64(1 + g.Choose("base", 100000))
	st.Boundaries[st.Base] = -1
	off := st.Base
	txnSeq := 0
	add := func(kind ItemKind, txn int, parts ...[]byte) {
		raw := encodeCmd(parts...)
		it := Item{Idx: len(st.Items), Raw: raw, Start: off, End: off + int64(len(raw)), Name: strings.ToLower(string(parts[0])), Args: parts[1:], Kind: kind, SrcDB: 0, Txn: txn}
		off = it.End
		st.Items = append(st.Items, it)
		st.Bytes = append(st.Bytes, raw...)
		st.Boundaries[off] = it.Idx
	}
	add(KSelect, 0, []byte("select"), []byte("0"))
	units := make([]*c14cUnit, nUnits)
	for i := range units {
		u := &c14cUnit{uniq: fmt.Sprintf("u%04d", i)}
		tag := tags[g.Choose("unittag", ntags)]
		n := 1
		if g.Choose("unittxn", 3) == 0 {
			u.txn = true
			n = 1 + g.Choose("txnlen", 3)
		}
		for k := 0; k < n; k++ {
			key := []byte(fmt.Sprintf("{%s}k%d", tag, g.Choose("key", 6)))
			val := []byte(fmt.Sprintf("%s.%d", u.uniq, k))
			switch g.Choose("cmd", 3) {
			case 0:
				u.cmds = append(u.cmds, [][]byte{[]byte("set"), key, val})
			case 1:
				u.cmds = append(u.cmds, [][]byte{[]byte("rpush"), append([]byte("l"), key...), val})
			default:
				u.cmds = append(u.cmds, [][]byte{[]byte("hset"), append([]byte("h"), key...), []byte("f"), val})
			}
		}
		if g.Choose("pingbetween", 6) == 0 {
			add(KPing, 0, []byte("ping"))
		}
		if u.txn {
			txnSeq++
			add(KMulti, txnSeq, []byte("multi"))
			for _, c := range u.cmds {
				add(KCmd, txnSeq, c...)
			}
			add(KExec, txnSeq, []byte("exec"))
		} else {
			add(KCmd, 0, u.cmds[0]...)
		}
		u.endOff = off
		units[i] = u
	}
	unitOf := map[string]int{}
	for i, u := range units {
		unitOf[u.uniq] = i
	}

	l := newClusterLink(r, cfg, st)
	// state after a completed full sync at the stream's base offset: the root checkpoint exists (on the node that owns
	// its slot); without it the namespace is fresh and every start is an initial one
	root := l.topo.Nodes[l.topo.Owner[simredis.HashSlot([]byte(l.cpName))]]
	root.SetHash(0, l.cpName, map[string]string{
		l.runID + "_runid":   l.runID,
		l.runID + "_version": "1",
		l.runID + "_offset":  strconv.FormatInt(st.Base, 10),
		l.runID + "_mtime":   strconv.FormatInt(time.Now().UnixNano(), 10),
	})
	r.Sample = fmt.Sprintf("%s cfg{%s} lanes=%d units=%d tags=%d stream{%s}", stratum, cfg, cfg.Parallelism, nUnits, ntags, describeStream(st, 12))

	var viol *Violation
	setV := func(rule, sig, format string, a ...any) {
		if viol == nil {
			viol = &Violation{Property: "C14", Rule: rule, Sig: sig + " (cluster target)", Msg: fmt.Sprintf(format, a...)}
			r.Logf("VIOLATION %s: %s", rule, viol.Msg)
		}
	}

	maxInInc := -1 // highest unit committed by the current incarnation
	committed := make([]bool, nUnits)
	ncommit := make([]int, nUnits)
	ncommitInc := make([]int, nUnits) // commits by the current incarnation
	incNo := 0
	logPos := 0
	observe := func() {
		type blk struct {
			units  map[int]int
			record bool
		}
		blocks := map[string]*blk{}
		var order []string
		for ; logPos < len(l.topo.Log); logPos++ {
			e := l.topo.Log[logPos]
			if e.IsErr || len(e.Args) == 0 {
				continue
			}
			if e.Txn == 0 {
				if !simredis.IsReservedKey(e.Args[0]) {
					switch e.Name {
					case "set", "rpush", "hset":
						setV("C14.outside_txn", "business command executed outside a transaction", "node %d executed %s outside MULTI/EXEC in bidirectional mode", e.Node, e.Exec.String())
					}
				}
				continue
			}
			id := fmt.Sprintf("%d/%d", e.Node, e.Txn)
			b := blocks[id]
			if b == nil {
				b = &blk{units: map[int]int{}}
				blocks[id] = b
				order = append(order, id)
			}
			if simredis.IsReservedKey(e.Args[0]) {
				k := string(e.Args[0])
				if e.Name == "hset" && (strings.Contains(k, ":latest:{") || strings.Contains(k, ":commit:{")) {
					b.record = true
				}
				continue
			}
			v := string(e.Args[len(e.Args)-1])
			if i := strings.IndexByte(v, '.'); i > 0 {
				if ui, ok := unitOf[v[:i]]; ok {
					b.units[ui]++
				}
			}
		}
		// a transaction block is logged as a whole by one Step of the node double, so blocks never straddle two calls
		for _, id := range order {
			b := blocks[id]
			if len(b.units) == 0 {
				continue
			}
			if len(b.units) > 1 {
				setV("C14.unit_split", "a target transaction holds more than one replay unit", "target transaction %s holds commands of units %v", id, keysOfIntMap(b.units))
				continue
			}
			for ui, n := range b.units {
				if n != len(units[ui].cmds) {
					setV("C14.unit_split", "a target transaction holds only part of a replay unit", "target transaction %s executed %d of the %d commands of unit %d", id, n, len(units[ui].cmds), ui)
					continue
				}
				if !b.record {
					setV("C14.no_record", "unit committed without its recovery record in the same transaction", "target transaction %s executed unit %d without writing a recovery record (latest/commit) in the same MULTI/EXEC", id, ui)
					continue
				}
				committed[ui] = true
				ncommit[ui]++
				ncommitInc[ui]++
				if ncommitInc[ui] > 1 {
					setV("C14.applied_twice", "a unit was applied twice within one run of the link", "unit %d (source offset %d) was committed %d times by incarnation %d (mode %s): within one run nothing makes the link send a unit again", ui, units[ui].endOff, ncommitInc[ui], incNo, mode)
				}
				if ui > maxInInc {
					maxInInc = ui
				}
				if mode == "sync" && ncommit[ui] > 1 {
					setV("C14.applied_twice", "sync mode applied a unit twice", "unit %d (source offset %d) was committed %d times", ui, units[ui].endOff, ncommit[ui])
				}
			}
		}
	}
	contiguous := func() int {
		c := -1
		for i, ok := range committed {
			if !ok {
				break
			}
			c = i
		}
		return c
	}
	lastCommitted := func() int {
		x := -1
		for i, ok := range committed {
			if ok {
				x = i
			}
		}
		return x
	}

	incarnation := 0
	lastStart := int64(-1)
	started := false // the current incarnation's resume point has been judged
	judgeStart := func() {
		if started || l.getPhase() == 0 {
			return
		}
		started = true
		if l.spErr != nil {
			return // a reported start failure (e.g. a dead node): the tool retries, nothing is resumed
		}
		l.mu.Lock()
		offv := l.reader.left
		l.mu.Unlock()
		c := contiguous()
		ui := -1
		for i, u := range units {
			if u.endOff == offv {
				ui = i
			}
		}
		desc := fmt.Sprintf("incarnation %d resumes at offset %d (mode %s, %d lanes; committed prefix ends with unit %d", incarnation, offv, mode, cfg.Parallelism, c)
		if c >= 0 {
			desc += fmt.Sprintf(" @%d", units[c].endOff)
		}
		desc += fmt.Sprintf(", last committed unit %d; committed=%s)", lastCommitted(), bitString(committed))
		switch {
		case offv == st.Base:
		case ui >= 0 && ui <= c:
		case ui > c:
			setV("C14.skip", "resume point lies beyond a unit the target never committed", "%s: unit %d is not committed", desc, c+1)
		case c >= 0 && offv > units[c].endOff || c < 0 && offv > st.Base:
			setV("C14.skip", "resume point lies beyond a unit the target never committed", "%s: that is past the committed prefix", desc)
		default:
			setV("C14.boundary", "resume point does not end a committed replay unit", "%s: the offset ends no replay unit", desc)
		}
		if incarnation > 1 && mode == "sync" && c >= 0 && offv < units[c].endOff {
			setV("C14.repeat", "sync mode resumes before the last committed unit", "%s: units after that offset were committed and will be applied twice", desc)
		}
		if incarnation > 1 && offv < lastStart {
			setV("C14.backwards", "resume point moved backwards between restarts", "%s: the previous start was at %d", desc, lastStart)
		}
		lastStart = offv
	}
	startFails := 0    // consecutive failed starts with no node stalled
	stallSeen := false // a node was stalled while the current incarnation ran
	start := func() {
		incarnation++
		incNo = incarnation
		for i := range ncommitInc {
			ncommitInc[i] = 0
		}
		maxInInc = -1
		started = false
		stallSeen = false
		l.start()
	}

	crash := func() {
		r.W.Fault("crash")
		r.Logf("CRASH incarnation %d", incarnation)
		if maxInInc > contiguous() {
			simrt.Probe("c14c_crash_with_hole")
		}
		r.Net.DialFault = func(string) error { return errors.New("process is dead") }
		for _, n := range l.topo.Nodes {
			for _, ss := range n.Live() {
				if ss.Dead {
					continue
				}
				p := n.PendingCount(ss)
				k := 0
				if p > 0 {
					k = r.Sched().Choose("crash_exec_more", p+1)
				}
				done := n.KillSession(ss, k)
				r.Logf("  %s %s: %d pending, %d still executed", n.Addr, ss.LabelString(), p, done)
			}
		}
		l.cancel()
		l.mu.Lock()
		if l.reader != nil {
			l.reader.pipe.CloseWith(errors.New("input died"))
		}
		l.mu.Unlock()
		for i := 0; i < 500 && l.getPhase() != 2; i++ {
			r.Settle()
			for _, n := range l.topo.Nodes {
				for _, ss := range n.Sessions {
					if !ss.Dead {
						n.KillSession(ss, 0)
					}
				}
			}
			r.Advance(100 * time.Millisecond)
		}
		r.Settle()
		if l.getPhase() != 2 {
			Inconc("incarnation %d did not stop after crash", incarnation)
		}
		r.Net.DialFault = nil
	}

	// connection loss without stopping the tool: Send ends by itself, the next incarnation runs on the same output object
	connLoss := func() {
		r.W.Fault("conn_loss_soft_restart")
		observe()
		r.Logf("CONNECTION LOSS, in-process restart of incarnation %d (committed=%s)", incarnation, bitString(committed))
		if maxInInc > contiguous() {
			simrt.Probe("c14c_conn_loss_with_hole")
		}
		r.Net.DialFault = func(string) error { return errors.New("target unreachable") }
		for _, n := range l.topo.Nodes {
			for _, ss := range n.Live() {
				if ss.Dead {
					continue
				}
				p := n.PendingCount(ss)
				k := 0
				if p > 0 {
					k = r.Sched().Choose("loss_exec_more", p+1)
				}
				done := n.KillSession(ss, k)
				r.Logf("  %s %s: %d pending, %d still executed", n.Addr, ss.LabelString(), p, done)
			}
		}
		for i := 0; i < 600 && l.getPhase() != 2; i++ {
			r.Settle()
			for _, n := range l.topo.Nodes {
				for _, ss := range n.Sessions {
					if !ss.Dead {
						n.KillSession(ss, 0)
					}
				}
			}
			if i == 300 {
				l.cancel()
				l.mu.Lock()
				if l.reader != nil {
					l.reader.pipe.CloseWith(errors.New("run scope closed"))
				}
				l.mu.Unlock()
			}
			r.Advance(100 * time.Millisecond)
		}
		r.Settle()
		if l.getPhase() != 2 {
			Inconc("incarnation %d did not end after connection loss", incarnation)
		}
		r.Net.DialFault = nil
		l.reuse = true
	}

	maxCrashes := 1 + g.Choose("ncrashes", 4)
	crashes, graceful, restarts, resyncs, holeFaults, epochFaults, resyncUnit := 0, 0, 0, 0, 0, 0, -1
	resets := 0
	stalled := -1 // index of a node whose requests are not served for now
	start()
	for r.BeginStep() {
		r.Settle()
		observe()
		judgeStart()
		if viol != nil {
			break
		}
		if l.getPhase() == 2 {
			// Send ended on its own: with healthy nodes that is a defect unless the start itself failed
			restarts++
			r.Logf("incarnation %d ended by itself: spErr=%v sendErr=%v", incarnation, l.spErr, l.sendErr)
			if l.spErr != nil && !stallSeen {
				startFails++
				if startFails >= 3 {
					setV("C14.cannot_resume", "after a crash the start fails on a healthy target, every time", "incarnation %d: StartPoint failed for the %d-th time in a row with all nodes healthy and serving: %v (committed=%s): the replay never resumes", incarnation, startFails, l.spErr, bitString(committed))
					break
				}
			} else if l.spErr == nil {
				startFails = 0
			}
			if l.spErr == nil && restarts > maxCrashes+6 {
				setV("C14.ended", "replay ended although nothing failed", "incarnation %d ended: sendErr=%v", incarnation, l.sendErr)
				break
			}
			if restarts > 40 {
				Inconc("too many restarts")
			}
			l.stop()
			start()
			continue
		}
		if l.getPhase() == 0 && stalled < 0 {
			// start-up recovery is one goroutine asking one question after the other (on a cluster: the commit index of
			// every slot, 16384 round trips): nothing to interleave. Serve a drawn number of requests in one step —
			// usually all of them, sometimes only some so that a crash can fall inside the recovery.
			budget := 1 << 20
			if r.Sched().Choose("startup_partial", 4) == 0 {
				budget = 1 + r.Sched().Choose("startup_n", 400)
			}
			for served := 0; served < budget && l.getPhase() == 0; {
				rc := l.ready()
				if len(rc) == 0 {
					r.Settle()
					if len(l.ready()) == 0 {
						r.Advance(time.Millisecond)
						if len(l.ready()) == 0 && l.getPhase() == 0 {
							r.Settle()
							if len(l.ready()) == 0 {
								break
							}
						}
					}
					continue
				}
				rc[0].node.Step(rc[0].ss)
				served++
				r.Settle()
			}
			observe()
			judgeStart()
			if viol != nil {
				break
			}
			if l.getPhase() == 0 && r.Sched().Choose("startup_then", 3) != 0 {
				continue
			}
		}
		var ready []readyConn
		for _, rc := range l.ready() {
			if stalled >= 0 && rc.node == l.topo.Nodes[stalled] {
				continue
			}
			ready = append(ready, rc)
		}
		if l.getPhase() == 1 && l.remaining() == 0 && len(l.ready()) == 0 && contiguous() == nUnits-1 {
			break
		}
		var acts []pipeAction
		for _, rc := range ready {
			rc := rc
			acts = append(acts, pipeAction{fmt.Sprintf("exec %s %s", rc.node.Addr, rc.ss.LabelString()), 10, func() { rc.node.Step(rc.ss) }})
		}
		if rem := l.remaining(); rem > 0 {
			acts = append(acts, pipeAction{"feed", 8, func() {
				s := r.Sched()
				n := rem
				switch s.Choose("feedkind", 4) {
				case 1:
					n = 1 + int64(s.Choose("feedsmall", 60))
				case 2:
					n = 1 + int64(s.Choose("feedmid", 500))
				}
				l.feed(n)
			}})
		}
		acts = append(acts, pipeAction{"idle", 2, func() {
			d := []time.Duration{time.Millisecond, 20 * time.Millisecond, 110 * time.Millisecond, 1100 * time.Millisecond}[r.Sched().Biased("idle", 4, 1, 2)]
			r.Logf("idle %v", d)
			r.Advance(d)
		}})
		if stalled < 0 {
			acts = append(acts, pipeAction{"stall-node", 2, func() {
				stalled = r.Sched().Choose("stallnode", len(l.topo.Nodes))
				stallSeen = true
				r.W.Fault("node_stall")
				r.Logf("node %d stalls", stalled)
			}})
		} else {
			acts = append(acts, pipeAction{"unstall-node", 2, func() { r.Logf("node %d resumes", stalled); stalled = -1 }})
		}
		// faults while nothing of this incarnation is in flight test little (restarts without traffic are the graceful
		// stop-start action's business): offer them when business requests are pending or a hole exists
		l.mu.Lock()
		fedSome := l.reader != nil && l.fedTo > l.reader.left
		l.mu.Unlock()
		holeNow := maxInInc > contiguous() // this incarnation committed (and was told so) a unit behind an uncommitted one
		// shortly after a full resync (a few units committed under the restarted numbering) is where stale recovery
		// records of the time before can still win over the new ones: stop there as well
		sinceResync := 0
		if resyncs > 0 {
			for i := resyncUnit + 1; i < nUnits; i++ {
				if committed[i] {
					sinceResync++
				}
			}
		}
		// (after a fail-over also before the first unit of the new history is committed: the old records carry the
		// previous replication id, only the root checkpoint tells that they are obsolete)
		freshEpoch := resyncs > 0 && (sinceResync >= 1 || l.prevID != "") && sinceResync <= 3 && epochFaults < 2
		if l.getPhase() == 1 && (crashes < maxCrashes && fedSome || holeNow && holeFaults < 2 || freshEpoch) {
			w := 1
			if len(l.ready()) > 0 {
				w = 3
			}
			if stalled >= 0 && len(l.ready()) > len(ready) {
				w = 6 // in-flight requests on the stalled node: the state a hole in the journal comes from
			}
			if freshEpoch {
				w = 10
			}
			if maxInInc > contiguous() {
				simrt.Probe("c14c_hole_while_running")
				w = 14 // a later unit is committed (and acknowledged) while an earlier one is not: stop HERE
			}
			acts = append(acts, pipeAction{"crash", w, func() {
				if holeNow {
					holeFaults++
				}
				if freshEpoch {
					epochFaults++
				}
				crashes++
				crash()
				observe()
				stalled = -1
				start()
			}})
			acts = append(acts, pipeAction{"conn-loss", w, func() {
				if holeNow {
					holeFaults++
				}
				if freshEpoch {
					epochFaults++
				}
				crashes++
				connLoss()
				observe()
				stalled = -1
				start()
			}})
			if resyncs < 1 && crashes < maxCrashes && contiguous() < nUnits-3 {
				// a full resynchronisation under the same replication id: the link is stopped, a snapshot taken at a
				// later source offset R is loaded (everything up to R is on the target now) and the root checkpoint
				// moves to R. The recovery records of the incremental phase before it stay where they are (stale).
				acts = append(acts, pipeAction{"full-resync", 3, func() {
					resyncs++
					stalled = -1
					r.W.Fault("full_resync")
					l.stop()
					observe()
					// the snapshot of a full sync is taken at the source's CURRENT offset: it lies behind everything the
					// link has replayed from this history, committed units included
					c := contiguous()
					if lc := lastCommitted(); lc > c {
						c = lc
					}
					if c >= nUnits-3 { // the graceful stop completed what was in flight: nothing left to skip over
						start()
						return
					}
					j := c + 1 + r.Sched().Choose("resync_to", nUnits-2-c-1)
					for i := 0; i <= j; i++ {
						committed[i] = true
					}
					resyncUnit = j
					R := units[j].endOff
					if r.Sched().Choose("resync_failover", 3) != 0 {
						// the full resync follows a fail-over of the source: the new master reports a new replication id
						// and the previous one as its second id (one offset space); the root checkpoint is written under
						// the new id, the recovery records of the time before still carry the old one
						l.prevID, l.runID = l.runID, "9e8d7c6b5a4f3e2d1c0b9a8f7e6d5c4b3a2f1e0d"
						r.W.Fault("source_failover")
					}
					root.SetHash(0, l.cpName, map[string]string{
						l.runID + "_runid":   l.runID,
						l.runID + "_version": "1",
						l.runID + "_offset":  strconv.FormatInt(R, 10),
						l.runID + "_mtime":   strconv.FormatInt(time.Now().UnixNano(), 10),
					})
					r.Logf("FULL RESYNC: root checkpoint moved to %d (end of unit %d)", R, j)
					start()
				}})
			}
			if resets < 2 {
				// one connection of one node is reset with requests in flight, a drawn prefix of which still executes;
				// the cluster stays reachable (unlike conn-loss): whatever the client does next, it does at once
				var cand []readyConn
				for _, rc := range l.ready() {
					if rc.node.PendingCount(rc.ss) > 0 {
						cand = append(cand, rc)
					}
				}
				if len(cand) > 0 {
					acts = append(acts, pipeAction{"conn-reset", w, func() {
						sc := r.Sched()
						rc := cand[sc.Choose("resetconn", len(cand))]
						n := rc.node.PendingCount(rc.ss)
						k := sc.Choose("reset_exec_more", n+1)
						resets++
						r.W.Fault("conn_reset")
						done := rc.node.KillSession(rc.ss, k)
						r.Logf("RESET %s %s: %d pending, %d still executed", rc.node.Addr, rc.ss.LabelString(), n, done)
					}})
				}
			}
			if l.prevID == "" && crashes < maxCrashes {
				// the source fails over and answers +CONTINUE: same offsets, new replication id, the previous one second.
				// The tool moves the root checkpoint to the new id (UpdateCheckpoint at the next start / SetRunId), offset
				// unchanged; every recovery record and the frontier written so far still carry the previous id
				acts = append(acts, pipeAction{"failover-continue", 2, func() {
					stalled = -1
					r.W.Fault("source_failover_continue")
					l.stop()
					observe()
					h := root.Get(0, l.cpName)
					if h == nil || h.T != 'h' {
						start()
						return
					}
					old := l.runID
					l.prevID, l.runID = old, "9e8d7c6b5a4f3e2d1c0b9a8f7e6d5c4b3a2f1e0d"
					fields := map[string]string{}
					for k, v := range h.Hash {
						if !strings.HasPrefix(k, old+"_") {
							fields[k] = string(v)
						}
					}
					fields[l.runID+"_runid"] = l.runID
					fields[l.runID+"_version"] = "1"
					fields[l.runID+"_offset"] = string(h.Hash[old+"_offset"])
					fields[l.runID+"_mtime"] = strconv.FormatInt(time.Now().UnixNano(), 10)
					root.SetHash(0, l.cpName, fields)
					r.Logf("FAILOVER (+CONTINUE): root checkpoint moved to id %s.., offset %s", l.runID[:6], fields[l.runID+"_offset"])
					start()
				}})
			}
			if graceful < 2 && crashes < maxCrashes {
				acts = append(acts, pipeAction{"stop-start", 1, func() {
					graceful++
					stalled = -1
					r.W.Fault("graceful_restart")
					r.Logf("GRACEFUL restart of incarnation %d", incarnation)
					l.stop()
					observe()
					start()
				}})
			}
		}
		wts := make([]int, len(acts))
		for i, a := range acts {
			wts[i] = a.weight
		}
		a := acts[r.Sched().Weighted("act", wts)]
		r.Logf("step %d: %s", r.W.Step(), a.label)
		a.do()
	}
	// drain: no more faults; everything must get committed
	if viol == nil {
		stalled = -1
		for i := 0; i < 2000 && viol == nil; i++ {
			r.Settle()
			observe()
			judgeStart()
			if contiguous() == nUnits-1 && l.remaining() == 0 && len(l.ready()) == 0 {
				break
			}
			if l.getPhase() == 2 {
				restarts++
				if restarts > 40 {
					break
				}
				l.stop()
				start()
				continue
			}
			if rc := l.ready(); len(rc) > 0 {
				for k := 0; k < 4096 && len(rc) > 0; k++ {
					rc[0].node.Step(rc[0].ss)
					r.Settle()
					rc = l.ready()
				}
				continue
			}
			if rem := l.remaining(); rem > 0 {
				l.feed(rem)
				continue
			}
			r.Advance(150 * time.Millisecond)
		}
		r.Settle()
		observe()
		if viol == nil && contiguous() != nUnits-1 {
			miss := contiguous() + 1
			setV("C14.dropped", "units missing after the last restart and drain", "after all restarts and a drain unit %d (ends at %d) was never committed (committed=%s, phase %d, sendErr=%v, spErr=%v)", miss, units[miss].endOff, bitString(committed), l.getPhase(), l.sendErr, l.spErr)
		}
	}
	l.stop()
	r.NonTriv = (r.W.Faults["crash"] > 0 || r.W.Faults["graceful_restart"] > 0) && nUnits >= 2
	r.Evals = 1
	return viol
}

func bitString(b []bool) string {
	var sb strings.Builder
	for _, x := range b {
		if x {
			sb.WriteByte('1')
		} else {
			sb.WriteByte('0')
		}
	}
	return sb.String()
}

func keysOfIntMap(m map[int]int) []int {
	mm := map[int]bool{}
	for k := range m {
		mm[k] = true
	}
	return keysOfMap(mm)
}
