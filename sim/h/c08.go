package h

import (
	"fmt"
	"io"
	"os"
	"sort"
	"strconv"
	"strings"
	"sync"
	"time"

	"github.com/mgtv-tech/redis-GunYu/config"
	"github.com/mgtv-tech/redis-GunYu/syncer"

	"verifsim/simfs"
	"verifsim/simrt"
)

// C08 — after an unclean stop the disk cache serves only bytes it truly holds. DESIGN.md §3 C08.
//
// Phase 1 records the journal of a real StoreChannel executing a drawn write workload on simfs.
// Phase 2 rebuilds the directory image of EVERY journal prefix (plus torn variants of a write in flight), opens a
// fresh channel on it (= new process) and interrogates it against the model "what had been handed to the cache by
// that operation". Phase 3 alters single bytes of the final image with checksum verification on.
// Crash model: process death (every completed FS operation persists, the one in flight as a prefix of its data).

func init() {
	Register(&PropertyDef{ID: "C08", Strata: []string{"mixed", "rotation", "snapshot", "idswitch", "gc"}, Run: runC08, StepCap: 1 << 30})
}

const c08Base = "/cache"

type c08Ev struct {
	ver    int
	key    uint64
	snap   bool // false: log bytes [lo,hi) handed to a log writer; true: snapshot (lo=offset, hi=size) completely handed over
	lo, hi int64
}

type c08W struct {
	zeroTrailer bool // the source runs with 'rdbchecksum no': its snapshots end in eight zero bytes instead of a CRC-64
	r       *Run
	stratum string
	fs      *simfs.FS
	ch      syncer.Channel
	ccfg    config.ChannelConfig
	logSize int64
	maxSize int64

	ver   int
	evs   []c08Ev
	opVer []int

	keyOf   map[string]uint64
	nextKey uint64
	nextID  int
	cur     string // id the live channel is set to ("" = none)
	curDir  bool   // directory of cur exists

	aw    syncer.AofChannelWriter
	af    *cfeed
	right int64 // next log offset of the current history
	floor int64 // where the current directory's log (or snapshot) starts

	salt       uint64
	hang       *Violation
	hangVerify bool
	evals      int
	served     int64
	images     int
	maxOps     int
	actions    []string
	viol       *Violation
}

func (w *c08W) logf(f string, a ...any) { w.r.Logf(f, a...) }

var cacheDebug = os.Getenv("SIM_CACHE_DEBUG") != ""

func (w *c08W) act(f string, a ...any) {
	s := fmt.Sprintf(f, a...)
	w.r.Settle() // the journal length logged below must not depend on how far the ingest goroutine got
	w.actions = append(w.actions, s)
	if cacheDebug {
		fmt.Fprintln(os.Stderr, "act:", s)
	}
	w.r.Logf("act: %s (journal=%d ver=%d)", s, w.fs.JournalLen(), w.ver)
}

func (w *c08W) newID() string {
	w.nextID++
	return fmt.Sprintf("%040x", 0xa0000+w.nextID)
}

// bump publishes a new model version; every FS operation journaled from now on happened AFTER the event.
func (w *c08W) bump(e c08Ev) {
	w.ver++
	e.ver = w.ver
	w.evs = append(w.evs, e)
}

func (w *c08W) fedAt(key uint64, ver int) ivalSet {
	var s ivalSet
	for _, e := range w.evs {
		if e.ver <= ver && e.key == key && !e.snap {
			s = s.add(e.lo, e.hi)
		}
	}
	return s
}

func (w *c08W) snapCompleteAt(key uint64, ver int, off, size int64) bool {
	for _, e := range w.evs {
		if e.ver <= ver && e.key == key && e.snap && e.lo == off && e.hi == size {
			return true
		}
	}
	return false
}

// ---------------------------------------------------------------- phase 1: recorded workload

func (w *c08W) settle() { w.r.Settle() }

func (w *c08W) chunk(g *simrt.Chooser, label string) int64 {
	switch g.Weighted(label+".kind", []int{4, 4, 2, 1}) {
	case 0:
		return 1 + int64(g.Choose(label+".s", int(2*w.logSize)))
	case 1:
		return 1 + int64(g.Choose(label+".t", 24))
	case 2:
		return 1 + int64(g.Choose(label+".m", 1024))
	default:
		return 1 + int64(g.Choose(label+".l", 8192))
	}
}

func (w *c08W) closeLogWriter(how string) {
	if w.aw == nil {
		return
	}
	w.act("close log writer (%s)", how)
	w.aw.Close()
	w.af.CloseWith(io.EOF)
	w.aw, w.af = nil, nil
	w.settle()
}

func (w *c08W) startLogWriter(off int64, why string) {
	old := w.af
	f := newCfeed()
	aw, err := w.ch.NewAofWritter(f, off)
	w.act("NewAofWritter(off=%d) [%s] err=%v", off, why, err)
	if old != nil {
		old.CloseWith(io.EOF) // the previous source connection is gone
	}
	w.aw, w.af = nil, nil
	if err != nil {
		w.settle()
		return
	}
	aw.Start()
	w.aw, w.af, w.right = aw, f, off
	w.settle()
}

func (w *c08W) setRunID(id string, renames bool) bool {
	err := w.ch.SetRunId(id)
	w.act("SetRunId(%s) err=%v", tailID(id), err)
	if err != nil {
		return false
	}
	if _, known := w.keyOf[id]; !known {
		if renames {
			w.keyOf[id] = w.keyOf[w.cur] // same history continues under the new replication id
		} else {
			w.nextKey++
			w.keyOf[id] = w.nextKey
		}
	}
	w.cur, w.curDir = id, true
	return true
}

func tailID(id string) string {
	if len(id) > 6 {
		return id[len(id)-4:]
	}
	return id
}

// fullSync mimics the tool's full resynchronisation: (DelRunId) SetRunId, snapshot writer, then the log writer at the
// snapshot's offset. The snapshot may be cut short (source connection lost / writer closed).
func (w *c08W) fullSync() {
	g := w.r.Gen()
	w.closeLogWriterQuiet()
	id := w.cur
	sameID := w.cur != "" && g.Choose("fs.sameid", 4) == 0
	if !sameID {
		id = w.newID()
	}
	del := w.cur != "" && g.Choose("fs.del", 4) != 0
	renames := false
	if del {
		err := w.ch.DelRunId(w.cur)
		w.act("DelRunId(%s) err=%v", tailID(w.cur), err)
		w.curDir = false
		w.settle()
	} else if w.cur != "" && w.curDir && id != w.cur {
		renames = true // SetRunId renames the directory: the history goes on under the new id
	}
	if !w.setRunID(id, renames) {
		return
	}
	w.settle()
	key := w.keyOf[id]
	var off int64
	switch g.Choose("fs.off", 3) {
	case 0:
		off = nearDigitBoundary(g, "fs.offv", int64(g.Choose("fs.offv", 5000)))
	case 1:
		off = w.right + int64(g.Choose("fs.offd", 300))
	default:
		off = w.right
	}
	if renames || sameID {
		// same history: a later snapshot lies at or after what was replicated before
		if off < w.right {
			off = w.right
		}
	}
	// a real RDB payload is at least magic+version+EOF+checksum = 18 bytes
	size := int64(18 + g.Choose("fs.size", 24))
	switch g.Choose("fs.sizek", 3) {
	case 1:
		size = int64(18 + g.Choose("fs.sizem", 400))
	case 2:
		size = int64(18 + g.Choose("fs.sizel", 3000))
	}
	data := w.snapData(key, off, size)
	f := newCfeed()
	rw, err := w.ch.NewRdbWriter(f, off, size)
	w.act("NewRdbWriter(off=%d,size=%d) key=%d err=%v", off, size, key, err)
	if err != nil {
		w.settle()
		return
	}
	rw.Start()
	w.settle()
	cut := g.Choose("fs.cut", 4) == 0
	cutAt := size
	if cut {
		cutAt = int64(g.Choose("fs.cutat", int(size)))
	}
	var fed int64
	for fed < cutAt {
		n := 1 + int64(g.Choose("fs.chunk", int(cutAt-fed)))
		if g.Choose("fs.chunkall", 3) == 0 {
			n = cutAt - fed
		}
		if fed+n == size {
			// from now on the cache has been handed the complete snapshot
			w.bump(c08Ev{key: key, snap: true, lo: off, hi: size})
		}
		f.Feed(data[fed : fed+n])
		fed += n
		w.act("feed snapshot %d -> %d/%d", n, fed, size)
		w.settle()
	}
	if cut {
		if g.Choose("fs.cuthow", 2) == 0 {
			f.CloseWith(io.ErrUnexpectedEOF)
			w.act("snapshot source lost at %d/%d", fed, size)
		} else {
			rw.Close()
			f.CloseWith(io.EOF)
			w.act("snapshot writer closed at %d/%d", fed, size)
		}
		w.settle()
		rw.Close()
		w.settle()
		w.right, w.floor = off, off
		return
	}
	rw.Close()
	f.CloseWith(io.EOF)
	w.settle()
	w.right, w.floor = off, off
	w.startLogWriter(off, "after snapshot")
}

func (w *c08W) closeLogWriterQuiet() {
	if w.aw != nil {
		w.closeLogWriter("source connection ended")
	}
}

func (w *c08W) appendLog() {
	if w.cur == "" {
		w.fullSync()
		return
	}
	if w.aw == nil {
		w.startLogWriter(w.right, "reconnect")
		if w.aw == nil {
			return
		}
	}
	n := w.chunk(w.r.Gen(), "ap")
	key := w.keyOf[w.cur]
	w.bump(c08Ev{key: key, lo: w.right, hi: w.right + n})
	w.af.Feed(cacheBytes(key, w.right, w.right+n))
	w.act("append %d bytes [%d,%d) key=%d", n, w.right, w.right+n, key)
	w.right += n
	w.settle()
}

func (w *c08W) gcPass() {
	if w.r.Gen().Choose("gc.how", 4) == 0 {
		w.act("collector: 30 s tick")
		w.r.Advance(30 * time.Second)
	} else {
		syncer.VerifGcStep(w.ch)
		w.act("collector: synchronous pass")
	}
	w.settle()
}

func (w *c08W) idSwitch() {
	if w.cur == "" || !w.curDir {
		return
	}
	g := w.r.Gen()
	// as in the tool: the previous connection's writer has ended before the id is switched
	w.closeLogWriterQuiet()
	id := w.newID()
	if !w.setRunID(id, true) {
		return
	}
	w.settle()
	if g.Choose("sw.rewrite", 5) != 0 {
		w.startLogWriter(w.right, "after id switch")
	}
}

func (w *c08W) replaceWriter() {
	if w.cur == "" {
		return
	}
	g := w.r.Gen()
	off := w.right
	switch g.Weighted("rp.off", []int{6, 2, 1}) {
	case 1:
		off = w.right + 1 + int64(g.Choose("rp.gap", 200)) // the source skipped ahead: a gap
		simrt.Probe("c08_gap_writer")
	case 2:
		back := int64(g.Choose("rp.back", 200))
		if back > w.right-w.floor {
			back = w.right - w.floor
		}
		off = w.right - back // resumed from an older position of the same log (same bytes again), never below its start
	}
	w.startLogWriter(off, "replacement")
}

func (w *c08W) record() {
	g := w.r.Gen()
	weights := map[string][]int{ // append, fullsync, gc, idswitch, replace, closewriter
		"mixed":    {10, 2, 2, 1, 2, 1},
		"rotation": {16, 1, 1, 0, 1, 1},
		"snapshot": {5, 5, 1, 1, 1, 1},
		"idswitch": {8, 1, 1, 4, 2, 1},
		"gc":       {10, 1, 5, 1, 1, 1},
	}[w.stratum]
	nact := 3 + g.Choose("nact", 14)
	w.fullSyncOrPlain()
	for i := 0; i < nact && w.fs.JournalLen() < w.maxOps; i++ {
		switch g.Weighted("act", weights) {
		case 0:
			w.appendLog()
		case 1:
			w.fullSync()
		case 2:
			w.gcPass()
		case 3:
			w.idSwitch()
		case 4:
			w.replaceWriter()
		case 5:
			w.closeLogWriter("source connection lost")
		}
	}
	// graceful end (its operations are crash points too)
	if w.aw != nil {
		w.closeLogWriter("shutdown")
	}
	err := w.ch.Close()
	w.act("channel close err=%v", err)
	w.r.Advance(2 * cacheTick)
}

// nearDigitBoundary: in a third of the draws the offset lies shortly below a power of ten, so that the segments written
// from there on have file names of different lengths (numeric and lexical order of the names disagree).
func nearDigitBoundary(g *simrt.Chooser, label string, off int64) int64 {
	if g.Choose(label+".pow", 3) != 0 {
		return off
	}
	p := []int64{1000, 10000, 100000, 1000000}[g.Choose(label+".powk", 4)]
	return p - 1 - int64(g.Choose(label+".below", 400))
}

// fullSyncOrPlain: a cache starts either with a full sync or (follower / pre-existing position) with a plain log.
func (w *c08W) fullSyncOrPlain() {
	g := w.r.Gen()
	if w.stratum == "snapshot" || g.Choose("start.full", 3) != 0 {
		w.fullSync()
		return
	}
	if w.setRunID(w.newID(), false) {
		w.settle()
		w.right = nearDigitBoundary(g, "start.off", int64(g.Choose("start.off", 5000)))
		w.floor = w.right
		w.startLogWriter(w.right, "initial")
	}
}

// ---------------------------------------------------------------- phase 2/3: interrogation of a reopened image

type c08Img struct {
	k, torn int
	ver     int
	what    string // description of the crash point
	verify  bool
	flip    string
	// late: the alteration is applied by this function AFTER a first pass of verifying readers on the same open cache
	// (the file rots while the process runs); a second pass of readers then must refuse it or serve the source's bytes
	late func() error
}

func (im c08Img) String() string {
	s := fmt.Sprintf("image after %d journal ops", im.k)
	if im.torn > 0 {
		s += fmt.Sprintf(" + %d bytes of the write in flight", im.torn)
	}
	s += " (" + im.what + ")"
	if im.flip != "" {
		s += ", altered: " + im.flip
	}
	if im.verify {
		s += ", verification on"
	}
	return s
}

func (w *c08W) violate(rule, class string, im c08Img, format string, a ...any) *Violation {
	mode := "verification off"
	if im.verify {
		mode = "verification on"
	}
	v := &Violation{Property: "C08", Rule: rule, Sig: class + "; " + mode, Msg: fmt.Sprintf(format, a...) + " — " + im.String()}
	w.r.Logf("VIOLATION %s: %s", rule, v.Msg)
	return v
}

func leadingInt(name string) (int64, bool) {
	i := 0
	for i < len(name) && name[i] >= '0' && name[i] <= '9' {
		i++
	}
	if i == 0 || i > 15 {
		return 0, false
	}
	n, err := strconv.ParseInt(name[:i], 10, 64)
	return n, err == nil
}

// c08Session is the state of one interrogation that the scheduler must be able to tear down even if the
// interrogating goroutine never comes back.
type c08Session struct {
	mu    sync.Mutex
	ch    syncer.Channel
	taps  []*rtap
	phase string
	inc   *inconclusivePanic
}

func (s *c08Session) setPhase(f string, a ...any) {
	s.mu.Lock()
	s.phase = fmt.Sprintf(f, a...)
	s.mu.Unlock()
}

func (s *c08Session) addTap(t *rtap) { s.mu.Lock(); s.taps = append(s.taps, t); s.mu.Unlock() }

// c08Bound: virtual time after which a call on a reopened cache that has not returned counts as "hangs".
// (An interrogation legitimately takes at most ~25 s of virtual time: 10 ms per segment rotation of a reader.)
const c08Bound = 10 * time.Minute

// interrogate opens a fresh channel (= a new process) on img for replication id `id` and checks every answer.
// full=false restricts the interrogation to what phase 3 needs (what is served must be right).
// The interrogation runs in its own goroutine so that "opening never hangs" is decidable: the scheduler waits for
// it with a bound in virtual time.
func (w *c08W) interrogate(img *simfs.FS, id string, im c08Img, full bool) *Violation {
	if _, known := w.keyOf[id]; !known {
		return nil
	}
	w.evals++
	simfs.SetFS(img)
	cacheSetVerify(im.verify)
	st := &c08Session{}
	done := make(chan *Violation, 1)
	go func() {
		var v *Violation
		defer func() {
			if x := recover(); x != nil {
				if ip, ok := x.(inconclusivePanic); ok {
					st.inc = &ip
				} else {
					v = w.violate("C08.panic", "opening or reading a reopened cache panicked", im, "panic: %v", x)
				}
			}
			done <- v
		}()
		v = w.interrogateBody(st, img, id, im, full)
	}()
	timer := time.NewTimer(c08Bound)
	var v *Violation
	hung := false
	select {
	case v = <-done:
		timer.Stop()
	case <-timer.C:
		hung = true
	}
	st.mu.Lock()
	taps, ch, phase := st.taps, st.ch, st.phase
	st.mu.Unlock()
	for _, t := range taps {
		t.close()
	}
	if ch != nil {
		ch.Close()
	}
	w.r.Advance(2 * cacheTick)
	if st.inc != nil {
		panic(*st.inc)
	}
	if hung {
		simrt.Probe("c08_hang")
		call := phase
		if i := strings.IndexByte(call, '('); i > 0 {
			call = call[:i]
		}
		hv := w.violate("C08.hang", "a call on the reopened cache never returned: "+call, im,
			"id %s: %s did not return within %v of virtual time (every goroutine of the cache blocked)", tailID(id), phase, c08Bound)
		if w.hang == nil {
			w.hang = hv
		}
		if im.verify {
			w.hangVerify = true
		}
		return nil // reported at the end of the run unless something else is found; see runC08
	}
	return v
}

func (w *c08W) interrogateBody(st *c08Session, img *simfs.FS, id string, im c08Img, full bool) (viol *Violation) {
	key := w.keyOf[id]
	fed := w.fedAt(key, im.ver)

	// probe points: around whatever numbers the directory's file names carry (used to choose WHERE to ask, never to judge)
	var marks []int64
	if es, err := img.ReadDir(c08Base + "/" + id); err == nil {
		for _, e := range es {
			if n, ok := leadingInt(e.Name()); ok {
				marks = append(marks, n)
			}
		}
	}

	ch := syncer.NewChannel(w.ccfg, "c08r")
	st.mu.Lock()
	st.ch = ch
	st.mu.Unlock()
	dbg := func(f string, a ...any) {
		if cacheDebug {
			fmt.Fprintf(os.Stderr, "  dbg k=%d t=%d v=%v: %s\n", im.k, im.torn, im.verify, fmt.Sprintf(f, a...))
		}
	}
	dbg("open id=%s tree=%v", tailID(id), img.Tree(c08Base))
	st.setPhase("StartPoint([%s])", tailID(id))
	sp, sperr := ch.StartPoint([]string{id})
	st.setPhase("GetOffsetRange/GetRdb")
	l, rr := ch.GetOffsetRange(id)
	ro, rn := ch.GetRdb(id)
	w.r.Logf("img k=%d t=%d v=%v %s id=%s: sp=(%s,%d,%v) range=[%d,%d] rdb=(%d,%d) fed=%s", im.k, im.torn, im.verify, im.flip, tailID(id), tailID(sp.RunId), sp.Offset, sperr, l, rr, ro, rn, fed)

	// --- reported range: one interval, inside what the cache had been given
	hasRange := !(l == -1 && rr == -1)
	if hasRange {
		if l < 0 || rr < l {
			return w.violate("C08.range_malformed", "reported range is not an interval", im, "id %s: GetOffsetRange = [%d,%d]", tailID(id), l, rr)
		}
		// (bytes appended to a file behind its recorded end make the reopened cache count them - it sizes a segment by its
		// file; what matters is that none of them is served: the rules below)
		if rr > l && !fed.covers(l, rr) && !strings.Contains(im.flip, " length +") {
			return w.violate("C08.range_beyond", "reported range is not within one contiguous run of bytes handed to the cache", im,
				"id %s: GetOffsetRange = [%d,%d] but by then the cache had been given only %s of this history", tailID(id), l, rr, fed)
		}
	}
	// --- "older segments separated from the newest data by a gap are discarded rather than served": judged on the final
	// image, where every byte handed to the cache has reached its file. The cache was given two or more runs of this
	// history that do not touch (the source skipped ahead and a new writer started beyond a gap); whatever it serves
	// after the reopen must not be a run that ends in front of the newest one.
	if hasRange && im.k == w.fs.JournalLen() && im.torn == 0 && im.flip == "" {
		// (the newer run must BE there: a file of it in the image. A run whose only bytes were still on their way to the
		// writer when the run ended has no file, the image then holds nothing newer and serving the older data is right)
		newerOnDisk := false
		if n := len(fed); n >= 2 {
			for _, m := range marks {
				if m >= fed[n-1].lo {
					newerOnDisk = true
				}
			}
		}
		if n := len(fed); n >= 2 && fed[n-1].hi > fed[n-1].lo && rr < fed[n-1].lo && newerOnDisk {
			simrt.Probe("c08_gap_in_final_image")
			return w.violate("C08.stale_run_served", "an older run of segments is served although newer data lie beyond a gap", im,
				"id %s: GetOffsetRange = [%d,%d] but the cache holds the newer run [%d,%d) of this history beyond a gap (runs handed to it: %s); directory: %v", tailID(id), l, rr, fed[n-1].lo, fed[n-1].hi, fed, img.Tree(c08Base))
		}
		if len(fed) >= 2 {
			simrt.Probe("c08_gap_in_final_image")
		}
	}
	// --- snapshot offered only if completely received
	if ro >= 0 || rn >= 0 {
		if !w.snapCompleteAt(key, im.ver, ro, rn) {
			return w.violate("C08.snapshot_incomplete_offered", "snapshot offered that had not been completely received", im,
				"id %s: GetRdb = (offset %d, size %d) but no snapshot with that offset and size had been completely handed to the cache", tailID(id), ro, rn)
		}
	}
	// --- resume position
	if sperr == nil && sp.RunId == id && sp.Offset >= 0 {
		if hasRange && (sp.Offset < l || sp.Offset > rr) {
			return w.violate("C08.startpoint_outside", "resume position outside the reported range", im, "id %s: StartPoint offset %d, range [%d,%d]", tailID(id), sp.Offset, l, rr)
		}
		if !hasRange && !(ro >= 0 && sp.Offset == ro) {
			return w.violate("C08.startpoint_outside", "resume position although nothing is cached", im, "id %s: StartPoint offset %d, range [%d,%d], rdb (%d,%d)", tailID(id), sp.Offset, l, rr, ro, rn)
		}
	}

	// --- validity answers around boundaries; readers
	pts := map[int64]bool{}
	add := func(x int64) {
		for d := int64(-1); d <= 1; d++ {
			if x+d >= 0 {
				pts[x+d] = true
			}
		}
	}
	if hasRange {
		add(l)
		add(rr)
	}
	if ro >= 0 {
		add(ro)
		if ro-rn >= 0 {
			pts[ro-rn] = true
		}
	}
	if full {
		for _, m := range marks {
			add(m)
		}
	}
	var xs []int64
	for x := range pts {
		xs = append(xs, x)
	}
	sort.Slice(xs, func(i, j int) bool { return xs[i] < xs[j] })
	if len(xs) > 30 {
		xs = xs[:30]
	}
	readAt := map[int64]bool{}
	if hasRange {
		readAt[l] = true
		if full && rr > l+1 {
			for i := uint64(0); i < 2; i++ {
				readAt[l+1+int64(simrt.Mix(w.salt, uint64(im.k)*8+uint64(im.torn)*2+i)%uint64(rr-l-1))] = true
			}
		}
	}
	for x := range readAt {
		if !pts[x] {
			xs = append(xs, x)
		}
	}
	sort.Slice(xs, func(i, j int) bool { return xs[i] < xs[j] })

	type opened struct {
		x    int64
		tap  *rtap
		snap bool
	}
	var reading []opened
	for _, x := range xs {
		st.setPhase("IsValidOffset(%d)", x)
		valid := ch.IsValidOffset(syncer.Offset{RunId: id, Offset: x})
		inRange := hasRange && x >= l && x <= rr
		if inRange && !valid && full {
			return w.violate("C08.range_not_contiguous", "an offset inside the reported range is declared invalid", im,
				"id %s: GetOffsetRange = [%d,%d] but IsValidOffset(%d) = false", tailID(id), l, rr, x)
		}
		if !valid {
			continue
		}
		if !full && !readAt[x] {
			continue
		}
		if im.verify && w.hangVerify && !(ro >= 0 && x <= ro-rn) {
			continue // log readers are known to hang with verification on (already recorded); keep the rest going
		}
		st.setPhase("NewReader(offset %d)", x)
		rd, err := ch.NewReader(syncer.Offset{RunId: id, Offset: x})
		dbg("NewReader(%d) -> %v", x, err)
		if err != nil {
			if im.verify {
				simrt.Probe("c08_refused_on_open")
				continue // refusing is always allowed with verification on
			}
			return w.violate("C08.valid_unreadable", "offset declared valid but no reader can be opened", im,
				"id %s: IsValidOffset(%d) = true (range [%d,%d], rdb (%d,%d)) but NewReader failed: %v", tailID(id), x, l, rr, ro, rn, err)
		}
		t := newRtap(rd)
		if !rd.IsAof() {
			if !(ro >= 0 && x <= ro) || rd.Left() != ro || rd.Size() != rn {
				t.close()
				return w.violate("C08.snapshot_reader_mismatch", "snapshot reader does not match the offered snapshot", im,
					"id %s: NewReader(%d) gave a snapshot reader left=%d size=%d, GetRdb = (%d,%d)", tailID(id), x, rd.Left(), rd.Size(), ro, rn)
			}
		} else if rd.Left() != x {
			t.close()
			return w.violate("C08.reader_offset", "log reader does not start at the requested offset", im, "id %s: NewReader(%d) reports Left()=%d", tailID(id), x, rd.Left())
		}
		if readAt[x] || (!rd.IsAof() && x == ro-rn) {
			st.addTap(t)
			t.start()
			reading = append(reading, opened{x, t, !rd.IsAof()})
		} else {
			t.close()
		}
	}
	// the offered snapshot must read back completely (asked the way the tool asks: offset - size)
	if ro >= 0 && rn > 0 {
		have := false
		for _, o := range reading {
			if o.snap {
				have = true
			}
		}
		if !have {
			st.setPhase("NewReader(offset %d = snapshot offset - size)", ro-rn)
			rd, err := ch.NewReader(syncer.Offset{RunId: id, Offset: ro - rn})
			if err != nil {
				if !im.verify {
					return w.violate("C08.snapshot_unreadable", "offered snapshot cannot be opened", im, "id %s: GetRdb = (%d,%d) but NewReader(%d) failed: %v", tailID(id), ro, rn, ro-rn, err)
				}
				simrt.Probe("c08_refused_on_open")
			} else if rd.IsAof() {
				newRtap(rd).close()
				return w.violate("C08.snapshot_unreadable", "offered snapshot cannot be reached", im, "id %s: GetRdb = (%d,%d) but NewReader(%d) returned a log reader", tailID(id), ro, rn, ro-rn)
			} else {
				t := newRtap(rd)
				st.addTap(t)
				t.start()
				reading = append(reading, opened{ro - rn, t, true})
			}
		}
	}

	st.setPhase("reading")
	// --- read until quiescence (readers tail: no progress for a few polling periods = quiescent)
	idle, last := 0, -1
	for step := 0; step < 2400 && idle < 3; step++ {
		w.r.Advance(cacheTick)
		tot, live := 0, 0
		for _, o := range reading {
			n, _, ended := o.tap.snapshot()
			tot += n
			if !ended {
				live++
			}
		}
		if tot == last {
			idle++
		} else {
			idle = 0
		}
		last = tot
		if live == 0 {
			break
		}
	}

	for _, o := range reading {
		got := o.tap.bytes()
		_, terr, ended := o.tap.snapshot()
		w.served += int64(len(got))
		if o.snap {
			want := w.snapData(key, ro, rn)
			for i := range got {
				if i >= len(want) {
					return w.violate("C08.snapshot_wrong_byte", "snapshot reader delivered more than the snapshot", im, "id %s: snapshot (%d,%d) delivered %d bytes", tailID(id), ro, rn, len(got))
				}
				if got[i] != want[i] {
					cls := "snapshot reader delivered a byte the source never sent"
					if im.flip != "" {
						cls = "altered snapshot byte delivered"
					}
					return w.violate("C08.snapshot_wrong_byte", cls, im, "id %s: snapshot (%d,%d) byte %d = %#02x, source sent %#02x", tailID(id), ro, rn, i, got[i], want[i])
				}
			}
			if int64(len(got)) < rn && !im.verify {
				return w.violate("C08.snapshot_unreadable", "offered snapshot does not read back completely", im,
					"id %s: GetRdb = (%d,%d) but the reader delivered only %d bytes (ended=%v err=%v)", tailID(id), ro, rn, len(got), ended, terr)
			}
			if int64(len(got)) < rn && im.flip == "" && !(ended && terr != nil) {
				// under verification a snapshot may be refused (an error at open or while reading, e.g. a source that
				// writes no checksum); a reader that opens, delivers less than the snapshot and then neither ends nor
				// fails is not a refusal - the offered snapshot just cannot be read
				return w.violate("C08.snapshot_unreadable", "offered snapshot neither reads back completely nor is refused", im,
					"id %s: GetRdb = (%d,%d); the reader opened without an error, delivered %d bytes and then stalled (ended=%v err=%v)", tailID(id), ro, rn, len(got), ended, terr)
			}
			if int64(len(got)) < rn {
				simrt.Probe("c08_refused_while_reading")
			}
			continue
		}
		for i := range got {
			p := o.x + int64(i)
			if !fed.covers(o.x, p+1) {
				return w.violate("C08.beyond_written", "served an offset that had never been handed to the cache", im,
					"id %s: reader opened at %d delivered offset %d; by then the cache had been given only %s", tailID(id), o.x, p, fed)
			}
			if want := cacheByte(key, p); got[i] != want {
				cls := "served a byte the source never sent at that offset"
				if im.flip != "" {
					cls = "altered segment byte delivered"
				}
				return w.violate("C08.wrong_byte", cls, im, "id %s: reader opened at %d delivered %#02x at offset %d, source sent %#02x (range [%d,%d])", tailID(id), o.x, got[i], p, want, l, rr)
			}
		}
		end := o.x + int64(len(got))
		if hasRange && o.x >= l && o.x <= rr && end < rr {
			if !im.verify {
				return w.violate("C08.range_not_served", "reported range cannot be read to its end", im,
					"id %s: GetOffsetRange = [%d,%d] but the reader opened at %d stopped at %d (ended=%v err=%v)", tailID(id), l, rr, o.x, end, ended, terr)
			}
			simrt.Probe("c08_refused_while_reading")
		}
	}
	if im.late == nil {
		return nil
	}
	// ---- second pass: the file is altered now, with the cache open and its segments verified once already
	for _, o := range reading {
		o.tap.close()
	}
	w.r.Advance(2 * cacheTick)
	if err := im.late(); err != nil {
		return nil
	}
	simrt.Probe("c08_late_alteration")
	var second []opened
	if hasRange {
		st.setPhase("NewReader(%d) after the late alteration", l)
		if rd, err := ch.NewReader(syncer.Offset{RunId: id, Offset: l}); err == nil {
			t := newRtap(rd)
			if rd.IsAof() {
				st.addTap(t)
				t.start()
				second = append(second, opened{l, t, false})
			} else {
				t.close()
			}
		}
	}
	if ro >= 0 && rn > 0 {
		st.setPhase("NewReader(offset %d = snapshot offset - size) after the late alteration", ro-rn)
		if rd, err := ch.NewReader(syncer.Offset{RunId: id, Offset: ro - rn}); err == nil {
			t := newRtap(rd)
			if !rd.IsAof() {
				st.addTap(t)
				t.start()
				second = append(second, opened{ro - rn, t, true})
			} else {
				t.close()
			}
		}
	}
	st.setPhase("reading after the late alteration")
	idle, last = 0, -1
	for step := 0; step < 2400 && idle < 3 && len(second) > 0; step++ {
		w.r.Advance(cacheTick)
		tot, live := 0, 0
		for _, o := range second {
			n, _, ended := o.tap.snapshot()
			tot += n
			if !ended {
				live++
			}
		}
		if tot == last {
			idle++
		} else {
			idle = 0
		}
		last = tot
		if live == 0 {
			break
		}
	}
	for _, o := range second {
		got := o.tap.bytes()
		w.served += int64(len(got))
		if o.snap {
			want := w.snapData(key, ro, rn)
			for i := range got {
				if i >= len(want) || got[i] != want[i] {
					return w.violate("C08.snapshot_wrong_byte", "altered snapshot byte delivered (altered after a first verified read on the same open cache)", im,
						"id %s: snapshot (%d,%d): the second reader delivered byte %d = %#02x, not what the source sent", tailID(id), ro, rn, i, got[i])
				}
			}
			continue
		}
		for i := range got {
			p := o.x + int64(i)
			if want := cacheByte(key, p); got[i] != want {
				return w.violate("C08.wrong_byte", "altered segment byte delivered (altered after a first verified read on the same open cache)", im,
					"id %s: the second reader, opened at %d, delivered %#02x at offset %d, source sent %#02x (range [%d,%d])", tailID(id), o.x, got[i], p, want, l, rr)
			}
		}
	}
	return nil
}

func (w *c08W) idsOf(img *simfs.FS) []string {
	es, err := img.ReadDir(c08Base)
	if err != nil {
		return nil
	}
	var ids []string
	for _, e := range es {
		if e.IsDir() {
			ids = append(ids, e.Name())
		}
	}
	return ids
}

func (w *c08W) enumerate(verify bool) *Violation {
	ops := w.fs.Journal()
	verAt := func(k int) int {
		if k <= 0 {
			return 0
		}
		return w.opVer[k-1]
	}
	check := func(k, torn int, what string) *Violation {
		ver := verAt(k)
		if torn > 0 {
			ver = w.opVer[k]
		}
		ids := w.idsOf(w.fs.ImageAt(k, torn))
		for _, id := range ids {
			img := w.fs.ImageAt(k, torn) // every interrogation starts from the frozen image
			w.images++
			if v := w.interrogate(img, id, c08Img{k: k, torn: torn, ver: ver, what: what, verify: verify}, !verify); v != nil {
				return v
			}
		}
		return nil
	}
	for k := 0; k <= len(ops); k++ {
		what := "before the first operation"
		skip := false
		if k > 0 {
			o := &ops[k-1]
			what = "last completed: " + o.String()
			// operations that leave the tree as it was yield the image of k-1 again
			if o.Kind == simfs.OpSync || o.Kind == simfs.OpClose || (o.Kind == simfs.OpOpen && !o.Created && !o.Truncated) {
				skip = true
			}
		}
		if !skip {
			if v := check(k, 0, what); v != nil {
				return v
			}
		}
		if k < len(ops) && ops[k].Kind == simfs.OpWrite && len(ops[k].Data) > 1 {
			n := len(ops[k].Data)
			seen := map[int]bool{}
			for _, t := range []int{1, n / 2, n - 1} {
				if t >= 1 && t < n && !seen[t] {
					seen[t] = true
					simrt.Probe("c08_torn_image")
					if v := check(k, t, "in flight: "+ops[k].String()); v != nil {
						return v
					}
				}
			}
		}
	}
	return nil
}

// corrupt: phase 3 — single-byte alterations of the files of the final image, verification on.
func (w *c08W) corrupt() *Violation {
	ops := w.fs.Journal()
	k := len(ops)
	final := w.fs.ImageAt(k, 0)
	mask := byte(1 + w.r.Gen().Choose("flip.mask", 255))
	budget := 260
	for _, id := range w.idsOf(final) {
		es, err := final.ReadDir(c08Base + "/" + id)
		if err != nil {
			continue
		}
		for _, e := range es {
			if e.IsDir() {
				continue
			}
			info, _ := e.Info()
			size := info.Size()
			var pos []int64
			for i := int64(0); i < size && i < 16; i++ { // header bytes always
				pos = append(pos, i)
			}
			stride := int64(1)
			if size > 512+16 {
				stride = (size-16)/96 + 1
			}
			start := int64(16) + int64(simrt.Mix(w.salt, uint64(size))%uint64(stride))
			for i := start; i < size; i += stride {
				pos = append(pos, i)
			}
			if size > 16 {
				pos = append(pos, size-1)
			}
			for _, p := range pos {
				if budget <= 0 {
					simrt.Probe("c08_flip_budget_exhausted")
					return nil
				}
				budget--
				img := w.fs.ImageAt(k, 0)
				path := c08Base + "/" + id + "/" + e.Name()
				if budget%5 == 2 && p >= 16 {
					// the same alteration, but while the cache is open and after its readers have verified every segment once
					p := p
					w.r.W.Fault("late_byte_alteration")
					im := c08Img{k: k, ver: w.ver, what: "final image", verify: true, flip: fmt.Sprintf("%s byte %d ^= %#02x after a first pass of verifying readers", e.Name(), p, mask),
						late: func() error { return img.FlipByte(path, p, mask) }}
					if v := w.interrogate(img, id, im, false); v != nil {
						return v
					}
					continue
				}
				if err := img.FlipByte(path, p, mask); err != nil {
					continue
				}
				w.r.W.Fault("byte_alteration")
				im := c08Img{k: k, ver: w.ver, what: "final image", verify: true, flip: fmt.Sprintf("%s byte %d ^= %#02x", e.Name(), p, mask)}
				if v := w.interrogate(img, id, im, false); v != nil {
					return v
				}
			}
			// the file's length altered: a lost tail, bytes appended behind the recorded end
			sealed := false // a log segment whose header records its size: closed by a rotation or a clean close
			if strings.HasSuffix(e.Name(), ".aof") {
				if b, err := final.ReadFile(c08Base + "/" + id + "/" + e.Name()); err == nil && len(b) >= 16 {
					sealed = b[9] != 0 || b[10] != 0 || b[11] != 0 || b[12] != 0
				}
			}
			// the head of a sealed segment reads back as zeros (a lost first disk block): header and the first data bytes
			if sealed && budget > 0 && size > 24 {
				budget--
				img := w.fs.ImageAt(k, 0)
				path := c08Base + "/" + id + "/" + e.Name()
				n := int64(17 + simrt.Mix(w.salt, uint64(size))%uint64(size-17))
				if n > 4096 {
					n = 4096
				}
				if b, err := img.ReadFile(path); err == nil {
					for i := int64(0); i < n && i < int64(len(b)); i++ {
						if b[i] != 0 {
							img.FlipByte(path, i, b[i])
						}
					}
					w.r.W.Fault("head_zeroed")
					im := c08Img{k: k, ver: w.ver, what: "final image", verify: true, flip: fmt.Sprintf("%s first %d bytes zeroed", e.Name(), n)}
					if v := w.interrogate(img, id, im, false); v != nil {
						return v
					}
				}
			}
			for _, delta := range []int{-3, 5} {
				if !sealed || budget <= 0 || size+int64(delta) < 16 {
					continue
				}
				budget--
				img := w.fs.ImageAt(k, 0)
				path := c08Base + "/" + id + "/" + e.Name()
				if err := img.Resize(path, delta); err != nil {
					continue
				}
				w.r.W.Fault("length_alteration")
				im := c08Img{k: k, ver: w.ver, what: "final image", verify: true, flip: fmt.Sprintf("%s length %+d", e.Name(), delta)}
				if v := w.interrogate(img, id, im, false); v != nil {
					return v
				}
			}
		}
	}
	return nil
}

func runC08(r *Run, stratum string) *Violation {
	g := r.Gen()
	w := &c08W{r: r, stratum: stratum, keyOf: map[string]uint64{}, nextKey: 100}
	w.zeroTrailer = r.Gen().Choose("zerotrailer", 6) == 0
	w.logSize = int64(32 + g.Choose("logsize", 64))
	switch g.Choose("logsizek", 3) {
	case 1:
		w.logSize = int64(32 + g.Choose("logsizem", 224))
	case 2:
		w.logSize = int64(32 + g.Choose("logsizel", 993))
	}
	w.maxSize = int64(128 + g.Choose("maxsize", 2048))
	if stratum != "gc" && g.Choose("maxsizek", 2) == 0 {
		w.maxSize = 1 << 30
	}
	w.maxOps = 90 + g.Choose("maxops", 120)
	if r.Tier == "thorough" {
		w.maxOps = 150 + g.Choose("maxops2", 250)
	}
	w.salt = uint64(g.Choose("salt", 1<<16))
	flush := config.FlushPolicy{}
	if g.Choose("flush", 5) == 0 {
		flush.EveryWrite = true
	}
	w.ccfg = config.ChannelConfig{Type: config.ChannelTypeStorer, Storer: &config.StorerConfig{DirPath: c08Base, MaxSize: w.maxSize, LogSize: w.logSize, Flush: flush}}

	w.fs = simfs.New()
	w.fs.OnJournal = func(idx int, op *simfs.Op) { w.opVer = append(w.opVer, w.ver) }
	simfs.SetFS(w.fs)
	defer simfs.SetFS(nil)
	cacheSetVerify(false)
	w.fs.MkdirAll(c08Base, 0o777)
	w.ch = syncer.NewChannel(w.ccfg, "c08")
	r.Logf("C08 %s logSize=%d maxSize=%d flushEveryWrite=%v", stratum, w.logSize, w.maxSize, flush.EveryWrite)

	w.record()
	ops := w.fs.Journal()
	rot := 0
	for i := range ops {
		if ops[i].Kind == simfs.OpOpen && ops[i].Created && strings.HasSuffix(ops[i].Path, ".aof") {
			rot++
		}
		r.Logf("journal %d: %s", i, ops[i].String())
	}
	// verification off first (the cache serves as much as it can), then the alterations, then every image again with
	// verification on. A hang is remembered and reported only if nothing else was found (it masks the other checks).
	v := w.enumerate(false)
	if v == nil {
		v = w.corrupt()
	}
	if v == nil {
		v = w.enumerate(true)
	}
	if v == nil {
		v = w.hang
	}
	r.Evals = w.evals
	r.NonTriv = w.evals >= 20 && w.served > 0 && rot >= 2
	r.Sample = fmt.Sprintf("logSize=%d maxSize=%d journal=%d ops, %d segment files created, %d interrogations, %d bytes read back; workload: %s",
		w.logSize, w.maxSize, len(ops), rot, w.evals, w.served, strings.Join(w.actions, " | "))
	if len(r.Sample) > 1400 {
		r.Sample = r.Sample[:1400] + "…"
	}
	if rot >= 3 {
		simrt.Probe("c08_three_rotations")
	}
	return v
}

// snapData is the snapshot of history key as this run's source sends it. A source without snapshot checksums ends it in
// eight zero bytes: its content never matches that recorded checksum, so with verification on the cache may refuse it
// (it does) but must not serve an altered copy of it as if it had been checked.
func (w *c08W) snapData(key uint64, off, n int64) []byte {
	b := snapBytes(key, off, n)
	if w.zeroTrailer && n > 8 {
		for i := n - 8; i < n; i++ {
			b[i] = 0
		}
	}
	return b
}
