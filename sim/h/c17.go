package h

import (
	"context"
	"errors"
	"fmt"
	"sort"
	"strconv"
	"strings"
	"time"

	"github.com/mgtv-tech/redis-GunYu/cmd"
	"github.com/mgtv-tech/redis-GunYu/config"
	"github.com/mgtv-tech/redis-GunYu/pkg/redis/checkpoint"
	"github.com/mgtv-tech/redis-GunYu/pkg/redis/client"
	"github.com/mgtv-tech/redis-GunYu/syncer"

	"verifsim/resp"
	"verifsim/simredis"
	"verifsim/simrt"
)

// C17 — resume bookkeeping maintenance never loses the live resume position. DESIGN.md §3 C17.
//
// A maintenance operation (re-keying the checkpoint to a new replication id after a failover, renaming the
// checkpoint key, stale-checkpoint GC) is run once to count its target requests n and then n+1 times, crashing
// after EVERY prefix of those requests; after each prefix the tool's own start path (UpdateCheckpoint to
// completion, then GetCheckpoint — what syncer.newOutput + RedisOutput.StartPoint do) is executed and must find
// a position not smaller than, and in the same target DB as, the one held before. DB iteration order (Go map
// order in the repo, made a recorded choice by the rewriter) is enumerated through the salt.

func init() {
	Register(&PropertyDef{ID: "C17", Strata: []string{"failover", "rename", "gc", "failover-both", "gc-live", "gccmd", "gccmd-failover", "gccmd-concurrent", "gccmd-refused", "modeswitch", "newoutput"}, Run: runC17, StepCap: 200000})
}

const cpIndexKey = "redis-gunyu-checkpoint-hash" // documented: run id -> checkpoint key name, database 0

type cpPos struct {
	ok   bool
	off  int64
	dbs  []int
	name string
}

// readPositionModel reads the resume position directly from the double's keyspace by the documented layout
// (docs/checkpoint_zh.md, checkpoint_info.go header): index hash in DB 0, one hash per DB, fields <runid>_offset
// etc.; the position is the newest (greatest) offset recorded for any of the ids.
func readPositionModel(srv *simredis.Server, ids []string) cpPos {
	var p cpPos
	idx := srv.Get(0, cpIndexKey)
	if idx == nil || idx.T != 'h' {
		return p
	}
	for _, id := range ids {
		if v, ok := idx.Hash[id]; ok && len(v) > 0 {
			p.name = string(v)
			break
		}
	}
	if p.name == "" {
		return p
	}
	p.off = -1
	for db := 0; db < srv.NumDB; db++ {
		h := srv.Get(db, p.name)
		if h == nil || h.T != 'h' {
			continue
		}
		for _, id := range ids {
			if _, ok := h.Hash[id+"_runid"]; !ok {
				continue
			}
			v, ok := h.Hash[id+"_offset"]
			if !ok {
				continue
			}
			n, err := strconv.ParseInt(string(v), 10, 64)
			if err != nil || n < 0 {
				continue
			}
			if n > p.off {
				p.off = n
				p.dbs = []int{db}
				p.ok = true
			} else if n == p.off {
				p.dbs = append(p.dbs, db)
			}
		}
	}
	return p
}

type c17sim struct {
	r     *Run
	srv   *simredis.Server
	extra []*simredis.Server // further doubles an operation talks to (source nodes); never crashed
	viol  *Violation
	prop  string // property the run reports under ("" = C17)
	// between: run once, from the scheduler, at the moment the operation's first request to the target is pending and
	// not yet executed (what another process does in that window); frozen: sessions a nested operation must not step
	between func()
	frozen  map[*simredis.Session]bool
}

func (c *c17sim) setViolation(rule, sig, format string, a ...any) {
	if c.viol == nil {
		if c.prop != "" && c.prop != "C17" { // the mode switch is also checked as a C14 stratum (the resume point never moves backwards)
			rule = c.prop + rule[3:]
		}
		c.viol = &Violation{Property: rule[:3], Rule: rule, Sig: sig, Msg: fmt.Sprintf(format, a...)}
		c.r.Logf("VIOLATION %s: %s", rule, c.viol.Msg)
	}
}

var errCrashed = errors.New("process is dead")

// denyOOM: commands Redis refuses while it is over its memory limit (command flag "denyoom"), as far as the tool's
// bookkeeping uses them.
var denyOOM = map[string]bool{"set": true, "setnx": true, "setex": true, "psetex": true, "mset": true, "append": true, "incr": true, "incrby": true,
	"hset": true, "hsetnx": true, "hmset": true, "hincrby": true, "zadd": true, "sadd": true, "rpush": true, "lpush": true, "xadd": true,
	"restore": true, "copy": true, "eval": true, "evalsha": true}

// runOp runs fn (real repository code talking to the double) until it returns; the target executes its
// requests one by one. crashAfter >= 0: after that many requests every connection is severed and no new
// connection is accepted (process death). Returns the number of requests the target executed.
func (c *c17sim) runOp(name string, fn func(ctx context.Context) error, crashAfter int) (int, error) {
	r := c.r
	ctx, cancel := context.WithCancel(context.Background())
	defer cancel()
	done := make(chan error, 1)
	start := c.srv.Stats.Requests
	go func() { done <- fn(ctx) }()
	crashed := false
	var err error
	for i := 0; i < 100000; i++ {
		r.Settle()
		select {
		case err = <-done:
			r.Net.DialFault = nil
			return c.srv.Stats.Requests - start, err
		default:
		}
		if crashAfter >= 0 && !crashed && c.srv.Stats.Requests-start >= crashAfter {
			crashed = true
			r.W.Fault("crash")
			r.Logf("CRASH during %s after %d requests", name, crashAfter)
			r.Net.DialFault = func(string) error { return errCrashed }
			for _, ss := range c.srv.Sessions {
				if !ss.Dead {
					c.srv.KillSession(ss, 0)
				}
			}
			cancel()
			continue
		}
		stepped := false
		for _, x := range c.extra {
			if rd := x.Ready(); len(rd) > 0 {
				x.Step(rd[0])
				stepped = true
				break
			}
		}
		if stepped {
			continue
		}
		var ready []*simredis.Session
		for _, ss := range c.srv.Ready() {
			if !c.frozen[ss] {
				ready = append(ready, ss)
			}
		}
		if len(ready) > 0 && c.between != nil {
			// the outer operation waits for its first answer from the target: another process acts now
			fn := c.between
			c.between = nil
			outer := c.frozen
			c.frozen = map[*simredis.Session]bool{}
			for k := range outer {
				c.frozen[k] = true
			}
			for _, ss := range c.srv.Sessions {
				if !ss.Dead {
					c.frozen[ss] = true
				}
			}
			fn()
			c.frozen = outer
			continue
		}
		if len(ready) > 0 {
			c.srv.Step(ready[0])
			continue
		}
		r.Advance(500 * time.Millisecond) // retry back-off of the operation
	}
	Inconc("operation %s did not end", name)
	return 0, nil
}

func targetRedisCfg() config.RedisConfig {
	return config.RedisConfig{Addresses: []string{simTargetAddr}, Type: config.RedisTypeStandalone, Otype: config.RedisTypeStandalone, Version: "7.2.0"}
}

// nextStart is the tool's own start path: newOutput's updateCheckpoint followed by StartPoint's GetCheckpoint.
func (c *c17sim) nextStart(local string, ids []string) (off int64, db int, found bool, err error) {
	_, err = c.runOp("next-start", func(ctx context.Context) error {
		cli, e := client.NewRedis(targetRedisCfg())
		if e != nil {
			return e
		}
		defer cli.Close()
		if e = checkpoint.UpdateCheckpoint(cli, local, ids); e != nil {
			return e
		}
		cpi, d, e := checkpoint.GetCheckpoint(cli, local, ids)
		if e != nil {
			return e
		}
		off, db = cpi.Offset, d
		found = cpi.RunId != "?" && cpi.Offset >= 0
		return nil
	}, -1)
	return
}

func hexID(b []byte) string {
	const hx = "0123456789abcdef"
	out := make([]byte, 40)
	for i := range out {
		out[i] = hx[int(b[i%len(b)]>>uint(4*(i&1)))&15]
	}
	return string(out)
}

func (c *c17sim) plantCheckpoint(db int, name, id string, off int64, mtime time.Time) {
	h := c.srv.Get(db, name)
	fields := map[string]string{}
	if h != nil {
		for k, v := range h.Hash {
			fields[k] = string(v)
		}
	}
	fields[id+"_runid"] = id
	fields[id+"_version"] = "1"
	fields[id+"_offset"] = strconv.FormatInt(off, 10)
	fields[id+"_mtime"] = strconv.FormatInt(mtime.UnixNano(), 10)
	c.srv.SetHash(db, name, fields)
}

func (c *c17sim) plantIndex(id, name string) {
	h := c.srv.Get(0, cpIndexKey)
	fields := map[string]string{}
	if h != nil {
		for k, v := range h.Hash {
			fields[k] = string(v)
		}
	}
	fields[id] = name
	c.srv.SetHash(0, cpIndexKey, fields)
}

func describeKeyspace(srv *simredis.Server) string {
	var sb strings.Builder
	for db := 0; db < srv.NumDB; db++ {
		for _, k := range srv.Keys(db) {
			if !simredis.IsReservedKey([]byte(k)) {
				continue
			}
			o := srv.Get(db, k)
			fmt.Fprintf(&sb, "db%d %s{", db, k)
			fs := make([]string, 0, len(o.Hash))
			for f, v := range o.Hash {
				if len(f) > 40 {
					f = f[:6] + f[40:]
				}
				val := string(v)
				if len(val) == 40 {
					val = val[:6]
				}
				fs = append(fs, f+"="+val)
			}
			sort.Strings(fs)
			sb.WriteString(strings.Join(fs, " "))
			sb.WriteString("} ")
		}
	}
	return sb.String()
}

func runC17(r *Run, stratum string) *Violation {
	if stratum == "modeswitch" {
		return runC17ModeSwitch(r, stratum)
	}
	if stratum == "newoutput" {
		return runC17NewOutput(r, stratum)
	}
	g := r.Gen()
	c := &c17sim{r: r}
	c.srv = simredis.NewServer(simTargetAddr)
	r.Net.Listen(simTargetAddr, c.srv)
	now := time.Now()

	oldID := hexID(g.Bytes("oldid", 20))
	newID := hexID(g.Bytes("newid", 20))
	if newID == oldID {
		newID = hexID([]byte("another-id-another-id"))
	}
	local := "redis-gunyu-checkpoint"
	stored := local
	if stratum == "rename" {
		stored = "redis-gunyu-checkpoint-" + string("abcdefghij"[g.Choose("sfx", 10)]) + "x"
		if g.Choose("renamedir", 2) == 1 {
			local, stored = stored, local
		}
	}
	staleDur := 12 * time.Hour

	// business keys so that several DBs exist
	ndb := 2 + g.Choose("ndb", 3)
	for db := 0; db < ndb; db++ {
		if g.Choose("bizkey", 3) > 0 {
			c.srv.SetString(db, fmt.Sprintf("biz%d", db), "v")
		}
	}
	// checkpoints of the old id in one or several DBs, distinct offsets (no ties in the maximum)
	used := map[int64]bool{}
	offset := func() int64 {
		for {
			v := int64(1 + g.Choose("off", 5000))
			if !used[v] {
				used[v] = true
				return v
			}
		}
	}
	mtime := func() time.Time {
		switch g.Choose("mtime", 4) {
		case 0:
			return now.Add(-staleDur - time.Duration(1+g.Choose("mt_old", 1000))*time.Second) // stale
		case 1:
			return now.Add(-staleDur + time.Duration(1+g.Choose("mt_edge", 10))*time.Second) // just inside
		default:
			return now.Add(-time.Duration(g.Choose("mt_new", 3600)) * time.Second)
		}
	}
	nOld := 1 + g.Choose("nolddb", ndb)
	perm := []int{0, 1, 2, 3}[:ndb]
	for i := range perm {
		j := i + g.Choose("perm", len(perm)-i)
		perm[i], perm[j] = perm[j], perm[i]
	}
	if g.Choose("noposition", 12) != 0 {
		for i := 0; i < nOld; i++ {
			c.plantCheckpoint(perm[i], stored, oldID, offset(), mtime())
		}
		c.plantIndex(oldID, stored)
	}
	if stratum == "failover-both" {
		// the new id is already indexed with an older position in some DB
		c.plantCheckpoint(perm[g.Choose("newdb", ndb)], stored, newID, offset(), mtime())
		c.plantIndex(newID, stored)
	}
	// unrelated stale ids
	for i := g.Choose("nstale", 3); i > 0; i-- {
		sid := hexID(g.Bytes("staleid", 20))
		if sid == oldID || sid == newID {
			// "unrelated" must be: a stale record under the id the source is about to report is not one
			sid = hexID([]byte(fmt.Sprintf("stale-id-stale-id-%03d", i)))
		}
		c.plantCheckpoint(perm[g.Choose("staledb", ndb)], stored, sid, offset(), now.Add(-staleDur-time.Hour))
		c.plantIndex(sid, stored)
	}

	// another input of the same deployment: with a standalone target all inputs share one checkpoint key (that is why
	// every field carries the replication id) and each has its own index entry. Maintenance carried out for one
	// input must leave the other's position where its own next start finds it.
	otherID := ""
	var otherBefore cpPos
	if !strings.HasPrefix(stratum, "gc") && g.Choose("otherinput", 2) == 0 {
		otherID = hexID(g.Bytes("otherid", 20))
		if otherID == oldID || otherID == newID {
			otherID = hexID([]byte("a-third-id-a-third-id"))
		}
		for i := 0; i < 1+g.Choose("notherdb", 2); i++ {
			c.plantCheckpoint(perm[g.Choose("otherdb", ndb)], stored, otherID, offset(), now.Add(-time.Duration(g.Choose("other_mt", 3600))*time.Second))
		}
		c.plantIndex(otherID, stored)
	}

	var ids []string
	var extraServers []*simredis.Server
	var opName string
	var op func(ctx context.Context) error
	var concurrent func() // what another process does while the operation waits for its first answer from the target
	liveIDs := map[string]bool{}
	switch stratum {
	case "failover", "failover-both":
		ids = []string{newID, oldID}
		opName = "SetRunId(new id)"
		oc := PipeCfg{Resume: true, DBM: DBMap{TargetDb: -1}, BatchCount: 10, BatchBytes: 1024, BatchTicker: time.Second, Keepalive: time.Second, CpTicker: time.Second}.outputConfig(oldID, local)
		op = func(ctx context.Context) error {
			ro := syncer.NewRedisOutput(oc)
			return ro.SetRunId(ctx, newID)
		}
	case "rename":
		ids = []string{oldID, newID}
		opName = "UpdateCheckpoint(rename)"
		op = func(ctx context.Context) error {
			cli, e := client.NewRedis(targetRedisCfg())
			if e != nil {
				return e
			}
			defer cli.Close()
			return checkpoint.UpdateCheckpoint(cli, local, ids)
		}
	case "gccmd", "gccmd-failover", "gccmd-concurrent", "gccmd-refused":
		// the REAL cmd.SyncerCmd.gcStaleCheckpoint (through an injected accessor): it asks every source node for its
		// replication ids (INFO replication) and collects stale checkpoints on every target node.
		ids = []string{oldID, newID}
		opName = "cmd gcStaleCheckpoint"
		srcSrv := simredis.NewServer(simSourceAddr)
		si := simredis.NewSource(srcSrv, oldID)
		_ = si
		if stratum == "gccmd-failover" {
			// after a failover the source reports a new id and still serves the previous one (master_replid2):
			// the checkpoint, not yet moved, is stored under the previous id and is live
			srcSrv.Repl.ID, srcSrv.Repl.ID2, srcSrv.Repl.SecondOffset = newID, oldID, 1000
			ids = []string{newID, oldID}
		}
		shards := []*config.RedisClusterShard{{Master: config.RedisNode{Address: simSourceAddr}}}
		addrs := []string{simSourceAddr}
		if stratum == "gccmd-refused" {
			// two source shards; the one that reports the id under test is alive but takes no new connection at this
			// tick (client limit reached, a proxy restarting): it cannot be asked, so nobody knows which ids are live
			const src2 = "10.0.1.2:6379"
			srv2 := simredis.NewServer(src2)
			simredis.NewSource(srv2, "7"+hexID(g.Bytes("othersrcid", 20))[1:])
			r.Net.Listen(src2, srv2)
			extraServers = append(extraServers, srv2)
			other := &config.RedisClusterShard{Master: config.RedisNode{Address: src2}}
			if g.Choose("refusedfirst", 2) == 0 {
				shards, addrs = append(shards, other), append(addrs, src2)
			} else {
				shards, addrs = append([]*config.RedisClusterShard{other}, shards...), append([]string{src2}, addrs...)
			}
			r.W.Fault("source_refuses_connections")
		} else {
			r.Net.Listen(simSourceAddr, srcSrv)
		}
		extraServers = append(extraServers, srcSrv)
		liveIDs[oldID] = true
		sc := config.GetSyncerConfig()
		sc.Input.Redis = &config.RedisConfig{Addresses: addrs, Type: config.RedisTypeStandalone, Otype: config.RedisTypeStandalone, Version: "7.2.0", ClusterOptions: &config.RedisClusterOptions{}}
		sc.Input.Redis.SetClusterShards(shards)
		sc.Output.Redis = &config.RedisConfig{Addresses: []string{simTargetAddr}, Type: config.RedisTypeStandalone, Otype: config.RedisTypeStandalone, Version: "7.2.0", ClusterOptions: &config.RedisClusterOptions{}}
		sc.Output.Redis.SetClusterShards([]*config.RedisClusterShard{{Master: config.RedisNode{Address: simTargetAddr}}})
		sc.Channel.Type = config.ChannelTypeMemory
		sc.Channel.StaleCheckpointDuration = staleDur
		if stratum == "gccmd-concurrent" {
			// between the collector's poll of the sources and its scan of the target the source fails over and the
			// syncer moves the checkpoint to the new id (real UpdateCheckpoint): the id is reported by a source all
			// the time, under its old or its new name, and its only checkpoint is the newest one
			ids = []string{newID, oldID}
			concurrent = func() {
				srcSrv.Repl.ID, srcSrv.Repl.ID2, srcSrv.Repl.SecondOffset = newID, oldID, 1000
				r.W.Fault("failover_during_gc")
				if _, err := c.runOp("syncer moves the checkpoint to the new id", func(ctx context.Context) error {
					cli, e := client.NewRedis(targetRedisCfg())
					if e != nil {
						return e
					}
					defer cli.Close()
					return checkpoint.UpdateCheckpoint(cli, local, []string{newID, oldID})
				}, -1); err != nil {
					Inconc("moving the checkpoint during the collection failed: %v", err)
				}
			}
		}
		op = func(ctx context.Context) error {
			cmd.VerifGcStaleCheckpoint(ctx)
			return nil
		}
	default: // gc, gc-live
		ids = []string{oldID, newID}
		liveIDs[oldID] = stratum == "gc-live" || g.Choose("live", 2) == 0
		opName = "stale checkpoint GC"
		// the per-entry loop of cmd/syncer.go gcStaleCheckpoint (cmd/syncer.go:776-797) over the real
		// checkpoint.GetAllCheckpointHash / DelStaleCheckpoint / DelCheckpointHash
		op = func(ctx context.Context) error {
			cli, e := client.NewRedis(targetRedisCfg())
			if e != nil {
				return e
			}
			defer cli.Close()
			data, e := checkpoint.GetAllCheckpointHash(cli)
			if e != nil {
				return e
			}
			for i := 0; i+1 < len(data); i += 2 {
				runID, cpn := data[i], data[i+1]
				exist := liveIDs[runID]
				total, deleted, e := checkpoint.DelStaleCheckpoint(cli, cpn, runID, staleDur, exist)
				if e != nil {
					continue
				}
				if !exist && total == deleted {
					checkpoint.DelCheckpointHash(cli, runID)
				}
			}
			return nil
		}
	}

	initial := c.srv.CloneDBs()
	before := readPositionModel(c.srv, ids)
	if otherID != "" {
		otherBefore = readPositionModel(c.srv, []string{otherID})
	}
	r.Sample = fmt.Sprintf("%s op=%s ids=[%s.. %s..] local=%s before={ok=%v off=%d dbs=%v} state: %s", stratum, opName, ids[0][:6], ids[1][:6], local, before.ok, before.off, before.dbs, describeKeyspace(c.srv))
	r.Logf("C17 %s", r.Sample)
	isGC := strings.HasPrefix(stratum, "gc")
	c.extra = extraServers
	if stratum == "gccmd-concurrent" {
		liveIDs[newID] = true
	}
	if isGC && !liveIDs[oldID] {
		// GC of an id no source reports may remove everything: only the 'live id' clause applies
		before.ok = false
	}

	check := func(k int, salt int) {
		if isGC && liveIDs[oldID] {
			// the newest entry of a live id must still be there, whatever prefix of the GC ran
			liveSet := []string{oldID}
			if stratum == "gccmd-concurrent" {
				liveSet = ids // the same history under its new or its old id
			}
			after := readPositionModel(c.srv, liveSet)
			b0 := before
			if b0.ok && (!after.ok || after.off < b0.off) {
				c.setViolation("C17.gc_newest", "GC removed the newest checkpoint of a live replication id", "after %d requests of %s (db order rotation %d) the newest checkpoint of live id %s.. (offset %d in db %v) is gone: now ok=%v off=%d; state: %s", k, opName, salt, oldID[:6], b0.off, b0.dbs, after.ok, after.off, describeKeyspace(c.srv))
				return
			}
		}
		off, db, found, err := c.nextStart(local, ids)
		if err != nil {
			c.setViolation("C17.start_failed", "next start fails on the intermediate state", "after %d requests of %s the next start failed: %v; state: %s", k, opName, err, describeKeyspace(c.srv))
			return
		}
		if otherID != "" && otherBefore.ok {
			// the inputs restart one after the other: now the second one
			ooff, odb, ofound, oerr := c.nextStart(local, []string{otherID, strings.Repeat("0", 40)})
			okDB := false
			for _, d := range otherBefore.dbs {
				okDB = okDB || d == odb
			}
			switch {
			case oerr != nil:
				c.setViolation("C17.start_failed", "next start of another input sharing the checkpoint key fails", "after %d requests of %s and the restart of that input, the next start of input %s.. failed: %v; state: %s", k, opName, otherID[:6], oerr, describeKeyspace(c.srv))
				return
			case !ofound || ooff < otherBefore.off:
				c.setViolation("C17.other_input_lost", "maintenance for one input loses the position of another input sharing the checkpoint key", "after %d requests of %s (db order rotation %d) and the restart of that input, input %s.. finds position %d (found=%v) but held %d in db %v before; state: %s", k, opName, salt, otherID[:6], ooff, ofound, otherBefore.off, otherBefore.dbs, describeKeyspace(c.srv))
				return
			case !okDB && ooff == otherBefore.off:
				c.setViolation("C17.db", "another input sharing the checkpoint key resumes in a different target database", "after %d requests of %s (db order rotation %d) input %s.. resumes at %d in db %d, but held it in db %v", k, opName, salt, otherID[:6], ooff, odb, otherBefore.dbs)
				return
			}
		}
		if !before.ok {
			return
		}
		if !found || off < before.off {
			c.setViolation("C17.position_lost", "next start finds a smaller or no position", "after %d requests of %s (db order rotation %d) the next start finds position %d (found=%v) but position %d was held before; state after restart: %s", k, opName, salt, off, found, before.off, describeKeyspace(c.srv))
			return
		}
		inDB := false
		for _, d := range before.dbs {
			if d == db {
				inDB = true
			}
		}
		if !inDB && off == before.off {
			c.setViolation("C17.db", "next start resumes in a different target database", "after %d requests of %s (db order rotation %d) the next start resumes at %d in db %d, but the position was held by db %v before; state after restart: %s", k, opName, salt, off, db, before.dbs, describeKeyspace(c.srv))
		}
	}

	salts := 1 + g.Choose("nsalts", 4)
	r.Evals = 0
	for salt := 0; salt < salts && c.viol == nil; salt++ {
		r.W.SetSalt(salt)
		c.srv.RestoreDBs(initial)
		c.between = concurrent
		if concurrent != nil && len(extraServers) > 0 {
			extraServers[0].Repl.ID, extraServers[0].Repl.ID2 = oldID, ""
		}
		n, err := c.runOp(opName, op, -1)
		r.Logf("full run of %s: %d requests, err=%v (rotation %d)", opName, n, err, salt)
		if err != nil {
			c.setViolation("C17.op_failed", "maintenance operation fails on a healthy target", "%s failed on a healthy target: %v", opName, err)
			break
		}
		check(n, salt)
		r.Evals++
		if n > 120 {
			n = 120
		}
		for k := 0; k < n && c.viol == nil; k++ {
			c.srv.RestoreDBs(initial)
			r.W.SetSalt(salt)
			c.between = concurrent
			if concurrent != nil && len(extraServers) > 0 {
				extraServers[0].Repl.ID, extraServers[0].Repl.ID2 = oldID, ""
			}
			c.runOp(opName, op, k)
			check(k, salt)
			r.Evals++
		}
		// "a stop at any intermediate step" that the TARGET causes: from its k-th request on the target is out of memory
		// (maxmemory, noeviction): commands that may grow the dataset are refused with -OOM, deletions and reads are still
		// served - Redis's own rule. The operation stops where it notices (or goes on, if it does not look); whatever it
		// leaves behind is an intermediate state like any other, judged by the same next start on a target that has room
		// again. (On the unchanged tree every operation stops at the refused request: the state is the crash prefix k.)
		if salt == 0 && !isGC {
			for k := 0; k < n && c.viol == nil; k++ {
				c.srv.RestoreDBs(initial)
				r.W.SetSalt(salt)
				c.between = concurrent
				if concurrent != nil && len(extraServers) > 0 {
					extraServers[0].Repl.ID, extraServers[0].Repl.ID2 = oldID, ""
				}
				from := c.srv.Stats.Requests + k
				refused := 0
				c.srv.Intercept = func(ss *simredis.Session, name string, args [][]byte) *resp.Value {
					if c.srv.Stats.Requests > from && denyOOM[name] {
						refused++
						if ss.InMulti {
							ss.QueueErr = true // refused at queueing time: the EXEC aborts (EXECABORT)
						}
						v := resp.Err("OOM command not allowed when used memory > 'maxmemory'.")
						return &v
					}
					return nil
				}
				_, oerr := c.runOp(opName, op, -1)
				c.srv.Intercept = nil
				if refused == 0 {
					break // no request from here on can be refused
				}
				r.W.Fault("target_out_of_memory")
				r.Logf("target out of memory from request %d of %s on: %d refused, operation returned %v", k, opName, refused, oerr)
				if oerr == nil {
					simrt.Probe("c17_oom_not_noticed")
				}
				check(k, salt)
				r.Evals++
			}
			// ... or the target is busy for a moment (a script of another client runs past its time limit): exactly the
			// k-th request of the operation - whatever command it is - is answered -BUSY, everything else is served
			for k := 0; k < n && c.viol == nil; k++ {
				c.srv.RestoreDBs(initial)
				r.W.SetSalt(salt)
				c.between = concurrent
				if concurrent != nil && len(extraServers) > 0 {
					extraServers[0].Repl.ID, extraServers[0].Repl.ID2 = oldID, ""
				}
				at := c.srv.Stats.Requests + k + 1
				hit := false
				c.srv.Intercept = func(ss *simredis.Session, name string, args [][]byte) *resp.Value {
					if c.srv.Stats.Requests == at && !hit {
						hit = true
						if ss.InMulti {
							ss.QueueErr = true
						}
						v := resp.Err("BUSY Redis is busy running a script. You can only call SCRIPT KILL or SHUTDOWN NOSAVE.")
						return &v
					}
					return nil
				}
				_, oerr := c.runOp(opName, op, -1)
				c.srv.Intercept = nil
				if !hit {
					break
				}
				r.W.Fault("target_busy_once")
				r.Logf("request %d of %s answered -BUSY, operation returned %v", k+1, opName, oerr)
				check(k, salt)
				r.Evals++
			}
		}
	}
	r.NonTriv = before.ok || (isGC && liveIDs[oldID])
	for _, x := range append([]*simredis.Server{c.srv}, c.extra...) {
		for _, ss := range x.Sessions {
			if !ss.Dead {
				x.KillSession(ss, 0)
			}
		}
	}
	r.Settle()
	return c.viol
}
