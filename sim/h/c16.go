package h

import (
	"context"
	"errors"
	"fmt"
	"os"
	"runtime"
	"strings"
	"time"

	"github.com/mgtv-tech/redis-GunYu/config"
	pb "github.com/mgtv-tech/redis-GunYu/pkg/api/golang"
	"github.com/mgtv-tech/redis-GunYu/pkg/cluster"
	usync "github.com/mgtv-tech/redis-GunYu/pkg/sync"
	"github.com/mgtv-tech/redis-GunYu/syncer"

	"verifsim/simfs"
	"verifsim/simgrpc"
)

// C16 — a follower's cache is a faithful copy of the leader's stream. DESIGN.md §3 C16.
// Real ReplicaLeader.Handle + real ReplicaFollower.Run + real Channels (memory, or disk over simfs), connected by
// the simulated RPC stream (simgrpc): each SyncResponse is one message the scheduler delivers or loses.

const (
	c16LeaderAddr = "10.9.0.1:18001"
	c16BaseL      = "/cacheL"
	c16BaseF      = "/cacheF"
)

// stub Input: the leader only asks for the source's replication ids.
type c16Input struct{ ids []string }

func (i *c16Input) Id() string                                     { return "10.0.1.1:6379" }
func (i *c16Input) Run() error                                     { return nil }
func (i *c16Input) Stop() error                                    { return nil }
func (i *c16Input) SetOutput(syncer.Output)                        {}
func (i *c16Input) SetChannel(syncer.Channel)                      {}
func (i *c16Input) StateNotify(syncer.SyncState) usync.WaitChannel { return usync.NewWaitChannel() }
func (i *c16Input) RunIds() []string                               { return i.ids }

type c16SyncSrv struct{ *simgrpc.ServerStream }

func (s c16SyncSrv) Send(m *pb.SyncResponse) error { return s.SendMsg(m) }

// c16cache is one side's cache with the harness' knowledge of what was put into it.
type c16cache struct {
	name  string
	ch    syncer.Channel
	id    string
	key   uint64
	snapO int64 // snapshot offset, -1 = none
	snapN int64
	left  int64 // first log offset
	right int64 // bytes written into the log so far (exclusive end == right offset)
	af    *cfeed
	aw    syncer.AofChannelWriter
}

type c16sim struct {
	r     *Run
	viol  *Violation
	keyOf map[string]uint64
}

func (c *c16sim) setViolation(rule, sig, format string, a ...any) {
	if c.viol == nil {
		c.viol = &Violation{Property: "C16", Rule: rule, Sig: sig, Msg: fmt.Sprintf(format, a...)}
		c.r.Logf("VIOLATION %s: %s", rule, c.viol.Msg)
	}
}

func init() {
	Register(&PropertyDef{ID: "C16", Strata: []string{"mem-fresh", "mem-prefix", "mem-equal", "mem-ahead", "mem-otherid", "mem-collected",
		"disk-fresh", "disk-prefix", "disk-equal", "disk-ahead", "disk-otherid", "disk-collected"}, Run: runC16, StepCap: 20000})
}

// settleFor advances virtual time in small steps until cond() or the budget is used.
func (c *c16sim) settleFor(budget time.Duration, cond func() bool) bool {
	for el := time.Duration(0); el < budget; el += 20 * time.Millisecond {
		c.r.Settle()
		if cond() {
			return true
		}
		c.r.Advance(20 * time.Millisecond)
	}
	c.r.Settle()
	return cond()
}

// fill writes [snapshot] + log into a cache through the real writers.
func (c *c16sim) fill(cc *c16cache, withSnap bool, off, snapN, logLen int64) {
	if err := cc.ch.SetRunId(cc.id); err != nil {
		Inconc("%s SetRunId: %v", cc.name, err)
	}
	cc.snapO, cc.snapN = -1, 0
	if withSnap {
		f := newCfeed()
		rw, err := cc.ch.NewRdbWriter(f, off, snapN)
		if err != nil {
			Inconc("%s NewRdbWriter: %v", cc.name, err)
		}
		rw.Start()
		f.Feed(snapBytes(cc.key, off, snapN))
		if !c.settleFor(5*time.Second, func() bool { _, consumed, _ := f.state(); return consumed >= snapN }) {
			Inconc("%s snapshot not absorbed", cc.name)
		}
		rw.Wait(context.Background())
		rw.Close()
		c.r.Settle()
		cc.snapO, cc.snapN = off, snapN
	}
	cc.left, cc.right = off, off
	cc.af = newCfeed()
	aw, err := cc.ch.NewAofWritter(cc.af, off)
	if err != nil {
		Inconc("%s NewAofWritter: %v", cc.name, err)
	}
	aw.Start()
	cc.aw = aw
	c.grow(cc, logLen)
}

func (c *c16sim) grow(cc *c16cache, n int64) {
	if n <= 0 || cc.af == nil {
		return
	}
	cc.af.Feed(cacheBytes(cc.key, cc.right, cc.right+n))
	cc.right += n
	want := cc.right
	if !c.settleFor(5*time.Second, func() bool { _, r := cc.ch.GetOffsetRange(cc.id); return r >= want }) {
		Inconc("%s log not absorbed", cc.name)
	}
}

// stopWriter ends the cache's log writer as the tool does when its source connection goes away.
func (c *c16sim) stopWriter(cc *c16cache) {
	if cc.af != nil {
		cc.af.CloseWith(nil)
		c.r.Settle()
		if cc.aw != nil {
			cc.aw.Close()
		}
		cc.af, cc.aw = nil, nil
		c.r.Settle()
	}
}

// readBack reads everything the follower's cache serves for its id and compares it with the history functions.
func (c *c16sim) readBack(f *c16cache, leaderID string, leaderKey uint64, when string) (id string, left, right int64) {
	ch := f.ch
	id = ch.RunId()
	if id == "" || id == "?" {
		return id, -1, -1
	}
	key, known := c.keyOf[id]
	if !known {
		c.setViolation("C16.unknown_id", "follower cache holds an id nobody produced", "%s: follower cache run id %q", when, id)
		return
	}
	left, right = ch.GetOffsetRange(id)
	ro, rn := ch.GetRdb(id)
	c.r.Logf("%s follower id=%s range=[%d,%d] rdb=(%d,%d)", when, tailID(id), left, right, ro, rn)
	if right < left {
		return
	}
	if ro >= 0 && rn > 0 {
		rd, err := ch.NewReader(syncer.Offset{RunId: id, Offset: ro - rn})
		if err == nil && !rd.IsAof() {
			t := newRtap(rd)
			t.start()
			c.settleFor(10*time.Second, func() bool { n, _, e := t.snapshot(); return int64(n) >= rn || e })
			got := t.bytes()
			want := snapBytes(key, ro, rn)
			for i := range got {
				if i < len(want) && got[i] != want[i] {
					c.setViolation("C16.snapshot_byte", "follower serves a snapshot byte that differs from the leader's", "%s: snapshot (%d,%d) of id %s byte %d is %#x, the source sent %#x", when, ro, rn, tailID(id), i, got[i], want[i])
					break
				}
			}
			if int64(len(got)) != rn && c.viol == nil {
				c.setViolation("C16.snapshot_short", "follower offers a snapshot it cannot serve completely", "%s: snapshot (%d,%d) of id %s delivered %d bytes", when, ro, rn, tailID(id), len(got))
			}
			t.close()
			c.r.Settle()
		}
	}
	if right > left {
		rd, err := ch.NewReader(syncer.Offset{RunId: id, Offset: left})
		if err != nil {
			c.setViolation("C16.unreadable", "follower reports a range it cannot read", "%s: range [%d,%d] of id %s but NewReader(%d) failed: %v", when, left, right, tailID(id), left, err)
			return
		}
		if rd.IsAof() {
			t := newRtap(rd)
			t.start()
			need := right - left
			c.settleFor(10*time.Second, func() bool { n, _, e := t.snapshot(); return int64(n) >= need || e })
			got := t.bytes()
			for i := range got {
				p := left + int64(i)
				if want := cacheByte(key, p); got[i] != want {
					other := ""
					for oid, ok := range c.keyOf {
						if ok != key && cacheByte(ok, p) == got[i] {
							other = " (it is the byte of history " + tailID(oid) + ")"
						}
					}
					c.setViolation("C16.wrong_byte", "follower serves a byte that differs from the leader's stream at that offset", "%s: id %s offset %d (0-based position %d of the log) is %#x, the history has %#x%s", when, tailID(id), p+1, p, got[i], want, other)
					break
				}
			}
			if int64(len(got)) < need && c.viol == nil {
				c.setViolation("C16.gap", "follower's range is not contiguous / readable to its end", "%s: id %s range [%d,%d] but only %d bytes could be read from the left end", when, tailID(id), left, right, len(got))
			}
			t.close()
			c.r.Settle()
		} else {
			rd.Close()
			// a reader at the left end that is not a log reader is the snapshot taken there; a log segment that starts
			// at the snapshot's offset would have been preferred. The range claims bytes behind the snapshot (right >
			// left) whose first part the cache therefore does not hold.
			c.setViolation("C16.gap", "the follower's log does not start where its snapshot ends", "%s: id %s reports range [%d,%d] and a snapshot at %d, but no log segment starts at %d: the bytes between the snapshot and the first cached log segment are missing", when, tailID(id), left, right, left, left)
		}
	}
	_ = leaderID
	_ = leaderKey
	return
}

// c16LeaderEvents: also change the leader's own cache while it serves followers (full resync, id switch).
var c16LeaderEvents = os.Getenv("SIM_C16_LEADER_EVENTS") != "0"

func runC16(r *Run, stratum string) *Violation {
	g := r.Gen()
	c := &c16sim{r: r, keyOf: map[string]uint64{}}
	parts := splitDash(stratum)
	backend, scen := parts[0], parts[1]
	hub := simgrpc.NewHub()
	hub.Window = 1 + g.Choose("window", 8)
	hub.GateRequests = g.Choose("gaterequests", 2) == 0 // requests travel too: the leader may change before one arrives
	simgrpc.SetHub(hub)
	defer simgrpc.SetHub(nil)
	fs := simfs.New()
	simfs.SetFS(fs)
	defer simfs.SetFS(nil)
	fs.MkdirAll(c16BaseL, 0o777)
	fs.MkdirAll(c16BaseF, 0o777)
	// channel.verifyCrc is a deployment knob of the leader's disk readers (sealed segments are checked, the segment
	// still being written is not): varied per run, the property is the same under both settings
	verify := backend != "mem" && g.Choose("verifycrc", 2) == 1
	cacheSetVerify(verify)
	defer cacheSetVerify(false)

	logSize := int64(64 << g.Choose("logsize", 5))
	mk := func(dir, name string) syncer.Channel {
		if backend == "mem" {
			return syncer.NewChannel(config.ChannelConfig{Type: config.ChannelTypeMemory, Memory: &config.MemoryConfig{MaxSize: 1 << 20, LogSize: logSize}}, name)
		}
		return syncer.NewChannel(config.ChannelConfig{Type: config.ChannelTypeStorer, Storer: &config.StorerConfig{DirPath: dir, MaxSize: 1 << 30, LogSize: logSize}}, name)
	}
	idL := "1" + hexID(g.Bytes("idl", 20))[1:]
	idX := "2" + hexID(g.Bytes("idx", 20))[1:]
	c.keyOf[idL], c.keyOf[idX] = 701, 702
	L := &c16cache{name: "leader", ch: mk(c16BaseL, "leader"), id: idL, key: 701}
	F := &c16cache{name: "follower", ch: mk(c16BaseF, "follower"), id: idL, key: 701}

	off := int64(1000 + g.Choose("off", 5000))
	if scen != "collected" && g.Choose("offzero", 4) == 0 {
		off = 0 // the first full sync of a fresh master is taken at replication offset 0
	}
	far := scen == "collected" && g.Choose("far", 3) == 0
	if far {
		// the follower is more than 10 MiB behind (offsets are just numbers): the branch of preSync that gives the
		// local copy up and continues at the leader's offset
		off += 11 << 20
	}
	snapN := int64(20 + g.Choose("snapn", 600))
	logLen := int64(50 + g.Choose("loglen", 1500))
	leaderSnap := scen != "collected"
	c.fill(L, leaderSnap, off, snapN, logLen)

	var fLeft0, fRight0 int64 = -1, -1
	switch scen {
	case "prefix":
		cut := int64(1 + g.Choose("prefixlen", int(logLen)))
		fsnap := g.Choose("fsnap", 2) == 0
		if fsnap && g.Choose("snaponly", 3) == 0 {
			cut = 0 // the follower was stopped between the snapshot and the first byte of the log
		}
		c.fill(F, fsnap, off, snapN, cut)
		c.stopWriter(F)
	case "equal":
		c.fill(F, true, off, snapN, logLen)
		c.stopWriter(F)
	case "ahead":
		c.fill(F, g.Choose("fsnap", 2) == 0, off, snapN, logLen+int64(1+g.Choose("aheadby", 400)))
		c.stopWriter(F)
	case "otherid":
		F.id, F.key = idX, 702
		c.fill(F, g.Choose("fsnap", 2) == 0, off+int64(g.Choose("xoff", 300)), snapN, int64(1+g.Choose("xlen", 800)))
		c.stopWriter(F)
	case "collected":
		// the follower holds an older part of the stream that the leader no longer has
		gap := int64(1 + g.Choose("gap", 500))
		if far {
			gap += 11<<20 - 600
		}
		flen := int64(1 + g.Choose("flen", 300))
		c.fill(F, false, off-gap-flen, 0, flen)
		c.stopWriter(F)
	}
	if scen != "fresh" {
		fLeft0, fRight0 = F.ch.GetOffsetRange(F.id)
	}
	lL, lR := L.ch.GetOffsetRange(idL)
	r.Sample = fmt.Sprintf("%s leader{id=%s range=[%d,%d] snap=%v} follower{id=%s range=[%d,%d]} window=%d logSize=%d verifyCrc=%v", stratum, tailID(idL), lL, lR, leaderSnap, tailID(F.id), fLeft0, fRight0, hub.Window, logSize, verify)
	r.Logf("C16 %s", r.Sample)
	r.NonTriv = true

	// leader service
	in := &c16Input{ids: []string{idL, strings.Repeat("0", 40)}}
	leader := syncer.NewReplicaLeader(in, L.ch)
	leader.Start()
	lwait := usync.NewWaitCloser(nil)
	hub.Serve(c16LeaderAddr, func(req any, ss *simgrpc.ServerStream) error {
		return leader.Handle(lwait, req.(*pb.SyncRequest), c16SyncSrv{ss})
	})
	follower := syncer.NewReplicaFollower(1, "10.0.1.1:6379", F.ch, &cluster.RoleInfo{Address: c16LeaderAddr})
	done := make(chan error, 1)
	go func() { done <- follower.Run() }()
	var runErr error
	ended := false
	// after a leader id switch at offset S (fail-over answered +CONTINUE): whatever the leader's source sends from then on
	// belongs to the NEW id; a follower that still files its copy under the old id must not hold anything beyond S,
	// at no moment ("never mixes two replication ids") - it is told about the new id and moves its copy first
	switchedFrom, switchAt := "", int64(-1)
	poll := func() {
		select {
		case runErr = <-done:
			ended = true
		default:
		}
		if switchedFrom != "" && c.viol == nil && F.ch.RunId() == switchedFrom {
			if _, fr := F.ch.GetOffsetRange(switchedFrom); fr > switchAt {
				c.setViolation("C16.mixed_ids", "the follower files bytes of the leader's new replication id under the old one", "the leader switched from id %s to id %s at offset %d; the follower's copy under the old id reaches %d", tailID(switchedFrom), tailID(idL), switchAt, fr)
			}
		}
	}

	breaks := 0
	leaderEvent := false
	maxBreaks := g.Choose("nbreaks", 4)
	steps := 30 + g.Choose("steps", 120)
	for i := 0; i < steps && r.BeginStep() && c.viol == nil; i++ {
		r.Settle()
		poll()
		if ended {
			break
		}
		var acts []pipeAction
		for _, s := range hub.Streams {
			s := s
			if s.RequestPending() {
				acts = append(acts, pipeAction{"deliver-request " + s.String(), 10, func() { s.DeliverRequest() }})
			}
			if s.Pending() > 0 {
				acts = append(acts, pipeAction{"deliver " + s.String(), 10, func() { s.Deliver() }})
				if breaks < maxBreaks {
					acts = append(acts, pipeAction{"break " + s.String(), 1, func() {
						breaks++
						r.W.Fault("stream_error")
						s.Break(simgrpc.ErrUnavailable)
					}})
				}
			}
		}
		if scen != "ahead" { // in the 'ahead' scenario the leader must stay behind the follower
			acts = append(acts, pipeAction{"grow", 3, func() { c.grow(L, 1+int64(r.Sched().Choose("grow", 400))) }})
			if !leaderEvent && c16LeaderEvents {
				// the leader's own source side changes WHILE followers are being served
				acts = append(acts, pipeAction{"leader-resync", 1, func() {
					// full resynchronisation of the leader under the same id: new snapshot at a later offset, cache reset
					leaderEvent = true
					sc := r.Sched()
					r.W.Fault("leader_full_resync")
					c.stopWriter(L)
					off2 := L.right + int64(1+sc.Choose("resyncgap", 3000))
					// (or, without a snapshot: the leader's cache is restarted at a later position, as RedisInput.syncMeta
					// does when the output is ahead of the cache)
					withSnap := sc.Choose("resyncwithsnap", 3) != 0
					if !withSnap {
						if err := L.ch.DelRunId(L.id); err != nil {
							Inconc("leader DelRunId: %v", err)
						}
					}
					c.fill(L, withSnap, off2, int64(20+sc.Choose("resyncsnap", 300)), int64(1+sc.Choose("resynclog", 400)))
					r.Logf("LEADER cache restarted at %d (snapshot: %v), log to %d", off2, withSnap, L.right)
				}})
				acts = append(acts, pipeAction{"leader-idswitch", 1, func() {
					// the leader's source failed over and answered +CONTINUE: same bytes, new replication id, old one second
					leaderEvent = true
					r.W.Fault("leader_id_switch")
					newID := "3" + hexID(r.Sched().Bytes("idswitch", 20))[1:]
					c.keyOf[newID] = 701
					c.stopWriter(L)
					if err := L.ch.SetRunId(newID); err != nil {
						Inconc("leader SetRunId: %v", err)
					}
					old := L.id
					switchedFrom, switchAt = old, L.right
					L.id = newID
					in.ids = []string{newID, old}
					idL = newID
					L.af = newCfeed()
					aw, err := L.ch.NewAofWritter(L.af, L.right)
					if err != nil {
						Inconc("leader NewAofWritter after id switch: %v", err)
					}
					aw.Start()
					L.aw = aw
					r.Logf("LEADER id switch %s -> %s at %d", tailID(old), tailID(newID), L.right)
				}})
			}
		}
		acts = append(acts, pipeAction{"idle", 4, func() {
			d := []time.Duration{10 * time.Millisecond, 100 * time.Millisecond, time.Second, 3100 * time.Millisecond}[r.Sched().Biased("idle", 4, 1, 2)]
			r.Logf("idle %v", d)
			r.Advance(d)
		}})
		a := pickAction(r, acts)
		r.Logf("step %d: %s", r.W.Step(), a.label)
		a.do()
	}
	// faults stop: deliver everything; within the bound the follower equals the leader (or took over).
	// The source is alive: a master talks at least every few seconds (its keep-alive), so the stream grows once more.
	// (A leader that has switched ids tells a follower it is serving with the next chunk it reads for it - with an
	// idle source that is the moment of the next keep-alive, not never.)
	if leaderEvent && scen != "ahead" && L.aw != nil {
		c.grow(L, 1+int64(r.Sched().Choose("keepalivegrow", 32)))
	}
	_, wantRight := L.ch.GetOffsetRange(idL)
	caughtUp := func() bool {
		if F.ch.RunId() != idL {
			return false
		}
		_, fr := F.ch.GetOffsetRange(idL)
		return fr >= wantRight
	}
	for round := 0; round < 600 && c.viol == nil; round++ {
		r.Settle()
		poll()
		if ended || (scen != "ahead" && caughtUp()) { // 'ahead': the follower's Run returns the offer after a 2 s pause
			break
		}
		progressed := false
		for _, s := range hub.Streams {
			if s.RequestPending() {
				s.DeliverRequest()
				progressed = true
				r.Settle()
			}
			for s.Pending() > 0 {
				s.Deliver()
				progressed = true
				r.Settle()
			}
		}
		if !progressed {
			r.Advance(100 * time.Millisecond)
		}
	}
	r.Settle()
	poll()

	if !ended && os.Getenv("SIM_DEBUG_STACKS") == "1" {
		buf := make([]byte, 1<<20)
		fmt.Fprintf(os.Stderr, "%s\n", buf[:runtime.Stack(buf, true)])
	}
	if scen == "ahead" {
		// the follower holds more than the leader: it is offered leadership and its cache stays untouched
		if !ended || !errors.Is(runErr, syncer.ErrLeaderTakeover) {
			c.setViolation("C16.no_handover", "a follower that is ahead of the leader was not offered leadership", "follower held [%d,%d] of id %s, the leader's right end was %d, but Run ended=%v err=%v", fLeft0, fRight0, tailID(idL), lR, ended, runErr)
		}
		if c.viol == nil {
			fl, fr := F.ch.GetOffsetRange(idL)
			if fl != fLeft0 || fr != fRight0 {
				c.setViolation("C16.overwritten", "a follower that is ahead was modified", "follower held [%d,%d] and now holds [%d,%d]", fLeft0, fRight0, fl, fr)
			}
		}
	} else {
		if ended {
			c.setViolation("C16.follower_ended", "the follower stopped although the leader is healthy", "follower.Run returned %v", runErr)
		} else if !caughtUp() {
			fl, fr := F.ch.GetOffsetRange(F.ch.RunId())
			c.setViolation("C16.not_resynced", "the follower did not end up with the leader's stream", "60 s after the last fault the follower holds id %s [%d,%d], the leader holds id %s [%d,%d]", tailID(F.ch.RunId()), fl, fr, tailID(idL), lL, wantRight)
		}
	}
	// stop the follower, then read back what its cache serves
	if !ended {
		follower.Stop()
		c.settleFor(10*time.Second, func() bool { poll(); return ended })
	}
	lwait.Close(nil)
	c.stopWriter(L)
	r.Settle()
	if c.viol == nil {
		c.readBack(F, idL, 701, "end")
	}
	F.ch.Close()
	L.ch.Close()
	r.Settle()
	return c.viol
}

func pickAction(r *Run, acts []pipeAction) pipeAction {
	w := make([]int, len(acts))
	for i, a := range acts {
		w[i] = a.weight
	}
	return acts[r.Sched().Weighted("act", w)]
}
