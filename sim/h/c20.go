package h

import (
	"fmt"
	"sort"
	"strings"
	"time"

	"github.com/mgtv-tech/redis-GunYu/config"

	"verifsim/rdbgen"
	"verifsim/simredis"
	"verifsim/simrt"
)

// C20 — pre-existing target keys are handled as the configured policy says, on any path. DESIGN.md §3 C20.
//
// The C03 snapshot replay (SnapSim) with the target PRE-POPULATED for a drawn subset of the snapshot's
// keys (same type with overlapping or disjoint content, another type, the identical value; with or
// without expiry) plus a few bystander keys the snapshot does not contain. Policy replace | ignore |
// error; RESTORE and native-command paths; hashes split into several chunks; 1..4 workers; plain and
// bidirectional replay.
//
// Oracle (from the property text):
//   replace: after the replay the target equals the snapshot (C03 comparison): no residue of the old
//            value (fields, elements, expiry).
//   ignore:  every pre-existing snapshot key keeps value, type and expiry exactly, and the target has
//            executed no successful write on it (for no chunk); all other keys as in C03.
//   error:   if at least one snapshot key pre-exists: Send returns an error, and no pre-existing key was
//            modified (state and executed writes), checked after everything the tool had already written
//            to its connections was executed. Without a pre-existing snapshot key: as C03.
//   always:  bystander keys are untouched.

func init() {
	Register(&PropertyDef{ID: "C20", Strata: []string{"replace", "ignore", "error", "chunked", "parallel", "bisync"}, Run: runC20, StepCap: 400000})
}

type preKey struct {
	id      string // "db/name" on the target
	db      int
	name    string
	how     string // relation of the old value to the snapshot's
	before  string // canonical rendering of the old value
	expire  int64
	typ     byte
	snap    *rdbgen.Key // nil for a bystander
	chunked bool
}

func fullCanon(o *simredis.Obj) string {
	if o == nil {
		return "<absent>"
	}
	s := o.Canon()
	if o.T == 'x' {
		s = "stream:" + o.Stream.CanonFull()
	}
	return s
}

// oldValue builds the value that sits under a snapshot key before the replay.
func oldValue(g *simrt.Chooser, k *rdbgen.Key, now int64) (*simredis.Obj, string) {
	tag := func(i int) []byte { return []byte(fmt.Sprintf("old-%d", i)) }
	other := func(kind byte) *simredis.Obj {
		n := 1 + g.Choose("oldn", 4)
		o := &simredis.Obj{T: kind}
		switch kind {
		case 's':
			o.Str = []byte("old-string")
		case 'l':
			for i := 0; i < n; i++ {
				o.List = append(o.List, tag(i))
			}
		case 'S':
			o.Set = map[string]struct{}{}
			for i := 0; i < n; i++ {
				o.Set[string(tag(i))] = struct{}{}
			}
		case 'z':
			o.ZSet = map[string]float64{}
			for i := 0; i < n; i++ {
				o.ZSet[string(tag(i))] = float64(i) - 0.5
			}
		case 'h':
			o.Hash = map[string][]byte{}
			for i := 0; i < n; i++ {
				o.Hash[string(tag(i))] = []byte("old-value")
			}
		case 'x':
			st := simredis.NewStream()
			for i := 0; i < n; i++ {
				st.Entries = append(st.Entries, simredis.StreamEntry{ID: simredis.SID{Ms: 1, Seq: uint64(i + 1)}, Fields: [][]byte{[]byte("old"), tag(i)}})
			}
			st.LastID = simredis.SID{Ms: 1, Seq: uint64(n)}
			st.EntriesAdded = int64(n)
			st.AddGroup("old-group", simredis.SID{})
			o.Stream = st
		}
		return o
	}
	snapKind := byte(k.Val.Kind)
	var o *simredis.Obj
	how := ""
	switch g.Weighted("oldkind", []int{4, 3, 3, 1}) {
	case 0: // same type, content overlapping with the snapshot's value plus elements of its own
		how = "same type, overlapping content"
		o = valueToObj(k.Val).Clone()
		switch snapKind {
		case 's':
			o.Str = append([]byte("old:"), o.Str...)
		case 'l':
			if len(o.List) > 1 {
				o.List = o.List[:len(o.List)/2]
			}
			o.List = append(o.List, tag(0), tag(1))
		case 'S':
			i := 0
			for _, m := range sortedKeys(o.Set) {
				if i%2 == 1 {
					delete(o.Set, m)
				}
				i++
			}
			o.Set[string(tag(0))] = struct{}{}
		case 'z':
			i := 0
			for _, m := range sortedKeys(o.ZSet) {
				if i%2 == 1 {
					delete(o.ZSet, m)
				} else {
					o.ZSet[m] += 1000 // same member, old score
				}
				i++
			}
			o.ZSet[string(tag(0))] = -1
		case 'h':
			i := 0
			for _, f := range sortedKeys(o.Hash) {
				if i%2 == 1 {
					delete(o.Hash, f)
				} else {
					o.Hash[f] = []byte("old-value") // same field, old value
				}
				i++
			}
			o.Hash[string(tag(0))] = []byte("old-value")
		case 'x':
			// a stream cannot be merged entry-wise below the snapshot's ids: keep the group, other entries
			o = other('x')
		}
	case 1:
		how = "same type, disjoint content"
		o = other(snapKind)
	case 2:
		how = "another type"
		kinds := []byte{'s', 'l', 'S', 'z', 'h', 'x'}
		kd := kinds[g.Choose("oldtype", len(kinds))]
		if kd == snapKind {
			kd = kinds[(strings.IndexByte(string(kinds), kd)+1)%len(kinds)]
		}
		o = other(kd)
	default:
		how = "identical value"
		o = valueToObj(k.Val).Clone()
	}
	switch g.Choose("oldexp", 3) {
	case 0:
		o.ExpireAt = 0
		how += ", no expiry"
	default:
		o.ExpireAt = now + 3600_000 + int64(g.Choose("oldexpms", 1000000))
		how += ", with expiry"
	}
	o.Origin = "pre-existing"
	return o, how
}

// keyOf returns the key a logged request operates on ("" if it has none we care about).
func keyOf(e simredis.Exec) (string, bool) {
	switch e.Name {
	case "select", "ping", "multi", "exec", "info", "script", "function", "discard", "auth", "client", "echo":
		return "", false
	case "xgroup":
		if len(e.Args) >= 2 {
			return string(e.Args[1]), true
		}
		return "", false
	}
	if len(e.Args) == 0 {
		return "", false
	}
	return string(e.Args[0]), true
}

var readOnlyCmds = map[string]bool{"exists": true, "type": true, "ttl": true, "pttl": true, "get": true, "hget": true, "hgetall": true,
	"hexists": true, "hlen": true, "lrange": true, "llen": true, "smembers": true, "zcard": true, "zrangebyscore": true, "xlen": true, "xrange": true, "keys": true, "dbsize": true}

func runC20(r *Run, stratum string) *Violation {
	g := r.Gen()
	base := map[string]string{"replace": "restore", "ignore": "expand", "error": "restore", "chunked": "chunked", "parallel": "parallel", "bisync": "restore"}[stratum]
	if stratum != "chunked" && stratum != "parallel" && stratum != "bisync" {
		base = []string{"restore", "expand", "chunked", "parallel", "latency"}[g.Choose("c20base", 5)]
	}
	cfg, o := genSnapCfg(g, base)
	policy := stratum
	switch stratum {
	case "chunked", "parallel", "bisync":
		policy = []string{"ignore", "replace", "error"}[g.Choose("policy", 3)]
	}
	// the policy reaches the replay the way a configuration file delivers it: spelled by the operator (any letter case)
	// and normalised by the real config.ReplayConfig.fix()
	spelled := policy
	switch g.Choose("policycase", 4) {
	case 1:
		spelled = strings.ToUpper(policy)
	case 2:
		spelled = strings.ToUpper(policy[:1]) + policy[1:]
	}
	rc := &config.ReplayConfig{KeyExists: spelled}
	if err := config.VerifFixReplay(rc); err != nil {
		Inconc("replay configuration rejected: %v", err)
	}
	cfg.KeyExists = rc.KeyExists
	if stratum == "bisync" {
		cfg.Bisync = true
		// one worker: the bidirectional path numbers its units with a counter shared by all workers, so with
		// several workers the marker contents depend on the Go scheduler (not replayable); the key-exists
		// logic itself is per worker
		cfg.Parallel = 1
		if g.Choose("bisyncchunk", 2) == 0 {
			cfg.ChunkAt = 64 << g.Choose("chunkat", 7)
			o.PreferTable = 50
		}
		if g.Choose("bisyncexpand", 3) == 0 {
			cfg.Restore = false
		}
		// the bidirectional RESTORE has no native-command fallback for value types the target cannot load:
		// keep the snapshot within what the target reads (that fallback is C03 territory, plain replay)
		cfg.OlderTarget = false
		if tv := simredis.RDBVersionOf(cfg.TargetVersion); tv <= 10 && (o.MaxVersion == 0 || o.MaxVersion > tv) {
			o.MaxVersion = tv
		}
		if o.MinVersion > o.MaxVersion && o.MaxVersion != 0 {
			o.MinVersion = o.MaxVersion
		}
	}
	o.NowMs = time.Now().UnixMilli()
	if o.MaxKeys == 0 || o.MaxKeys > 30 {
		o.MaxKeys = 30
	}
	ds := rdbgen.Gen(g, o)
	ss := NewSnapSim(r, "C20", cfg, ds)
	ss.coarse = true

	// ---- pre-populate the target
	pre := map[string]*preKey{}
	var preList []*preKey
	nSnapPre := 0
	if len(ds.Keys) > 0 {
		want := 1 + g.Choose("npre", 8)
		if g.Choose("nopre", 12) == 0 {
			want = 0
		}
		// values that will be replayed in several chunks: half of the time all of them are on the target already (several
		// chunked pre-existing values at once, spread over the replay workers)
		var chunky []*rdbgen.Key
		for _, k := range ds.Keys {
			if cfg.ChunkAt > 0 && k.Enc.Type == rdbgen.THash && len(ss.bodyOf[k]) > cfg.ChunkAt && !simredis.IsReservedKey(k.Name) {
				chunky = append(chunky, k)
			}
		}
		allChunky := len(chunky) >= 2 && g.Choose("prechunky", 2) == 1
		if allChunky && want < len(chunky) {
			want = len(chunky)
		}
		for i := 0; i < want && nSnapPre < 20; i++ {
			k := ds.Keys[g.Choose("prekey", len(ds.Keys))]
			if allChunky && i < len(chunky) {
				k = chunky[i]
			}
			tdb := cfg.mapDB(k.DB)
			id := fmt.Sprintf("%d/%s", tdb, k.Name)
			if pre[id] != nil || simredis.IsReservedKey(k.Name) {
				continue
			}
			ov, how := oldValue(g, k, o.NowMs)
			ss.srv.DBs[tdb][string(k.Name)] = ov
			pk := &preKey{id: id, db: tdb, name: string(k.Name), how: how, before: fullCanon(ov), expire: ov.ExpireAt, typ: ov.T, snap: k}
			pk.chunked = cfg.ChunkAt > 0 && k.Enc.Type == rdbgen.THash && len(ss.bodyOf[k]) > cfg.ChunkAt
			pre[id] = pk
			preList = append(preList, pk)
			nSnapPre++
		}
	}
	snapIDs := map[string]bool{}
	for _, k := range ds.Keys {
		snapIDs[fmt.Sprintf("%d/%s", cfg.mapDB(k.DB), k.Name)] = true
	}
	for i := 0; i < g.Choose("nbystander", 4); i++ {
		db := g.Choose("bydb", 16)
		name := fmt.Sprintf("bystander:%d", i)
		id := fmt.Sprintf("%d/%s", db, name)
		if snapIDs[id] {
			continue
		}
		ov := &simredis.Obj{T: 'h', Hash: map[string][]byte{"f": []byte("v")}, Origin: "pre-existing"}
		if i%2 == 1 {
			ov.ExpireAt = o.NowMs + 7200_000
		}
		ss.srv.DBs[db][name] = ov
		pk := &preKey{id: id, db: db, name: name, how: "bystander", before: fullCanon(ov), expire: ov.ExpireAt, typ: ov.T}
		pre[id] = pk
		preList = append(preList, pk)
	}
	var desc []string
	for _, pk := range preList {
		if pk.snap != nil {
			desc = append(desc, fmt.Sprintf("%s (%s; snapshot: %s)", pk.id, pk.how, rdbgen.TypeName(pk.snap.Enc.Type)))
		}
	}
	r.Sample = fmt.Sprintf("cfg{%s} pre-existing{%s} snapshot{%d bytes; %s}", cfg, strings.Join(desc, "; "), len(ss.rdb), ds.Summary(8))
	r.Logf("C20 %s cfg %s rdb=%d bytes keys=%d pre=%v", stratum, cfg, len(ss.rdb), len(ds.Keys), desc)

	ss.extraOK = func(db int, name string) bool {
		p := pre[fmt.Sprintf("%d/%s", db, name)]
		return p != nil && p.snap == nil
	}
	ss.note = func(id string) string {
		n := ""
		if cfg.Bisync {
			n += ", bidirectional replay"
		}
		if strings.HasSuffix(id, "/") {
			n += ", empty key name"
		}
		if p := pre[id]; p != nil {
			n += "; key pre-existed on the target"
		}
		return n
	}
	if policy == "ignore" {
		ss.skipKey = func(id string) bool { return pre[id] != nil }
	}

	// bidirectional replay by RESTORE: another client of the target (the application on that side, the opposite link)
	// may create a snapshot key between the worker's EXISTS probe and the MULTI/EXEC that carries the RESTORE. The
	// transaction then answers BUSYKEY for it, and the policy decides what that means.
	var raced *preKey
	if cfg.Bisync && cfg.Restore && len(ds.Keys) > 0 && g.Choose("racingclient", 2) == 0 {
		seen := 0
		snapByID := map[string]*rdbgen.Key{}
		for _, k := range ds.Keys {
			snapByID[fmt.Sprintf("%d/%s", cfg.mapDB(k.DB), k.Name)] = k
		}
		ss.onStep = func() bool {
			for ; seen < len(ss.srv.Log) && raced == nil; seen++ {
				e := ss.srv.Log[seen]
				if e.Name != "exists" || e.IsErr || len(e.Args) != 1 {
					continue
				}
				id := fmt.Sprintf("%d/%s", e.DB, e.Args[0])
				k := snapByID[id]
				if k == nil || pre[id] != nil || ss.srv.Get(e.DB, string(e.Args[0])) != nil || r.Sched().Choose("racenow", 2) != 0 {
					continue
				}
				ov, how := oldValue(r.Sched(), k, o.NowMs)
				ov.Origin = "racing client"
				ss.srv.DBs[e.DB][string(k.Name)] = ov
				raced = &preKey{id: id, db: e.DB, name: string(k.Name), how: "created by another client right after the tool's EXISTS probe; " + how, before: fullCanon(ov), expire: ov.ExpireAt, typ: ov.T, snap: k}
				r.W.Fault("key_created_between_probe_and_transaction")
				r.Logf("RACE: another client creates %s (%s)", id, how)
			}
			return false
		}
	}

	// a target that is briefly not ready: one request of the replay is answered with an error that says "try again
	// later" (a script of another client runs past its time limit, a cluster slot is busy). The replay may fail - the
	// tool then repeats the full sync - or go on if it can do so correctly; it must not go on with its view of the
	// connection (replies, selected database) out of step with the target's
	transient := !cfg.Bisync && raced == nil && ss.onStep == nil && g.Choose("transient-error", 5) == 0
	if transient {
		ss.errAt = 1 + g.Choose("transient-at", 4+3*len(ds.Keys))
		ss.errText = []string{"BUSY Redis is busy running a script. You can only call SCRIPT KILL or SHUTDOWN NOSAVE.", "LOADING Redis is loading the dataset in memory", "TRYAGAIN Multiple keys request during rehashing of slot"}[g.Choose("transient-kind", 3)]
	}
	// an interrupted first attempt: the target drops the replay's connections at a drawn step and stays reachable; the
	// round fails and the tool replays the same snapshot again on the same output object. What the policies promise about
	// keys that were on the target BEFORE the first attempt holds for the second attempt too (keys the first attempt wrote
	// itself are another matter and are not judged)
	twice := !transient && !cfg.Bisync && raced == nil && ss.onStep == nil && (policy == "ignore" || policy == "error") && g.Choose("interrupted-first-attempt", 4) == 0
	severAt, stepNo, severed := 0, 0, false
	if twice {
		severAt = 1 + g.Choose("sever-at", 6+4*len(ds.Keys))
		ss.onStep = func() bool {
			stepNo++
			if stepNo == severAt && !severed {
				severed = true
				r.W.Fault("target_drops_connections")
				r.Logf("the target drops the replay's connections")
				for _, s := range ss.srv.Sessions {
					if !s.Dead {
						ss.srv.KillSession(s, 0)
					}
				}
				r.Settle()
			}
			return false
		}
	}
	restore := ss.start()
	defer restore()
	finished := ss.run()
	done, err := ss.isDone()
	secondAttempt := false
	if twice && finished && done && err != nil && severed {
		ss.onStep = nil
		ss.drainPending(10000)
		ss.again()
		secondAttempt = true
		simrt.Probe("c20_second_attempt_on_the_same_output")
		finished = ss.run()
		done, err = ss.isDone()
	}
	tEnd := time.Now()
	elapsed := tEnd.Sub(ss.t0)
	if !finished {
		ss.shutdown()
		Inconc("step cap reached before the snapshot replay ended")
	}
	if raced != nil {
		// judged only if the tool then really sent a RESTORE for that key (a value it expands into native commands
		// inside the transaction is merged into whatever is there - no reply tells the tool about the newcomer)
		viaRestore := false
		for _, e := range ss.srv.Log {
			if e.Name == "restore" && e.DB == raced.db && len(e.Args) > 0 && string(e.Args[0]) == raced.name {
				viaRestore = true
			}
		}
		if viaRestore {
			pre[raced.id] = raced
			preList = append(preList, raced)
			desc = append(desc, fmt.Sprintf("%s (%s)", raced.id, raced.how))
			nSnapPre++
			simrt.Probe("c20_race_judged")
		} else {
			// the value went out as native commands: whatever happens to the newcomer (merged, WRONGTYPE) is the
			// unavoidable outcome of a probe that is not part of the transaction; nothing is judged in this run
			simrt.Probe("c20_race_not_judged")
			ss.shutdown()
			return nil
		}
	}
	// everything the tool has already written to its connections is executed by a real server
	ss.drainPending(10000)

	// untouched: state identical and no successful write executed on the key
	untouched := func(pk *preKey, what string) *Violation {
		path := "native commands"
		for _, rec := range ss.srv.Restores {
			if rec.DB == pk.db && string(rec.Key) == pk.name {
				path = "RESTORE"
			}
		}
		if pk.chunked {
			path += ", value replayed in several chunks"
		}
		if cfg.Bisync {
			path += ", bidirectional replay"
		}
		if pk.name == "" {
			path += ", empty key name"
		}
		now := ss.srv.Get(pk.db, pk.name)
		var writes []string
		nw := 0
		for _, e := range ss.srv.Log {
			if e.IsErr || e.DB != pk.db || readOnlyCmds[e.Name] {
				continue
			}
			if kk, ok := keyOf(e); ok && kk == pk.name {
				nw++
				if len(writes) < 4 {
					writes = append(writes, e.String())
				}
			}
		}
		state := fullCanon(now)
		exp := int64(-1)
		if now != nil {
			exp = now.ExpireAt
		}
		if state != pk.before || exp != pk.expire {
			kind := "value changed"
			switch {
			case now == nil:
				kind = "key deleted"
			case now.T != pk.typ:
				kind = "type changed"
			case state == pk.before:
				kind = "expiry changed"
			}
			return ss.violation("C20."+what+"_modified", what+" policy: pre-existing key modified (via "+path+")",
				"policy %s: %s: key %s (%s) was %s expiry %d before the replay and is %s expiry %d after it; %d write(s) executed on it, e.g. %s", policy, kind, pk.id, pk.how,
				cut(pk.before, 300), pk.expire, cut(state, 300), exp, nw, strings.Join(writes, " | "))
		}
		if nw > 0 {
			return ss.violation("C20."+what+"_touched", what+" policy: a write was executed on a pre-existing key although its final state is unchanged (via "+path+")",
				"policy %s: key %s (%s): %d successful write(s), e.g. %s", policy, pk.id, pk.how, nw, strings.Join(writes, " | "))
		}
		return nil
	}

	// first error reply (other than the RESTORE protocol's own) to a request on a pre-existing snapshot key
	firstErrOnPre := func() string {
		for _, e := range ss.srv.Log {
			if !e.IsErr || strings.Contains(e.Reply, "BUSYKEY") || strings.Contains(e.Reply, "Bad data format") {
				continue
			}
			if kk, ok := keyOf(e); ok {
				if p := pre[fmt.Sprintf("%d/%s", e.DB, kk)]; p != nil && p.snap != nil {
					return e.String() + " (old value: " + p.how + ")"
				}
			}
		}
		return ""
	}

	var v *Violation
	sort.SliceStable(preList, func(i, j int) bool { return preList[i].id < preList[j].id })
	// bystanders: always untouched
	for _, pk := range preList {
		if pk.snap == nil && v == nil {
			v = untouched(pk, "bystander")
		}
	}
	switch {
	case v != nil:
	case done && secondAttempt:
		// (a first attempt that was not interrupted after all is judged as any other run, below)
		if policy == "ignore" || policy == "error" {
			for _, pk := range preList {
				if pk.snap != nil && v == nil {
					v = untouched(pk, policy)
				}
			}
		}
		if v == nil && policy == "error" && nSnapPre > 0 && err == nil {
			v = ss.violation("C20.error_no_error", "error policy: the repeated replay reported success although a snapshot key pre-existed on the target",
				"policy error, %d pre-existing snapshot key(s) (%s): the first attempt was interrupted by a connection loss, the second one on the same output object returned nil", nSnapPre, strings.Join(desc, "; "))
		}
	case done && err != nil && ss.errHit:
		// the replay gave up at the refused request (the full sync will be repeated): what the policies promise about keys
		// that were there before holds for a replay that stops half way too
		simrt.Probe("c20_transient_error_stopped_the_replay")
		if policy == "ignore" || policy == "error" {
			for _, pk := range preList {
				if pk.snap != nil && v == nil {
					v = untouched(pk, policy)
				}
			}
		}
	case !done:
		v = ss.violation("C20.hang", "Send does not return although the whole snapshot was fed and the target answered everything",
			"fed %d/%d bytes, target idle, 120 s of virtual time passed and Send has not returned", ss.fed, len(ss.rdb))
	case policy == "error" && nSnapPre > 0:
		for _, pk := range preList {
			if pk.snap != nil && v == nil {
				v = untouched(pk, "error")
			}
		}
		if v == nil && err == nil {
			v = ss.violation("C20.error_no_error", "error policy: Send reported success although a snapshot key pre-existed on the target",
				"policy error, %d pre-existing snapshot key(s) (%s), Send returned nil", nSnapPre, strings.Join(desc, "; "))
		}
		if err != nil {
			simrt.Probe("error-policy-stopped")
		}
	case err != nil && policy == "ignore" && raced != nil && strings.Contains(err.Error(), "BUSYKEY"):
		// the key appeared between the probe and the transaction: the RESTORE inside EXEC answered BUSYKEY and the
		// transaction batcher reports any error element of an EXEC reply as an error. Stopping is as faithful to
		// "ignore" as carrying on, provided the newcomer is untouched (the next attempt finds it by its probe).
		simrt.Probe("c20_race_ignore_stopped_with_busykey")
		v = untouched(raced, "ignore")
	case err != nil && policy == "ignore" && firstErrOnPre() != "":
		v = ss.violation("C20.ignore_failed", "ignore policy: the replay failed on a write the target refused for a pre-existing key",
			"policy ignore: Send returned %v; the target had answered an error to a write on a pre-existing key: %s", strings.SplitN(err.Error(), "\n", 2)[0], firstErrOnPre())
	case err != nil:
		v = ss.violation("C20.failed", "replay failed although the policy is "+policy+": "+ss.failClass(err), "Send returned an error (policy %s, %d pre-existing snapshot keys): %v%s", policy, nSnapPre, strings.SplitN(err.Error(), "\n", 2)[0], ss.suspect())
	default:
		if policy == "ignore" {
			for _, pk := range preList {
				if pk.snap != nil && v == nil {
					v = untouched(pk, "ignore")
				}
			}
		}
		if v == nil {
			r.Advance(time.Millisecond)
			v = ss.payloadCheck()
		}
		if v == nil {
			v = ss.compare(elapsed, tEnd.UnixMilli())
		}
	}
	if len(ss.srv.Restores) > 0 {
		simrt.Probe("path-restore")
	}
	for _, pk := range preList {
		if pk.snap != nil {
			simrt.Probe("pre:" + strings.SplitN(pk.how, ",", 2)[0])
			if pk.chunked {
				simrt.Probe("pre:chunked-value")
			}
		}
	}
	simrt.Probe("policy:" + policy)
	r.NonTriv = nSnapPre >= 1 && done
	ss.shutdown()
	return v
}

func cut(s string, n int) string {
	if len(s) > n {
		return s[:n] + "…"
	}
	return s
}
