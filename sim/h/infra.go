// Package h holds the property harnesses: each runs real repository code inside one synctest
// bubble under the simulator and evaluates the property's oracle.
package h

import (
	"encoding/json"
	"fmt"
	"os"
	"runtime"
	"sort"
	"strings"
	"sync"
	"testing"
	"testing/synctest"
	"time"

	"github.com/mgtv-tech/redis-GunYu/config"
	"github.com/mgtv-tech/redis-GunYu/pkg/log"

	"verifsim/simnet"
	"verifsim/simrt"
)

// Violation is a property violation found by an oracle.
type Violation struct {
	Property string `json:"property"`
	Rule     string `json:"rule"`      // oracle rule id, e.g. C02.skip
	Sig      string `json:"signature"` // coarse signature used for known-finding matching
	Msg      string `json:"msg"`
}

func (v *Violation) Error() string { return v.Rule + ": " + v.Msg }

// Inconclusive ends a run without a verdict (step cap, unsupported construct...).
type Inconclusive struct{ Why string }

// Result of one simulated run.
type Result struct {
	Property     string         `json:"property"`
	Stratum      string         `json:"stratum,omitempty"`
	Seed         uint64         `json:"seed"`
	Digest       string         `json:"digest"`
	Steps        int            `json:"steps"`
	VirtualNs    int64          `json:"virtual_ns"`
	Violation    *Violation     `json:"violation,omitempty"`
	Inconclusive string         `json:"inconclusive,omitempty"`
	HarnessError string         `json:"harness_error,omitempty"`
	Probes       map[string]int `json:"probes,omitempty"`
	Faults       map[string]int `json:"faults,omitempty"`
	Gen          []int          `json:"gen,omitempty"`
	Sched        []int          `json:"sched,omitempty"`
	Trace        []string       `json:"trace,omitempty"`
	Sample       string         `json:"sample,omitempty"`
	NonTrivial   bool           `json:"nontrivial"`
	Evals        int            `json:"evals,omitempty"` // sub-evaluations (e.g. enumerated crash prefixes) inside this run
	WallMs       int64          `json:"wall_ms"`
}

// Run is the per-run context handed to a harness.
type Run struct {
	W        *simrt.World
	Net      *simnet.Net
	T        *testing.T
	Tier     string
	KeepLog  bool
	Sample   string
	NonTriv  bool
	Evals    int
	Stratum  string
	start    time.Time
	stepCap  int
	sched    *simrt.Chooser
	steps0   int
	finished bool
}

func (r *Run) Gen() *simrt.Chooser { return r.W.Gen }

// Sched returns the chooser that drives scheduling decisions; harnesses that enumerate
// sub-runs swap it with SetSched (a replay chooser over a recorded prefix).
func (r *Run) Sched() *simrt.Chooser {
	if r.sched != nil {
		return r.sched
	}
	return r.W.Sched
}
func (r *Run) SetSched(c *simrt.Chooser) { r.sched = c }
func (r *Run) ResetSteps()               { r.steps0 = r.W.Step() }

// Settle waits until every goroutine of the bubble is durably blocked, then writes the connection events of
// that period into the event log in canonical order.
func (r *Run) Settle() {
	synctest.Wait()
	if r.Net != nil {
		r.Net.FlushEvents()
	}
}

// Advance moves virtual time forward by d (timers due in between fire in order).
func (r *Run) Advance(d time.Duration) {
	if d > 0 {
		time.Sleep(d)
	}
	r.Settle()
}

// BeginStep draws the per-step salt and publishes it; returns false when the step cap is hit.
func (r *Run) BeginStep() bool {
	// the reaction to the previous step's stimulus runs to quiescence under the previous salt: the salt decides
	// select/map orders inside the repository code, it must not change while that code is still running
	r.Settle()
	n := r.W.NextStep()
	if n-r.steps0 > r.stepCap {
		return false
	}
	salt := r.Sched().Biased("salt", 8, 3, 4)
	r.W.SetSalt(salt)
	return true
}

func (r *Run) Logf(f string, a ...any) { r.W.Logf(f, a...) }

// Calm ends the lock-park exploration of this run (simrt.LockYield park mode): goroutines descheduled at a lock
// acquisition are resumed and no further one is. Harnesses call it when they leave their exploratory main loop for a
// drain or an epilogue whose rounds are counted.
func (r *Run) Calm() {
	// drains run many rounds inside ONE scheduler step: the step's select priorities would stay in force for all of them,
	// and a priority order in which an always-ready ticker comes before the data channel starves the data for the whole
	// drain (Go's own select is random, it cannot). Source order from here on.
	r.W.SetSalt(0)
	if !r.W.Park {
		return
	}
	r.W.Park = false
	for i := 0; i < 8 && r.W.ParkedNow() > 0; i++ {
		r.Advance(3 * time.Millisecond)
	}
}

type Harness func(r *Run) *Violation

type PropertyDef struct {
	ID      string
	Strata  []string // named strata; run index i uses Strata[i % len]
	Run     func(r *Run, stratum string) *Violation
	StepCap int
}

var registry = map[string]*PropertyDef{}

func Register(p *PropertyDef) { registry[p.ID] = p }

var initOnce sync.Once

func initGlobals() {
	initOnce.Do(func() {
		t := true
		log.InitLog(config.LogConfig{LevelStr: "panic", Handler: config.LogHandlerConfig{StdOut: true}, Caller: &t, Func: &t})
		// global syncer configuration: must be created OUTSIDE any bubble (it owns channels)
		initSyncerConfig()
	})
}

type inconclusivePanic struct{ why string }

// Inconc aborts the current run as inconclusive.
func Inconc(format string, a ...any) { panic(inconclusivePanic{fmt.Sprintf(format, a...)}) }

// Execute runs one simulated execution of property p.
func Execute(t *testing.T, p *PropertyDef, seed uint64, stratum string, gen, sched []int, replay bool, keepLog bool, tier string) (res Result) {
	initGlobals()
	res.Property = p.ID
	res.Seed = seed
	res.Stratum = stratum
	t0 := time.Now()
	var g, s *simrt.Chooser
	if replay {
		g = simrt.NewReplayChooser(gen)
		s = simrt.NewReplayChooser(sched)
	} else {
		g = simrt.NewChooser(simrt.Mix(seed, 1))
		s = simrt.NewChooser(simrt.Mix(seed, 2))
	}
	w := simrt.NewWorld(seed, g, s, keepLog)
	w.Park = lockPark(p.ID, seed)
	if w.Stmt = stmtYield(p.ID, seed); w.Stmt {
		w.StmtMask = []uint64{3, 15, 63}[simrt.Mix(seed, 0x57a8)%3]
		if lockParkProps[p.ID] && os.Getenv("SIM_LOCK_PARK") == "" && simrt.Mix(seed, 0x57a9)%2 == 0 {
			w.Park = true // half of the statement-yield runs of a property that qualifies for park mode deschedule, too
		}
	}
	stepCap := p.StepCap
	if stepCap == 0 {
		stepCap = 20000
	}
	run := &Run{W: w, T: t, Tier: tier, KeepLog: keepLog, stepCap: stepCap, Stratum: stratum}

	done := make(chan struct{})
	// real-time watchdog (outside the bubble): a hang is a harness defect, never a verdict.
	go func() {
		select {
		case <-done:
		case <-time.After(120 * time.Second):
			buf := make([]byte, 1<<20)
			n := runtime.Stack(buf, true)
			fmt.Fprintf(os.Stderr, "WATCHDOG: run property=%s seed=%d hung (real time)\n%s\n", p.ID, seed, buf[:n])
			os.Exit(2)
		}
	}()

	func() {
		defer func() {
			if x := recover(); x != nil {
				msg := fmt.Sprint(x)
				if ip, ok := x.(inconclusivePanic); ok {
					res.Inconclusive = ip.why
					return
				}
				if strings.Contains(msg, "deadlock: main bubble goroutine has exited") && run.finished {
					// leftover goroutines of the tool after the verdict was reached
					res.Probes = map[string]int{"leftover_goroutines": 1}
					return
				}
				buf := make([]byte, 1<<16)
				n := runtime.Stack(buf, false)
				res.HarnessError = msg + "\n" + string(buf[:n])
			}
		}()
		synctest.Test(t, func(t *testing.T) {
			simrt.ResetRand()
			simrt.SetWorld(w)
			w.MarkRoot()
			nw := simnet.New()
			simnet.SetNet(nw)
			run.Net = nw
			run.start = time.Now()
			defer func() {
				simrt.SetWorld(nil)
				simnet.SetNet(nil)
			}()
			defer func() {
				// inconclusive panics must not skip teardown inside the bubble
				if x := recover(); x != nil {
					if ip, ok := x.(inconclusivePanic); ok {
						res.Inconclusive = ip.why
						run.finished = true
						return
					}
					panic(x)
				}
			}()
			v := p.Run(run, stratum)
			res.Violation = v
			if v != nil && os.Getenv("SIM_STACKS_ON_VIOLATION") == "1" {
				// development aid: where every goroutine of the bubble stands when the oracle fired
				buf := make([]byte, 4<<20)
				fmt.Fprintf(os.Stderr, "STACKS AT VIOLATION %s\n%s\n", v.Rule, buf[:runtime.Stack(buf, true)])
			}
			res.VirtualNs = int64(time.Since(run.start))
			run.finished = true
		})
	}()
	close(done)
	if run.Net != nil {
		run.Net.FlushCloses()
	}
	res.Digest = w.Digest()
	res.Steps = w.Step()
	if res.Probes == nil {
		res.Probes = map[string]int{}
	}
	for k, v := range w.Probes {
		res.Probes[k] += v
	}
	if n := w.Parks(); n > 0 {
		res.Probes["lock_parked"] += n
	}
	if n := w.StmtYields(); n > 0 {
		res.Probes["stmt_yielded"] += n
	}
	res.Faults = w.Faults
	res.Sample = run.Sample
	res.NonTrivial = run.NonTriv
	res.Evals = run.Evals
	res.WallMs = time.Since(t0).Milliseconds()
	if res.Violation != nil || keepLog {
		res.Gen = g.Values()
		res.Sched = s.Values()
	}
	if keepLog {
		res.Trace = w.Lines()
	}
	return res
}

func sortedKeys[M ~map[string]V, V any](m M) []string {
	ks := make([]string, 0, len(m))
	for k := range m {
		ks = append(ks, k)
	}
	sort.Strings(ks)
	return ks
}

func jsonLine(v any) string {
	b, _ := json.Marshal(v)
	return string(b)
}

// lockPark says whether this run deschedules goroutines at lock acquisitions (simrt.LockYield, park mode; DESIGN.md
// 7.2 "engine B-lite"). A pure function of the property and the run's seed, so a replay file (which carries the seed)
// reproduces it. Opt-in per property: a harness qualifies when none of its "nothing is pending, so the tool is done"
// decisions can be taken while a goroutine is parked (World.ParkedNow, Run.Calm). SIM_LOCK_PARK=0/1 forces it.
var lockParkProps = map[string]bool{"C05": true, "C06": true, "C14": true, "C15": true, "C16": true, "C17": true, "C18": true, "C19": true}

func lockPark(prop string, seed uint64) bool {
	switch os.Getenv("SIM_LOCK_PARK") {
	case "0":
		return false
	case "1":
		return true
	}
	return lockParkProps[prop] && simrt.Mix(seed, 0x9a7c)%3 == 0
}

// stmtYield says whether the statement-level yield points (simrt.StmtYield, overlay transformation T6) are live in this
// run: preemption between two adjacent non-blocking statements of the files rules.json names. Like lockPark a pure
// function of property and seed; opt-in per property; SIM_STMT_YIELD=0/1 forces it.
var stmtYieldProps = map[string]bool{"C05": true, "C16": true}

func stmtYield(prop string, seed uint64) bool {
	switch os.Getenv("SIM_STMT_YIELD") {
	case "0":
		return false
	case "1":
		return true
	}
	return stmtYieldProps[prop] && simrt.Mix(seed, 0x57a7)%4 == 0
}

// dumpStacksOnViolation (development aid, SIM_STACKS_ON_VIOLATION=1): where every goroutine stands when an oracle fires.
func dumpStacksOnViolation(rule string) {
	if os.Getenv("SIM_STACKS_ON_VIOLATION") == "1" {
		buf := make([]byte, 4<<20)
		fmt.Fprintf(os.Stderr, "STACKS AT DETECTION %s\n%s\n", rule, buf[:runtime.Stack(buf, true)])
	}
}
