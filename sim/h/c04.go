package h

import (
	"context"
	"fmt"
	"io"
	"os"
	"sort"
	"strconv"
	"strings"
	"time"

	"github.com/mgtv-tech/redis-GunYu/syncer"

	"verifsim/rdbgen"
	"verifsim/simredis"
	"verifsim/simrt"
)

// C04 — an incomplete snapshot replay is never recorded as a completed full sync. DESIGN.md §3 C04.
//
// One run = one small valid checksummed snapshot (<= 8 KiB, <= 40 keys, own RDB encoder), one replay
// configuration (restore / native commands, 1..4 workers, pipe size 1..64, resume on, plain or
// bidirectional replay) and ONE damage mode, enumerated over its positions (each a sub-evaluation):
//
//	truncate  the source ends after L bytes (every L for snapshots <= 2 KiB, a grid plus the record
//	          boundaries above); the announced size stays the original one
//	bitflip   byte i xor mask (every i x {0x01, 0x80, 0xff} while that is <= ~1800 replays, otherwise
//	          one drawn mask over every i or a grid)
//	targeterr the k-th request of the replay is answered with an error (every k)
//	cancel    the context is cancelled at scheduler step s of a recorded schedule (every s)
//	sever     every target connection is reset at step s (network loss; the tool keeps running)
//	crash     the tool stops at step s (cancel + connections gone + no further dial + source closed)
//
// Oracle. complete := the target holds exactly the snapshot's dataset (the C03 comparison) once Send
// has returned and everything already written to the connections has been executed.
//
//	C04.reported_complete  !complete and Send returned nil
//	C04.recorded           !complete and the target executed a write of <runid>_offset = snapshot offset
//	                       into the checkpoint hash, at any time (watched for 5 s after the return)
//	C04.damaged_accepted   truncation / alteration of a checksum-covered byte and Send returned nil
//	C04.hang               Send has not returned 60 s (virtual) after the last stimulus
//	C04.panic              a panic escaped Send
//	C04.sends_after_return the tool wrote to a target connection (or dialled) after Send had returned
//
// Nothing is demanded when everything was applied (an error is allowed then, e.g. a damaged aux field
// that the checksum catches after the last key).

func init() {
	Register(&PropertyDef{ID: "C04", Strata: []string{"truncate", "bitflip", "targeterr", "cancel", "sever", "crash"}, Run: runC04, StepCap: 400000})
}

type c04Fault struct {
	mode    string
	truncAt int
	flipAt  int
	mask    byte
	errAt   int
	errText string
	step    int
}

func (f c04Fault) String() string {
	switch f.mode {
	case "none":
		return "no fault"
	case "truncate":
		return fmt.Sprintf("source ends after %d bytes", f.truncAt)
	case "bitflip":
		return fmt.Sprintf("byte %d xor 0x%02x", f.flipAt, f.mask)
	case "targeterr":
		return fmt.Sprintf("request #%d answered %q", f.errAt, f.errText)
	}
	return fmt.Sprintf("%s at step %d", f.mode, f.step)
}

type c04Run struct {
	greedy bool
	r      *Run
	cfg    SnapCfg
	ds     *rdbgen.Dataset
	proto  *SnapSim // holds the encoded snapshot shared by all sub-evaluations
	eof    error    // what the source reports when it ends early
	// observations of the last replay
	steps    int
	requests int
}

// fork builds a fresh replay (new target double) over the already encoded snapshot.
func (c *c04Run) fork() *SnapSim {
	p := c.proto
	ss := &SnapSim{r: c.r, prop: "C04", cfg: c.cfg, ds: c.ds, rdb: p.rdb, info: p.info, bodyOf: p.bodyOf, runID: p.runID, cpName: p.cpName}
	ss.srv = simredis.NewServer(simTargetAddr)
	ss.srv.Lenient = false
	ss.srv.Version = c.cfg.TargetVersion
	for _, ki := range ss.info.Keys {
		ss.srv.Register(ki.Body, valueToObj(ki.Key.Val))
	}
	c.r.Net.Listen(simTargetAddr, ss.srv)
	ss.feedSrc = ss.rdb
	ss.stuckLimit = 60 * time.Second
	ss.greedy = c.greedy
	return ss
}

func c2sTotal(ss *SnapSim) (int64, int) {
	var n int64
	for _, s := range ss.srv.Sessions {
		n += s.Conn.BytesC2S
	}
	return n, len(ss.srv.Sessions)
}

// checkpointWritten: did the target execute a write of the snapshot's offset into the resume position?
func (c *c04Run) checkpointWritten(ss *SnapSim) (string, bool) {
	want := strconv.FormatInt(c.cfg.Left, 10)
	for _, e := range ss.srv.Log {
		if e.IsErr || (e.Name != "hset" && e.Name != "hmset") || len(e.Args) < 3 || string(e.Args[0]) != ss.cpName {
			continue
		}
		for i := 1; i+1 < len(e.Args); i += 2 {
			if strings.HasSuffix(string(e.Args[i]), "_offset") && string(e.Args[i+1]) == want {
				return e.String(), true
			}
		}
	}
	return "", false
}

// replay runs one replay with one fault and evaluates the oracle.
func (c *c04Run) replay(f c04Fault) *Violation {
	r := c.r
	ss := c.fork()
	r.Logf("=== C04 sub-evaluation: %s", f)
	crashed := false
	switch f.mode {
	case "truncate":
		ss.feedSrc = ss.rdb[:f.truncAt]
		ss.feedErr = c.eof
		ss.feedEnd = true
	case "bitflip":
		b := append([]byte(nil), ss.rdb...)
		b[f.flipAt] ^= f.mask
		ss.feedSrc = b
		// should the parser ask for more than the file holds, the source has nothing more to give
		ss.feedErr = io.ErrUnexpectedEOF
	case "targeterr":
		ss.errAt, ss.errText = f.errAt, f.errText
	}
	restore := ss.start()
	defer restore()
	if f.mode == "truncate" && f.truncAt == 0 {
		ss.pipe.CloseWith(c.eof)
	}
	rootBefore := int64(-1)
	if c.cfg.Bisync {
		// the state the run loop of a running tool is in: an earlier full sync left a root checkpoint (below this
		// snapshot's offset: the source answered the PSYNC with a new full resync under the same replication id), the
		// output was asked for its start point before the round, and will be asked again on the same object after it
		rootBefore = c.cfg.Left - 1 - c.cfg.Left/2
		ss.srv.SetHash(0, ss.cpName, map[string]string{
			ss.runID + "_runid": ss.runID, ss.runID + "_version": "1", ss.runID + "_offset": strconv.FormatInt(rootBefore, 10),
			ss.runID + "_mtime": strconv.FormatInt(time.Now().UnixNano(), 10)})
		ss.preStart = true
	}
	step := 0
	ss.onStep = func() bool {
		step++
		if step != f.step {
			return false
		}
		switch f.mode {
		case "cancel":
			r.W.Fault("cancel")
			if ss.fed == len(ss.feedSrc) {
				// the window the property names: every snapshot byte handed over, replay still running
				simrt.Probe("cancel-after-last-byte-fed")
				if c.cfg.Parallel > 1 {
					simrt.Probe("cancel-after-last-byte-fed-parallel-workers")
				}
				if len(ss.srv.Ready()) > 0 {
					simrt.Probe("cancel-after-last-byte-fed-requests-pending")
				}
			}
			r.Logf("cancel")
			ss.cancel()
		case "sever":
			r.W.Fault("sever")
			r.Logf("sever all connections")
			for _, s := range ss.srv.Sessions {
				if !s.Dead {
					ss.srv.KillSession(s, 0)
				}
			}
		case "crash":
			r.W.Fault("crash")
			r.Logf("tool stops")
			crashed = true
			r.Net.DialFault = func(string) error { return fmt.Errorf("process gone") }
			ss.cancel()
			ss.pipe.CloseWith(io.ErrClosedPipe)
			for _, s := range ss.srv.Sessions {
				if !s.Dead {
					ss.srv.KillSession(s, 0)
				}
			}
			return true
		}
		r.Settle() // the reaction to the fault completes before the next action is chosen and logged
		return false
	}
	finished := ss.run()
	defer func() { r.Net.DialFault = nil }()
	c.steps = step
	c.requests = ss.srv.Stats.Requests
	if !finished {
		ss.shutdown()
		Inconc("step cap reached in a C04 sub-evaluation (%s)", f)
	}
	done, err := ss.isDone()
	tEnd := time.Now()
	elapsed := tEnd.Sub(ss.t0)
	bytesAtReturn, connsAtReturn := c2sTotal(ss)
	fail := func(rule, sig, format string, a ...any) *Violation {
		v := ss.violation(rule, sig, "["+f.String()+"; "+c.cfg.String()+"] "+format, a...)
		ss.shutdown()
		return v
	}
	if ss.panicked != nil {
		return fail("C04.panic", "a panic escaped Send ("+f.mode+")", "panic: %v", ss.panicked)
	}
	if !done && !crashed {
		return fail("C04.hang", "Send does not return ("+f.mode+")", "fed %d/%d bytes, nothing pending on the target, 60 s of virtual time passed and Send has not returned", ss.fed, len(ss.feedSrc))
	}
	// everything already written to the connections is executed by a real server; then the C03 comparison
	ss.drainPending(10000)
	r.Advance(time.Millisecond)
	ss.quiet = true
	incomplete := ss.payloadCheck()
	if incomplete == nil {
		incomplete = ss.compare(elapsed, tEnd.UnixMilli())
	}
	ss.quiet = false
	// watch the incarnation for 5 more seconds: late writes, late checkpoint
	for i := 0; i < 5; i++ {
		ss.drainPending(10000)
		r.Advance(time.Second)
	}
	ss.drainPending(10000)
	if done && !crashed {
		if b, n := c2sTotal(ss); b != bytesAtReturn || n != connsAtReturn {
			return fail("C04.sends_after_return", "the tool keeps talking to the target after Send returned ("+f.mode+")", "Send returned (err=%v) with %d bytes written on %d connections; 5 s later: %d bytes on %d connections", err, bytesAtReturn, connsAtReturn, b, n)
		}
	}
	cp, written := c.checkpointWritten(ss)
	if incomplete != nil && c.cfg.Bisync && done && !crashed && err != nil && ss.preErr == nil {
		// the run loop's next round, same process, same output object: where does it resume?
		var sp syncer.StartPoint
		var sperr error
		asked := make(chan struct{})
		go func() {
			defer close(asked)
			sp, sperr = ss.ro.StartPoint(context.Background(), []string{ss.runID})
		}()
		for i := 0; i < 2000; i++ {
			r.Settle()
			select {
			case <-asked:
				i = 1 << 30
			default:
				ss.drainPending(100)
				r.Advance(10 * time.Millisecond)
			}
		}
		select {
		case <-asked:
			simrt.Probe("c04_next_round_start_point_asked")
			if sperr == nil && sp.Offset >= c.cfg.Left {
				return fail("C04.recorded", "the next round of the same process resumes behind the snapshot although not every entry was applied ("+f.mode+")",
					"Send returned %v; the target does not hold the snapshot (%s); asked again, the same output object answers start point %d (snapshot offset %d, stored root checkpoint %d, first answer %d): the interrupted replay is treated as a completed full sync", err, cut(incomplete.Rule[4:]+": "+incomplete.Msg, 300), sp.Offset, c.cfg.Left, rootBefore, ss.preSP.Offset)
			}
		default:
			// the target is gone for good (severed): nothing to ask
		}
	}
	if incomplete != nil {
		what := incomplete.Rule[4:] + ": " + incomplete.Msg
		if written {
			return fail("C04.recorded", "resume position advanced to the snapshot's offset although not every entry was applied ("+f.mode+")", "Send returned %v; target executed %s; but the target does not hold the snapshot: %s", err, cp, cut(what, 400))
		}
		if done && !crashed && err == nil {
			return fail("C04.reported_complete", "Send reported success although not every entry was applied ("+f.mode+")", "Send returned nil; the target does not hold the snapshot: %s", cut(what, 400))
		}
		simrt.Probe("incomplete-and-reported")
	} else {
		simrt.Probe("complete-" + map[bool]string{true: "with-error", false: "without-error"}[err != nil])
		// "Damaged input yields an error": a snapshot cut short, or altered in a byte its checksum covers, cannot pass
		// for the snapshot the source sent even when every entry happens to have arrived intact (CRC-64 detects every
		// single-byte alteration; a cut loses at least the end marker or the checksum itself).
		if (f.mode == "bitflip" || f.mode == "truncate") && done && !crashed && err == nil {
			return fail("C04.damaged_accepted", "a damaged snapshot was replayed without an error ("+f.mode+")", "%s: Send returned nil, checkpoint written: %v", f.String(), written)
		}
	}
	ss.shutdown()
	return nil
}

// hugeAllocRisk: would the altered byte read as the 64-bit length marker (0x81) in front of 8 bytes
// that announce between 4 GiB and 2^48 bytes? If that position is a string length, the repository
// allocates the announced size at once and the Go runtime ends the process ("fatal error: runtime: out
// of memory") - a crash that cannot be turned into a verdict, so these few candidates are skipped by
// default on a tree without the repair 'a damaged length field must not make the snapshot reader allocate the
// announced size at once' (SIM_C04_HUGE_ALLOC=0 skips them; they run by default). At 2^48 and above the allocation panics and is recovered.
func hugeAllocRisk(b []byte, i int, mask byte) bool {
	at := func(j int) byte {
		if j == i {
			return b[j] ^ mask
		}
		return b[j]
	}
	// the altered byte may be the marker itself or one of the 8 bytes behind an existing marker
	for m := i - 8; m <= i; m++ {
		if m < 0 || m+8 >= len(b) || at(m) != 0x81 {
			continue
		}
		var n uint64
		for k := 1; k <= 8; k++ {
			n = n<<8 | uint64(at(m+k))
		}
		if n >= 1<<32 && n < 1<<48 {
			return true
		}
	}
	return false
}

func genC04Cfg(g *simrt.Chooser, stratum string) (SnapCfg, rdbgen.GenOpts) {
	var c SnapCfg
	var o rdbgen.GenOpts
	c.TargetVersion = c03TargetVersions[2+g.Choose("targetversion", len(c03TargetVersions)-2)]
	c.Restore = g.Choose("restore", 3) != 0
	c.MaxBulk = []int{512 * 1024 * 1024, 200, 40}[g.Choose("maxbulk", 3)]
	c.Parallel = 1 + g.Choose("parallel", 4)
	c.PipeSize = []int{1, 2, 4, 16, 64}[g.Choose("pipesize", 5)]
	c.BufSize = 16 << g.Choose("bufsize", 13)
	c.Left = int64(1 + g.Choose("left", 1<<20))
	c.Resume = true // the real setCheckpoint writes the resume position to the target
	if stratum == "targeterr" && g.Choose("keyexists", 3) == 0 {
		// the target is empty, so the policy decides nothing about the data — but an error reply must stop the replay
		// under every policy (ignore must not mistake a target error for "key exists")
		c.KeyExists = "ignore"
	}
	c.DBM.TargetDb = -1
	if g.Choose("dbmap", 4) == 0 {
		c.DBM.TargetDb = g.Choose("targetdb", 16)
	}
	if g.Choose("chunk", 4) == 0 {
		c.ChunkAt = 64 << g.Choose("chunkat", 4)
		o.PreferTable = 50
	}
	if g.Choose("bisync", 5) == 0 {
		c.Bisync = true
		c.Parallel = 1 // see C20: unit numbering shared by the workers is not replayable
		c.BisyncMode = []string{"sync", "pipeline", "parallel"}[g.Choose("bisyncmode", 3)]
	}
	o.MaxKeys = 1 + g.Choose("maxkeys", 40)
	if (stratum == "truncate" || stratum == "bitflip") && g.Choose("tiny", 4) != 0 {
		o.MaxKeys = 1 + g.Choose("maxkeystiny", 6) // mostly snapshots of a few hundred bytes: enumerated exhaustively
	}
	o.MaxElems = 1 + g.Choose("maxelems", 12)
	o.MaxElemLen = 8 << g.Choose("maxelemlen", 5) // 8..128 bytes
	o.KeylessOneIn = 2                            // entries without a key (function libraries, lua aux scripts) are entries a fault can hit too
	o.MaxDBs = 3
	o.UniqueAcrossDBs = c.DBM.TargetDb != -1
	o.NoStreams = !verGE(c.TargetVersion, 5, 0)
	// the value types must be loadable by the target: a refused RESTORE is C03's business
	if tv := simredis.RDBVersionOf(c.TargetVersion); tv <= 10 {
		o.MaxVersion = tv
	}
	if stratum == "bitflip" && os.Getenv("SIM_C04_STREAM_FLIPS") == "0" {
		// An altered byte inside a stream's listpack can make the repository's stream expansion
		// (rdb.StreamParser.ExecCmd over types.Listpack.Next, which does not advance on an unknown
		// encoding byte such as the 0xFF terminator) loop for ever or append without bound: a goroutine
		// that spins inside the bubble cannot be interrupted by virtual time, the worker process would be
		// killed by the real-time watchdog (exit 2) instead of producing verdicts. Streams are therefore
		// part of the byte-alteration stratum now that the repository fails on such input (fix: 'a damaged stream listpack
		// must fail the replay'); SIM_C04_STREAM_FLIPS=0 leaves them out (needed to run this check against a tree
		// without that repair: there the worker is killed by the real-time watchdog).
		o.NoStreams = true
	}
	return c, o
}

func runC04(r *Run, stratum string) *Violation {
	g := r.Gen()
	cfg, o := genC04Cfg(g, stratum)
	o.NowMs = time.Now().UnixMilli()
	ds := rdbgen.Gen(g, o)
	ds.Checksum = true
	var proto *SnapSim
	for {
		proto = NewSnapSim(r, "C04", cfg, ds)
		if len(proto.rdb) <= 8192 || len(ds.Keys) <= 1 {
			break
		}
		ds.Keys = ds.Keys[:len(ds.Keys)*2/3]
	}
	c := &c04Run{r: r, cfg: cfg, ds: ds, proto: proto}
	if g.Choose("eofkind", 2) == 1 {
		c.eof = io.ErrUnexpectedEOF
	}
	n := len(proto.rdb)
	r.Sample = fmt.Sprintf("mode=%s cfg{%s} snapshot{%d bytes; %s}", stratum, cfg, n, ds.Summary(8))
	r.Logf("C04 %s cfg %s rdb=%d bytes crc=%x keys=%d", stratum, cfg, n, proto.info.CRC, len(ds.Keys))

	// reference replay without fault under the seeded schedule; its schedule is recorded
	base := r.Sched()
	r.Evals = 1
	if v := c.replay(c04Fault{mode: "none"}); v != nil {
		if v.Rule == "C04.recorded" || v.Rule == "C04.reported_complete" {
			// without any fault the replay does not reproduce the snapshot: that is C03/C20's verdict, and
			// no baseline for this property
			Inconc("fault-free replay does not reproduce the snapshot (%s)", cut(v.Msg, 200))
		}
		return v
	}
	recorded := base.Values()
	steps, requests := c.steps, c.requests
	r.NonTriv = len(ds.Keys) >= 1
	sub := func(f c04Fault, recordedSchedule bool) *Violation {
		if recordedSchedule {
			r.SetSched(simrt.NewReplayChooser(recorded))
		} else {
			r.SetSched(simrt.NewReplayChooser(nil))
		}
		c.greedy = !recordedSchedule // execute what is pending (in bursts), else feed everything
		r.ResetSteps()
		r.Evals++
		v := c.replay(f)
		r.SetSched(nil)
		return v
	}
	grid := func(total, max int, extra []int) []int {
		set := map[int]bool{}
		if total <= max {
			for i := 0; i < total; i++ {
				set[i] = true
			}
		} else {
			for i := 0; i < max; i++ {
				set[i*total/max] = true
			}
			for _, x := range extra {
				for d := -1; d <= 1; d++ {
					if x+d >= 0 && x+d < total {
						set[x+d] = true
					}
				}
			}
		}
		out := make([]int, 0, len(set))
		for i := range set {
			out = append(out, i)
		}
		sort.Ints(out)
		return out
	}
	var bounds []int
	for _, ki := range proto.info.Keys {
		bounds = append(bounds, ki.Start, ki.End)
	}
	bounds = append(bounds, n-9, n-8, n-1)

	// exhaustive up to `full` positions, a grid (plus record boundaries) above. thorough tier: the sizes the
	// design names (every position of snapshots <= 2 KiB, all three masks); quick tier: what fits ~1500 replays.
	full, budget := 1500, 1500
	if r.Tier == "thorough" {
		full, budget = 2048, 3*2048
	}
	switch stratum {
	case "truncate":
		for _, L := range grid(n, full, bounds) {
			if v := sub(c04Fault{mode: "truncate", truncAt: L}, false); v != nil {
				return v
			}
		}
	case "bitflip":
		masks := []byte{0x01, 0x80, 0xff}
		covered := n - 8 // the footer is the checksum itself; everything before it is covered
		pos := grid(covered, full, bounds)
		if mi := g.Choose("mask", 3); len(pos)*3 > budget {
			masks = masks[mi:][:1] // one drawn mask over every position
		}
		for _, m := range masks {
			for _, i := range pos {
				if i >= covered {
					continue
				}
				if hugeAllocRisk(proto.rdb, i, m) && os.Getenv("SIM_C04_HUGE_ALLOC") == "0" {
					simrt.Probe("skipped-huge-allocation-candidate")
					continue
				}
				if v := sub(c04Fault{mode: "bitflip", flipAt: i, mask: m}, false); v != nil {
					return v
				}
			}
		}
	case "targeterr":
		texts := []string{"ERR injected", "OOM command not allowed when used memory > 'maxmemory'.", "LOADING Redis is loading the dataset in memory", "READONLY You can't write against a read only replica.",
			"BUSY Redis is busy running a script. You can only call SCRIPT KILL or SHUTDOWN NOSAVE.", "MISCONF Redis is configured to save RDB snapshots, but it's currently unable to persist to disk.", "NOAUTH Authentication required."}
		text := texts[g.Choose("errtext", len(texts))]
		for _, k := range grid(requests+1, 400, nil) {
			if v := sub(c04Fault{mode: "targeterr", errAt: k + 1, errText: text}, true); v != nil {
				return v
			}
		}
	case "cancel", "sever", "crash":
		for _, s := range grid(steps+1, 400, nil) {
			if v := sub(c04Fault{mode: stratum, step: s + 1}, true); v != nil {
				return v
			}
		}
	}
	return nil
}
