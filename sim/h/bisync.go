package h

import (
	"fmt"
	"os"
	"strconv"
	"strings"
	"time"

	"verifsim/simrt"
)

// Bidirectional replay under crash/restart (C14): replay units, committed-prefix oracle. DESIGN.md §3 C14.

type bisyncUnit struct {
	first, n int   // range in the expected list
	endOff   int64 // source offset that ends the unit
	startOff int64
	txn      bool
}

// unitsOf derives the replay units the documented bisync rules produce: one unit per source transaction
// (its surviving commands), one per stand-alone business command; bookkeeping items produce none.
func unitsOf(st *Stream, expected []Expected) []bisyncUnit {
	var us []bisyncUnit
	for i := 0; i < len(expected); {
		e := expected[i]
		if e.Txn == 0 {
			us = append(us, bisyncUnit{first: i, n: 1, endOff: st.Items[e.Src].End})
			i++
			continue
		}
		j := i
		for j < len(expected) && expected[j].Txn == e.Txn {
			j++
		}
		// the unit ends at the EXEC of that transaction
		end := int64(0)
		for _, it := range st.Items {
			if it.Kind == KExec && it.Txn == e.Txn {
				end = it.End
			}
		}
		us = append(us, bisyncUnit{first: i, n: j - i, endOff: end, txn: true})
		i = j
	}
	return us
}

type bisyncOracle struct {
	ps        *PipeSim
	expected  []Expected
	units     []bisyncUnit
	unitOfExp []int
	committed []bool
	ncommit   []int // how many times each unit was committed
	p         int   // next expected index
	checked   int
	seenInc   int
	lastStart int64
	logPos    int
	blockHas  map[int]*blockInfo
	curBlock  int
	curIdx    []int
	root      int64
}

type blockInfo struct{ marker, record bool }

func newBisyncOracle(ps *PipeSim) *bisyncOracle {
	o := &bisyncOracle{ps: ps, blockHas: map[int]*blockInfo{}, lastStart: -1}
	o.expected = Reference(ps.st, 0, ps.cfg.DBM, ps.cfg.Filters)
	o.units = unitsOf(ps.st, o.expected)
	o.unitOfExp = make([]int, len(o.expected))
	for ui, u := range o.units {
		for k := 0; k < u.n; k++ {
			o.unitOfExp[u.first+k] = ui
		}
	}
	o.committed = make([]bool, len(o.units))
	o.ncommit = make([]int, len(o.units))
	o.root = ps.st.Base
	return o
}

// contiguous returns the index of the last unit of the contiguous committed prefix (-1 if none).
func (o *bisyncOracle) contiguous() int {
	c := -1
	for i, ok := range o.committed {
		if !ok {
			break
		}
		c = i
	}
	return c
}

func (o *bisyncOracle) lastCommitted() int {
	l := -1
	for i, ok := range o.committed {
		if ok {
			l = i
		}
	}
	return l
}

func (o *bisyncOracle) onRestart(in *incarnation) {
	ps := o.ps
	off := in.startOff
	c := o.contiguous()
	sync := ps.cfg.Mode == "sync"
	ok := off == o.root
	ui := -1
	for i, u := range o.units {
		if u.endOff == off {
			ui = i
		}
	}
	if ui >= 0 && ui <= c {
		ok = true
	}
	desc := fmt.Sprintf("incarnation %d resumes at offset %d (mode %s; committed prefix ends with unit %d", in.id, off, ps.cfg.Mode, c)
	if c >= 0 {
		desc += fmt.Sprintf(" @%d", o.units[c].endOff)
	}
	desc += fmt.Sprintf(", last committed unit %d)", o.lastCommitted())
	switch {
	case !ok && ui > c:
		ps.setViolation("C14.skip", "resume point lies beyond a unit the target never committed", "%s: unit %d is not committed", desc, c+1)
	case !ok && ui < 0:
		if c >= 0 && off > o.units[c].endOff {
			ps.setViolation("C14.skip", "resume point lies beyond a unit the target never committed", "%s: that is past the committed prefix", desc)
		} else {
			ps.setViolation("C14.boundary", "resume point does not end a committed replay unit", "%s: the offset ends no replay unit", desc)
		}
	}
	if in.id > 1 && sync && c >= 0 && off < o.units[c].endOff {
		ps.setViolation("C14.repeat", "sync mode resumes before the last committed unit", "%s: units after that offset were committed and will be applied twice", desc)
	}
	if in.id > 1 && off < o.lastStart {
		ps.setViolation("C14.backwards", "resume point moved backwards between restarts", "%s: the previous start was at %d", desc, o.lastStart)
	}
	o.lastStart = off
	// next expected command: first unit ending after off
	o.p = len(o.expected)
	for _, u := range o.units {
		if u.endOff > off {
			o.p = u.first
			break
		}
	}
	o.curBlock, o.curIdx = 0, nil
}

func (o *bisyncOracle) closeBlock() {
	if o.curBlock == 0 {
		return
	}
	ps := o.ps
	idx := o.curIdx
	blk := o.curBlock
	o.curBlock, o.curIdx = 0, nil
	if len(idx) == 0 {
		return
	}
	u := o.units[o.unitOfExp[idx[0]]]
	whole := len(idx) == u.n && idx[0] == u.first
	for k, i := range idx {
		if i != idx[0]+k {
			whole = false
		}
	}
	if !whole {
		ps.setViolation("C14.unit_split", "a target transaction holds only part of a replay unit (or more than one)", "target transaction %d executed expected commands %v, but unit %d is commands %d..%d", blk, idx, o.unitOfExp[idx[0]], u.first, u.first+u.n-1)
		return
	}
	bi := o.blockHas[blk]
	if bi == nil || !bi.record {
		ps.setViolation("C14.no_record", "unit committed without its recovery record in the same transaction", "target transaction %d executed unit %d without writing a recovery record (latest/commit) in the same MULTI/EXEC", blk, o.unitOfExp[idx[0]])
		return
	}
	ui := o.unitOfExp[idx[0]]
	o.committed[ui] = true
	o.ncommit[ui]++
	if ps.cfg.Mode == "sync" && o.ncommit[ui] > 1 {
		ps.setViolation("C14.applied_twice", "sync mode applied a unit twice", "unit %d (source offset %d) was committed %d times", ui, u.endOff, o.ncommit[ui])
	}
}

func (o *bisyncOracle) observe() {
	ps := o.ps
	// bookkeeping writes per block
	for ; o.logPos < len(ps.srv.Log); o.logPos++ {
		e := ps.srv.Log[o.logPos]
		if e.Txn == 0 || len(e.Args) == 0 {
			continue
		}
		k := string(e.Args[0])
		bi := o.blockHas[e.Txn]
		if bi == nil {
			bi = &blockInfo{}
			o.blockHas[e.Txn] = bi
		}
		if e.Name == "set" && strings.Contains(k, ":marker:{") {
			bi.marker = true
		}
		if e.Name == "hset" && (strings.Contains(k, ":latest:{") || strings.Contains(k, ":commit:{")) {
			bi.record = true
		}
	}
	for o.seenInc < len(ps.incs) {
		in := ps.incs[o.seenInc]
		if in.getPhase() == 0 {
			break
		}
		o.closeBlock()
		if in.spErr == nil {
			o.onRestart(in)
		}
		o.seenInc++
	}
	for ; o.checked < len(ps.biz); o.checked++ {
		b := ps.biz[o.checked]
		if b.Txn == 0 {
			ps.setViolation("C14.outside_txn", "business command executed outside a transaction", "[%s] executed outside MULTI/EXEC in bidirectional mode", fmtCmd(b.Name, b.Args))
			continue
		}
		if b.Txn != o.curBlock {
			o.closeBlock()
			o.curBlock = b.Txn
		}
		if o.p >= len(o.expected) {
			ps.setViolation("C14.invented", "target executed more than the stream contains", "target executed [%s] beyond the expected sequence", fmtCmd(b.Name, b.Args))
			continue
		}
		e := o.expected[o.p]
		if b.Name != e.Name || !argsEqual(b.Args, e.Args) {
			ps.setViolation("C14.sequence", "executed sequence is not the source sequence", "incarnation %d: target executed [%s], expected #%d [%s]", b.Tag, fmtCmd(b.Name, b.Args), o.p, fmtCmd(e.Name, e.Args))
			continue
		}
		o.curIdx = append(o.curIdx, o.p)
		o.p++
	}
	o.closeBlock()
}

func (ps *PipeSim) plantRootCheckpoint(off int64) {
	ps.srv.SetHash(0, ps.cpName, map[string]string{
		ps.runID + "_runid":   ps.runID,
		ps.runID + "_version": "1",
		ps.runID + "_offset":  strconv.FormatInt(off, 10),
		ps.runID + "_mtime":   strconv.FormatInt(time.Now().UnixNano(), 10),
	})
}

func runBisyncSim(r *Run, prop string, cfg PipeCfg, st *Stream, maxCrashes int, crashAt int) (*PipeSim, *bisyncOracle) {
	ps := NewPipeSim(r, prop, cfg, st)
	ps.cpName = "redis-gunyu-checkpoint-bisync:5a5a5a5a5a5a5a5a5a5a5a5a"
	ps.plantRootCheckpoint(st.Base) // state after a completed full sync at the stream's base offset
	o := newBisyncOracle(ps)
	crashes := 0
	ps.startIncarnation()
	forced := false
	idleRestarts := 0
	resyncs := 0
	failovers := 0
	ooms := 0
	restartSoon := false
	allowFailover := os.Getenv("SIM_C14_NOFAILOVER") != "1"
	for r.BeginStep() {
		r.Settle()
		ps.absorb()
		o.observe()
		if ps.viol != nil {
			break
		}
		in := ps.inc
		ph := in.getPhase()
		if ph == 2 {
			if (in.spErr != nil && !in.wasReset && !in.refused) || crashes > maxCrashes+3 {
				ps.setViolation(prop+".ended", "replay ended although nothing failed", "incarnation %d ended: spErr=%v sendErr=%v", in.id, in.spErr, in.sendErr)
				break
			}
			if !in.refused {
				crashes++
			}
			ps.killAll(in.id)
			ps.startIncarnation()
			continue
		}
		if crashAt >= 0 && !forced && ps.srv.Stats.Requests >= crashAt {
			forced = true
			crashes++
			ps.crash(r.Sched(), fmt.Sprintf("enumerated prefix %d", crashAt))
			o.observe()
			ps.startIncarnation()
			continue
		}
		if ph == 1 && ps.oomLeft > 0 {
			ps.oomLeft = 0 // the start is over: memory is back before the replay begins
		}
		if ph == 1 && restartSoon {
			// ... and the link is stopped and started again right away, with no traffic in between: whatever the start
			// under memory pressure left behind is what this start finds
			restartSoon = false
			r.W.Fault("graceful_restart")
			r.Logf("GRACEFUL restart of incarnation %d right after its start", ps.inc.id)
			ps.shutdown()
			o.observe()
			ps.startIncarnation()
			continue
		}
		ready := ps.srv.Ready()
		allCommitted := true
		for _, c := range o.committed {
			allCommitted = allCommitted && c
		}
		if ph == 1 && ps.remaining() == 0 && len(ready) == 0 && (!in.wasReset || allCommitted) {
			break
		}
		// (an incarnation whose connections the target dropped has not finished: it notices at its next read or write,
		// ends with an error and is restarted above, on the same output object)
		acts := ps.healthyActions(true)
		if crashAt < 0 && crashes < maxCrashes {
			w := 1
			if len(ready) > 0 {
				w = 3
			}
			if ph == 1 && len(ready) > 0 {
				acts = append(acts, pipeAction{"target-reset", 4, func() {
					// the target drops the link's connections (a drawn prefix of the requests already written still executes,
					// the replies are lost) and stays reachable: nothing stops the tool, it notices by itself. In sync mode a unit
					// whose EXEC was executed and whose reply was lost is committed - whatever the link does next, it must not
					// apply it again
					crashes++
					ps.targetReset(r.Sched())
					o.observe()
				}})
			}
			acts = append(acts, pipeAction{"crash", w, func() {
				crashes++
				ps.crash(r.Sched(), "scheduled")
				o.observe()
				ps.startIncarnation()
			}})
			acts = append(acts, pipeAction{"conn-loss", 2, func() {
				crashes++
				ps.connLoss(r.Sched())
				o.observe()
				ps.startIncarnation()
			}})
			if ph == 1 && ooms < 1 {
				// the link is stopped and started again while the target is out of memory (maxmemory, noeviction): during
				// the start-up recovery the next few commands that may grow the dataset are refused, deletions are served.
				// A recovery that cannot store what it rebuilt fails and is tried again; it must not have thrown away what
				// it rebuilt from
				acts = append(acts, pipeAction{"restart-target-oom", 2, func() {
					ooms++
					crashes++
					r.W.Fault("target_oom_at_start")
					ps.crash(r.Sched(), "scheduled, target out of memory at the next start")
					o.observe()
					ps.oomLeft = 1 + r.Sched().Choose("oom_requests", 3)
					restartSoon = r.Sched().Choose("restart_right_after", 2) == 1
					ps.startIncarnation()
				}})
			}
			if ph == 1 && resyncs < 1 && len(o.units) >= 4 {
				// a full resynchronisation under the same replication id: the link is stopped, a snapshot taken at a later
				// source offset R is loaded (everything up to R is on the target now) and the root checkpoint moves to R.
				// The recovery records of the incremental phase before it stay where they are (stale); the unit numbering of
				// the link starts again. From here on the resume point is R or a unit committed behind it.
				acts = append(acts, pipeAction{"full-resync", 6, func() {
					resyncs++
					crashes++
					r.W.Fault("full_resync")
					ps.shutdown()
					o.observe()
					c := o.contiguous()
					if lc := o.lastCommitted(); lc > c {
						c = lc
					}
					if c >= len(o.units)-2 {
						ps.startIncarnation()
						return
					}
					j := c + 1 + r.Sched().Choose("resync_to", len(o.units)-2-c)
					for i := 0; i <= j; i++ {
						o.committed[i] = true
					}
					o.root = o.units[j].endOff
					ps.plantRootCheckpoint(o.root)
					r.Logf("FULL RESYNC: root checkpoint moved to %d (end of unit %d)", o.root, j)
					ps.startIncarnation()
				}})
			}
			if ph == 1 && failovers < 1 && allowFailover {
				// the source fails over and answers the reconnect with +CONTINUE: one offset space, a new replication id, the
				// previous one second. The link is stopped; the next start moves the bookkeeping to the new id (the real
				// UpdateCheckpoint, as every process start runs it) and goes on where the old id had got to - the recovery
				// records written so far carry the old id, the ones to come the new one
				fw := 3
				if ps.cfg.FailoverBias > 0 {
					fw = ps.cfg.FailoverBias
				}
				acts = append(acts, pipeAction{"failover-continue", fw, func() {
					failovers++
					crashes++
					r.W.Fault("source_failover_continue")
					ps.shutdown()
					o.observe()
					ps.prevID, ps.runID = ps.runID, "9e8d7c6b5a4f3e2d1c0b9a8f7e6d5c4b3a2f1e0d"
					ps.forcePath = true
					r.Logf("SOURCE FAILOVER (+CONTINUE): replication id %s -> %s", ps.prevID[:6], ps.runID[:6])
					ps.startIncarnation()
				}})
			}
			// graceful stop + start with no traffic in between
			if ph == 1 && idleRestarts < 2 {
				acts = append(acts, pipeAction{"stop-start", 1, func() {
					idleRestarts++
					r.W.Fault("graceful_restart")
					r.Logf("GRACEFUL restart of incarnation %d", ps.inc.id)
					ps.shutdown()
					o.observe()
					ps.startIncarnation()
				}})
			}
		}
		a := ps.pick(acts)
		r.Logf("step %d: %s", r.W.Step(), a.label)
		a.do()
	}
	if ps.viol == nil {
		done := func() bool {
			if ps.viol != nil {
				return true
			}
			for _, c := range o.committed {
				if !c {
					return false
				}
			}
			return true
		}
		ps.drain(20, func() { o.observe() }, done)
		r.Settle()
		ps.absorb()
		o.observe()
		if ps.viol == nil && !done() {
			miss := o.contiguous() + 1
			ps.setViolation("C14.dropped", "units missing after the last restart and drain", "after all restarts and a drain unit %d (ends at %d) was never committed", miss, o.units[miss].endOff)
		}
	}
	ps.shutdown()
	return ps, o
}

func init() {
	Register(&PropertyDef{ID: "C14", Strata: []string{"sync", "pipeline", "parallel", "sync-enum", "pipeline-enum", "parallel-enum", "cluster-parallel", "cluster-pipeline", "cluster-sync", "cluster-parallel-b", "modeswitch"}, Run: runC14, StepCap: 30000})
}

func bisyncCfg(g *simrt.Chooser, mode string) PipeCfg {
	cfg := GenPipeCfg(g, 1, 1)
	cfg.Bisync = true
	cfg.Mode = mode
	cfg.Parallelism = 1 + g.Choose("parallelism", 4)
	cfg.DBM = DBMap{TargetDb: -1}
	return cfg
}

func runC14(r *Run, stratum string) *Violation {
	if strings.HasPrefix(stratum, "cluster-") {
		return runC14Cluster(r, stratum)
	}
	if stratum == "modeswitch" {
		return runModeSwitch(r, "C14")
	}
	g := r.Gen()
	mode := splitDash(stratum)[0]
	cfg := bisyncCfg(g, mode)
	max := 25
	if r.Tier == "thorough" {
		max = 120
	}
	enum := hasWord(stratum, "enum")
	if enum {
		max = 10
		if r.Tier == "thorough" {
			max = 20
		}
	}
	o := StreamOpts{MaxItems: max, StartDB: 0, NoUnknown: true, OnlyDB0: true, TxnHeavy: g.Choose("txnheavy", 2) == 0}
	st := GenStream(g, o)
	r.Sample = fmt.Sprintf("cfg{%s} stream{%s}", cfg, describeStream(st, 10))
	maxCrashes := 1 + g.Choose("ncrashes", 4)
	if !enum {
		ps, orc := runBisyncSim(r, "C14", cfg, st, maxCrashes, -1)
		r.NonTriv = (r.W.Faults["crash"] > 0 || r.W.Faults["graceful_restart"] > 0) && len(orc.units) >= 2
		r.Evals = 1
		return ps.viol
	}
	base := r.Sched()
	ps0, _ := runBisyncSim(r, "C14", cfg, st, 0, -1)
	if ps0.viol != nil {
		return ps0.viol
	}
	n := ps0.srv.Stats.Requests
	recorded := base.Values()
	if n > 90 {
		n = 90
	}
	r.Evals = 1
	for k := 0; k <= n; k++ {
		r.SetSched(simrt.NewReplayChooser(recorded))
		r.ResetSteps()
		r.Logf("=== enumerated crash after %d target requests", k)
		ps, orc := runBisyncSim(r, "C14", cfg, st, 1, k)
		r.Evals++
		if len(orc.units) >= 2 {
			r.NonTriv = true
		}
		if ps.viol != nil {
			r.SetSched(nil)
			return ps.viol
		}
	}
	r.SetSched(nil)
	return nil
}
