package h

import (
	"context"
	"fmt"
	"strings"
	"time"

	"github.com/mgtv-tech/redis-GunYu/syncer"

	"verifsim/simredis"
)

// C06, stratum real-switch: what the output stub of the other strata models about a change of the replication id,
// asked of the REAL RedisOutput against the target double. The input tells the output the id of every psync reply:
// after +CONTINUE (fail-over, the new id continues the old one) the stored position moves to the new id and the next
// start finds it there; after +FULLRESYNC the new history starts with a snapshot, and until that snapshot is replayed
// the next start under the new id must find NO position - a position found there is the old history's offset, and the
// input continues the new stream from it (rule C06.carried_position of the other strata, seen there through the stub).
func runC06RealSwitch(r *Run, stratum string) *Violation {
	g := r.Gen()
	c := &c17sim{r: r}
	c.srv = simredis.NewServer(simTargetAddr)
	r.Net.Listen(simTargetAddr, c.srv)
	now := time.Now()
	oldID := "1" + hexID(g.Bytes("oldid", 20))[1:]
	newID := "2" + hexID(g.Bytes("newid", 20))[1:]
	local := "redis-gunyu-checkpoint"
	ndb := 1 + g.Choose("ndb", 4)
	for db := 0; db < ndb; db++ {
		c.srv.SetString(db, fmt.Sprintf("biz%d", db), "v")
	}
	good := int64(1000 + g.Choose("good", 100000))
	holder := g.Choose("holder", ndb)
	c.plantCheckpoint(holder, local, oldID, good, now.Add(-time.Duration(g.Choose("age", 3600))*time.Second))
	c.plantIndex(oldID, local)
	full := g.Choose("fullresync", 2) == 0
	// output.replay.resumeFromBreakPoint=false: the position lives in the output object, which the input keeps for
	// every round of one process; a full resync must not re-label it either
	inMem := g.Choose("inmem", 3) == 0
	cfgOut := PipeCfg{Resume: !inMem, DBM: DBMap{TargetDb: -1}, BatchCount: 10, BatchBytes: 1024, BatchTicker: time.Second, Keepalive: time.Second, CpTicker: time.Second}.outputConfig(oldID, local)
	r.Sample = fmt.Sprintf("real-switch old=%s.. new=%s.. fullresync=%v inmem=%v position %d in db %d of %d", oldID[:6], newID[:6], full, inMem, good, holder, ndb)
	r.NonTriv = true
	ro := syncer.NewRedisOutput(cfgOut)
	var out syncer.Output = ro
	if inMem {
		if _, err := c.runOp("in-memory position", func(ctx context.Context) error { return syncer.VerifSetCheckpoint(ctx, ro, oldID, good) }, -1); err != nil {
			Inconc("setCheckpoint: %v", err)
		}
	}
	_, err := c.runOp("switch", func(ctx context.Context) error {
		if full {
			// what RedisInput.syncMeta calls after +FULLRESYNC (a tree without that method calls SetRunId there)
			if rr, ok := out.(interface {
				ResetRunId(context.Context, string) error
			}); ok {
				return rr.ResetRunId(ctx, newID)
			}
		}
		return out.SetRunId(ctx, newID)
	}, -1)
	if err != nil {
		Inconc("the id switch failed on a healthy target: %v", err)
	}
	// the next start as the tool makes it: the new source reports [newID, previous id or none]
	ids := []string{newID, oldID}
	if full {
		ids = []string{newID, strings.Repeat("0", 40)}
	}
	var sp syncer.StartPoint
	_, err = c.runOp("start-point", func(ctx context.Context) error {
		var e error
		if inMem {
			sp, e = ro.StartPoint(ctx, ids)
			return e
		}
		sp, e = syncer.NewRedisOutput(PipeCfg{Resume: true, DBM: DBMap{TargetDb: -1}, BatchCount: 10, BatchBytes: 1024, BatchTicker: time.Second, Keepalive: time.Second, CpTicker: time.Second}.outputConfig(newID, local)).StartPoint(ctx, ids)
		return e
	}, -1)
	if err != nil {
		Inconc("StartPoint failed on a healthy target: %v", err)
	}
	switch {
	case full && sp.RunId == newID && sp.Offset >= 0:
		return &Violation{Property: "C06", Rule: "C06.carried_position", Sig: "stream continued from a position carried over from another replication history",
			Msg: fmt.Sprintf("the source answered FULLRESYNC under the new id %s..; before any snapshot was replayed the next start under that id finds position %d - the offset the target holds of history %s..; state: %s", newID[:6], sp.Offset, oldID[:6], describeKeyspace(c.srv))}
	case !full && inMem:
		// the in-memory position keeps its id; the input compares it with both ids the source reports
		if sp.Offset != good || (sp.RunId != newID && sp.RunId != oldID) {
			return &Violation{Property: "C06", Rule: "C06.position_not_moved", Sig: "after a granted continuation under a new id the stored position is not found under it",
				Msg: fmt.Sprintf("in-memory position: the source granted the continuation under the new id %s..; the next round finds %s..@%d, the output held %d of %s..", newID[:6], shortID(sp.RunId), sp.Offset, good, oldID[:6])}
		}
	case !full && (sp.RunId != newID || sp.Offset != good):
		return &Violation{Property: "C06", Rule: "C06.position_not_moved", Sig: "after a granted continuation under a new id the stored position is not found under it",
			Msg: fmt.Sprintf("the source granted the continuation under the new id %s..; the next start finds %s..@%d, the target holds %d of %s..; state: %s", newID[:6], shortID(sp.RunId), sp.Offset, good, oldID[:6], describeKeyspace(c.srv))}
	}
	return nil
}
