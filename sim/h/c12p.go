package h

import (
	"bufio"
	"fmt"
	"io"

	"github.com/mgtv-tech/redis-GunYu/syncer"

	"verifsim/simrt"
)

// C12, clause "the offset the tool associates with the end of a command": the two stream parsers of the output
// (parseAofCommand for plain replay, parseAofReplayUnits for bidirectional replay; unexported, reached through an
// injected accessor) are run over a generated stream read through a drawn bufio size and read fragmentation. Every
// command they emit must carry the offset at which ITS source command ends (start offset + bytes up to and including
// it); a replay unit built from a source transaction ends where its EXEC ends.
func runC12Parsers(r *Run) *Violation {
	g, sc := r.Gen(), r.Sched()
	bis := g.Choose("bisync", 2) == 1
	o := StreamOpts{MaxItems: 30, StartDB: -1, BigArgs: g.Choose("bigargs", 3) == 0, TxnHeavy: g.Choose("txnheavy", 2) == 0}
	if r.Tier == "thorough" {
		o.MaxItems = 120
	}
	var cfg PipeCfg
	if bis {
		o.StartDB, o.NoUnknown, o.OnlyDB0 = 0, true, true
		cfg = bisyncCfg(g, "sync")
	} else {
		cfg = GenPipeCfg(g, 1, 1)
		cfg.Filters = nil
	}
	st := GenStream(g, o)
	bufSize := c12BufSize(g)
	next, desc := c12Fragmenter(sc, len(st.Bytes))
	fr := &fragReader{data: st.Bytes, next: next}
	rd := bufio.NewReaderSize(fr, bufSize)
	ro := syncer.NewRedisOutput(cfg.outputConfig("5f3c0a9e1b2d4c6f8a7b9c0d1e2f3a4b5c6d7e8f", "redis-gunyu-checkpoint-sim"))
	expected := Reference(st, 0, cfg.DBM, nil)
	r.Sample = fmt.Sprintf("parsers bisync=%v items=%d bytes=%d bufio=%d fragments %s first: %s", bis, len(st.Items), len(st.Bytes), bufSize, desc, describeStream(st, 6))
	r.NonTriv = len(expected) >= 2
	ctx := fmt.Sprintf("stream base %d, fragments %s, bufio %d", st.Base, desc, bufSize)
	p := 0 // next expected business command
	match := func(c syncer.VerifCmd) (int, *Violation) {
		if p >= len(expected) {
			return -1, c12Viol("C12.parser_invented", "a parser emitted a command the stream does not contain", "%s: parser emitted [%s] beyond the expected sequence", ctx, fmtCmd(c.Cmd, c.Args))
		}
		e := expected[p]
		if c.Cmd != e.Name || !argsEqual(c.Args, e.Args) {
			return -1, c12Viol("C12.parser_args", "a parser emitted a command that differs from the source command", "%s: parser emitted [%s], the next source command is #%d [%s]", ctx, fmtCmd(c.Cmd, c.Args), e.Src, fmtCmd(e.Name, e.Args))
		}
		p++
		return e.Src, nil
	}
	if !bis {
		cmds, err := syncer.VerifParseAofCommand(ro, rd, st.Base)
		if err != nil && err != io.EOF && !isEOFish(err) {
			return c12Viol("C12.decode_error", "well-formed item rejected", "%s: parseAofCommand ended with %v", ctx, err)
		}
		prevOff := st.Base
		for _, c := range cmds {
			// every emitted item is labelled with the end of the source command it stands for: labels never decrease
			if c.Offset < prevOff {
				return c12Viol("C12.parser_offset", "offsets attached to emitted commands decrease", "%s: [%s] carries offset %d, the item emitted before it carried %d", ctx, fmtCmd(c.Cmd, c.Args), c.Offset, prevOff)
			}
			prevOff = c.Offset
			switch c.Cmd {
			case "select", "ping", "multi", "exec":
				idx, ok := st.ItemEndingAt(c.Offset)
				if !ok {
					return c12Viol("C12.parser_offset", "offset attached to an emitted command is not the end of its source command", "%s: [%s] carries offset %d, which ends no source command", ctx, fmtCmd(c.Cmd, c.Args), c.Offset)
				}
				want := map[string]ItemKind{"select": KSelect, "ping": KPing, "multi": KMulti, "exec": KExec}[c.Cmd]
				if idx < 0 || st.Items[idx].Kind != want {
					what := "the start of the stream"
					if idx >= 0 {
						what = "the end of [" + fmtCmd(st.Items[idx].Name, st.Items[idx].Args) + "]"
					}
					return c12Viol("C12.parser_offset", "offset attached to an emitted command is not the end of its source command", "%s: emitted [%s] carries offset %d, which is %s, not the end of a source %s", ctx, fmtCmd(c.Cmd, c.Args), c.Offset, what, c.Cmd)
				}
				continue
			}
			src, v := match(c)
			if v != nil {
				return v
			}
			if want := st.Items[src].End; c.Offset != want {
				return c12Viol("C12.parser_offset", "offset attached to an emitted command is not the end of its source command", "%s: [%s] (source item %d, bytes [%d,%d)) carries offset %d, its source command ends at %d", ctx, fmtCmd(c.Cmd, c.Args), src, st.Items[src].Start, st.Items[src].End, c.Offset, want)
			}
			r.Evals++
		}
	} else {
		units, err := syncer.VerifParseAofReplayUnits(ro, rd, st.Base)
		if err != nil && err != io.EOF && !isEOFish(err) {
			return c12Viol("C12.decode_error", "well-formed item rejected", "%s: parseAofReplayUnits ended with %v", ctx, err)
		}
		for ui, u := range units {
			last := -1
			for _, c := range u.Cmds {
				src, v := match(c)
				if v != nil {
					return v
				}
				if want := st.Items[src].End; c.Offset != want {
					return c12Viol("C12.parser_offset", "offset attached to an emitted command is not the end of its source command", "%s: unit %d: [%s] (source item %d) carries offset %d, its source command ends at %d", ctx, ui, fmtCmd(c.Cmd, c.Args), src, c.Offset, want)
				}
				last = src
			}
			if last < 0 {
				continue
			}
			end := st.Items[last].End
			if t := st.Items[last].Txn; t != 0 { // the unit of a source transaction ends where its EXEC ends
				for j := last + 1; j < len(st.Items); j++ {
					if st.Items[j].Txn == t && st.Items[j].Kind == KExec {
						end = st.Items[j].End
						break
					}
				}
			}
			if u.End != end {
				return c12Viol("C12.unit_offset", "end offset of a replay unit is not the end of its last source command", "%s: unit %d (%d commands, source transaction: %v, last source item %d) ends at %d, its last source command (the EXEC for a transaction) ends at %d", ctx, ui, len(u.Cmds), u.SourceTxn, last, u.End, end)
			}
			if u.Start < st.Base || u.Start > st.Items[last].Start {
				return c12Viol("C12.unit_offset", "start offset of a replay unit lies behind its first command", "%s: unit %d starts at %d, its last source item starts at %d", ctx, ui, u.Start, st.Items[last].Start)
			}
			r.Evals++
		}
	}
	if p != len(expected) {
		e := expected[p]
		return c12Viol("C12.parser_dropped", "a parser did not emit a source command", "%s: source command #%d [%s] was never emitted (%d of %d emitted)", ctx, e.Src, fmtCmd(e.Name, e.Args), p, len(expected))
	}
	simrt.Probe("c12_parsers_run")
	return nil
}
