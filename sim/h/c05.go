package h

import (
	"context"
	"errors"
	"fmt"
	"io"
	"os"
	"runtime"
	"strings"
	"sync"
	"sync/atomic"
	"time"

	"github.com/mgtv-tech/redis-GunYu/config"
	"github.com/mgtv-tech/redis-GunYu/syncer"

	"verifsim/simfs"
	"verifsim/simrt"
)

// C05 — the local cache returns exactly the bytes written, at the offsets written. DESIGN.md §3 C05.
//
// A real Channel (disk over simfs, or memory) is driven by several goroutines — a writer owner, up to three reader
// owners, the collector — each performing ONE drawn operation when the scheduler releases it (engine A: operation
// granularity; the cache's own goroutines — ingest pumps, reader pumps, the 30 s collector — run freely between
// quiescent points). Model: one append-only byte function per history + what has been handed to the cache so far.

func init() {
	Register(&PropertyDef{ID: "C05", Strata: []string{"disk", "memory", "disk_gc", "memory_tight"}, Run: runC05, StepCap: 400})
}

const c05Base = "/c05cache"

type c05Driver struct {
	name string
	cmd  chan func()
	done chan any // nil = completed, otherwise the recovered panic value
}

func newC05Driver(name string) *c05Driver {
	d := &c05Driver{name: name, cmd: make(chan func()), done: make(chan any, 1)}
	go func() {
		for f := range d.cmd {
			func() {
				defer func() { d.done <- recover() }()
				f()
			}()
		}
	}()
	return d
}

type c05Snap struct {
	key      uint64
	off, n   int64
	data     []byte
	feed     *cfeed
	rw       syncer.RdbChannelWriter
	fed      int64
	ended    bool // its writer was ended by the harness (cut short / closed)
	epoch    int
	allFed   bool
	done     atomic.Bool // its writer has ended (Wait returned)
	verified bool        // the offered snapshot was read back once after its writer had ended
}

type c05Reader struct {
	dataEpoch int
	slot      int
	tap       *rtap
	key       uint64
	x         int64 // logical position of the first byte it must deliver (log reader) / 0 (snapshot)
	snap      *c05Snap
	epoch     int  // log epoch (log reader) or snapshot epoch at open
	live      bool // the cache declared the offset valid: delivery from x is owed while the epoch lasts
	stalled   bool
	checked   int // bytes already compared
	opened    string
}

type c05W struct {
	r       *Run
	backend string // "disk" | "memory"
	ch      syncer.Channel
	fs      *simfs.FS
	logSize int64
	maxSize int64

	wr  *c05Driver
	rdr [3]*c05Driver
	col *c05Driver

	keyOf   map[string]uint64
	fed     map[uint64]ivalSet
	nextKey uint64
	nextID  int
	cur     string
	curDir  bool

	logEpoch   int
	snapEpoch  int
	snap       *c05Snap // latest snapshot of the current directory (nil after a reset that removed it)
	aw         syncer.AofChannelWriter
	af         *cfeed
	awStart    int64
	right      int64 // next offset to feed
	floor      int64
	logHi      int64 // lower bound of what the log writer(s) of this log epoch have completely processed
	haveLog    bool
	dataEpoch  int // incremented by resets that discard cached bytes
	diskFaults int
	awFailed   *atomic.Bool
	awDone     *atomic.Bool // the log writer has ended (Wait returned)

	readers [3]*c05Reader
	closed  bool
	ops     []string
	viol    *Violation
	written int64
}

func (w *c05W) violate(rule, class, format string, a ...any) {
	if w.viol != nil {
		return
	}
	w.viol = &Violation{Property: "C05", Rule: rule, Sig: class + "; " + w.backend + " back end", Msg: fmt.Sprintf(format, a...)}
	w.r.Logf("VIOLATION %s: %s", rule, w.viol.Msg)
	if os.Getenv("SIM_STACKS_ON_VIOLATION") == "1" {
		buf := make([]byte, 4<<20)
		fmt.Fprintf(os.Stderr, "STACKS AT DETECTION %s\n%s\n", rule, buf[:runtime.Stack(buf, true)])
	}
}

func (w *c05W) op(f string, a ...any) {
	s := fmt.Sprintf(f, a...)
	w.ops = append(w.ops, s)
	if cacheDebug {
		fmt.Fprintln(os.Stderr, "op:", s)
	}
	w.r.Logf("op %d: %s", len(w.ops), s)
}

// run releases one operation to a driver goroutine and waits — advancing virtual time in polling periods while the
// operation is blocked (e.g. on a reader's mutex held across its end-of-file sleep) — until it has completed.
func (w *c05W) run(d *c05Driver, what string, f func()) bool {
	d.cmd <- f
	for i := 0; i < 6000; i++ {
		w.r.Settle()
		select {
		case x := <-d.done:
			if x != nil {
				if ip, ok := x.(inconclusivePanic); ok {
					panic(ip)
				}
				w.violate("C05.panic", "a cache operation panicked", "%s panicked: %v", what, x)
				return false
			}
			return true
		default:
		}
		w.r.Advance(cacheTick)
	}
	if cacheDebug {
		buf := make([]byte, 1<<20)
		fmt.Fprintf(os.Stderr, "HANG %s\n%s\n", what, buf[:runtime.Stack(buf, true)])
	}
	// coarse description of what was open (different deadlocks need different company)
	snapOpen, logOpen := 0, 0
	for _, rd := range w.readers {
		if rd == nil {
			continue
		}
		if rd.snap != nil {
			snapOpen++
		} else {
			logOpen++
		}
	}
	company := "no reader open"
	switch {
	case snapOpen > 0 || (w.snap != nil && w.snap.rw != nil):
		company = "snapshot reader or snapshot writer open"
	case logOpen >= 2:
		company = "two or more log readers open"
	case logOpen == 1:
		company = "one log reader open"
	}
	w.violate("C05.op_hangs", "a cache operation never returned: "+strings.SplitN(what, "(", 2)[0]+", "+company,
		"%s did not return within 60 s of virtual time (%d snapshot readers, %d log readers open); operations: %s", what, snapOpen, logOpen, w.tail())
	return false
}

func (w *c05W) newID() string {
	w.nextID++
	return fmt.Sprintf("%040x", 0xc0000+w.nextID)
}

func (w *c05W) key() uint64 { return w.keyOf[w.cur] }

func (w *c05W) resetLog() { w.logEpoch++; w.haveLog = false }

// discard: the reset also threw cached bytes away (delete, new snapshot, close): a reader from before cannot go on
func (w *c05W) discard()   { w.dataEpoch++ }
func (w *c05W) resetSnap() { w.snapEpoch++; w.snap = nil }

// syncLogHi refreshes the lower bound of completely processed log bytes.
func (w *c05W) syncLogHi() {
	if w.awFailed != nil && w.awFailed.Load() && w.haveLog {
		// the writer ended with an error of its own: what it consumed last may not have been stored; nothing is owed any more
		w.haveLog = false
		simrt.Probe("c05_writer_failed")
		w.r.Logf("  log writer failed; liveness of this log epoch no longer checked")
	}
	if w.af != nil {
		if hi := w.awStart + w.af.processed(); hi > w.logHi {
			w.logHi = hi
		}
	}
}

// ---------------------------------------------------------------- writer-owner operations

// quiesce advances virtual time until the writers have stored everything that was handed to them (an fsync may be
// stalled). Writer-owner operations start from there, as in the tool, where a connection's writer has ended — Wait
// returned — before the next PSYNC decides anything.
func (w *c05W) quiesce() {
	for i := 0; i < 6000 && w.viol == nil; i++ {
		w.r.Settle()
		busy := false
		if w.af != nil && !w.awDone.Load() {
			if fed, consumed, waiting := w.af.state(); !(waiting && consumed == fed) {
				busy = true
			}
		}
		if s := w.snap; s != nil && s.rw != nil && !s.done.Load() {
			if fed, consumed, waiting := s.feed.state(); !(waiting && consumed == fed) {
				busy = true
			}
		}
		if !busy {
			return
		}
		w.r.Advance(cacheTick)
	}
}

func (w *c05W) stopLogWriter(why string) {
	if w.aw == nil {
		return
	}
	w.quiesce()
	aw, af := w.aw, w.af
	w.op("close log writer (%s)", why)
	w.run(w.wr, "AofChannelWriter.Close()", func() { aw.Close(); aw.Wait(context.Background()) })
	w.syncLogHi()
	af.CloseWith(io.EOF)
	w.aw, w.af = nil, nil
}

func (w *c05W) endSnapWriter(why string) {
	s := w.snap
	if s == nil || s.rw == nil {
		return
	}
	rw := s.rw
	if !s.allFed {
		w.op("snapshot writer ended at %d/%d (%s)", s.fed, s.n, why)
		s.ended = true
	}
	w.quiesce()
	w.run(w.wr, "RdbChannelWriter.Close()", func() { rw.Close(); rw.Wait(context.Background()) })
	s.feed.CloseWith(io.EOF)
	s.rw = nil
}

func (w *c05W) setRunID(id string, inherits bool) bool {
	var err error
	if !w.run(w.wr, "SetRunId("+tailID(id)+")", func() { err = w.ch.SetRunId(id) }) {
		return false
	}
	w.op("SetRunId(%s) err=%v", tailID(id), err)
	if err != nil {
		return false
	}
	if _, ok := w.keyOf[id]; !ok {
		if inherits {
			w.keyOf[id] = w.keyOf[w.cur]
		} else {
			w.nextKey++
			w.keyOf[id] = w.nextKey
		}
	}
	if id != w.cur {
		w.resetLog() // replication-id switch invalidates readers
		w.snapEpoch++
		if !inherits {
			w.discard() // another history: what was cached under the previous id is out of reach
		}
	}
	w.cur, w.curDir = id, true
	return true
}

func (w *c05W) fullSync() {
	g := w.r.Gen()
	w.endSnapWriter("resync")
	w.stopLogWriter("resync")
	id := w.cur
	if w.cur == "" || g.Choose("fs.sameid", 4) != 0 {
		id = w.newID()
	}
	del := w.cur != "" && g.Choose("fs.del", 5) != 0
	inherits := false
	if del {
		var err error
		cur := w.cur
		if !w.run(w.wr, "DelRunId("+tailID(cur)+")", func() { err = w.ch.DelRunId(cur) }) {
			return
		}
		w.op("DelRunId(%s) err=%v", tailID(cur), err)
		w.resetLog()
		w.resetSnap()
		w.discard()
		w.curDir = false
		if w.backend == "memory" {
			w.cur = ""
		}
	} else if w.cur != "" && id != w.cur {
		inherits = true
	}
	if !w.setRunID(id, inherits) {
		return
	}
	key := w.key()
	off := int64(g.Choose("fs.off", 4000))
	if inherits || id == w.cur && w.right > off {
		off = w.right + int64(g.Choose("fs.offd", 100))
	}
	n := int64(1 + g.Choose("fs.size", 40))
	switch g.Choose("fs.sizek", 3) {
	case 1:
		n = int64(1 + g.Choose("fs.sizem", 600))
	case 2:
		n = int64(1 + g.Choose("fs.sizel", 4000))
	}
	s := &c05Snap{key: key, off: off, n: n, data: snapBytes(key, off, n), feed: newCfeed()}
	var err error
	if !w.run(w.wr, "NewRdbWriter", func() {
		s.rw, err = w.ch.NewRdbWriter(s.feed, off, n)
		if err == nil {
			s.rw.Start()
			rw := s.rw
			go func() { rw.Wait(context.Background()); s.done.Store(true) }()
		}
	}) {
		return
	}
	w.op("NewRdbWriter(off=%d,size=%d) key=%d err=%v", off, n, key, err)
	// a new snapshot resets the cache whatever the outcome
	w.resetLog()
	w.resetSnap()
	w.discard()
	w.right, w.floor, w.logHi = off, off, off
	if err != nil {
		return
	}
	s.epoch = w.snapEpoch
	w.snap = s
}

func (w *c05W) feedSnap() {
	s := w.snap
	g := w.r.Gen()
	n := 1 + int64(g.Choose("sn.chunk", int(s.n-s.fed)))
	if g.Choose("sn.rest", 3) == 0 {
		n = s.n - s.fed
	}
	if s.fed+n == s.n {
		s.allFed = true
	}
	s.feed.Feed(s.data[s.fed : s.fed+n])
	s.fed += n
	w.written += n
	w.op("feed snapshot %d -> %d/%d", n, s.fed, s.n)
}

func (w *c05W) cutSnap() {
	s := w.snap
	if w.r.Gen().Choose("sn.cuthow", 2) == 0 {
		w.op("snapshot source lost at %d/%d", s.fed, s.n)
		s.ended = true
		w.quiesce()
		s.feed.CloseWith(io.ErrUnexpectedEOF)
		rw := s.rw
		w.run(w.wr, "RdbChannelWriter.Wait()", func() { rw.Wait(context.Background()) })
		w.endSnapWriter("source lost")
	} else {
		w.endSnapWriter("closed by owner")
	}
}

// closeSnapInFlight: the owner closes the snapshot writer while a chunk is in flight (taken from the source, not in
// the file yet) — what RedisInput.syncRdb does when its context is cancelled during a full sync. Whether all bytes made
// it into the cache is the cache's knowledge: if it still offers the snapshot afterwards, a reader must get all of it.
func (w *c05W) closeSnapInFlight() {
	s := w.snap
	rw := s.rw
	w.op("snapshot writer closed by its owner with a chunk in flight (%d/%d handed)", s.fed, s.n)
	simrt.Probe("c05_snapshot_closed_in_flight")
	w.run(w.wr, "RdbChannelWriter.Close()", func() { rw.Close(); rw.Wait(context.Background()) })
	s.feed.CloseWith(io.EOF)
	s.rw = nil
	s.ended = true
	id := w.cur
	ro, rn := w.ch.GetRdb(id)
	if ro != s.off || rn != s.n {
		return // withdrawn: fine
	}
	if !s.allFed {
		return // observe() reports C05.rdb_offered_incomplete
	}
	s.ended = false // every byte had been handed over and the cache says it holds them all: verify by reading
	w.verifyOffered(s, "the writer was closed with a chunk in flight")
}

// verifyOffered: the cache offers snapshot s although its writer has ended — then every byte of it must be readable.
func (w *c05W) verifyOffered(s *c05Snap, when string) {
	if s.verified || w.viol != nil {
		return
	}
	s.verified = true
	id := w.cur
	var rd syncer.ChannelReader
	var err error
	// as the tool asks for a cached snapshot: the position in front of it (a log segment may start AT its offset)
	if !w.run(w.rdr[0], "NewReader(snapshot)", func() { rd, err = w.ch.NewReader(syncer.Offset{RunId: id, Offset: s.off - s.n}) }) {
		return
	}
	if err != nil || rd == nil || rd.IsAof() {
		w.violate("C05.rdb_offered_short", "snapshot offered after its writer ended, but it cannot be read", "GetRdb(%s) = (%d,%d) after %s, NewReader(%d) err=%v; operations: %s", tailID(id), s.off, s.n, when, s.off, err, w.tail())
		return
	}
	t := newRtap(rd)
	t.start()
	for i := 0; i < 4000; i++ {
		w.r.Settle()
		if n, _, ended := t.snapshot(); int64(n) >= s.n || ended {
			break
		}
		w.r.Advance(cacheTick)
	}
	got := t.bytes()
	n, terr, _ := t.snapshot()
	t.close()
	if int64(n) < s.n || string(got[:s.n]) != string(s.data) {
		w.violate("C05.rdb_offered_short", "snapshot offered although not all of its bytes are in the cache", "GetRdb(%s) = (%d,%d) after %s, but a reader delivers %d of %d bytes (err=%v): bytes taken from the source never reached the file; operations: %s", tailID(id), s.off, s.n, when, n, s.n, terr, w.tail())
	}
	simrt.Probe("c05_offered_snapshot_verified")
}

func (w *c05W) startLogWriter(off int64, why string) {
	w.quiesce()
	old := w.af
	f := newCfeed()
	var aw syncer.AofChannelWriter
	var err error
	if !w.run(w.wr, "NewAofWritter", func() {
		aw, err = w.ch.NewAofWritter(f, off)
		if err == nil {
			aw.Start()
		}
	}) {
		return
	}
	w.op("NewAofWritter(off=%d) [%s] err=%v", off, why, err)
	if err != nil {
		if w.backend == "memory" {
			return // refused (discontinuous): nothing changed
		}
	}
	w.syncLogHi()
	if old != nil {
		old.CloseWith(io.EOF)
	}
	w.aw, w.af = nil, nil
	w.resetLog() // writer replacement invalidates readers
	if err != nil {
		return
	}
	w.aw, w.af, w.awStart, w.right = aw, f, off, off
	w.logHi = off
	w.haveLog = true
	w.awFailed, w.awDone = new(atomic.Bool), new(atomic.Bool)
	failed, done := w.awFailed, w.awDone
	go func() { // what the tool's syncIncr does: wait for the writer to end
		if err := aw.Wait(context.Background()); err != nil && !errors.Is(err, io.EOF) {
			failed.Store(true)
		}
		done.Store(true)
	}()
}

func (w *c05W) appendLog() {
	g := w.r.Gen()
	var n int64
	switch g.Weighted("ap.kind", []int{4, 4, 2, 1}) {
	case 0:
		n = 1 + int64(g.Choose("ap.s", int(2*w.logSize)))
	case 1:
		n = 1 + int64(g.Choose("ap.t", 24))
	case 2:
		n = 1 + int64(g.Choose("ap.m", 1024))
	default:
		n = 1 + int64(g.Choose("ap.l", 8192))
	}
	key := w.key()
	w.fed[key] = w.fed[key].add(w.right, w.right+n)
	w.af.Feed(cacheBytes(key, w.right, w.right+n))
	w.op("append %d bytes [%d,%d) key=%d", n, w.right, w.right+n, key)
	w.right += n
	w.written += n
}

// idSwitch: the source's replication id changed (fail-over) and it answered +CONTINUE: as in the tool, the previous
// connection's writer has ended before the id is switched, and a new writer continues at the same offset.
func (w *c05W) idSwitch() {
	w.stopLogWriter("source reconnects with a new id")
	id := w.newID()
	if !w.setRunID(id, true) {
		return
	}
	if w.r.Gen().Choose("sw.rewrite", 4) != 0 {
		w.startLogWriter(w.right, "after id switch")
	}
}

func (w *c05W) delRunID() {
	w.endSnapWriter("delete")
	w.stopLogWriter("delete")
	cur := w.cur
	var err error
	if !w.run(w.wr, "DelRunId("+tailID(cur)+")", func() { err = w.ch.DelRunId(cur) }) {
		return
	}
	w.op("DelRunId(%s) err=%v", tailID(cur), err)
	w.resetLog()
	w.resetSnap()
	w.discard()
	w.curDir = false
	w.cur = ""
}

// ---------------------------------------------------------------- reader-owner operations

func (w *c05W) openReader(slot int) {
	g := w.r.Gen()
	id := w.cur
	l, rr := w.ch.GetOffsetRange(id)
	ro, rn := w.ch.GetRdb(id)
	var x int64
	kind := g.Weighted("rd.where", []int{4, 3, 3, 2, 2, 2})
	switch {
	case kind == 0 && l >= 0:
		x = l
	case kind == 1 && l >= 0 && rr > l:
		x = l + int64(g.Choose("rd.inner", int(rr-l+1)))
	case kind == 2 && l >= 0:
		x = rr
	case kind == 3 && ro >= 0:
		x = ro - rn
		if g.Choose("rd.atsnap", 3) == 0 {
			x = ro
		}
	case kind == 4: // just outside
		if l >= 0 && g.Choose("rd.side", 2) == 0 {
			x = rr + 1 + int64(g.Choose("rd.beyond", 50))
		} else if l > 0 {
			x = l - 1 - int64(g.Choose("rd.before", int(min64(l, 50))))
		} else {
			x = rr + 1
		}
	default:
		x = int64(g.Choose("rd.any", 6000)) - 2
	}
	var valid bool
	var rd syncer.ChannelReader
	var err error
	off := syncer.Offset{RunId: id, Offset: x}
	if !w.run(w.rdr[slot], fmt.Sprintf("IsValidOffset/NewReader(%d)", x), func() {
		// the two calls are not one: writer and collector run between them (a collection pass under memory pressure
		// withdraws a snapshot that was valid a moment ago). Only an answer that persists is judged.
		for i := 0; i < 4; i++ {
			valid = w.ch.IsValidOffset(off)
			rd, err = w.ch.NewReader(off)
			if !valid || err == nil {
				break
			}
		}
	}) {
		return
	}
	w.op("reader %d: IsValidOffset(%d)=%v NewReader err=%v (range [%d,%d] rdb (%d,%d))", slot, x, valid, err, l, rr, ro, rn)
	if err != nil {
		if valid {
			w.violate("C05.valid_unreadable", "offset declared valid but no reader can be opened",
				"id %s: IsValidOffset(%d) = true (GetOffsetRange [%d,%d], GetRdb (%d,%d)) but NewReader failed: %v; operations: %s", tailID(id), x, l, rr, ro, rn, err, w.tail())
		}
		return
	}
	t := newRtap(rd)
	rdm := &c05Reader{slot: slot, tap: t, key: w.key(), live: valid, dataEpoch: w.dataEpoch}
	if rd.IsAof() {
		rdm.x, rdm.epoch = x, w.logEpoch
		rdm.opened = fmt.Sprintf("log reader opened at %d", x)
		if rd.Left() != x {
			w.violate("C05.reader_offset", "log reader does not start at the requested offset", "NewReader(%d) reports Left()=%d", x, rd.Left())
		}
		if !(l >= 0 && x >= l && x <= rr) {
			rdm.live = false // not inside what the cache claimed to hold: nothing is owed (what it delivers must still be right)
		}
	} else {
		s := w.snap
		rdm.opened = fmt.Sprintf("snapshot reader opened with offset %d", x)
		if s == nil || rd.Left() != s.off || rd.Size() != s.n {
			so, sn := int64(-1), int64(-1)
			if s != nil {
				so, sn = s.off, s.n
			}
			w.violate("C05.snapshot_reader_mismatch", "snapshot reader for a snapshot the cache was never given",
				"NewReader(%d) gave a snapshot reader left=%d size=%d; the snapshot handed to this cache directory is (%d,%d); operations: %s", x, rd.Left(), rd.Size(), so, sn, w.tail())
			t.close()
			return
		}
		rdm.snap, rdm.epoch = s, w.snapEpoch
		if x > s.off {
			w.violate("C05.snapshot_reader_mismatch", "snapshot reader handed out for an offset after the snapshot", "NewReader(%d) gave a snapshot reader although the snapshot's offset is %d", x, s.off)
		}
	}
	// de-phase the polling timers of concurrently open readers (DESIGN.md §2.3: per-step δ): goroutines of the cache
	// that wake at the same virtual instant would race for locks in an order only the Go runtime decides
	w.r.Advance(time.Microsecond)
	t.start()
	w.readers[slot] = rdm
	simrt.Probe("c05_reader_opened")
}

func min64(a, b int64) int64 {
	if a < b {
		return a
	}
	return b
}

func (w *c05W) closeReader(slot int) {
	rd := w.readers[slot]
	w.readers[slot] = nil
	w.run(w.rdr[slot], "ChannelReader.Close()", func() { rd.tap.close() })
	w.op("reader %d: close", slot)
}

func (w *c05W) tail() string {
	o := w.ops
	if len(o) > 14 {
		o = o[len(o)-14:]
	}
	return strings.Join(o, " | ")
}

// ---------------------------------------------------------------- observation (every quiescent point)

func (w *c05W) checkReaders() {
	for _, rd := range w.readers {
		if rd == nil {
			continue
		}
		got := rd.tap.bytes()
		for i := rd.checked; i < len(got); i++ {
			if rd.snap != nil {
				if i >= len(rd.snap.data) || got[i] != rd.snap.data[i] || int64(i) >= rd.snap.fed {
					w.violate("C05.wrong_byte", "snapshot reader delivered a byte that is not the snapshot's byte at that position",
						"%s (snapshot (%d,%d), %d bytes handed to the cache): byte %d = %#02x; operations: %s", rd.opened, rd.snap.off, rd.snap.n, rd.snap.fed, i, got[i], w.tail())
					return
				}
				continue
			}
			p := rd.x + int64(i)
			if !w.fed[rd.key].covers(rd.x, p+1) {
				w.violate("C05.beyond_written", "reader delivered an offset that had never been handed to the cache",
					"%s delivered offset %d; handed to the cache so far: %s; operations: %s", rd.opened, p, w.fed[rd.key], w.tail())
				return
			}
			if want := cacheByte(rd.key, p); got[i] != want {
				w.violate("C05.wrong_byte", "reader delivered a byte that is not the source byte at that position",
					"%s delivered %#02x at position %d, the source byte there is %#02x (delivered %d bytes so far); operations: %s", rd.opened, got[i], p, want, len(got), w.tail())
				return
			}
		}
		rd.checked = len(got)
	}
}

func (w *c05W) observe() {
	if w.viol != nil {
		return
	}
	w.syncLogHi()
	w.checkReaders()
	if w.viol != nil || w.closed {
		return
	}
	id := w.cur
	l, rr := w.ch.GetOffsetRange(id)
	ro, rn := w.ch.GetRdb(id)
	sp, _ := w.ch.StartPoint(nil)
	w.r.Logf("  obs id=%s range=[%d,%d] rdb=(%d,%d) sp=(%s,%d) logHi=%d readers=%s", tailID(id), l, rr, ro, rn, tailID(sp.RunId), sp.Offset, w.logHi, w.readerState())
	if id == "" {
		return
	}
	fed := w.fed[w.key()]
	if !(l == -1 && rr == -1) {
		if l < 0 || rr < l {
			w.violate("C05.range_malformed", "reported range is not an interval", "GetOffsetRange = [%d,%d]; operations: %s", l, rr, w.tail())
			return
		}
		if rr > l && !fed.covers(l, rr) {
			w.violate("C05.range_beyond", "reported range is not within one contiguous run of bytes handed to the cache",
				"GetOffsetRange(%s) = [%d,%d] but the cache has been given only %s of this history; operations: %s", tailID(id), l, rr, fed, w.tail())
			return
		}
	}
	if ro >= 0 || rn >= 0 {
		s := w.snap
		if s == nil || s.off != ro || s.n != rn {
			w.violate("C05.rdb_offered_unknown", "snapshot offered that this cache directory was never given", "GetRdb(%s) = (%d,%d); operations: %s", tailID(id), ro, rn, w.tail())
			return
		}
		if s.done.Load() && s.allFed && !s.ended {
			w.verifyOffered(s, "its writer had ended")
			if w.viol != nil {
				return
			}
		}
		if s.ended && !s.allFed {
			w.violate("C05.rdb_offered_incomplete", "snapshot offered although its writer ended before all bytes arrived",
				"GetRdb(%s) = (%d,%d) but only %d of %d bytes were ever handed to the cache and the snapshot writer has ended; operations: %s", tailID(id), ro, rn, s.fed, s.n, w.tail())
			return
		}
	}
}

func (w *c05W) readerState() string {
	var b strings.Builder
	for i, rd := range w.readers {
		if rd == nil {
			continue
		}
		n, err, ended := rd.tap.snapshot()
		fmt.Fprintf(&b, "[%d:%s n=%d ended=%v err=%v]", i, rd.opened, n, ended, err != nil)
	}
	return b.String()
}

// owed returns how many bytes reader rd must have delivered by now (-1: nothing is owed).
func (w *c05W) owed(rd *c05Reader) int64 {
	if !rd.live || rd.stalled {
		return -1
	}
	if rd.snap != nil {
		if rd.epoch != w.snapEpoch || rd.snap.ended {
			return -1
		}
		return rd.snap.feed.processed()
	}
	if rd.dataEpoch != w.dataEpoch || rd.key != w.key() || !w.haveLog {
		return -1
	}
	// rd.epoch != w.logEpoch: only writer replacements / inheriting id switches since the reader was opened; the
	// history goes on contiguously. The reader may end or fail (checked by the caller) or go on following.
	if w.logHi <= rd.x {
		return -1
	}
	return w.logHi - rd.x
}

// mustEnd: a reader that was valid when opened, is not stalled by its consumer, and that a bytes-discarding cache reset
// (delete, new snapshot, switch to another history, close) has invalidated: it can only end or fail.
func (w *c05W) mustEnd(rd *c05Reader) bool {
	return rd.live && !rd.stalled && rd.dataEpoch != w.dataEpoch
}

// superseded: invalidated by a reset that kept the bytes (writer replacement, inheriting id switch): the reader may end
// or fail, or go on following — what it must not do is neither.
func (w *c05W) superseded(rd *c05Reader) bool {
	if !rd.live || rd.stalled || rd.dataEpoch != w.dataEpoch {
		return false
	}
	if rd.snap != nil {
		return rd.epoch != w.snapEpoch
	}
	return rd.epoch != w.logEpoch
}

func (w *c05W) lingering() bool {
	for _, rd := range w.readers {
		if rd != nil && w.mustEnd(rd) {
			if _, _, ended := rd.tap.snapshot(); !ended {
				return true
			}
		}
	}
	return false
}

// drain: bounded liveness — with the writer idle, every still-valid, unstalled reader delivers what has been written.
func (w *c05W) drain(why string) {
	if w.viol != nil {
		return
	}
	w.op("drain (%s)", why)
	for step := 0; step < 4000; step++ {
		w.r.Settle()
		w.syncLogHi()
		behind := false
		for _, rd := range w.readers {
			if rd == nil {
				continue
			}
			if need := w.owed(rd); need >= 0 {
				if n, _, ended := rd.tap.snapshot(); int64(n) < need && !(ended && w.superseded(rd)) {
					behind = true
				}
			}
		}
		if !behind && !w.lingering() {
			break
		}
		w.r.Advance(cacheTick)
	}
	w.checkReaders()
	if w.viol != nil {
		return
	}
	for _, rd := range w.readers {
		if rd == nil || !w.mustEnd(rd) {
			continue
		}
		if n, terr, ended := rd.tap.snapshot(); !ended {
			w.violate("C05.invalidated_lingers", "a reader invalidated by a cache reset that discarded its bytes neither ends nor fails",
				"%s was invalidated by a cache reset that discarded the cached bytes (delete, new snapshot, another history, close) long ago (40 s of virtual time) and is not stalled, but its consumer has seen neither the end nor an error (delivered %d bytes, err=%v): it is blocked for ever; operations: %s",
				rd.opened, n, terr, w.tail())
			return
		}
		simrt.Probe("c05_invalidated_reader_ended")
	}
	for _, rd := range w.readers {
		if rd == nil {
			continue
		}
		need := w.owed(rd)
		n, terr, ended := rd.tap.snapshot()
		if need >= 0 && int64(n) < need && ended && w.superseded(rd) {
			simrt.Probe("c05_superseded_reader_ended")
			continue
		}
		if need >= 0 && int64(n) < need && w.superseded(rd) {
			w.violate("C05.superseded_lingers", "a reader from before a writer replacement or inheriting id switch neither ends nor follows the new writer",
				"%s has delivered %d bytes and %d are owed; since it was opened the writer was replaced (or the id switched with the history inherited): it may end, fail or go on following, but it does neither (ended=%v err=%v, 40 s of virtual time): its consumer is blocked for ever; operations: %s",
				rd.opened, n, need, ended, terr, w.tail())
			return
		}
		if need >= 0 && int64(n) < need {
			w.violate("C05.reader_stuck", "a still-valid reader does not deliver bytes the writer has written",
				"%s has delivered %d bytes, %d are owed (written and processed by the writer long ago: 40 s of virtual time); reader ended=%v err=%v; operations: %s",
				rd.opened, n, need, ended, terr, w.tail())
			return
		}
		if need >= 0 {
			simrt.Probe("c05_live_reader_caught_up")
		}
	}
}

// ---------------------------------------------------------------- run

// c05DiskErrors (SIM_C05_DISKERR=1, exploration only, not part of the registered check): make single writes to the cache
// directory fail with ENOSPC / EIO. C05 and C08 quantify over operation sequences, interleavings and crash instants, not
// over failing system calls; the oracle is not relaxed for them.
var c05DiskErrors = os.Getenv("SIM_C05_DISKERR") == "1"

func runC05(r *Run, stratum string) *Violation {
	g := r.Gen()
	w := &c05W{r: r, keyOf: map[string]uint64{}, fed: map[uint64]ivalSet{}, nextKey: 500}
	w.backend = "disk"
	if strings.HasPrefix(stratum, "memory") {
		w.backend = "memory"
	}
	w.logSize = int64(32 + g.Choose("logsize", 96))
	if g.Choose("logsizek", 3) == 0 {
		w.logSize = int64(32 + g.Choose("logsizel", 993))
	}
	w.maxSize = int64(128 + g.Choose("maxsize", 8065))
	switch stratum {
	case "disk_gc", "memory_tight":
		w.maxSize = int64(128 + g.Choose("maxsizet", 600))
	case "disk":
		if g.Choose("unlimited", 2) == 0 {
			w.maxSize = 1 << 30
		}
	}
	var ccfg config.ChannelConfig
	if w.backend == "memory" {
		if w.logSize > w.maxSize { // what config.MemoryConfig.fix() enforces
			w.logSize = w.maxSize
		}
		ccfg = config.ChannelConfig{Type: config.ChannelTypeMemory, Memory: &config.MemoryConfig{MaxSize: w.maxSize, LogSize: w.logSize}}
	} else {
		ccfg = config.ChannelConfig{Type: config.ChannelTypeStorer, Storer: &config.StorerConfig{DirPath: c05Base, MaxSize: w.maxSize, LogSize: w.logSize}}
	}
	w.fs = simfs.New()
	simfs.SetFS(w.fs)
	defer simfs.SetFS(nil)
	w.fs.MkdirAll(c05Base, 0o777)
	if w.backend == "disk" && g.Choose("slowsync", 2) == 1 {
		// slow disk: some fsyncs stall for 1-3 polling periods (the file is visible, its writer has not gone on yet).
		// Decided by a hash of (drawn salt, path, per-path count), not by draw order: syncs of concurrent writers
		// get the same delays whatever order they are issued in.
		salt := uint64(g.Choose("slowsalt", 1<<16))
		cnt := map[string]uint64{}
		var mu sync.Mutex
		w.fs.Delay = func(op, path string) time.Duration {
			mu.Lock()
			cnt[path]++
			n := cnt[path]
			mu.Unlock()
			h := crc64Jones(salt*0x9e3779b97f4a7c15+n, []byte(path))
			if op == "write" {
				if h%5 != 0 {
					return 0
				}
				r.W.Fault("slow_write")
				return cacheTick/2 + time.Duration((h>>8)%3)*cacheTick/2
			}
			if h%3 != 0 {
				return 0
			}
			r.W.Fault("slow_fsync")
			return cacheTick/2 + time.Duration((h>>8)%5)*cacheTick/2
		}
	}
	cacheSetVerify(w.backend != "memory" && g.Choose("verifycrc", 2) == 1) // deployment knob of the disk readers
	defer cacheSetVerify(false)
	w.ch = syncer.NewChannel(ccfg, "c05")
	w.wr = newC05Driver("writer-owner")
	for i := range w.rdr {
		w.rdr[i] = newC05Driver(fmt.Sprintf("reader-owner-%d", i))
	}
	w.col = newC05Driver("collector")
	r.Logf("C05 %s logSize=%d maxSize=%d", stratum, w.logSize, w.maxSize)

	maxOps := 20 + g.Choose("nops", 41)
	sc := r.Sched()
	for len(w.ops) < maxOps && w.viol == nil && !w.closed && w.written < 64<<10 && r.BeginStep() {
		r.Settle()
		w.observe()
		if w.viol != nil {
			break
		}
		// enabled operations (canonical order), weights
		type act struct {
			name string
			wt   int
			do   func()
		}
		var acts []act
		snapLive := w.snap != nil && w.snap.rw != nil && !w.snap.ended
		if w.cur == "" {
			acts = append(acts, act{"fullsync", 10, w.fullSync})
			acts = append(acts, act{"plainlog", 4, func() {
				if w.setRunID(w.newID(), false) {
					w.right = int64(g.Choose("pl.off", 4000))
					w.floor, w.logHi = w.right, w.right
					w.startLogWriter(w.right, "initial")
				}
			}})
		} else {
			acts = append(acts, act{"fullsync", 2, w.fullSync})
			if snapLive && !w.snap.allFed {
				acts = append(acts, act{"feedsnap", 12, w.feedSnap})
				acts = append(acts, act{"cutsnap", 1, w.cutSnap})
			}
			if snapLive {
				if fed, consumed, waiting := w.snap.feed.state(); !(waiting && consumed == fed) {
					acts = append(acts, act{"closesnap-inflight", 3, w.closeSnapInFlight})
				}
			}
			if snapLive && w.snap.allFed && w.aw == nil {
				acts = append(acts, act{"logaftersnap", 14, func() {
					w.endSnapWriter("complete")
					w.startLogWriter(w.snap.off, "after snapshot")
				}})
			}
			if w.aw != nil {
				acts = append(acts, act{"append", 14, w.appendLog})
				acts = append(acts, act{"closewriter", 1, func() { w.stopLogWriter("source connection lost") }})
				acts = append(acts, act{"replace", 2, func() { w.startLogWriter(w.right, "replacement at the right end") }})
			} else if !snapLive && (w.snap == nil || w.snap.ended || w.snap.rw == nil) {
				acts = append(acts, act{"reconnect", 6, func() { w.startLogWriter(w.right, "reconnect") }})
			}
			if w.curDir && !snapLive {
				acts = append(acts, act{"idswitch", 1, w.idSwitch})
			}
			acts = append(acts, act{"delrunid", 1, w.delRunID})
			for i := range w.readers {
				i := i
				if w.readers[i] == nil {
					acts = append(acts, act{fmt.Sprintf("open%d", i), 4 - i, func() { w.openReader(i) }})
				} else {
					rd := w.readers[i]
					acts = append(acts, act{fmt.Sprintf("close%d", i), 1, func() { w.closeReader(i) }})
					if rd.stalled {
						acts = append(acts, act{fmt.Sprintf("unstall%d", i), 3, func() { rd.stalled = false; rd.tap.setStall(false); w.op("reader %d: resumes reading", i) }})
					} else {
						acts = append(acts, act{fmt.Sprintf("stall%d", i), 1, func() { rd.stalled = true; rd.tap.setStall(true); w.op("reader %d: stalls", i) }})
					}
				}
			}
			if w.backend == "disk" {
				acts = append(acts, act{"gc", 4, func() {
					w.run(w.col, "collector pass", func() { syncer.VerifGcStep(w.ch) })
					w.op("collector: synchronous pass")
					simrt.Probe("c05_gc_pass")
				}})
				acts = append(acts, act{"gctick", 1, func() { w.op("30 s of virtual time (collector timer)"); r.Advance(30 * time.Second) }})
				if c05DiskErrors && w.diskFaults < 2 && (w.aw != nil || snapLive) {
					acts = append(acts, act{"disk-write-error", 1, func() {
						w.diskFaults++
						e := []error{simfs.ENOSPC, simfs.EIO}[sc.Choose("diskerr", 2)]
						w.fs.FailNext("write", e)
						r.W.Fault("disk_write_error")
						w.op("the next write to the cache directory fails with %v", e)
					}})
				}
			}
			acts = append(acts, act{"tick", 3, func() {
				d := []time.Duration{cacheTick, 3 * cacheTick, 100 * time.Millisecond, time.Second}[sc.Choose("tickd", 4)]
				w.op("idle %v", d)
				r.Advance(d)
			}})
			acts = append(acts, act{"drain", 3, func() { w.drain("scheduled") }})
		}
		wts := make([]int, len(acts))
		for i, a := range acts {
			wts[i] = a.wt
		}
		a := acts[sc.Weighted("op", wts)]
		a.do()
	}
	if w.viol == nil {
		r.Settle()
		w.observe()
	}
	if w.viol == nil && !w.closed {
		w.drain("end of run")
	}
	// graceful end: Close() is a reset too — readers end or fail, never deliver other bytes
	if w.viol == nil {
		w.endSnapWriter("shutdown")
		w.stopLogWriter("shutdown")
		var err error
		w.run(w.wr, "Channel.Close()", func() { err = w.ch.Close() })
		w.op("Channel.Close() err=%v", err)
		w.closed = true
		w.resetLog()
		w.resetSnap()
		w.discard()
		r.Advance(5 * cacheTick)
		w.checkReaders()
	}
	// teardown (also after a violation)
	for i, rd := range w.readers {
		if rd != nil {
			rd.tap.close()
			w.readers[i] = nil
		}
	}
	if w.snap != nil && w.snap.rw != nil {
		w.snap.rw.Close()
		w.snap.feed.CloseWith(io.EOF)
	}
	if w.aw != nil {
		w.aw.Close()
		w.af.CloseWith(io.EOF)
	}
	if !w.closed {
		w.ch.Close()
	}
	close(w.wr.cmd)
	close(w.col.cmd)
	for _, d := range w.rdr {
		close(d.cmd)
	}
	r.Advance(5 * cacheTick)

	r.NonTriv = w.written >= 64 && r.W.Probes["c05_reader_opened"] > 0
	r.Sample = fmt.Sprintf("%s logSize=%d maxSize=%d, %d operations, %d bytes written: %s", stratum, w.logSize, w.maxSize, len(w.ops), w.written, strings.Join(w.ops, " | "))
	if len(r.Sample) > 1400 {
		r.Sample = r.Sample[:1400] + "…"
	}
	return w.viol
}
