#!/usr/bin/env python3
"""Regenerates the seeded-changes table inside DESIGN.md (between the SEEDTABLE markers) from seeded/*/meta.json."""
import os, re, subprocess, sys
V = os.path.dirname(os.path.dirname(os.path.abspath(__file__)))
t = subprocess.run([sys.executable, os.path.join(V, "sim", "seedtable.py")], stdout=subprocess.PIPE, text=True).stdout
p = os.path.join(V, "DESIGN.md")
s = open(p).read()
b, e = "<!-- SEEDTABLE-BEGIN -->", "<!-- SEEDTABLE-END -->"
if b not in s:
    s = s.replace("\nSEEDTABLE\n", "\n%s\n%s\n" % (b, e))
i, j = s.index(b) + len(b), s.index(e)
s = s[:i] + "\n" + t + s[j:]
open(p, "w").write(s)
print("table rows:", t.count("\n| C"))
