#!/usr/bin/env python3
"""Prints the markdown table of seeded changes (DESIGN.md §7.6) from seeded/*/meta.json and seeded/notes.json."""
import json, os, re, sys
V = os.path.dirname(os.path.dirname(os.path.abspath(__file__)))
notes = {}
np = os.path.join(V, "seeded", "notes.json")
if os.path.exists(np):
    notes = json.load(open(np))
rows = []
for d in sorted(os.listdir(os.path.join(V, "seeded"))):
    mp = os.path.join(V, "seeded", d, "meta.json")
    if not os.path.exists(mp):
        continue
    m = json.load(open(mp))
    title = ""
    rp = os.path.join(V, "seeded", d, "README.md")
    if os.path.exists(rp):
        for l in open(rp):
            if l.startswith("#"):
                title = re.sub(r"^#+\s*", "", l).strip()
                title = re.sub(r"^Seed\s+\S+\s*/\s*\S+\s*[—-]\s*", "", title)
                break
    files = sorted(set(re.findall(r"^\+\+\+ b/(\S+)", open(os.path.join(V, "seeded", d, "patch.diff")).read(), re.M)))
    c = m["check"]
    res = "caught: " + ", ".join(c.get("rules") or []) if c.get("detected") else ("MISSED" if c.get("exit") == 0 else "check exit %s" % c.get("exit"))
    sib = m.get("sibling_check")
    if sib and not c.get("detected"):
        res = "own check: missed; `./check %s quick`: %s" % (sib["property"], ("caught: " + ", ".join(sib.get("rules") or [])) if sib.get("detected") else "missed")
    rows.append((d, ", ".join(files), title[:110], res, notes.get(d, "")))
print("| seed | file(s) changed | what it does | `./check <P> quick` on the patched tree | note |")
print("|---|---|---|---|---|")
for r in rows:
    print("| %s | %s | %s | %s | %s |" % r)
print()
n = len(rows); c = sum(1 for r in rows if r[3].startswith("caught")); c2 = sum(1 for r in rows if "quick`: caught" in r[3])
print("%d seeded changes confirmed (build, suite passes, demo fails with / passes without the patch); %d caught by the quick check of the property they were written against, %d more by the quick check of a sibling property (named in the row)." % (n, c, c2))
