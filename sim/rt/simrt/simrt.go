// Package simrt is the runtime core of the deterministic simulator: the
// choice vector (one integer decides everything), the current "world", the
// event log whose digest identifies an execution, and the hooks the rewritten
// repository sources call (select order, map order, randomness).
package simrt

import (
	"crypto/sha256"
	"encoding/hex"
	"fmt"
	"hash"
	"os"
	"runtime"
	"sort"
	"sync"
	"sync/atomic"
	"time"
)

// ---------------------------------------------------------------- PRNG

// splitmix64: tiny, well distributed, no dependency on math/rand internals
// (whose algorithms may change between Go releases; replay files must not).
type rng struct{ s uint64 }

func (r *rng) next() uint64 {
	r.s += 0x9e3779b97f4a7c15
	z := r.s
	z = (z ^ (z >> 30)) * 0xbf58476d1ce4e5b9
	z = (z ^ (z >> 27)) * 0x94d049bb133111eb
	return z ^ (z >> 31)
}

func (r *rng) intn(n int) int {
	if n <= 1 {
		return 0
	}
	return int(r.next() % uint64(n))
}

// Mix derives an independent seed from a base seed and an index.
func Mix(a, b uint64) uint64 {
	r := rng{s: a ^ (b+1)*0xd6e8feb86659fd93}
	r.next()
	return r.next()
}

// ---------------------------------------------------------------- Chooser

// Pick is one recorded decision.
type Pick struct {
	L string `json:"l"`
	N int    `json:"n"`
	V int    `json:"v"`
}

// Chooser is a choice vector: in search mode it draws from a seeded PRNG and
// records; in replay mode it returns the recorded values (mod n, 0 past end).
type Chooser struct {
	mu     sync.Mutex
	r      rng
	replay []int
	isRep  bool
	pos    int
	Rec    []Pick
}

func NewChooser(seed uint64) *Chooser { return &Chooser{r: rng{s: seed}} }

func NewReplayChooser(vals []int) *Chooser {
	return &Chooser{replay: vals, isRep: true}
}

// Choose returns a value in [0,n). Pick 0 is by convention the benign choice.
func (c *Chooser) Choose(label string, n int) int {
	if n <= 1 {
		return 0
	}
	c.mu.Lock()
	defer c.mu.Unlock()
	var v int
	if c.isRep {
		if c.pos < len(c.replay) {
			v = c.replay[c.pos] % n
			if v < 0 {
				v = -v
			}
		}
		c.pos++
	} else {
		v = c.r.intn(n)
	}
	c.Rec = append(c.Rec, Pick{label, n, v})
	return v
}

// Biased returns 0 with probability num/den, otherwise uniform in [1,n).
func (c *Chooser) Biased(label string, n int, num, den int) int {
	if n <= 1 {
		return 0
	}
	c.mu.Lock()
	defer c.mu.Unlock()
	var v int
	if c.isRep {
		if c.pos < len(c.replay) {
			v = c.replay[c.pos] % n
			if v < 0 {
				v = -v
			}
		}
		c.pos++
	} else {
		if c.r.intn(den) < num {
			v = 0
		} else {
			v = 1 + c.r.intn(n-1)
		}
	}
	c.Rec = append(c.Rec, Pick{label, n, v})
	return v
}

// Weighted picks an index with probability proportional to w[i].
// In replay mode the recorded value is the index itself.
func (c *Chooser) Weighted(label string, w []int) int {
	n := len(w)
	if n <= 1 {
		return 0
	}
	c.mu.Lock()
	defer c.mu.Unlock()
	v := 0
	if c.isRep {
		if c.pos < len(c.replay) {
			v = c.replay[c.pos] % n
			if v < 0 {
				v = -v
			}
		}
		c.pos++
		// skip zero-weight entries deterministically
		for k := 0; k < n && w[v] <= 0; k++ {
			v = (v + 1) % n
		}
	} else {
		t := 0
		for _, x := range w {
			if x > 0 {
				t += x
			}
		}
		if t > 0 {
			x := c.r.intn(t)
			for i, wi := range w {
				if wi <= 0 {
					continue
				}
				if x < wi {
					v = i
					break
				}
				x -= wi
			}
		}
	}
	c.Rec = append(c.Rec, Pick{label, n, v})
	return v
}

// Bytes draws n pseudo-random bytes as ONE recorded decision (value = a small
// sub-seed), so that payload content does not bloat the vector.
func (c *Chooser) Bytes(label string, n int) []byte {
	s := c.Choose(label, 1<<16)
	r := rng{s: uint64(s)*0x9e3779b97f4a7c15 + 12345}
	b := make([]byte, n)
	for i := range b {
		b[i] = byte(r.next())
	}
	return b
}

func (c *Chooser) Values() []int {
	c.mu.Lock()
	defer c.mu.Unlock()
	out := make([]int, len(c.Rec))
	for i, p := range c.Rec {
		out[i] = p.V
	}
	return out
}

// ---------------------------------------------------------------- World

// World is the state of one simulated run.
type World struct {
	Seed  uint64
	Gen   *Chooser // workload / configuration decisions
	Sched *Chooser // scheduler / fault decisions

	salt atomic.Int64
	step atomic.Int64

	Park       bool   // lock acquisitions may be descheduled on the virtual clock (LockYield)
	Stmt       bool   // statement-level yield points are live in this run (StmtYield)
	StmtMask   uint64 // 3, 15 or 63: one site in 4, 16 or 64 yields in a salted step
	stmtYields atomic.Int64
	parks      atomic.Int64
	rootG      atomic.Int64
	parkedNow  atomic.Int64

	logMu    sync.Mutex
	h        hash.Hash
	lines    []string
	keepLog  bool
	nLines   int
	Probes   map[string]int
	Faults   map[string]int
	probesMu sync.Mutex
}

var cur atomic.Pointer[World]

func NewWorld(seed uint64, gen, sched *Chooser, keepLog bool) *World {
	return &World{Seed: seed, Gen: gen, Sched: sched, h: sha256.New(), keepLog: keepLog,
		Probes: map[string]int{}, Faults: map[string]int{}}
}

func SetWorld(w *World) { cur.Store(w) }
func Cur() *World       { return cur.Load() }

// LockYield is called by simsync before every lock acquisition: in a salted scheduler step a pseudo-random quarter of
// the acquisitions first let every other runnable goroutine go ahead (a yield at lock granularity). The decision is a
// pure function of the step's salt and the call site (like SelectOrder), so it replays and no goroutine left over
// from an earlier run of the same process can shift it.
func LockYield() {
	w := Cur()
	if w == nil {
		return
	}
	s := w.Salt()
	if s == 0 || lockYieldOff {
		return
	}
	// the site: the frames above simsync's Lock, each named by its function and the line's distance from the function's
	// first line - the same for every build in which those functions are unchanged (a return address would change with
	// any edit anywhere, and a replay file would only replay on the very binary that wrote it)
	var pcs [3]uintptr
	k := runtime.Callers(3, pcs[:])
	h := uint64(s) * 0x9e3779b97f4a7c15
	for i := 0; i < k; i++ {
		h = (h ^ siteOf(pcs[i])) * 0x100000001b3
	}
	r := rng{s: h}
	k4 := r.intn(4)
	if k4 > 1 {
		return
	}
	// never the scheduler itself: a harness that calls into the tool from the root goroutine (a cache reset followed by
	// a new writer) means ONE action; were it to yield or be descheduled half way, other actors would run inside it
	if g := w.rootG.Load(); g != 0 && g == goid() {
		return
	}
	if k4 == 0 {
		runtime.Gosched()
		return
	}
	// park mode (engine B-lite, DESIGN.md 7.2): at another eighth of the salted acquisitions the goroutine is
	// DESCHEDULED - durably blocked on the virtual clock - until the scheduler next moves time by at least the
	// drawn duration. Everything the following stimuli make runnable overtakes it right in front of its critical
	// section, as a thread the operating system took off the processor would be. Pure function of salt and site.
	if w.Park && k4 == 1 && r.intn(2) == 0 {
		w.parks.Add(1)
		w.parkedNow.Add(1)
		time.Sleep(parkDur[r.intn(len(parkDur))])
		w.parkedNow.Add(-1)
	}
}

// StmtYield is the statement-level yield point the overlay generator inserts in front of every statement of the files
// rules.json names (T6, "engine B" at statement granularity). It does nothing unless the run opted in (World.Stmt). In
// a salted scheduler step one site in 4, 16 or 64 (World.StmtMask, drawn per run) - a pure function of the salt and the site, so it is recorded by the choice
// vector and replays - lets every other runnable goroutine go ahead before the statement (a preemption between two
// adjacent non-blocking statements), and in park runs half of those deschedule the goroutine on the virtual clock like
// LockYield does. Never the scheduler's own goroutine.
func StmtYield(site uint32) {
	w := Cur()
	if w == nil || !w.Stmt {
		return
	}
	s := w.Salt()
	if s == 0 {
		return
	}
	h := (uint64(s)*0x9e3779b97f4a7c15 ^ uint64(site)) * 0x100000001b3
	h ^= h >> 29
	h *= 0xbf58476d1ce4e5b9
	h ^= h >> 32
	if h&w.StmtMask != 0 {
		return
	}
	if g := w.rootG.Load(); g != 0 && g == goid() {
		return
	}
	w.stmtYields.Add(1)
	if w.Park && (h>>6)&1 == 0 {
		w.parks.Add(1)
		w.parkedNow.Add(1)
		time.Sleep(parkDur[(h>>7)&3])
		w.parkedNow.Add(-1)
		return
	}
	runtime.Gosched()
}

// StmtYields reports how often a statement-level yield point fired in this run.
func (w *World) StmtYields() int { return int(w.stmtYields.Load()) }

// ParkedNow reports how many goroutines are descheduled at a lock acquisition right now. A harness that takes
// "nothing is pending" for "the tool has nothing more to do" must also ask this (or move the clock first).
func (w *World) ParkedNow() int { return int(w.parkedNow.Load()) }

var parkDur = []time.Duration{time.Nanosecond, time.Nanosecond, 3 * time.Microsecond, 2 * time.Millisecond}

// Parks reports how often a lock acquisition was descheduled in this run.
func (w *World) Parks() int { return int(w.parks.Load()) }

var lockYieldOff = os.Getenv("SIM_LOCK_YIELD") == "0"

func (w *World) SetSalt(s int) { w.salt.Store(int64(s)) }
func (w *World) Salt() int     { return int(w.salt.Load()) }
func (w *World) NextStep() int { return int(w.step.Add(1)) }
func (w *World) Step() int     { return int(w.step.Load()) }

// Logf appends a line to the event log. It never draws from a chooser and
// never reads a clock.
func (w *World) Logf(format string, a ...any) {
	s := fmt.Sprintf(format, a...)
	w.logMu.Lock()
	w.h.Write([]byte(s))
	w.h.Write([]byte{'\n'})
	w.nLines++
	if w.keepLog {
		w.lines = append(w.lines, s)
	}
	w.logMu.Unlock()
}

// Tracef appends a line to the kept log only: it is shown in traces but is not part of the digest. For events whose
// position between two scheduler steps is the Go runtime's choice (connection closes during a shutdown).
func (w *World) Tracef(format string, a ...any) {
	w.logMu.Lock()
	if w.keepLog {
		w.lines = append(w.lines, fmt.Sprintf(format, a...))
	}
	w.logMu.Unlock()
}

func (w *World) Digest() string {
	w.logMu.Lock()
	defer w.logMu.Unlock()
	return hex.EncodeToString(w.h.Sum(nil))[:32]
}

func (w *World) Lines() []string {
	w.logMu.Lock()
	defer w.logMu.Unlock()
	return append([]string(nil), w.lines...)
}

func (w *World) NumLines() int { w.logMu.Lock(); defer w.logMu.Unlock(); return w.nLines }

func (w *World) Probe(name string) {
	w.probesMu.Lock()
	w.Probes[name]++
	w.probesMu.Unlock()
}

func (w *World) Fault(name string) {
	w.probesMu.Lock()
	w.Faults[name]++
	w.probesMu.Unlock()
}

// Probe records a "rare condition reached" event on the current world.
func Probe(name string) {
	if w := Cur(); w != nil {
		w.Probe(name)
	}
}

// ---------------------------------------------------------------- hooks used by rewritten sources

func siteHash(site string) uint64 {
	var h uint64 = 1469598103934665603
	for i := 0; i < len(site); i++ {
		h ^= uint64(site[i])
		h *= 1099511628211
	}
	return h
}

// SelectOrder returns the order in which a rewritten select polls its n
// communication clauses. nil outside a simulation (=> plain blocking select).
// The order is a pure function of (site, salt): identity for salt 0.
func SelectOrder(site string, n int) []int {
	w := Cur()
	if w == nil {
		return nil
	}
	// every rewritten select is a yield point: a loop that spins through selects without ever blocking (the sender
	// after its run scope was cancelled, until the closer's helper goroutine has marked it closed) would otherwise
	// last until the runtime's wall-clock preemption, i.e. a non-replayable number of iterations
	runtime.Gosched()
	order := make([]int, n)
	for i := range order {
		order[i] = i
	}
	s := w.Salt()
	if s == 0 || n < 2 {
		return order
	}
	r := rng{s: siteHash(site) ^ uint64(s)*0x9e3779b97f4a7c15}
	for i := n - 1; i > 0; i-- {
		j := r.intn(i + 1)
		order[i], order[j] = order[j], order[i]
	}
	return order
}

// SelectOrderPinned: source order inside a simulation, nil outside. Used for selects whose permutation
// only triggers a cancellation livelock unrelated to any property (pkg/sync/close_wait.go: the helper
// goroutine may take its own Done branch and never mark the closer closed; see DESIGN.md §5).
func SelectOrderPinned(site string, n int) []int {
	if Cur() == nil {
		return nil
	}
	runtime.Gosched()
	order := make([]int, n)
	for i := range order {
		order[i] = i
	}
	return order
}

// MapOrderInts / MapOrderStrings: deterministic iteration orders for rewritten
// `range m` loops: keys sorted, then rotated by the salt.
func rotate(n int, site string) int {
	w := Cur()
	if w == nil || n < 2 {
		return 0
	}
	s := w.Salt()
	if s == 0 {
		return 0
	}
	r := rng{s: siteHash(site) ^ uint64(s)*0x2545f4914f6cdd1d}
	return r.intn(n)
}

// SortedKeys returns the keys of any map in a deterministic order
// (sorted by printed form, rotated by the per-step salt).
func SortedKeys[K comparable, V any](site string, m map[K]V) []K {
	keys := make([]K, 0, len(m))
	for k := range m {
		keys = append(keys, k)
	}
	type kv struct {
		k K
		s string
	}
	tmp := make([]kv, len(keys))
	for i, k := range keys {
		tmp[i] = kv{k, fmt.Sprintf("%020v", k)}
	}
	sort.Slice(tmp, func(i, j int) bool { return tmp[i].s < tmp[j].s })
	rot := rotate(len(tmp), site)
	out := make([]K, 0, len(tmp))
	for i := range tmp {
		out = append(out, tmp[(i+rot)%len(tmp)].k)
	}
	return out
}

// Rand64 is the deterministic replacement for unseeded randomness in the
// repository (math/rand globals, crypto/rand): a function of (seed, site, n-th call).
var randCtr atomic.Uint64

func Rand64(site string) uint64 {
	w := Cur()
	var seed uint64 = 42
	if w != nil {
		seed = w.Seed
	}
	c := randCtr.Add(1)
	r := rng{s: seed ^ siteHash(site) ^ c*0x9e3779b97f4a7c15}
	return r.next()
}

func ResetRand() { randCtr.Store(0) }

// MarkRoot records the calling goroutine as the run's scheduler (root of the bubble).
func (w *World) MarkRoot() { w.rootG.Store(goid()) }

// GoID is the current goroutine's number: harnesses whose actors are goroutines of their own use it to attribute what
// a goroutine does (a dial) to the actor it belongs to. Never printed, never part of a digest.
func GoID() int64 { return goid() }

// goid parses the current goroutine's number out of its stack header ("goroutine 123 [running]:"). Only called on
// the rare path that is about to park.
func goid() int64 {
	var buf [40]byte
	n := runtime.Stack(buf[:], false)
	var id int64
	for _, c := range buf[len("goroutine "):n] {
		if c < '0' || c > '9' {
			break
		}
		id = id*10 + int64(c-'0')
	}
	return id
}

var siteCache sync.Map // pc -> uint64

// siteOf names a return address by function name and line offset inside the function (FNV-1a), cached per pc.
func siteOf(pc uintptr) uint64 {
	if v, ok := siteCache.Load(pc); ok {
		return v.(uint64)
	}
	h := uint64(14695981039346656037)
	if f := runtime.FuncForPC(pc - 1); f != nil {
		_, line := f.FileLine(pc - 1)
		_, entry := f.FileLine(f.Entry())
		for _, c := range []byte(f.Name()) {
			h = (h ^ uint64(c)) * 1099511628211
		}
		h = (h ^ uint64(line-entry+1000)) * 1099511628211
	} else {
		h ^= uint64(pc)
	}
	siteCache.Store(pc, h)
	return h
}
