// Package resp is the simulator's own RESP codec (shares no code with the repository).
package resp

import (
	"bytes"
	"errors"
	"strconv"
)

var ErrProto = errors.New("resp: protocol error")

// ParseRequest parses one client request (multi-bulk or inline) from buf.
// ok=false means more bytes are needed.
func ParseRequest(buf []byte) (args [][]byte, n int, ok bool, err error) {
	if len(buf) == 0 {
		return nil, 0, false, nil
	}
	if buf[0] != '*' {
		// inline command
		i := bytes.IndexByte(buf, '\n')
		if i < 0 {
			return nil, 0, false, nil
		}
		line := bytes.TrimRight(buf[:i], "\r")
		for _, f := range bytes.Fields(line) {
			args = append(args, append([]byte(nil), f...))
		}
		return args, i + 1, true, nil
	}
	p := 0
	line, m, lok := readLine(buf[p:])
	if !lok {
		return nil, 0, false, nil
	}
	cnt, e := strconv.Atoi(string(line[1:]))
	if e != nil {
		return nil, 0, false, ErrProto
	}
	p += m
	if cnt < 0 {
		cnt = 0
	}
	args = make([][]byte, 0, cnt)
	for i := 0; i < cnt; i++ {
		line, m, lok = readLine(buf[p:])
		if !lok {
			return nil, 0, false, nil
		}
		if len(line) == 0 || line[0] != '$' {
			return nil, 0, false, ErrProto
		}
		l, e := strconv.Atoi(string(line[1:]))
		if e != nil || l < 0 {
			return nil, 0, false, ErrProto
		}
		p += m
		if len(buf) < p+l+2 {
			return nil, 0, false, nil
		}
		args = append(args, append([]byte(nil), buf[p:p+l]...))
		if buf[p+l] != '\r' || buf[p+l+1] != '\n' {
			return nil, 0, false, ErrProto
		}
		p += l + 2
	}
	return args, p, true, nil
}

func readLine(b []byte) (line []byte, n int, ok bool) {
	i := bytes.Index(b, []byte("\r\n"))
	if i < 0 {
		return nil, 0, false
	}
	return b[:i], i + 2, true
}

// Value is a reply value.
type Value struct {
	Kind  byte // '+', '-', ':', '$', '*', '_' (nil bulk), 'N' (nil array)
	Str   []byte
	Int   int64
	Elems []Value
}

func OK() Value                { return Value{Kind: '+', Str: []byte("OK")} }
func Simple(s string) Value    { return Value{Kind: '+', Str: []byte(s)} }
func Err(s string) Value       { return Value{Kind: '-', Str: []byte(s)} }
func Int(i int64) Value        { return Value{Kind: ':', Int: i} }
func Bulk(b []byte) Value      { return Value{Kind: '$', Str: b} }
func BulkS(s string) Value     { return Value{Kind: '$', Str: []byte(s)} }
func Nil() Value               { return Value{Kind: '_'} }
func NilArray() Value          { return Value{Kind: 'N'} }
func Array(vs ...Value) Value  { return Value{Kind: '*', Elems: vs} }
func (v Value) IsErr() bool    { return v.Kind == '-' }
func (v Value) String() string { return string(v.Encode(nil)) }

func (v Value) Encode(dst []byte) []byte {
	switch v.Kind {
	case '+', '-':
		dst = append(dst, v.Kind)
		dst = append(dst, v.Str...)
		dst = append(dst, '\r', '\n')
	case ':':
		dst = append(dst, ':')
		dst = strconv.AppendInt(dst, v.Int, 10)
		dst = append(dst, '\r', '\n')
	case '$':
		dst = append(dst, '$')
		dst = strconv.AppendInt(dst, int64(len(v.Str)), 10)
		dst = append(dst, '\r', '\n')
		dst = append(dst, v.Str...)
		dst = append(dst, '\r', '\n')
	case '_':
		dst = append(dst, "$-1\r\n"...)
	case 'N':
		dst = append(dst, "*-1\r\n"...)
	case '*':
		dst = append(dst, '*')
		dst = strconv.AppendInt(dst, int64(len(v.Elems)), 10)
		dst = append(dst, '\r', '\n')
		for _, e := range v.Elems {
			dst = e.Encode(dst)
		}
	}
	return dst
}

// EncodeCommand encodes a command as a RESP multi-bulk (used by stream generators).
func EncodeCommand(args ...[]byte) []byte {
	var b []byte
	b = append(b, '*')
	b = strconv.AppendInt(b, int64(len(args)), 10)
	b = append(b, '\r', '\n')
	for _, a := range args {
		b = append(b, '$')
		b = strconv.AppendInt(b, int64(len(a)), 10)
		b = append(b, '\r', '\n')
		b = append(b, a...)
		b = append(b, '\r', '\n')
	}
	return b
}

func EncodeCommandS(args ...string) []byte {
	bs := make([][]byte, len(args))
	for i, a := range args {
		bs[i] = []byte(a)
	}
	return EncodeCommand(bs...)
}
