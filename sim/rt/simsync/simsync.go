// Package simsync replaces package sync in the repository's disk-cache package (pkg/store). Mutex and RWMutex
// are built on channels, so that a goroutine WAITING for a lock is durably blocked in the sense of
// testing/synctest. pkg/store holds a reader's mutex across its 10 ms end-of-file polling sleep
// (AofRotateReader.read) while Close() of that reader needs the same mutex: with the real sync.RWMutex the closing
// goroutine would be runnable-but-stuck, the bubble's virtual clock would never advance and the run would hang.
// Everything else is the real thing. No scheduling hooks here (engine A); DESIGN.md §2.4 would add a Yield in Lock.
package simsync

import (
	"sync"
	"sync/atomic"

	"verifsim/simrt"
)

type (
	WaitGroup = sync.WaitGroup
	Cond      = sync.Cond
	Pool      = sync.Pool
	Map       = sync.Map
	Locker    = sync.Locker
)

func NewCond(l Locker) *Cond                                   { return sync.NewCond(l) }
func OnceFunc(f func()) func()                                 { return sync.OnceFunc(f) }
func OnceValue[T any](f func() T) func() T                     { return sync.OnceValue(f) }
func OnceValues[T1, T2 any](f func() (T1, T2)) func() (T1, T2) { return sync.OnceValues(f) }

// RWMutex: zero value is an unlocked mutex. Not writer-preferring (readers may overtake a waiting writer).
type RWMutex struct {
	mu      sync.Mutex // guards the fields; never held while blocking
	readers int
	writer  bool
	waiters []chan struct{}
}

func (rw *RWMutex) wakeLocked() {
	for _, c := range rw.waiters {
		close(c)
	}
	rw.waiters = nil
}

func (rw *RWMutex) Lock() {
	simrt.LockYield()
	for {
		rw.mu.Lock()
		if !rw.writer && rw.readers == 0 {
			rw.writer = true
			rw.mu.Unlock()
			return
		}
		c := make(chan struct{})
		rw.waiters = append(rw.waiters, c)
		rw.mu.Unlock()
		<-c
	}
}

func (rw *RWMutex) TryLock() bool {
	rw.mu.Lock()
	defer rw.mu.Unlock()
	if !rw.writer && rw.readers == 0 {
		rw.writer = true
		return true
	}
	return false
}

func (rw *RWMutex) Unlock() {
	rw.mu.Lock()
	if !rw.writer {
		rw.mu.Unlock()
		panic("simsync: Unlock of unlocked RWMutex")
	}
	rw.writer = false
	rw.wakeLocked()
	rw.mu.Unlock()
}

func (rw *RWMutex) RLock() {
	simrt.LockYield()
	for {
		rw.mu.Lock()
		if !rw.writer {
			rw.readers++
			rw.mu.Unlock()
			return
		}
		c := make(chan struct{})
		rw.waiters = append(rw.waiters, c)
		rw.mu.Unlock()
		<-c
	}
}

func (rw *RWMutex) TryRLock() bool {
	rw.mu.Lock()
	defer rw.mu.Unlock()
	if !rw.writer {
		rw.readers++
		return true
	}
	return false
}

func (rw *RWMutex) RUnlock() {
	rw.mu.Lock()
	if rw.readers <= 0 {
		rw.mu.Unlock()
		panic("simsync: RUnlock of unlocked RWMutex")
	}
	rw.readers--
	if rw.readers == 0 {
		rw.wakeLocked()
	}
	rw.mu.Unlock()
}

type rlocker RWMutex

func (r *rlocker) Lock()   { (*RWMutex)(r).RLock() }
func (r *rlocker) Unlock() { (*RWMutex)(r).RUnlock() }

func (rw *RWMutex) RLocker() Locker { return (*rlocker)(rw) }

// Mutex: zero value is an unlocked mutex.
type Mutex struct{ rw RWMutex }

func (m *Mutex) Lock()         { m.rw.Lock() }
func (m *Mutex) Unlock()       { m.rw.Unlock() }
func (m *Mutex) TryLock() bool { return m.rw.TryLock() }

// Once: the real sync.Once holds a real mutex while f runs; a second caller then waits on that mutex, which is not a
// durable block, while f itself may be descheduled at a simulated lock (park mode) - the bubble would never settle.
type Once struct {
	done atomic.Uint32
	m    Mutex
}

func (o *Once) Do(f func()) {
	if o.done.Load() == 0 {
		o.doSlow(f)
	}
}

func (o *Once) doSlow(f func()) {
	o.m.Lock()
	defer o.m.Unlock()
	if o.done.Load() == 0 {
		defer o.done.Store(1)
		f()
	}
}
