package rdbgen

import (
	"encoding/binary"
	"math"
	"strconv"
)

// ---------------------------------------------------------------- RDB primitives

// buf is an append-only byte buffer.
type buf struct {
	b        []byte
	compress bool
	// statistics of encodings actually used (coverage evidence)
	stats map[string]int
}

func (w *buf) count(what string) {
	if w.stats != nil {
		w.stats[what]++
	}
}

func (w *buf) byte(b byte)      { w.b = append(w.b, b) }
func (w *buf) bytes(p []byte)   { w.b = append(w.b, p...) }
func (w *buf) le64(v uint64)    { w.b = binary.LittleEndian.AppendUint64(w.b, v) }
func (w *buf) le32(v uint32)    { w.b = binary.LittleEndian.AppendUint32(w.b, v) }
func (w *buf) double(f float64) { w.le64(math.Float64bits(f)) }

// length: the RDB length encoding, smallest form.
//
//	00xxxxxx                      6 bit
//	01xxxxxx xxxxxxxx             14 bit, big endian
//	10000000 + 4 bytes big endian 32 bit
//	10000001 + 8 bytes big endian 64 bit
func (w *buf) length(n uint64) {
	switch {
	case n < 1<<6:
		w.byte(byte(n))
		w.count("len6")
	case n < 1<<14:
		w.byte(0x40 | byte(n>>8))
		w.byte(byte(n))
		w.count("len14")
	case n <= math.MaxUint32:
		w.byte(0x80)
		w.b = binary.BigEndian.AppendUint32(w.b, uint32(n))
		w.count("len32")
	default:
		w.byte(0x81)
		w.b = binary.BigEndian.AppendUint64(w.b, n)
		w.count("len64")
	}
}

// canonInt reports whether s is the canonical decimal form of a signed 64-bit integer
// (what strtoll-then-print round trips: no sign for positives, no leading zeros, no "-0").
func canonInt(s []byte) (int64, bool) {
	if len(s) == 0 || len(s) > 20 {
		return 0, false
	}
	v, err := strconv.ParseInt(string(s), 10, 64)
	if err != nil {
		return 0, false
	}
	if strconv.FormatInt(v, 10) != string(s) {
		return 0, false
	}
	return v, true
}

// str writes an RDB string the way a saving server does: integer encoding for canonical integers
// that fit 32 bits (smallest width), LZF when compression is on, the string is longer than 20 bytes
// and compression saves at least 4 bytes, plain length-prefixed bytes otherwise.
//
//	11000000 + int8 | 11000001 + int16 LE | 11000010 + int32 LE | 11000011 clen ulen <lzf bytes>
func (w *buf) str(s []byte) {
	if len(s) <= 11 {
		if v, ok := canonInt(s); ok && v >= math.MinInt32 && v <= math.MaxInt32 {
			switch {
			case v >= math.MinInt8 && v <= math.MaxInt8:
				w.byte(0xc0)
				w.byte(byte(int8(v)))
				w.count("str-int8")
			case v >= math.MinInt16 && v <= math.MaxInt16:
				w.byte(0xc1)
				w.b = binary.LittleEndian.AppendUint16(w.b, uint16(int16(v)))
				w.count("str-int16")
			default:
				w.byte(0xc2)
				w.le32(uint32(int32(v)))
				w.count("str-int32")
			}
			return
		}
	}
	if w.compress && len(s) > 20 {
		c := LZFCompress(s)
		if len(c) <= len(s)-4 {
			w.byte(0xc3)
			w.length(uint64(len(c)))
			w.length(uint64(len(s)))
			w.bytes(c)
			w.count("str-lzf")
			return
		}
	}
	w.rawStr(s)
}

// rawStr: length-prefixed bytes, no transformation.
func (w *buf) rawStr(s []byte) {
	w.length(uint64(len(s)))
	w.bytes(s)
	w.count("str-raw")
}

// ---------------------------------------------------------------- ziplist
//
//	<zlbytes u32 LE> <zltail u32 LE> <zllen u16 LE> entry* 0xFF
//	entry  = prevlen encoding payload
//	prevlen: 1 byte (< 254) or 0xFE + u32 LE
//	encoding: 00pppppp                 string, 6-bit length
//	          01pppppp qqqqqqqq        string, 14-bit length (big endian)
//	          10000000 + u32 BE        string, 32-bit length
//	          11000000 int16 LE | 11010000 int32 LE | 11100000 int64 LE | 11110000 int24 LE | 11111110 int8
//	          1111xxxx (xxxx = 0001..1101) immediate 0..12
//
// Elements that are canonical integers are stored as integers (smallest form), as a server does.
type zlOpts struct {
	unknownLen bool
	bigPrevMod int
	stats      map[string]int
}

func ziplist(elems [][]byte, o zlOpts) []byte {
	body := make([]byte, 0, 64)
	prevLen := 0
	tail := 10
	cnt := func(s string) {
		if o.stats != nil {
			o.stats[s]++
		}
	}
	for i, e := range elems {
		start := len(body)
		tail = 10 + start
		if prevLen >= 254 || (o.bigPrevMod > 0 && i > 0 && i%o.bigPrevMod == 0) {
			body = append(body, 0xfe)
			body = binary.LittleEndian.AppendUint32(body, uint32(prevLen))
			if prevLen >= 254 {
				cnt("zl-prevlen5")
			} else {
				cnt("zl-prevlen5-forced")
			}
		} else {
			body = append(body, byte(prevLen))
		}
		if v, ok := canonInt(e); ok && len(e) < 32 {
			switch {
			case v >= 0 && v <= 12:
				body = append(body, 0xf1+byte(v))
				cnt("zl-int4")
			case v >= math.MinInt8 && v <= math.MaxInt8:
				body = append(body, 0xfe, byte(int8(v)))
				cnt("zl-int8")
			case v >= math.MinInt16 && v <= math.MaxInt16:
				body = append(body, 0xc0)
				body = binary.LittleEndian.AppendUint16(body, uint16(int16(v)))
				cnt("zl-int16")
			case v >= -(1<<23) && v <= (1<<23)-1:
				u := uint32(int32(v))
				body = append(body, 0xf0, byte(u), byte(u>>8), byte(u>>16))
				if v < 0 {
					cnt("zl-int24-neg")
				} else {
					cnt("zl-int24")
				}
			case v >= math.MinInt32 && v <= math.MaxInt32:
				body = append(body, 0xd0)
				body = binary.LittleEndian.AppendUint32(body, uint32(int32(v)))
				cnt("zl-int32")
			default:
				body = append(body, 0xe0)
				body = binary.LittleEndian.AppendUint64(body, uint64(v))
				cnt("zl-int64")
			}
		} else {
			switch {
			case len(e) <= 63:
				body = append(body, byte(len(e)))
				cnt("zl-str6")
			case len(e) <= 16383:
				body = append(body, 0x40|byte(len(e)>>8), byte(len(e)))
				cnt("zl-str14")
			default:
				body = append(body, 0x80)
				body = binary.BigEndian.AppendUint32(body, uint32(len(e)))
				cnt("zl-str32")
			}
			body = append(body, e...)
		}
		prevLen = len(body) - start
	}
	out := make([]byte, 0, 11+len(body))
	out = binary.LittleEndian.AppendUint32(out, uint32(11+len(body)))
	out = binary.LittleEndian.AppendUint32(out, uint32(tail))
	n := len(elems)
	if n >= 0xffff || o.unknownLen {
		n = 0xffff
		cnt("zl-unknown-len")
	}
	out = binary.LittleEndian.AppendUint16(out, uint16(n))
	out = append(out, body...)
	out = append(out, 0xff)
	return out
}

// ---------------------------------------------------------------- listpack
//
//	<total bytes u32 LE> <num elements u16 LE> entry* 0xFF
//	entry = encoding+payload, then back-length
//	0xxxxxxx                    7-bit unsigned integer
//	10xxxxxx + bytes            string, 6-bit length
//	110xxxxx xxxxxxxx           13-bit signed integer
//	1110xxxx xxxxxxxx + bytes   string, 12-bit length
//	11110000 + u32 LE + bytes   string, 32-bit length
//	11110001 int16 LE | 11110010 int24 LE | 11110011 int32 LE | 11110100 int64 LE
//	back-length: length of encoding+payload in 7-bit groups, most significant group first, every byte
//	but the first has the high bit set (so that it can be parsed right to left).
type lpBuilder struct {
	body  []byte
	n     int
	stats map[string]int
}

func (l *lpBuilder) cnt(s string) {
	if l.stats != nil {
		l.stats[s]++
	}
}

func (l *lpBuilder) backlen(n int) {
	switch {
	case n <= 127:
		l.body = append(l.body, byte(n))
	case n < 16383:
		l.body = append(l.body, byte(n>>7), byte(n&127)|128)
	case n < 2097151:
		l.body = append(l.body, byte(n>>14), byte((n>>7)&127)|128, byte(n&127)|128)
	case n < 268435455:
		l.body = append(l.body, byte(n>>21), byte((n>>14)&127)|128, byte((n>>7)&127)|128, byte(n&127)|128)
	default:
		l.body = append(l.body, byte(n>>28), byte((n>>21)&127)|128, byte((n>>14)&127)|128, byte((n>>7)&127)|128, byte(n&127)|128)
	}
}

func (l *lpBuilder) addInt(v int64) {
	start := len(l.body)
	switch {
	case v >= 0 && v <= 127:
		l.body = append(l.body, byte(v))
		l.cnt("lp-uint7")
	case v >= -4096 && v <= 4095:
		u := uint16(v) & 0x1fff
		l.body = append(l.body, 0xc0|byte(u>>8), byte(u))
		if v < 0 {
			l.cnt("lp-int13-neg")
		} else {
			l.cnt("lp-int13")
		}
	case v >= math.MinInt16 && v <= math.MaxInt16:
		l.body = append(l.body, 0xf1)
		l.body = binary.LittleEndian.AppendUint16(l.body, uint16(int16(v)))
		l.cnt("lp-int16")
	case v >= -(1<<23) && v <= (1<<23)-1:
		u := uint32(int32(v))
		l.body = append(l.body, 0xf2, byte(u), byte(u>>8), byte(u>>16))
		if v < 0 {
			l.cnt("lp-int24-neg")
		} else {
			l.cnt("lp-int24")
		}
	case v >= math.MinInt32 && v <= math.MaxInt32:
		l.body = append(l.body, 0xf3)
		l.body = binary.LittleEndian.AppendUint32(l.body, uint32(int32(v)))
		l.cnt("lp-int32")
	default:
		l.body = append(l.body, 0xf4)
		l.body = binary.LittleEndian.AppendUint64(l.body, uint64(v))
		l.cnt("lp-int64")
	}
	l.backlen(len(l.body) - start)
	l.n++
}

// add appends an element; canonical integers become integer entries, as in a server.
func (l *lpBuilder) add(e []byte) {
	if v, ok := canonInt(e); ok {
		l.addInt(v)
		return
	}
	start := len(l.body)
	switch {
	case len(e) < 64:
		l.body = append(l.body, 0x80|byte(len(e)))
		l.cnt("lp-str6")
	case len(e) < 4096:
		l.body = append(l.body, 0xe0|byte(len(e)>>8), byte(len(e)))
		l.cnt("lp-str12")
	default:
		l.body = append(l.body, 0xf0)
		l.body = binary.LittleEndian.AppendUint32(l.body, uint32(len(e)))
		l.cnt("lp-str32")
	}
	l.body = append(l.body, e...)
	l.backlen(len(l.body) - start)
	l.n++
}

func (l *lpBuilder) finish() []byte {
	out := make([]byte, 0, 7+len(l.body))
	out = binary.LittleEndian.AppendUint32(out, uint32(7+len(l.body)))
	n := l.n
	if n >= 0xffff {
		n = 0xffff
	}
	out = binary.LittleEndian.AppendUint16(out, uint16(n))
	out = append(out, l.body...)
	out = append(out, 0xff)
	return out
}

func listpack(elems [][]byte, stats map[string]int) []byte {
	l := &lpBuilder{stats: stats}
	for _, e := range elems {
		l.add(e)
	}
	return l.finish()
}

// ---------------------------------------------------------------- intset
//
//	<encoding u32 LE: 2|4|8> <count u32 LE> <sorted integers, little endian, `encoding` bytes each>
func intset(vals []int64, width int) []byte {
	out := make([]byte, 0, 8+len(vals)*width)
	out = binary.LittleEndian.AppendUint32(out, uint32(width))
	out = binary.LittleEndian.AppendUint32(out, uint32(len(vals)))
	for _, v := range vals {
		switch width {
		case 2:
			out = binary.LittleEndian.AppendUint16(out, uint16(int16(v)))
		case 4:
			out = binary.LittleEndian.AppendUint32(out, uint32(int32(v)))
		default:
			out = binary.LittleEndian.AppendUint64(out, uint64(v))
		}
	}
	return out
}

// ---------------------------------------------------------------- zipmap (hashes of very old files)
//
//	<zmlen u8 (>= 254: count by traversal)> ( <len> key <len> <free u8> value <free bytes> )* 0xFF
//	<len>: 1 byte (< 254) or 0xFE + u32 little endian
func zipmap(fields []HField, unknownLen bool, maxFree int, stats map[string]int) []byte {
	cnt := func(s string) {
		if stats != nil {
			stats[s]++
		}
	}
	out := []byte{byte(len(fields))}
	if len(fields) >= 254 || unknownLen {
		out[0] = 254
		cnt("zm-unknown-len")
	}
	putLen := func(n int) {
		if n < 254 {
			out = append(out, byte(n))
			return
		}
		out = append(out, 0xfe)
		out = binary.LittleEndian.AppendUint32(out, uint32(n))
		cnt("zm-biglen")
	}
	for i, f := range fields {
		putLen(len(f.Field))
		out = append(out, f.Field...)
		putLen(len(f.Value))
		free := 0
		if maxFree > 0 {
			free = i % (maxFree + 1)
		}
		out = append(out, byte(free))
		out = append(out, f.Value...)
		for k := 0; k < free; k++ {
			out = append(out, 0xaa)
		}
		if free > 0 {
			cnt("zm-free")
		}
	}
	out = append(out, 0xff)
	return out
}

// ---------------------------------------------------------------- score text

// scoreText17: the text a server stores for a sorted-set score inside a ziplist/listpack and in the
// text-score table format: integers in the exactly representable range as decimal integers,
// otherwise 17 significant digits ("%.17g"), "inf"/"-inf".
func scoreText(f float64, shortest bool) []byte {
	switch {
	case math.IsInf(f, 1):
		return []byte("inf")
	case math.IsInf(f, -1):
		return []byte("-inf")
	case math.IsNaN(f):
		return []byte("nan")
	}
	if f == 0 {
		if math.Signbit(f) {
			return []byte("-0")
		}
		return []byte("0")
	}
	if f > -(1<<52) && f < (1<<52) && f == math.Trunc(f) {
		return []byte(strconv.FormatInt(int64(f), 10))
	}
	if shortest {
		return []byte(strconv.FormatFloat(f, 'g', -1, 64))
	}
	return []byte(strconv.FormatFloat(f, 'g', 17, 64))
}
