// Package rdbgen is the simulator's snapshot side: a logical dataset model, a seeded dataset
// generator and an RDB encoder written from the RDB file-format description (it shares no code
// with the repository's pkg/rdb). The logical dataset is the ground truth of the C03/C04/C20 oracles.
package rdbgen

import (
	"fmt"
	"math"
	"sort"
	"strings"
)

// Kind of a logical value (same letters as the Redis double uses).
type Kind byte

const (
	KString Kind = 's'
	KList   Kind = 'l'
	KSet    Kind = 'S'
	KZSet   Kind = 'z'
	KHash   Kind = 'h'
	KStream Kind = 'x'
)

func (k Kind) String() string {
	switch k {
	case KString:
		return "string"
	case KList:
		return "list"
	case KSet:
		return "set"
	case KZSet:
		return "zset"
	case KHash:
		return "hash"
	case KStream:
		return "stream"
	}
	return "?"
}

// RDB value type bytes (RDB file format).
const (
	TString        = 0
	TList          = 1
	TSet           = 2
	TZSet          = 3
	THash          = 4
	TZSet2         = 5
	THashZipmap    = 9
	TListZiplist   = 10
	TSetIntset     = 11
	TZSetZiplist   = 12
	THashZiplist   = 13
	TQuicklist     = 14
	TStream        = 15
	THashListpack  = 16
	TZSetListpack  = 17
	TQuicklist2    = 18
	TStream2       = 19
	TSetListpack   = 20
	TStream3       = 21
	OpSlotInfo     = 0xf4
	OpFunction2    = 0xf5
	OpIdle         = 0xf8
	OpFreq         = 0xf9
	OpAux          = 0xfa
	OpResizeDB     = 0xfb
	OpExpireMs     = 0xfc
	OpExpireSec    = 0xfd
	OpSelectDB     = 0xfe
	OpEOF          = 0xff
	qlNodePlain    = 1
	qlNodePacked   = 2
	streamFlagDel  = 1
	streamFlagSame = 2
)

// TypeName names an RDB type byte (for samples and signatures).
func TypeName(t byte) string {
	switch t {
	case TString:
		return "string"
	case TList:
		return "list-linked(1)"
	case TSet:
		return "set-table(2)"
	case TZSet:
		return "zset-text(3)"
	case THash:
		return "hash-table(4)"
	case TZSet2:
		return "zset-binary(5)"
	case THashZipmap:
		return "hash-zipmap(9)"
	case TListZiplist:
		return "list-ziplist(10)"
	case TSetIntset:
		return "set-intset(11)"
	case TZSetZiplist:
		return "zset-ziplist(12)"
	case THashZiplist:
		return "hash-ziplist(13)"
	case TQuicklist:
		return "list-quicklist(14)"
	case TStream:
		return "stream-v1(15)"
	case THashListpack:
		return "hash-listpack(16)"
	case TZSetListpack:
		return "zset-listpack(17)"
	case TQuicklist2:
		return "list-quicklist2(18)"
	case TStream2:
		return "stream-v2(19)"
	case TSetListpack:
		return "set-listpack(20)"
	case TStream3:
		return "stream-v3(21)"
	}
	return fmt.Sprintf("type-%d", t)
}

type ZMember struct {
	Member []byte
	Score  float64
}

type HField struct {
	Field, Value []byte
}

type StreamID struct{ Ms, Seq uint64 }

func (a StreamID) Less(b StreamID) bool {
	return a.Ms < b.Ms || (a.Ms == b.Ms && a.Seq < b.Seq)
}
func (a StreamID) String() string { return fmt.Sprintf("%d-%d", a.Ms, a.Seq) }

// StreamEntry is one entry of a stream node. Deleted entries stay in the node (flag set) and are
// NOT part of the logical value.
type StreamEntry struct {
	ID      StreamID
	Fields  [][]byte // field, value, field, value ...
	Deleted bool
}

type PendingEntry struct {
	ID            StreamID
	DeliveryTime  int64
	DeliveryCount uint64
}

type Consumer struct {
	Name       []byte
	SeenTime   int64
	ActiveTime int64
	Pending    []StreamID // subset of the group's PEL
}

type Group struct {
	Name        []byte
	LastID      StreamID
	EntriesRead uint64
	PEL         []PendingEntry
	Consumers   []Consumer
}

// StreamVal: Nodes is the physical layout (one listpack per node, first entry of a node defines the
// master fields); the logical content is Live().
type StreamVal struct {
	Nodes        [][]StreamEntry
	LastID       StreamID
	FirstID      StreamID
	MaxDeletedID StreamID
	EntriesAdded uint64
	Groups       []Group
}

func (s *StreamVal) Live() []StreamEntry {
	var out []StreamEntry
	for _, n := range s.Nodes {
		for _, e := range n {
			if !e.Deleted {
				out = append(out, e)
			}
		}
	}
	return out
}

// Value is a logical value.
type Value struct {
	Kind   Kind
	Str    []byte
	List   [][]byte
	Set    [][]byte  // distinct members
	ZSet   []ZMember // distinct members
	Hash   []HField  // distinct fields
	Stream *StreamVal
}

// Elems is the number of logical elements.
func (v *Value) Elems() int {
	switch v.Kind {
	case KString:
		return 1
	case KList:
		return len(v.List)
	case KSet:
		return len(v.Set)
	case KZSet:
		return len(v.ZSet)
	case KHash:
		return len(v.Hash)
	case KStream:
		return len(v.Stream.Live())
	}
	return 0
}

// Enc is the drawn on-disk encoding of one value: Encode is a pure function of it.
type Enc struct {
	Type          byte
	ZlUnknownLen  bool  // ziplist header length field = 0xFFFF although fewer entries follow
	ZlBigPrevMod  int   // >0: every entry whose index is a positive multiple of it stores its prevlen in the 5-byte form
	NodeSizes     []int // quicklist: elements per node (sum = list length)
	PlainNodes    bool  // quicklist v2: single-element nodes are written as "plain" nodes
	IntsetWidth   int   // 2, 4, 8
	ZmUnknownLen  bool  // zipmap: count byte 254 ("count by traversal")
	ZmFree        int   // zipmap: free bytes after values cycle through 0..ZmFree
	ShortScoreFmt bool  // ziplist/listpack sorted sets: shortest float text instead of %.17g
	SameFields    bool  // streams: entries with the master's field names use the same-fields flag
}

// Key is one key of the dataset.
type Key struct {
	DB       int
	Name     []byte
	Val      *Value
	ExpireAt int64 // absolute unix ms, 0 = none
	ExpSecs  bool  // written in the seconds form (old files only; ExpireAt is a multiple of 1000)
	Idle     int64 // seconds, -1 = not written
	Freq     int   // 0..255, -1 = not written
	Enc      Enc
}

type Aux struct{ Key, Val []byte }

// Dataset is a whole snapshot.
type Dataset struct {
	Version   int // RDB version of the header
	Compress  bool
	Checksum  bool
	Aux       []Aux
	TailAux   []Aux    // written after the last key (scripts of 4.0/5.0 replication snapshots)
	Functions [][]byte // library source code (version >= 10)
	SlotInfo  bool     // slot-info opcodes before the keys (version >= 12, all keys in db 0)
	ResizeDB  bool
	Keys      []*Key // in file order; keys of one DB are contiguous
}

// DBs lists the databases in file order.
func (d *Dataset) DBs() []int {
	var out []int
	for _, k := range d.Keys {
		if len(out) == 0 || out[len(out)-1] != k.DB {
			out = append(out, k.DB)
		}
	}
	return out
}

// Canon renders a logical value canonically, in the same shape as the Redis double's Obj.Canon
// restricted to what the property compares (streams: entries, ids, last id, groups with their last id).
func (v *Value) Canon() string {
	var sb strings.Builder
	sb.WriteString(v.Kind.String() + ":")
	switch v.Kind {
	case KString:
		fmt.Fprintf(&sb, "%q", v.Str)
	case KList:
		for _, e := range v.List {
			fmt.Fprintf(&sb, "%q,", e)
		}
	case KSet:
		ks := make([]string, 0, len(v.Set))
		for _, m := range v.Set {
			ks = append(ks, string(m))
		}
		sort.Strings(ks)
		for _, k := range ks {
			fmt.Fprintf(&sb, "%q,", k)
		}
	case KZSet:
		ms := append([]ZMember(nil), v.ZSet...)
		sort.Slice(ms, func(i, j int) bool { return string(ms[i].Member) < string(ms[j].Member) })
		for _, m := range ms {
			fmt.Fprintf(&sb, "%q=%x,", m.Member, math.Float64bits(m.Score))
		}
	case KHash:
		hs := append([]HField(nil), v.Hash...)
		sort.Slice(hs, func(i, j int) bool { return string(hs[i].Field) < string(hs[j].Field) })
		for _, h := range hs {
			fmt.Fprintf(&sb, "%q=%q,", h.Field, h.Value)
		}
	case KStream:
		sb.WriteString("last=" + v.Stream.LastID.String() + ";")
		for _, e := range v.Stream.Live() {
			sb.WriteString(e.ID.String() + ":")
			for _, f := range e.Fields {
				fmt.Fprintf(&sb, "%q,", f)
			}
			sb.WriteString(";")
		}
		gs := append([]Group(nil), v.Stream.Groups...)
		sort.Slice(gs, func(i, j int) bool { return string(gs[i].Name) < string(gs[j].Name) })
		for _, g := range gs {
			fmt.Fprintf(&sb, "group %q@%s;", g.Name, g.LastID)
		}
	}
	return sb.String()
}

// Describe is a short human-readable description of a key (for samples and messages).
func (k *Key) Describe() string {
	s := fmt.Sprintf("db%d %q %s n=%d", k.DB, trunc(k.Name, 24), TypeName(k.Enc.Type), k.Val.Elems())
	if k.ExpireAt != 0 {
		s += fmt.Sprintf(" exp=%d", k.ExpireAt)
	}
	if k.Enc.ZlUnknownLen {
		s += " zllen=0xFFFF"
	}
	return s
}

func trunc(b []byte, n int) []byte {
	if len(b) > n {
		return b[:n]
	}
	return b
}
