package rdbgen

import (
	"fmt"
	"math"
	"sort"
	"strconv"
	"strings"

	"verifsim/simrt"
)

// Hazard names a family of inputs that can be switched off per run (swarm testing: a run that avoids
// a family explores everything else even while a defect in that family makes other runs fail early).
type Hazard uint32

const (
	HzZiplistUnknownLen Hazard = 1 << iota // ziplists whose header length field is 0xFFFF
	HzZiplistInt24Neg                      // negative integers of the 24-bit range inside ziplists
	HzZipmapBig                            // zipmaps with items of 254+ bytes, 254+ pairs or count byte 254
	HzStreamMixedFields                    // stream nodes holding entries whose field set differs from the master entry
	HzStreamShortMixed                     // ... with FEWER fields than the master entry (see SIM_C03_STREAM_SHORT in the harness)
)

// GenOpts steers the dataset generator. The zero value gives the default small mixed dataset.
type GenOpts struct {
	NowMs            int64 // expiries are placed around this instant (unix ms)
	MinVersion       int   // RDB header version range, default 6..13
	MaxVersion       int
	MaxKeys          int  // default 60
	MaxElems         int  // default 300 (per value, "a few hundred")
	AllowBig         bool // occasionally one value with 500..4000 elements
	UniqueAcrossDBs  bool // key names unique over the whole dataset (needed when the DB map is not injective)
	NoStreams        bool
	MaxStreamVersion int    // 0 = no limit; otherwise no stream unless version <= this (unused by default)
	KindWeights      [6]int // string, list, set, zset, hash, stream; zero value = default mix
	PreferTable      int    // 0..100: probability (percent) to force the plain table/linked encodings
	NearExpiry       bool   // allow expiries within a few ms..seconds after NowMs (they may elapse during the run)
	MaxDBs           int    // default 4 databases out of 0..15
	Off              Hazard // input families NOT to generate in this dataset
	NoEmptyKey       bool   // never draw the empty key name
	MaxElemLen       int    // >0: every element (and string value) is cut to this many bytes (small snapshots for C04)
	KeylessOneIn     int    // function libraries / a "lua" aux script appear in one of N eligible datasets (default 8 / 6)
}

type gen struct {
	c    *simrt.Chooser
	o    GenOpts
	ver  int
	used map[string]bool
	// restrictions while the elements of one value are drawn
	noInt24Neg bool
	maxElemLen int // 0 = unlimited
}

func (g *gen) off(h Hazard) bool { return g.o.Off&h != 0 }

var boundaryInts = []int64{-1, 12, 13, 127, 128, -128, -129, 4095, 4096, -4096, -4097, 32767, 32768, -32768, -32769,
	8388607, 8388608, -8388608, -8388609, 2147483647, 2147483648, -2147483648, -2147483649,
	math.MaxInt64, math.MinInt64, 1 << 52, -(1 << 52), 99999999999, -99999999999}

var nearInts = []string{"007", "+5", "-0", "1.0", " 1", "1 ", "12345678901234567890", "0x10", "1e3", "--1", "", "00", "-", "١٢٣"}

func (g *gen) span(label string, lo, hi int64) int64 {
	n := hi - lo + 1
	if n <= 0 || n > 1<<30 {
		b := g.c.Bytes(label, 8)
		var u uint64
		for _, x := range b {
			u = u<<8 | uint64(x)
		}
		if n <= 0 { // full 64-bit range
			return int64(u)
		}
		return lo + int64(u%uint64(n))
	}
	return lo + int64(g.c.Choose(label, int(n)))
}

// intVal draws an integer so that every ziplist/listpack integer width and sign is hit often.
func (g *gen) intVal() int64 {
	v := g.intValRaw()
	if g.noInt24Neg && v >= -(1<<23) && v < -(1<<15) {
		v = -v
	}
	return v
}

func (g *gen) intValRaw() int64 {
	switch g.c.Choose("intclass", 12) {
	case 0:
		return g.span("i4", 0, 12)
	case 1:
		return g.span("iu7", 13, 127)
	case 2:
		return g.span("i8n", -128, -1)
	case 3:
		return g.span("i13p", 128, 4095)
	case 4:
		return g.span("i13n", -4096, -129)
	case 5:
		if g.c.Choose("sign", 2) == 0 {
			return g.span("i16p", 4096, 32767)
		}
		return g.span("i16n", -32768, -4097)
	case 6:
		return g.span("i24p", 32768, 8388607)
	case 7:
		return g.span("i24n", -8388608, -32769)
	case 8:
		if g.c.Choose("sign", 2) == 0 {
			return g.span("i32p", 8388608, math.MaxInt32)
		}
		return g.span("i32n", math.MinInt32, -8388609)
	case 9:
		if g.c.Choose("sign", 2) == 0 {
			return g.span("i64p", math.MaxInt32+1, math.MaxInt64)
		}
		return g.span("i64n", math.MinInt64, math.MinInt32-1)
	default:
		return boundaryInts[g.c.Choose("ibound", len(boundaryInts))]
	}
}

func (g *gen) binary(label string, n int) []byte { return g.c.Bytes(label, n) }

func (g *gen) compressible(n int) []byte {
	pats := []string{"abcabcabc", "user:profile:", "\x00\x00\x00\x00", "0123456789", "lorem ipsum dolor ", "aaaaaaaa"}
	p := pats[g.c.Choose("pat", len(pats))]
	var sb strings.Builder
	for sb.Len() < n {
		sb.WriteString(p)
		if g.c.Choose("patmix", 5) == 0 {
			sb.WriteString(strconv.Itoa(g.c.Choose("patnum", 1000)))
		}
	}
	return []byte(sb.String()[:n])
}

// elem draws one element (list element, set member, field, value...).
func (g *gen) elem(cheap bool) []byte {
	e := g.elemRaw(cheap)
	if g.maxElemLen > 0 && len(e) > g.maxElemLen {
		e = e[:g.maxElemLen]
	}
	if g.o.MaxElemLen > 0 && len(e) > g.o.MaxElemLen {
		e = e[:g.o.MaxElemLen]
	}
	return e
}

func (g *gen) elemRaw(cheap bool) []byte {
	w := []int{20, 18, 10, 10, 4, 22, 3, 1, 2}
	if cheap {
		w = []int{30, 20, 0, 5, 2, 40, 0, 0, 1}
	}
	switch g.c.Weighted("elemkind", w) {
	case 0:
		return []byte(fmt.Sprintf("f%d", g.c.Choose("word", 5000)))
	case 1:
		return g.binary("bin", g.c.Choose("binlen", 64))
	case 2:
		return g.binary("bin2", 64+g.c.Choose("bin2len", 237))
	case 3:
		return g.compressible(21 + g.c.Choose("cmplen", 380))
	case 4:
		return []byte(nearInts[g.c.Choose("nearint", len(nearInts))])
	case 5:
		return itoa(g.intVal())
	case 6:
		return g.compressible(301 + g.c.Choose("medlen", 3900)) // crosses the 12-bit listpack string limit (4095)
	case 7:
		return g.binary("large", 16380+g.c.Choose("largelen", 40)) // around the 14-bit ziplist string limit (16383)
	default:
		return []byte{}
	}
}

func (g *gen) count(max int) int {
	if max < 1 {
		max = 1
	}
	var n int
	switch g.c.Weighted("nelems", []int{10, 50, 25, 12, 3}) {
	case 0:
		n = 1
	case 1:
		n = 2 + g.c.Choose("n8", 7)
	case 2:
		n = 9 + g.c.Choose("n40", 32)
	case 3:
		n = 41 + g.c.Choose("nmax", 260)
	default:
		if g.o.AllowBig {
			n = 500 + g.c.Choose("nbig", 3500)
		} else {
			n = 41 + g.c.Choose("nmax", 260)
		}
	}
	if n > max && !(g.o.AllowBig && n >= 500) {
		n = max
	}
	return n
}

// distinct draws n distinct elements.
func (g *gen) distinct(n int, draw func() []byte) [][]byte {
	seen := map[string]bool{}
	out := make([][]byte, 0, n)
	for i := 0; len(out) < n; i++ {
		e := draw()
		if seen[string(e)] {
			e = append(append([]byte(nil), e...), []byte(fmt.Sprintf("#%d", i))...)
			if seen[string(e)] {
				continue
			}
		}
		seen[string(e)] = true
		out = append(out, e)
	}
	return out
}

func (g *gen) score() float64 {
	switch g.c.Weighted("scorekind", []int{30, 15, 15, 10, 5, 5, 5, 5, 5, 5}) {
	case 0:
		return float64(g.span("sint", -1000, 1000))
	case 1:
		return float64(g.span("shalf", -4000, 4000)) / 8
	case 2:
		return math.Float64frombits(uint64(g.span("sbits", 0, -1))) // any bit pattern (NaN filtered below)
	case 3:
		return float64(g.intVal())
	case 4:
		return math.Inf(1)
	case 5:
		return math.Inf(-1)
	case 6:
		return []float64{1e300, -1e300, 5e-324, -5e-324, 1.7976931348623157e308, 2.2250738585072014e-308, 0.1, 1.0 / 3}[g.c.Choose("sedge", 8)]
	case 7:
		return 0
	case 8:
		return math.Copysign(0, -1)
	default:
		return float64(g.span("sbig", -1<<53, 1<<53)) * 1024
	}
}

var kindOrder = []Kind{KString, KList, KSet, KZSet, KHash, KStream}

// typesFor: the value types a server writing RDB version `ver` uses for a kind.
func typesFor(ver int, k Kind) []byte {
	switch k {
	case KString:
		return []byte{TString}
	case KList:
		switch {
		case ver <= 6:
			return []byte{TList, TListZiplist}
		case ver <= 9:
			return []byte{TQuicklist}
		}
		return []byte{TQuicklist2}
	case KSet:
		if ver >= 11 {
			return []byte{TSet, TSetIntset, TSetListpack}
		}
		return []byte{TSet, TSetIntset}
	case KZSet:
		switch {
		case ver <= 7:
			return []byte{TZSet, TZSetZiplist}
		case ver <= 9:
			return []byte{TZSet2, TZSetZiplist}
		}
		return []byte{TZSet2, TZSetListpack}
	case KHash:
		switch {
		case ver <= 6:
			return []byte{THash, THashZiplist, THashZipmap}
		case ver <= 9:
			return []byte{THash, THashZiplist}
		}
		return []byte{THash, THashListpack}
	case KStream:
		switch {
		case ver < 9:
			return nil
		case ver == 9:
			return []byte{TStream}
		case ver == 10:
			return []byte{TStream2}
		}
		return []byte{TStream3}
	}
	return nil
}

func (g *gen) keyName(db int) []byte {
	for try := 0; ; try++ {
		var k []byte
		switch g.c.Weighted("keykind", []int{40, 20, 10, 10, 8, 1, 6}) {
		case 0:
			k = []byte(fmt.Sprintf("key:%d", g.c.Choose("keyn", 100000)))
		case 1:
			k = g.binary("keybin", 1+g.c.Choose("keybinlen", 40))
		case 2:
			k = itoa(g.intVal())
		case 3:
			k = g.compressible(25 + g.c.Choose("keylong", 60))
		case 4:
			k = []byte(fmt.Sprintf("{tag%d}:%d", g.c.Choose("tag", 4), g.c.Choose("keyn", 100000)))
		case 5:
			k = []byte{}
			if g.o.NoEmptyKey {
				k = []byte("e")
			}
		default:
			k = []byte([]string{"a b", "line\r\nbreak", "quote\"'", "nul\x00byte", "*3\r\n$3\r\nset", "ключ", "k}{"}[g.c.Choose("keyodd", 7)])
			k = append(k, []byte(strconv.Itoa(g.c.Choose("keyoddn", 50)))...)
		}
		if strings.HasPrefix(string(k), "redis-gunyu") || strings.HasPrefix(string(k), "/redis-gunyu") {
			continue
		}
		id := string(k)
		if !g.o.UniqueAcrossDBs {
			id = fmt.Sprintf("%d/%s", db, k)
		}
		if g.used[id] {
			if try > 3 {
				k = append(k, []byte(fmt.Sprintf("~%d", len(g.used)))...)
				id += fmt.Sprintf("~%d", len(g.used))
				if g.used[id] {
					continue
				}
			} else {
				continue
			}
		}
		g.used[id] = true
		return k
	}
}

func (g *gen) expiry() (at int64, secs bool) {
	now := g.o.NowMs
	w := []int{55, 15, 0, 12, 2, 3, 5}
	if g.o.NearExpiry {
		w[2] = 8
	}
	switch g.c.Weighted("expkind", w) {
	case 0:
		return 0, false
	case 1:
		at = now + 3600_000 + g.span("expfar", 0, 10*365*86400_000)
	case 2:
		at = now + 1 + g.span("expnear", 0, 3000)
	case 3:
		at = now - []int64{1, 2, 1000, 86400_000, 365 * 86400_000}[g.c.Choose("exppast", 5)]
	case 4:
		at = now
	case 5:
		at = 253402300799000 // end of year 9999
	default:
		at = []int64{1, 999, 1000}[g.c.Choose("expepoch", 3)] // shortly after the epoch
	}
	if at <= 0 {
		at = 1
	}
	if g.ver <= 6 && g.c.Choose("expsecs", 4) == 0 && at >= 1000 && at/1000 < 1<<31 {
		at -= at % 1000
		return at, true
	}
	return at, false
}

func (g *gen) zlOpts(e *Enc) {
	if g.c.Choose("zlunknown", 5) == 0 && !g.off(HzZiplistUnknownLen) {
		e.ZlUnknownLen = true
	}
	if g.c.Choose("zlbigprev", 6) == 0 {
		e.ZlBigPrevMod = 1 + g.c.Choose("zlbigprevmod", 4)
	}
}

func (g *gen) value(kind Kind) (*Value, Enc) {
	types := typesFor(g.ver, kind)
	t := types[g.c.Choose("enc", len(types))]
	if g.o.PreferTable > 0 && g.c.Choose("prefertable", 100) < g.o.PreferTable {
		t = types[0]
	}
	e := Enc{Type: t}
	v := &Value{Kind: kind}
	max := g.o.MaxElems
	g.noInt24Neg, g.maxElemLen = false, 0
	defer func() { g.noInt24Neg, g.maxElemLen = false, 0 }()
	switch t {
	case TListZiplist, TQuicklist, TZSetZiplist, THashZiplist:
		g.noInt24Neg = g.off(HzZiplistInt24Neg)
	case THashZipmap:
		if g.off(HzZipmapBig) {
			g.maxElemLen = 252 // 253 is a valid one-byte length, but belongs to the same hazard family
			if max > 253 {
				max = 253
			}
		}
	}
	cheap := false
	nOf := func() int {
		n := g.count(max)
		if n > 60 {
			cheap = true
		}
		return n
	}
	switch kind {
	case KString:
		switch g.c.Weighted("strkind", []int{30, 25, 20, 5, 15, 5}) {
		case 0:
			v.Str = g.elem(false)
		case 1:
			v.Str = itoa(g.intVal())
		case 2:
			v.Str = g.compressible(21 + g.c.Choose("strcmp", 2000))
		case 3:
			v.Str = g.binary("strbig", 5000+g.c.Choose("strbiglen", 60000))
		case 4:
			v.Str = g.binary("strbin", g.c.Choose("strbinlen", 300))
		default:
			v.Str = g.compressible(17000 + g.c.Choose("strcmpbig", 20000))
		}
	case KList:
		n := nOf()
		for i := 0; i < n; i++ {
			v.List = append(v.List, g.elem(cheap))
		}
		switch t {
		case TListZiplist:
			g.zlOpts(&e)
		case TQuicklist, TQuicklist2:
			if t == TQuicklist {
				g.zlOpts(&e)
			} else {
				e.PlainNodes = g.c.Choose("plain", 2) == 0
			}
			rest := n
			for rest > 0 {
				var k int
				switch g.c.Weighted("nodesize", []int{3, 3, 2}) {
				case 0:
					k = 1
				case 1:
					k = 1 + g.c.Choose("nodesmall", 8)
				default:
					k = rest
				}
				if k > rest {
					k = rest
				}
				e.NodeSizes = append(e.NodeSizes, k)
				rest -= k
			}
		}
	case KSet:
		n := nOf()
		if t == TSetIntset {
			// width class first, then members that fit
			width := []int{2, 4, 8}[g.c.Choose("intsetwidth", 3)]
			lo, hi := int64(math.MinInt16), int64(math.MaxInt16)
			switch width {
			case 4:
				lo, hi = math.MinInt32, math.MaxInt32
			case 8:
				lo, hi = math.MinInt64, math.MaxInt64
			}
			seen := map[int64]bool{}
			for len(v.Set) < n {
				x := g.intVal()
				if x < lo || x > hi {
					x = g.span("intsetfit", lo, hi)
				}
				for seen[x] {
					if x == hi {
						x = lo
					} else {
						x++
					}
				}
				seen[x] = true
				v.Set = append(v.Set, itoa(x))
			}
			// a set keeps its width after the wide member was removed: any width >= the needed one is valid
			e.IntsetWidth = width
		} else {
			v.Set = g.distinct(n, func() []byte { return g.elem(cheap) })
		}
	case KZSet:
		n := nOf()
		ms := g.distinct(n, func() []byte { return g.elem(cheap) })
		for _, m := range ms {
			sc := g.score()
			if math.IsNaN(sc) { // a sorted set cannot hold NaN
				sc = 0
			}
			if t == TZSet && sc == 0 {
				sc = 0 // the text table format of old servers prints zero without sign
			}
			v.ZSet = append(v.ZSet, ZMember{Member: m, Score: sc})
		}
		if t == TZSetZiplist {
			g.zlOpts(&e)
		}
		e.ShortScoreFmt = g.ver >= 10 && g.c.Choose("shortscore", 2) == 0
	case KHash:
		n := nOf()
		if t == THashZipmap && n > 300 {
			n = 300
		}
		if t == THashZipmap && n > 253 && g.off(HzZipmapBig) {
			n = 253
		}
		fs := g.distinct(n, func() []byte { return g.elem(cheap) })
		for _, f := range fs {
			v.Hash = append(v.Hash, HField{Field: f, Value: g.elem(cheap)})
		}
		switch t {
		case THashZiplist:
			g.zlOpts(&e)
		case THashZipmap:
			e.ZmUnknownLen = g.c.Choose("zmunknown", 5) == 0 && !g.off(HzZipmapBig)
			e.ZmFree = g.c.Choose("zmfree", 5)
		}
	case KStream:
		v.Stream = g.stream()
	}
	return v, e
}

func (g *gen) stream() *StreamVal {
	s := &StreamVal{}
	nNodes := g.c.Weighted("snodes", []int{2, 6, 4, 2, 1})
	var cur StreamID
	switch g.c.Choose("sbase", 4) {
	case 0:
		cur = StreamID{Ms: 0, Seq: 0}
	case 1:
		cur = StreamID{Ms: uint64(g.span("sbasems", 1, 5000))}
	case 2:
		cur = StreamID{Ms: 1700000000000 + uint64(g.span("sbasems2", 0, 1<<30))}
	default:
		cur = StreamID{Ms: uint64(g.span("sbasems3", 0, 1<<40)), Seq: uint64(g.span("sbaseseq", 0, 1<<34))}
	}
	next := func() StreamID {
		switch g.c.Weighted("sidstep", []int{5, 4, 1, 1}) {
		case 0:
			cur.Seq++
		case 1:
			cur.Ms += 1 + uint64(g.span("sidms", 0, 5000))
			cur.Seq = uint64(g.c.Choose("sidseq0", 3))
		case 2:
			cur.Ms += 1 << 33
			cur.Seq = 0
		default:
			cur.Seq += 1 + uint64(g.span("sidseq", 0, 1<<33))
		}
		return cur
	}
	var maxDel StreamID
	total := uint64(0)
	for n := 0; n < nNodes; n++ {
		nf := 1 + g.c.Choose("snf", 4)
		names := g.distinct(nf, func() []byte { return g.elem(true) })
		ne := 1 + g.c.Choose("snentries", 8)
		var node []StreamEntry
		live := 0
		for i := 0; i < ne; i++ {
			e := StreamEntry{ID: next()}
			total++
			if i == 0 || g.c.Choose("ssame", 10) < 7 || g.off(HzStreamMixedFields) {
				for _, f := range names {
					e.Fields = append(e.Fields, f, g.elem(false))
				}
			} else {
				k := 1 + g.c.Choose("snf2", 4)
				if k < nf && g.off(HzStreamShortMixed) {
					k = nf + g.c.Choose("snf3", 2)
				}
				fs := g.distinct(k, func() []byte { return g.elem(true) })
				for _, f := range fs {
					e.Fields = append(e.Fields, f, g.elem(false))
				}
			}
			if g.c.Choose("sdel", 5) == 0 {
				e.Deleted = true
				if maxDel.Less(e.ID) {
					maxDel = e.ID
				}
			} else {
				live++
			}
			node = append(node, e)
		}
		if live == 0 { // a node whose entries are all deleted is freed by the server
			node[len(node)-1].Deleted = false
		}
		s.Nodes = append(s.Nodes, node)
	}
	// recompute max deleted id after the possible resurrection above
	maxDel = StreamID{}
	for _, n := range s.Nodes {
		for _, e := range n {
			if e.Deleted && maxDel.Less(e.ID) {
				maxDel = e.ID
			}
		}
	}
	s.LastID = cur
	if g.c.Choose("slastbeyond", 4) == 0 { // entries after the last one were deleted and trimmed away
		s.LastID = next()
		total++
		if g.c.Choose("slastdel", 2) == 0 && maxDel.Less(s.LastID) {
			maxDel = s.LastID
		}
	}
	lv := s.Live()
	if len(lv) > 0 {
		s.FirstID = lv[0].ID
	}
	s.MaxDeletedID = maxDel
	s.EntriesAdded = total + uint64(g.c.Choose("sadded", 3))
	all := []StreamID{}
	for _, n := range s.Nodes {
		for _, e := range n {
			all = append(all, e.ID)
		}
	}
	nGroups := g.c.Weighted("sgroups", []int{4, 4, 2, 1})
	gnames := g.distinct(nGroups, func() []byte { return g.elem(true) })
	for _, gn := range gnames {
		grp := Group{Name: gn}
		switch g.c.Choose("sglast", 4) {
		case 0:
			grp.LastID = StreamID{}
		case 1:
			grp.LastID = s.LastID
			grp.EntriesRead = s.EntriesAdded
		case 2:
			if len(all) > 0 {
				i := g.c.Choose("sglastidx", len(all))
				grp.LastID = all[i]
				grp.EntriesRead = uint64(i + 1)
			}
		default:
			if len(all) > 0 {
				grp.LastID = all[len(all)/2]
				grp.EntriesRead = uint64(len(all)/2 + 1)
			}
		}
		// pending entries: delivered ids not beyond the group's last id
		var cand []StreamID
		for _, id := range all {
			if !grp.LastID.Less(id) {
				cand = append(cand, id)
			}
		}
		nCons := g.c.Choose("sncons", 4)
		cnames := g.distinct(nCons, func() []byte { return g.elem(true) })
		for _, cn := range cnames {
			grp.Consumers = append(grp.Consumers, Consumer{Name: cn,
				SeenTime:   g.o.NowMs - g.span("sseen", 0, 100000),
				ActiveTime: g.o.NowMs - g.span("sactive", 0, 100000)})
		}
		if nCons > 0 {
			for _, id := range cand {
				if g.c.Choose("spend", 3) != 0 {
					continue
				}
				grp.PEL = append(grp.PEL, PendingEntry{ID: id, DeliveryTime: g.o.NowMs - g.span("sdeliv", 0, 1000000), DeliveryCount: uint64(1 + g.c.Choose("sdcount", 5))})
				ci := g.c.Choose("spendcons", nCons)
				grp.Consumers[ci].Pending = append(grp.Consumers[ci].Pending, id)
			}
		}
		s.Groups = append(s.Groups, grp)
	}
	return s
}

// Gen draws a dataset. All randomness comes from the chooser.
func Gen(c *simrt.Chooser, o GenOpts) *Dataset {
	if o.MinVersion == 0 {
		o.MinVersion = 6
	}
	if o.MaxVersion == 0 {
		o.MaxVersion = 13
	}
	if o.MaxKeys == 0 {
		o.MaxKeys = 60
	}
	if o.MaxElems == 0 {
		o.MaxElems = 300
	}
	if o.MaxDBs == 0 {
		o.MaxDBs = 4
	}
	g := &gen{c: c, o: o, used: map[string]bool{}}
	g.ver = o.MinVersion + c.Choose("rdbversion", o.MaxVersion-o.MinVersion+1)
	ds := &Dataset{Version: g.ver}
	ds.Compress = c.Choose("compress", 2) == 0
	ds.Checksum = c.Choose("checksum", 10) != 0
	ds.ResizeDB = g.ver >= 7

	if g.ver >= 7 {
		verStr := map[int]string{7: "3.2.13", 8: "4.0.14", 9: "6.2.14", 10: "7.0.15", 11: "7.2.5", 12: "7.4.2", 13: "8.2.1"}[g.ver]
		ds.Aux = append(ds.Aux, Aux{[]byte("redis-ver"), []byte(verStr)}, Aux{[]byte("redis-bits"), []byte("64")},
			Aux{[]byte("ctime"), itoa(o.NowMs / 1000)}, Aux{[]byte("used-mem"), itoa(1000000 + int64(c.Choose("usedmem", 1<<20)))})
		if c.Choose("replaux", 2) == 0 {
			ds.Aux = append(ds.Aux, Aux{[]byte("repl-stream-db"), []byte("0")},
				Aux{[]byte("repl-id"), []byte("8d1f6d9a3b7c5e2f4a6b8c0d1e2f3a4b5c6d7e8f")}, Aux{[]byte("repl-offset"), itoa(int64(c.Choose("reploff", 1<<30)))})
		}
		if g.ver >= 8 {
			ds.Aux = append(ds.Aux, Aux{[]byte("aof-preamble"), []byte("0")})
		}
		luaN := 6
		if o.KeylessOneIn > 0 {
			luaN = o.KeylessOneIn
		}
		if (g.ver == 8 || g.ver == 9) && c.Choose("luaaux", luaN) == 0 {
			ds.TailAux = append(ds.TailAux, Aux{[]byte("lua"), []byte("return redis.call('get', KEYS[1])")})
		}
	}
	fnN := 8
	if o.KeylessOneIn > 0 {
		fnN = o.KeylessOneIn
	}
	if g.ver >= 10 && c.Choose("functions", fnN) == 0 {
		for i := 0; i < 1+c.Choose("nfunc", 2); i++ {
			ds.Functions = append(ds.Functions, []byte(fmt.Sprintf("#!lua name=lib%d\nredis.register_function('fn%d', function(keys, args) return %d end)", i, i, c.Choose("fnret", 100))))
		}
	}

	var nKeys int
	switch c.Weighted("nkeys", []int{2, 30, 50, 18}) {
	case 0:
		nKeys = 0
	case 1:
		nKeys = 1 + c.Choose("nkeys5", 5)
	case 2:
		nKeys = 6 + c.Choose("nkeys25", 20)
	default:
		nKeys = 26 + c.Choose("nkeys60", 35)
	}
	if nKeys > o.MaxKeys {
		nKeys = o.MaxKeys
	}
	nDB := 1 + c.Biased("ndb", o.MaxDBs, 1, 2)
	dbSet := map[int]bool{}
	var dbs []int
	for len(dbs) < nDB {
		d := c.Biased("dbid", 16, 1, 3)
		for dbSet[d] { // next free database (a replayed, shrunk choice vector may repeat a value for ever)
			d = (d + 1) % 16
		}
		dbSet[d] = true
		dbs = append(dbs, d)
	}
	sort.Ints(dbs)
	if g.ver >= 12 && len(dbs) == 1 && dbs[0] == 0 && c.Choose("slotinfo", 4) == 0 {
		ds.SlotInfo = true
	}
	// memory policy of the source decides whether idle time or frequency is recorded (version >= 9)
	policy := 0
	if g.ver >= 9 {
		policy = c.Weighted("policy", []int{6, 2, 2})
	}
	kw := o.KindWeights
	if kw == [6]int{} {
		kw = [6]int{18, 18, 16, 18, 20, 10}
	}
	if o.NoStreams || g.ver < 9 || (o.MaxStreamVersion > 0 && g.ver > o.MaxStreamVersion) {
		kw[5] = 0
	}
	bigLeft := 1
	for i := 0; i < nKeys; i++ {
		db := dbs[i*len(dbs)/nKeys]
		kind := kindOrder[c.Weighted("kind", kw[:])]
		saveBig := g.o.AllowBig
		if bigLeft == 0 {
			g.o.AllowBig = false
		}
		v, e := g.value(kind)
		if g.o.MaxElemLen > 0 && len(v.Str) > g.o.MaxElemLen {
			v.Str = v.Str[:g.o.MaxElemLen]
		}
		if v.Elems() >= 500 {
			bigLeft--
		}
		g.o.AllowBig = saveBig
		k := &Key{DB: db, Name: g.keyName(db), Val: v, Enc: e, Idle: -1, Freq: -1}
		k.ExpireAt, k.ExpSecs = g.expiry()
		switch policy {
		case 1:
			k.Idle = int64(c.Choose("idle", 3)) * g.span("idlev", 0, 1000000)
		case 2:
			k.Freq = c.Choose("freq", 256)
		}
		ds.Keys = append(ds.Keys, k)
	}
	return ds
}

// Summary is a compact description of the dataset for the run's sample text.
func (d *Dataset) Summary(max int) string {
	var sb strings.Builder
	fmt.Fprintf(&sb, "rdb v%d compress=%v checksum=%v keys=%d dbs=%v", d.Version, d.Compress, d.Checksum, len(d.Keys), d.DBs())
	if len(d.Functions) > 0 {
		fmt.Fprintf(&sb, " functions=%d", len(d.Functions))
	}
	for i, k := range d.Keys {
		if i >= max {
			sb.WriteString(" ...")
			break
		}
		sb.WriteString(" [" + k.Describe() + "]")
	}
	return sb.String()
}
