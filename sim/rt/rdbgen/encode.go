package rdbgen

import (
	"encoding/binary"
	"fmt"
	"math"
	"sort"
	"strconv"
)

// KeyInfo is the encoder's ground truth for one key.
type KeyInfo struct {
	Key *Key
	// Body is the type byte followed by the value's serialization exactly as it appears in the file:
	// what a DUMP/RESTORE payload carries in front of its footer.
	Body []byte
	// Start..End: byte range of the whole key record (expiry/idle/freq opcodes, type, key, value).
	Start, End int
}

type Info struct {
	Version   int
	Keys      []*KeyInfo
	Functions [][]byte // 0xF5 + library string, one per function library
	Stats     map[string]int
	CRC       uint64
}

type EncodeOpts struct {
	// NoStats disables the per-encoding counters.
	NoStats bool
}

// Encode serialises the dataset as an RDB file.
func Encode(ds *Dataset, o EncodeOpts) ([]byte, *Info) {
	info := &Info{Version: ds.Version}
	if !o.NoStats {
		info.Stats = map[string]int{}
	}
	w := &buf{compress: ds.Compress, stats: info.Stats}
	w.bytes([]byte(fmt.Sprintf("REDIS%04d", ds.Version)))
	for _, a := range ds.Aux {
		w.byte(OpAux)
		w.str(a.Key)
		w.str(a.Val)
	}
	for _, f := range ds.Functions {
		fb := &buf{compress: ds.Compress, stats: info.Stats}
		fb.byte(OpFunction2)
		fb.str(f)
		info.Functions = append(info.Functions, fb.b)
		w.bytes(fb.b)
	}
	curDB := -1
	for i, k := range ds.Keys {
		if k.DB != curDB {
			curDB = k.DB
			w.byte(OpSelectDB)
			w.length(uint64(curDB))
			if ds.ResizeDB {
				n, ne := 0, 0
				for _, x := range ds.Keys[i:] {
					if x.DB != curDB {
						break
					}
					n++
					if x.ExpireAt != 0 {
						ne++
					}
				}
				w.byte(OpResizeDB)
				w.length(uint64(n))
				w.length(uint64(ne))
			}
			if ds.SlotInfo {
				// one slot-info record per (pretend) slot that holds keys; the sizes are hints only
				w.byte(OpSlotInfo)
				w.length(uint64(i % 16384))
				w.length(uint64(len(ds.Keys) - i))
				w.length(0)
				w.count("slot-info")
			}
		}
		ki := &KeyInfo{Key: k, Start: len(w.b)}
		if k.ExpireAt != 0 {
			if k.ExpSecs {
				w.byte(OpExpireSec)
				w.le32(uint32(k.ExpireAt / 1000))
				w.count("expire-sec")
			} else {
				w.byte(OpExpireMs)
				w.le64(uint64(k.ExpireAt))
				w.count("expire-ms")
			}
		}
		if k.Idle >= 0 {
			w.byte(OpIdle)
			w.length(uint64(k.Idle))
		}
		if k.Freq >= 0 {
			w.byte(OpFreq)
			w.byte(byte(k.Freq))
		}
		vb := &buf{compress: ds.Compress, stats: info.Stats}
		vb.byte(k.Enc.Type)
		encodeValue(vb, k)
		ki.Body = vb.b
		w.byte(k.Enc.Type)
		w.str(k.Name)
		w.bytes(vb.b[1:])
		ki.End = len(w.b)
		w.count("type-" + TypeName(k.Enc.Type))
		info.Keys = append(info.Keys, ki)
	}
	for _, a := range ds.TailAux {
		w.byte(OpAux)
		w.str(a.Key)
		w.str(a.Val)
	}
	w.byte(OpEOF)
	crc := CRC64(0, w.b)
	info.CRC = crc
	if ds.Checksum {
		w.le64(crc)
	} else {
		w.le64(0)
	}
	return w.b, info
}

func encodeValue(w *buf, k *Key) {
	v := k.Val
	e := k.Enc
	zo := zlOpts{unknownLen: e.ZlUnknownLen, bigPrevMod: e.ZlBigPrevMod, stats: w.stats}
	switch e.Type {
	case TString:
		w.str(v.Str)

	case TList:
		w.length(uint64(len(v.List)))
		for _, x := range v.List {
			w.str(x)
		}
	case TListZiplist:
		w.str(ziplist(v.List, zo))
	case TQuicklist, TQuicklist2:
		sizes := e.NodeSizes
		if len(sizes) == 0 {
			sizes = []int{len(v.List)}
		}
		w.length(uint64(len(sizes)))
		pos := 0
		for _, n := range sizes {
			part := v.List[pos : pos+n]
			pos += n
			if e.Type == TQuicklist {
				w.str(ziplist(part, zo))
				continue
			}
			if e.PlainNodes && n == 1 {
				w.length(qlNodePlain)
				w.str(part[0])
				w.count("ql2-plain-node")
			} else {
				w.length(qlNodePacked)
				w.str(listpack(part, w.stats))
			}
		}
		if pos != len(v.List) {
			panic("rdbgen: quicklist node sizes do not add up")
		}

	case TSet:
		w.length(uint64(len(v.Set)))
		for _, x := range v.Set {
			w.str(x)
		}
	case TSetIntset:
		vals := make([]int64, 0, len(v.Set))
		for _, x := range v.Set {
			n, ok := canonInt(x)
			if !ok {
				panic("rdbgen: intset member is not an integer")
			}
			vals = append(vals, n)
		}
		sort.Slice(vals, func(i, j int) bool { return vals[i] < vals[j] })
		w.str(intset(vals, e.IntsetWidth))
		w.count(fmt.Sprintf("intset-%d", e.IntsetWidth*8))
	case TSetListpack:
		w.str(listpack(v.Set, w.stats))

	case TZSet:
		w.length(uint64(len(v.ZSet)))
		for _, m := range v.ZSet {
			w.str(m.Member)
			switch {
			case math.IsNaN(m.Score):
				w.byte(253)
			case math.IsInf(m.Score, 1):
				w.byte(254)
				w.count("zset3-inf")
			case math.IsInf(m.Score, -1):
				w.byte(255)
				w.count("zset3-neginf")
			default:
				t := scoreText(m.Score, false)
				w.byte(byte(len(t)))
				w.bytes(t)
			}
		}
	case TZSet2:
		ms := sortedZ(v.ZSet)
		w.length(uint64(len(ms)))
		for i := len(ms) - 1; i >= 0; i-- { // saved from the highest score down
			w.str(ms[i].Member)
			w.double(ms[i].Score)
		}
	case TZSetZiplist, TZSetListpack:
		ms := sortedZ(v.ZSet)
		flat := make([][]byte, 0, 2*len(ms))
		for _, m := range ms {
			flat = append(flat, m.Member, scoreText(m.Score, e.ShortScoreFmt))
		}
		if e.Type == TZSetZiplist {
			w.str(ziplist(flat, zo))
		} else {
			w.str(listpack(flat, w.stats))
		}

	case THash:
		w.length(uint64(len(v.Hash)))
		for _, h := range v.Hash {
			w.str(h.Field)
			w.str(h.Value)
		}
	case THashZipmap:
		w.str(zipmap(v.Hash, e.ZmUnknownLen, e.ZmFree, w.stats))
	case THashZiplist, THashListpack:
		flat := make([][]byte, 0, 2*len(v.Hash))
		for _, h := range v.Hash {
			flat = append(flat, h.Field, h.Value)
		}
		if e.Type == THashZiplist {
			w.str(ziplist(flat, zo))
		} else {
			w.str(listpack(flat, w.stats))
		}

	case TStream, TStream2, TStream3:
		encodeStream(w, v.Stream, e.Type)
	default:
		panic(fmt.Sprintf("rdbgen: cannot encode type %d", e.Type))
	}
}

func sortedZ(in []ZMember) []ZMember {
	ms := append([]ZMember(nil), in...)
	sort.SliceStable(ms, func(i, j int) bool {
		if ms[i].Score != ms[j].Score {
			return ms[i].Score < ms[j].Score
		}
		return string(ms[i].Member) < string(ms[j].Member)
	})
	return ms
}

func idBytes(id StreamID) []byte {
	b := make([]byte, 0, 16)
	b = binary.BigEndian.AppendUint64(b, id.Ms)
	b = binary.BigEndian.AppendUint64(b, id.Seq)
	return b
}

// encodeStream writes a stream:
//
//	<number of nodes>
//	per node: <16-byte master id, big endian, as a string> <listpack as a string>
//	   listpack: count, deleted, num-fields, field*, 0   (master entry)
//	             then per entry: flags, ms-diff, seq-diff, [num-fields, (field, value)*] | value*, lp-count
//	<length> <last id ms> <last id seq>
//	v2+: <first id ms> <seq> <max deleted id ms> <seq> <entries added>
//	<number of groups>; per group: name, last id ms, seq, (v2+: entries read),
//	   global PEL: count, per entry: raw 16-byte id, delivery time (8 bytes LE), delivery count
//	   consumers: count, per consumer: name, seen time (8 bytes LE), (v3+: active time 8 bytes LE),
//	              PEL count, raw 16-byte ids
func encodeStream(w *buf, s *StreamVal, t byte) {
	w.length(uint64(len(s.Nodes)))
	live := uint64(0)
	for _, node := range s.Nodes {
		master := node[0]
		w.str(idBytes(master.ID))
		lp := &lpBuilder{stats: w.stats}
		cnt, del := int64(0), int64(0)
		for _, e := range node {
			if e.Deleted {
				del++
			} else {
				cnt++
			}
		}
		live += uint64(cnt)
		nf := len(master.Fields) / 2
		lp.addInt(cnt)
		lp.addInt(del)
		lp.addInt(int64(nf))
		for i := 0; i < nf; i++ {
			lp.add(master.Fields[2*i])
		}
		lp.addInt(0)
		for _, e := range node {
			flags := int64(0)
			if e.Deleted {
				flags |= streamFlagDel
			}
			same := len(e.Fields) == len(master.Fields)
			if same {
				for i := 0; i < len(e.Fields); i += 2 {
					if string(e.Fields[i]) != string(master.Fields[i]) {
						same = false
						break
					}
				}
			}
			if same {
				flags |= streamFlagSame
				w.count("stream-samefields")
			}
			if e.Deleted {
				w.count("stream-deleted-entry")
			}
			lp.addInt(flags)
			lp.addInt(int64(e.ID.Ms - master.ID.Ms))
			lp.addInt(int64(e.ID.Seq - master.ID.Seq))
			n := len(e.Fields) / 2
			if !same {
				lp.addInt(int64(n))
			}
			for i := 0; i < n; i++ {
				if !same {
					lp.add(e.Fields[2*i])
				}
				lp.add(e.Fields[2*i+1])
			}
			if same {
				lp.addInt(int64(n + 3))
			} else {
				lp.addInt(int64(2*n + 4))
			}
		}
		w.str(lp.finish())
	}
	w.length(live)
	w.length(s.LastID.Ms)
	w.length(s.LastID.Seq)
	if t >= TStream2 {
		w.length(s.FirstID.Ms)
		w.length(s.FirstID.Seq)
		w.length(s.MaxDeletedID.Ms)
		w.length(s.MaxDeletedID.Seq)
		w.length(s.EntriesAdded)
	}
	w.length(uint64(len(s.Groups)))
	for _, g := range s.Groups {
		w.str(g.Name)
		w.length(g.LastID.Ms)
		w.length(g.LastID.Seq)
		if t >= TStream2 {
			w.length(g.EntriesRead)
		}
		w.length(uint64(len(g.PEL)))
		for _, p := range g.PEL {
			w.bytes(idBytes(p.ID))
			w.le64(uint64(p.DeliveryTime))
			w.length(p.DeliveryCount)
		}
		w.length(uint64(len(g.Consumers)))
		for _, c := range g.Consumers {
			w.str(c.Name)
			w.le64(uint64(c.SeenTime))
			if t >= TStream3 {
				w.le64(uint64(c.ActiveTime))
			}
			w.length(uint64(len(c.Pending)))
			for _, id := range c.Pending {
				w.bytes(idBytes(id))
			}
		}
	}
}

// Payload builds a DUMP-format payload from a body: body ‖ version (2 bytes LE) ‖ CRC64 (8 bytes LE).
func Payload(body []byte, version int) []byte {
	out := append([]byte(nil), body...)
	out = binary.LittleEndian.AppendUint16(out, uint16(version))
	out = binary.LittleEndian.AppendUint64(out, CRC64(0, out))
	return out
}

func itoa(v int64) []byte { return []byte(strconv.FormatInt(v, 10)) }
