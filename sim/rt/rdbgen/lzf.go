package rdbgen

// LZF compressor written from the LZF stream format:
//
//	ctrl < 32            : literal run of ctrl+1 bytes follows
//	ctrl >= 32           : back reference; L = ctrl>>5; if L == 7 then L += next byte;
//	                       offset = ((ctrl & 0x1f) << 8) | next byte; copy L+2 bytes starting
//	                       offset+1 bytes back in the output (byte by byte, may overlap)
//
// Longest reference 264 bytes, farthest 8192 bytes back.

const (
	lzfMaxOff = 1 << 13
	lzfMaxRef = (1 << 8) + (1 << 3) // 264
	lzfMaxLit = 1 << 5
)

// LZFCompress returns the compressed form of in (always a valid stream).
func LZFCompress(in []byte) []byte {
	n := len(in)
	out := make([]byte, 0, n+n/16+8)
	bits := uint(6)
	for bits < 13 && 1<<bits < n {
		bits++
	}
	tab := make([]int32, 1<<bits)
	for i := range tab {
		tab[i] = -1
	}
	shift := 32 - bits
	litStart := 0
	flush := func(end int) {
		for litStart < end {
			run := end - litStart
			if run > lzfMaxLit {
				run = lzfMaxLit
			}
			out = append(out, byte(run-1))
			out = append(out, in[litStart:litStart+run]...)
			litStart += run
		}
	}
	i := 0
	for i < n {
		if i+2 < n {
			h := (uint32(in[i])<<16 | uint32(in[i+1])<<8 | uint32(in[i+2])) * 2654435761 >> shift
			ref := int(tab[h])
			tab[h] = int32(i)
			if ref >= 0 && i-ref-1 < lzfMaxOff && in[ref] == in[i] && in[ref+1] == in[i+1] && in[ref+2] == in[i+2] {
				l := 3
				for i+l < n && l < lzfMaxRef && in[ref+l] == in[i+l] {
					l++
				}
				flush(i)
				off := i - ref - 1
				L := l - 2
				if L < 7 {
					out = append(out, byte(L<<5)|byte(off>>8), byte(off))
				} else {
					out = append(out, byte(7<<5)|byte(off>>8), byte(L-7), byte(off))
				}
				i += l
				litStart = i
				continue
			}
		}
		i++
	}
	flush(n)
	return out
}

// LZFDecompress is the reference decoder used by this package's own tests.
func LZFDecompress(in []byte, outLen int) ([]byte, bool) {
	out := make([]byte, 0, outLen)
	i := 0
	for i < len(in) {
		ctrl := int(in[i])
		i++
		if ctrl < 32 {
			if i+ctrl+1 > len(in) {
				return nil, false
			}
			out = append(out, in[i:i+ctrl+1]...)
			i += ctrl + 1
			continue
		}
		L := ctrl >> 5
		if L == 7 {
			if i >= len(in) {
				return nil, false
			}
			L += int(in[i])
			i++
		}
		if i >= len(in) {
			return nil, false
		}
		off := (ctrl&0x1f)<<8 | int(in[i])
		i++
		ref := len(out) - off - 1
		if ref < 0 {
			return nil, false
		}
		for k := 0; k < L+2; k++ {
			out = append(out, out[ref+k])
		}
	}
	return out, len(out) == outLen
}
