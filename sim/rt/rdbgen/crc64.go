package rdbgen

// CRC-64 "Jones" as used by Redis for RDB files and DUMP payloads:
// polynomial 0xad93d23594c935a9, reflected input and output, initial value 0, no final xor.
// Check value: CRC64("123456789") = 0xe9c6d914c4b8d9ca.
// Written from the parameter set; table-driven over the reflected polynomial.

const jonesPolyReflected uint64 = 0x95ac9329ac4bc9b5 // bit-reversal of 0xad93d23594c935a9

var crcTable [256]uint64

func init() {
	for i := 0; i < 256; i++ {
		c := uint64(i)
		for k := 0; k < 8; k++ {
			if c&1 == 1 {
				c = (c >> 1) ^ jonesPolyReflected
			} else {
				c >>= 1
			}
		}
		crcTable[i] = c
	}
}

// CRC64 continues a checksum over p.
func CRC64(crc uint64, p []byte) uint64 {
	for _, b := range p {
		crc = crcTable[byte(crc)^b] ^ (crc >> 8)
	}
	return crc
}
