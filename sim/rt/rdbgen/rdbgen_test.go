package rdbgen

import (
	"bytes"
	"encoding/binary"
	"encoding/hex"
	"testing"

	"verifsim/simrt"
)

func TestCRC64Vector(t *testing.T) {
	if got := CRC64(0, []byte("123456789")); got != 0xe9c6d914c4b8d9ca {
		t.Fatalf("crc64 check value: %x", got)
	}
}

func TestLZFRoundTrip(t *testing.T) {
	c := simrt.NewChooser(7)
	g := &gen{c: c, used: map[string]bool{}}
	for i := 0; i < 300; i++ {
		var in []byte
		if i%2 == 0 {
			in = g.compressible(1 + c.Choose("n", 9000))
		} else {
			in = c.Bytes("b", c.Choose("n", 3000))
		}
		z := LZFCompress(in)
		out, ok := LZFDecompress(z, len(in))
		if !ok || !bytes.Equal(in, out) {
			t.Fatalf("lzf round trip failed at %d (len %d)", i, len(in))
		}
	}
}

func TestListpackAndZiplistFraming(t *testing.T) {
	elems := [][]byte{[]byte("a"), []byte("-1"), []byte("8388607"), []byte("-8388608"), bytes.Repeat([]byte("x"), 5000), []byte("12"), []byte("9223372036854775807")}
	lp := listpack(elems, nil)
	if int(binary.LittleEndian.Uint32(lp)) != len(lp) || lp[len(lp)-1] != 0xff || binary.LittleEndian.Uint16(lp[4:]) != uint16(len(elems)) {
		t.Fatal("listpack header/trailer")
	}
	zl := ziplist(elems, zlOpts{})
	if int(binary.LittleEndian.Uint32(zl)) != len(zl) || zl[len(zl)-1] != 0xff || binary.LittleEndian.Uint16(zl[8:]) != uint16(len(elems)) {
		t.Fatal("ziplist header/trailer")
	}
	tail := int(binary.LittleEndian.Uint32(zl[4:]))
	// the last entry follows a 5000-byte... no: it follows "12" (2 bytes): 1-byte prevlen, int64 encoding 0xe0
	if zl[tail+1] != 0xe0 {
		t.Fatalf("ziplist tail offset does not point at the last entry: %x", zl[tail:tail+2])
	}
	zl = ziplist(elems, zlOpts{unknownLen: true})
	if binary.LittleEndian.Uint16(zl[8:]) != 0xffff {
		t.Fatal("unknown length marker")
	}
}

func TestGenEncodeDeterministic(t *testing.T) {
	for seed := uint64(1); seed < 200; seed++ {
		a, ia := Encode(Gen(simrt.NewChooser(seed), GenOpts{NowMs: 946684800000, AllowBig: seed%5 == 0, NearExpiry: true}), EncodeOpts{})
		b, _ := Encode(Gen(simrt.NewChooser(seed), GenOpts{NowMs: 946684800000, AllowBig: seed%5 == 0, NearExpiry: true}), EncodeOpts{})
		if !bytes.Equal(a, b) {
			t.Fatalf("seed %d: not deterministic", seed)
		}
		if ia.Version < 6 || ia.Version > 13 {
			t.Fatal("version")
		}
		for _, k := range ia.Keys {
			if k.Body[0] != k.Key.Enc.Type {
				t.Fatal("body type byte")
			}
		}
	}
}

// ---- evidence from real dumps -------------------------------------------------------------

func unhex(t *testing.T, s string) []byte {
	b, err := hex.DecodeString(s)
	if err != nil {
		t.Fatal(err)
	}
	return b
}

// every real dump's footer is the CRC64 of everything before it (or zero when checksums are disabled)
func TestCRC64OnRealDumps(t *testing.T) {
	n := 0
	for i, h := range realDumps {
		b := unhex(t, h)
		foot := binary.LittleEndian.Uint64(b[len(b)-8:])
		if foot == 0 {
			continue
		}
		if got := CRC64(0, b[:len(b)-8]); got != foot {
			t.Errorf("dump %d: crc %x, footer %x", i, got, foot)
		}
		n++
	}
	if n < 30 {
		t.Fatalf("only %d dumps checked", n)
	}
}

// parseAux reads the aux fields of a real dump (strings: raw with 6-bit length, or integer encoded).
func parseAux(t *testing.T, b []byte) (aux []Aux, rest []byte) {
	p := 9
	str := func() []byte {
		c := b[p]
		switch {
		case c < 0x40:
			s := b[p+1 : p+1+int(c)]
			p += 1 + int(c)
			return s
		case c == 0xc0:
			p += 2
			return itoa(int64(int8(b[p-1])))
		case c == 0xc1:
			p += 3
			return itoa(int64(int16(binary.LittleEndian.Uint16(b[p-2:]))))
		case c == 0xc2:
			p += 5
			return itoa(int64(int32(binary.LittleEndian.Uint32(b[p-4:]))))
		}
		t.Fatalf("aux string encoding %x", c)
		return nil
	}
	for b[p] == OpAux {
		p++
		k := str()
		v := str()
		aux = append(aux, Aux{k, v})
	}
	return aux, b[p:]
}

func intElems(from, to int) [][]byte {
	var out [][]byte
	for i := from; i < to; i++ {
		out = append(out, itoa(int64(i)))
	}
	return out
}

// Re-create real dumps byte for byte from their logical content.
func TestByteExactAgainstRealDumps(t *testing.T) {
	key := func(name string, v *Value, e Enc) *Key {
		return &Key{DB: 0, Name: []byte(name), Val: v, Enc: e, Idle: -1, Freq: -1}
	}
	zs := func(n int) []ZMember {
		var out []ZMember
		for i := 0; i < n; i++ {
			out = append(out, ZMember{[]byte("a_" + string(itoa(int64(i)))), float64(i)})
		}
		return out
	}
	cases := []struct {
		idx int
		k   *Key
	}{
		{6, key("listi", &Value{Kind: KList, List: intElems(0, 1)}, Enc{Type: TQuicklist})},
		{7, key("listi", &Value{Kind: KList, List: intElems(0, 100)}, Enc{Type: TQuicklist})},
		{3, key("listi", &Value{Kind: KList, List: append(intElems(0, 1), intElems(0, 100)...)}, Enc{Type: TQuicklist2})},
		{10, key("test_set_key", &Value{Kind: KSet, Set: intElems(0, 100)}, Enc{Type: TSetIntset, IntsetWidth: 2})},
		{12, key("test_set_key", &Value{Kind: KSet, Set: intElems(0, 256)}, Enc{Type: TSetIntset, IntsetWidth: 2})},
		{25, key("test_zset_key", &Value{Kind: KZSet, ZSet: zs(4)}, Enc{Type: TZSetZiplist})},
		{26, key("test_zset_key", &Value{Kind: KZSet, ZSet: zs(129)}, Enc{Type: TZSet2})},
		{24, key("k2", &Value{Kind: KHash, Hash: []HField{{[]byte("f1"), []byte("44467")}}}, Enc{Type: THashZiplist})},
	}
	for _, c := range cases {
		real := unhex(t, realDumps[c.idx])
		aux, _ := parseAux(t, real)
		ver := int(real[7]-'0')*10 + int(real[8]-'0')
		ds := &Dataset{Version: ver, Checksum: binary.LittleEndian.Uint64(real[len(real)-8:]) != 0, Aux: aux, ResizeDB: true, Keys: []*Key{c.k}}
		if ver >= 10 {
			continue // function libraries (LZF-compressed by the server) sit between aux fields and keys: see below
		}
		got, _ := Encode(ds, EncodeOpts{})
		if !bytes.Equal(got, real) {
			t.Errorf("dump %d (%s): encoder output differs from the real dump\n got %x\nreal %x", c.idx, TypeName(c.k.Enc.Type), got, real)
		}
	}
	// version 10 dump with a quicklist-2 node: compare the key record only (the file also carries an
	// LZF-compressed function library whose exact compressed bytes depend on the compressor)
	real := unhex(t, realDumps[3])
	ds := &Dataset{Version: 10, Checksum: true, ResizeDB: true, Keys: []*Key{cases[2].k}}
	got, info := Encode(ds, EncodeOpts{})
	rec := got[info.Keys[0].Start:info.Keys[0].End]
	if !bytes.Contains(real, rec) {
		t.Errorf("quicklist-2/listpack record not found in the real dump: %x", rec)
	}
}

// The function library of a real 7.0 dump is LZF compressed: our decoder (the inverse of our
// compressor, see TestLZFRoundTrip) must reproduce the text.
func TestLZFOnRealDump(t *testing.T) {
	real := unhex(t, realDumps[1])
	i := bytes.Index(real, []byte{0xf5, 0xc3})
	if i < 0 {
		t.Fatal("no compressed function in dump")
	}
	clen, ulen := int(real[i+3]), int(real[i+5]) // 0x40 0x58, 0x40 0x5d : 14-bit lengths
	if real[i+2] != 0x40 || real[i+4] != 0x40 {
		t.Fatal("unexpected length encoding")
	}
	out, ok := LZFDecompress(real[i+6:i+6+clen], ulen)
	if !ok || !bytes.HasPrefix(out, []byte("#!lua name=mylib")) || !bytes.Contains(out, []byte("redis.register_function('myfunc'")) {
		t.Fatalf("lzf decode of a real blob failed: ok=%v %q", ok, out)
	}
}

// A real Redis 5.0 stream (dump 29, key "mq2"): two entries with five fields each, one group with two
// pending entries and two consumers. Everything but the LZF bytes of the listpack must match byte for
// byte; the listpack itself must match after decompressing the real one.
func TestStreamAgainstRealDump(t *testing.T) {
	real := unhex(t, realDumps[29])
	start := bytes.Index(real, []byte("\x0f\x03mq2"))
	end := bytes.Index(real, []byte("\x0f\x03mq1"))
	rec := real[start:end]
	// real listpack: c3 40 50 40 8d <0x50 bytes>
	i := bytes.Index(rec, []byte{0xc3, 0x40, 0x50, 0x40, 0x8d})
	lpReal, ok := LZFDecompress(rec[i+5:i+5+0x50], 0x8d)
	if !ok {
		t.Fatal("cannot decompress the real listpack")
	}
	ms := uint64(0x0000018e601efb59)
	mk := func(seq uint64) StreamEntry {
		e := StreamEntry{ID: StreamID{ms, seq}}
		for f := 1; f <= 5; f++ {
			e.Fields = append(e.Fields, []byte("msg"+string(itoa(int64(f)))), []byte("value"+string(itoa(int64(f)))))
		}
		return e
	}
	dt := int64(binary.LittleEndian.Uint64([]byte{0x5a, 0xfb, 0x1e, 0x60, 0x8e, 0x01, 0, 0}))
	s := &StreamVal{Nodes: [][]StreamEntry{{mk(0), mk(1)}}, LastID: StreamID{ms, 1}}
	s.Groups = []Group{{Name: []byte("mq2g1"), LastID: StreamID{ms, 1},
		PEL:       []PendingEntry{{StreamID{ms, 0}, dt, 1}, {StreamID{ms, 1}, dt, 1}},
		Consumers: []Consumer{{Name: []byte("c1"), SeenTime: dt, Pending: []StreamID{{ms, 0}}}, {Name: []byte("c2"), SeenTime: dt, Pending: []StreamID{{ms, 1}}}}}}
	ds := &Dataset{Version: 9, Checksum: true, Keys: []*Key{{DB: 0, Name: []byte("mq2"), Val: &Value{Kind: KStream, Stream: s}, Enc: Enc{Type: TStream}, Idle: -1, Freq: -1}}}
	got, info := Encode(ds, EncodeOpts{}) // Compress=false: the listpack is written raw
	mine := got[info.Keys[0].Start:info.Keys[0].End]
	// mine: ... 40 8d <0x8d bytes listpack> ...   real: ... c3 40 50 40 8d <0x50 bytes> ...
	j := bytes.Index(mine, []byte{0x40, 0x8d})
	if j < 0 {
		t.Fatalf("listpack length differs: %x", mine)
	}
	lpMine := mine[j+2 : j+2+0x8d]
	if !bytes.Equal(lpMine, lpReal) {
		t.Fatalf("stream listpack differs\nmine %x\nreal %x", lpMine, lpReal)
	}
	if !bytes.Equal(mine[:j], rec[:i]) || !bytes.Equal(mine[j+2+0x8d:], rec[i+5+0x50:]) {
		t.Fatalf("stream framing differs\nmine %x\nreal %x", mine, rec)
	}
}
