// Package simgrpc replaces google.golang.org/grpc in syncer/replica.go (import substitution through the build
// overlay): the leader->follower stream becomes simulator-owned message queues. A Sync call creates one stream;
// the server side runs the registered handler (the real ReplicaLeader.Handle behind a tiny adapter) in a bubble
// goroutine; every message the server sends is ONE unit the scheduler delivers, delays, or replaces by an error.
package simgrpc

import (
	"context"
	"errors"
	"fmt"
	"io"
	"strings"
	"sync"

	rg "google.golang.org/grpc"
	"google.golang.org/grpc/codes"
	"google.golang.org/grpc/metadata"
	"google.golang.org/grpc/status"
	"google.golang.org/protobuf/proto"

	"verifsim/simrt"
)

// re-exports / look-alikes for the names replica.go uses
type DialOption struct{ block bool }

var WaitForReady = rg.WaitForReady

func WithChainUnaryInterceptor(...rg.UnaryClientInterceptor) DialOption { return DialOption{} }
func WithTransportCredentials(any) DialOption                           { return DialOption{} }
func WithBlock() DialOption                                             { return DialOption{block: true} }

// Handler is the server side of a stream: req is the single request message of the call.
type Handler func(req any, stream *ServerStream) error

// Hub is the simulated RPC fabric of one run.
type Hub struct {
	mu      sync.Mutex
	servers map[string]Handler
	Streams []*Stream
	nextID  int
	// Window: how many undelivered messages a server may have queued before its Send blocks (flow control).
	Window int
	// GateRequests: a call's request reaches the server only when the scheduler says so (Stream.DeliverRequest)
	GateRequests bool
}

var (
	curMu sync.Mutex
	cur   *Hub
)

func NewHub() *Hub { return &Hub{servers: map[string]Handler{}, Window: 8} }

func SetHub(h *Hub) { curMu.Lock(); cur = h; curMu.Unlock() }
func Cur() *Hub     { curMu.Lock(); defer curMu.Unlock(); return cur }

func (h *Hub) Serve(addr string, f Handler) { h.mu.Lock(); h.servers[addr] = f; h.mu.Unlock() }
func (h *Hub) Unserve(addr string)          { h.mu.Lock(); delete(h.servers, addr); h.mu.Unlock() }

// ClientConn implements grpc.ClientConnInterface.
type ClientConn struct {
	hub    *Hub
	target string
	mu     sync.Mutex
	closed bool
	mine   []*Stream
}

func DialContext(ctx context.Context, target string, opts ...DialOption) (*ClientConn, error) {
	h := Cur()
	if h == nil {
		return nil, errors.New("simgrpc: no hub installed")
	}
	h.mu.Lock()
	_, ok := h.servers[target]
	h.mu.Unlock()
	if !ok {
		block := false
		for _, o := range opts {
			block = block || o.block
		}
		if block {
			<-ctx.Done()
			return nil, ctx.Err()
		}
	}
	if w := simrt.Cur(); w != nil {
		w.Logf("rpc dial %s", target)
	}
	return &ClientConn{hub: h, target: target}, nil
}

func (c *ClientConn) Invoke(ctx context.Context, method string, args any, reply any, opts ...rg.CallOption) error {
	return status.Error(codes.Unimplemented, "simgrpc: unary calls are not simulated")
}

func (c *ClientConn) Close() error {
	c.mu.Lock()
	if c.closed {
		c.mu.Unlock()
		return nil
	}
	c.closed = true
	ss := append([]*Stream(nil), c.mine...)
	c.mu.Unlock()
	for _, s := range ss {
		s.Break(status.Error(codes.Canceled, "grpc: the client connection is closing"))
	}
	return nil
}

// Stream is one simulated server-streaming call.
type Stream struct {
	ID     int
	Method string
	hub    *Hub
	conn   *ClientConn

	mu   sync.Mutex
	cond *sync.Cond

	ctx    context.Context
	cancel context.CancelFunc

	queue     []proto.Message // sent by the server, not yet delivered
	delivered []proto.Message // delivered, not yet received by the client
	srvDone   bool
	srvErr    error
	broken    error // the stream was torn down (fault or close): both sides see it
	reqStart  func() // gated request not yet delivered to the server
	Sent      int
	Delivered int
	started   bool
}

func (c *ClientConn) NewStream(ctx context.Context, desc *rg.StreamDesc, method string, opts ...rg.CallOption) (rg.ClientStream, error) {
	c.mu.Lock()
	if c.closed {
		c.mu.Unlock()
		return nil, status.Error(codes.Canceled, "grpc: the client connection is closing")
	}
	c.mu.Unlock()
	h := c.hub
	h.mu.Lock()
	h.nextID++
	s := &Stream{ID: h.nextID, Method: method, hub: h, conn: c}
	s.cond = sync.NewCond(&s.mu)
	s.ctx, s.cancel = context.WithCancel(ctx)
	h.Streams = append(h.Streams, s)
	h.mu.Unlock()
	c.mu.Lock()
	c.mine = append(c.mine, s)
	c.mu.Unlock()
	// a cancelled call context tears the stream down
	go func() {
		<-s.ctx.Done()
		s.Break(status.FromContextError(s.ctx.Err()).Err())
	}()
	return &clientStream{s}, nil
}

type clientStream struct{ s *Stream }

func (cs *clientStream) Header() (metadata.MD, error) { return nil, nil }
func (cs *clientStream) Trailer() metadata.MD         { return nil }
func (cs *clientStream) CloseSend() error             { return nil }
func (cs *clientStream) Context() context.Context     { return cs.s.ctx }

// SendMsg carries the single request: it starts the server handler.
func (cs *clientStream) SendMsg(m any) error {
	s := cs.s
	s.mu.Lock()
	if s.broken != nil {
		err := s.broken
		s.mu.Unlock()
		return err
	}
	if s.started {
		s.mu.Unlock()
		return errors.New("simgrpc: only one request message per call is simulated")
	}
	s.started = true
	s.mu.Unlock()
	h := s.hub
	h.mu.Lock()
	f := h.servers[s.conn.target]
	h.mu.Unlock()
	if w := simrt.Cur(); w != nil {
		// protobuf's text form varies its spacing from build to build on purpose (detrand): normalised, or a replay
		// file would match its digest only on the very binary that wrote it
		w.Logf("rpc s%d call %s: %s", s.ID, s.Method, strings.Join(strings.Fields(fmt.Sprint(m)), " "))
	}
	if f == nil {
		s.finish(status.Error(codes.Unavailable, "simgrpc: no server at "+s.conn.target))
		return nil
	}
	req := proto.Clone(m.(proto.Message))
	start := func() {
		go func() {
			err := f(req, &ServerStream{s})
			s.finish(err)
		}()
	}
	if h.GateRequests {
		// the request is in flight until the scheduler delivers it (DeliverRequest): the server may change meanwhile
		s.mu.Lock()
		s.reqStart = start
		s.mu.Unlock()
		return nil
	}
	start()
	return nil
}

// RequestPending: the call's request has been sent and not yet reached the server (Hub.GateRequests).
func (s *Stream) RequestPending() bool { s.mu.Lock(); defer s.mu.Unlock(); return s.reqStart != nil && s.broken == nil }

// DeliverRequest hands the request to the server's handler.
func (s *Stream) DeliverRequest() {
	s.mu.Lock()
	f := s.reqStart
	s.reqStart = nil
	broken := s.broken
	s.mu.Unlock()
	if f != nil && broken == nil {
		f()
	}
}

func (cs *clientStream) RecvMsg(m any) error {
	s := cs.s
	s.mu.Lock()
	defer s.mu.Unlock()
	for {
		if len(s.delivered) > 0 {
			msg := s.delivered[0]
			s.delivered = s.delivered[1:]
			dst := m.(proto.Message)
			proto.Reset(dst)
			proto.Merge(dst, msg)
			return nil
		}
		if s.broken != nil {
			return s.broken
		}
		if s.srvDone && len(s.queue) == 0 {
			if s.srvErr != nil {
				return status.Error(codes.Unknown, s.srvErr.Error())
			}
			return io.EOF
		}
		s.cond.Wait()
	}
}

func (s *Stream) finish(err error) {
	s.mu.Lock()
	s.srvDone = true
	s.srvErr = err
	s.cond.Broadcast()
	s.mu.Unlock()
	if w := simrt.Cur(); w != nil {
		w.Logf("rpc s%d handler returned: %v", s.ID, err)
	}
}

// ServerStream implements grpc.ServerStream for the handler.
type ServerStream struct{ s *Stream }

func (ss *ServerStream) SetHeader(metadata.MD) error  { return nil }
func (ss *ServerStream) SendHeader(metadata.MD) error { return nil }
func (ss *ServerStream) SetTrailer(metadata.MD)       {}
func (ss *ServerStream) Context() context.Context     { return ss.s.ctx }
func (ss *ServerStream) RecvMsg(m any) error          { return io.EOF }

func (ss *ServerStream) SendMsg(m any) error {
	s := ss.s
	s.mu.Lock()
	defer s.mu.Unlock()
	for {
		if s.broken != nil {
			return s.broken
		}
		if len(s.queue) < s.hub.Window {
			break
		}
		s.cond.Wait() // flow control: wait until the scheduler delivered something
	}
	s.queue = append(s.queue, proto.Clone(m.(proto.Message)))
	s.Sent++
	return nil
}

// ---- scheduler side

// Pending returns how many messages wait for delivery.
func (s *Stream) Pending() int { s.mu.Lock(); defer s.mu.Unlock(); return len(s.queue) }

// Live reports whether the stream can still make progress.
func (s *Stream) Live() bool {
	s.mu.Lock()
	defer s.mu.Unlock()
	return s.broken == nil && !(s.srvDone && len(s.queue) == 0 && len(s.delivered) == 0)
}

// Deliver hands the oldest queued message to the client.
func (s *Stream) Deliver() bool {
	s.mu.Lock()
	defer s.mu.Unlock()
	if s.broken != nil || len(s.queue) == 0 {
		return false
	}
	s.delivered = append(s.delivered, s.queue[0])
	s.queue = s.queue[1:]
	s.Delivered++
	s.cond.Broadcast()
	return true
}

// Break tears the stream down: undelivered messages are lost, both sides get err.
func (s *Stream) Break(err error) {
	s.mu.Lock()
	if s.broken == nil {
		s.broken = err
		s.queue = nil
		s.cond.Broadcast()
		s.mu.Unlock()
		s.cancel()
		if w := simrt.Cur(); w != nil {
			w.Logf("rpc s%d broken: %v", s.ID, err)
		}
		return
	}
	s.mu.Unlock()
}

func (s *Stream) String() string { return fmt.Sprintf("s%d", s.ID) }

// ErrUnavailable is the error a lost connection produces.
var ErrUnavailable = status.Error(codes.Unavailable, "transport is closing (simulated)")

// Dial is the context-free (deprecated) form of DialContext.
func Dial(target string, opts ...DialOption) (*ClientConn, error) {
	return DialContext(context.Background(), target, opts...)
}
