// Package insecure replaces google.golang.org/grpc/credentials/insecure in the substituted file.
package insecure

func NewCredentials() any { return nil }
