// Package simrand replaces math/rand in repository files whose randomness influences what a simulated
// run does (import substitution through the build overlay): values are a function of the run's seed,
// the call site and the call count (simrt.Rand64), never of the Go runtime's global generator.
package simrand

import "verifsim/simrt"

// Float64 returns a deterministic pseudo-random number in [0.0, 1.0).
func Float64() float64 { return float64(simrt.Rand64("math/rand.Float64")>>11) / (1 << 53) }

// Int63 returns a deterministic non-negative pseudo-random 63-bit integer.
func Int63() int64 { return int64(simrt.Rand64("math/rand.Int63") >> 1) }

// Int63n returns a deterministic pseudo-random number in [0, n).
func Int63n(n int64) int64 {
	if n <= 0 {
		panic("simrand: invalid argument to Int63n")
	}
	return int64(simrt.Rand64("math/rand.Int63n") % uint64(n))
}

// Intn returns a deterministic pseudo-random number in [0, n).
func Intn(n int) int { return int(Int63n(int64(n))) }

// Read stands in for crypto/rand.Read (random namespace names of the checkpoint package): deterministic bytes.
func Read(b []byte) (int, error) {
	for i := 0; i < len(b); i += 8 {
		v := simrt.Rand64("crypto/rand.Read")
		for j := 0; j < 8 && i+j < len(b); j++ {
			b[i+j] = byte(v >> (8 * j))
		}
	}
	return len(b), nil
}

// The rest of math/rand's top-level functions, deterministic like the ones above.

func Int() int         { return int(uint(Int63())) }
func Int31() int32     { return int32(Int63() >> 32) }
func Uint32() uint32   { return uint32(Int63() >> 31) }
func Uint64() uint64   { return simrt.Rand64("math/rand.Uint64") }
func Float32() float32 { return float32(Float64()) }
func Seed(int64)       {}
func Int31n(n int32) int32 {
	if n <= 0 {
		panic("simrand: invalid argument to Int31n")
	}
	return int32(Int63n(int64(n)))
}

// Perm returns a deterministic pseudo-random permutation of [0, n).
func Perm(n int) []int {
	m := make([]int, n)
	for i := 0; i < n; i++ {
		j := Intn(i + 1)
		m[i] = m[j]
		m[j] = i
	}
	return m
}

// Shuffle pseudo-randomizes the order of elements deterministically.
func Shuffle(n int, swap func(i, j int)) {
	if n < 0 {
		panic("simrand: invalid argument to Shuffle")
	}
	for i := n - 1; i > 0; i-- {
		swap(i, Intn(i+1))
	}
}

// NormFloat64 / ExpFloat64: deterministic values with roughly the right distribution (Box-Muller free: a sum of
// uniforms / an inverse transform); nothing in the repository draws them, they exist so that a change which does builds.
func NormFloat64() float64 {
	s := 0.0
	for i := 0; i < 12; i++ {
		s += Float64()
	}
	return s - 6
}
func ExpFloat64() float64 {
	u := Float64()
	x := 0.0
	// -ln(1-u) by series is overkill: bisect on a coarse table
	for t := 1.0 - u; t < 1 && x < 40; x += 0.01 {
		t *= 1.0100501670841679 // e^0.01
	}
	return x
}
