// Package simrand replaces math/rand in repository files whose randomness influences what a simulated
// run does (import substitution through the build overlay): values are a function of the run's seed,
// the call site and the call count (simrt.Rand64), never of the Go runtime's global generator.
package simrand

import "verifsim/simrt"

// Float64 returns a deterministic pseudo-random number in [0.0, 1.0).
func Float64() float64 { return float64(simrt.Rand64("math/rand.Float64")>>11) / (1 << 53) }

// Int63 returns a deterministic non-negative pseudo-random 63-bit integer.
func Int63() int64 { return int64(simrt.Rand64("math/rand.Int63") >> 1) }

// Int63n returns a deterministic pseudo-random number in [0, n).
func Int63n(n int64) int64 {
	if n <= 0 {
		panic("simrand: invalid argument to Int63n")
	}
	return int64(simrt.Rand64("math/rand.Int63n") % uint64(n))
}

// Intn returns a deterministic pseudo-random number in [0, n).
func Intn(n int) int { return int(Int63n(int64(n))) }

// Read stands in for crypto/rand.Read (random namespace names of the checkpoint package): deterministic bytes.
func Read(b []byte) (int, error) {
	for i := 0; i < len(b); i += 8 {
		v := simrt.Rand64("crypto/rand.Read")
		for j := 0; j < 8 && i+j < len(b); j++ {
			b[i+j] = byte(v >> (8 * j))
		}
	}
	return len(b), nil
}
