// Package simtls replaces crypto/tls in the substituted client files: TLS is
// not simulated, a "TLS" dial is a plain simulated dial.
package simtls

import (
	"crypto/tls"
	"net"

	"verifsim/simnet"
)

type Config = tls.Config

func DialWithDialer(d *simnet.Dialer, network, addr string, cfg *Config) (net.Conn, error) {
	return d.Dial(network, addr)
}

func Dial(network, addr string, cfg *Config) (net.Conn, error) {
	return simnet.Dial(network, addr)
}
