// Package simnet replaces package net in the repository's Redis client files
// (import substitution through the build overlay). Every connection ends in a
// simulator-owned in-memory duplex: the client side is a net.Conn used by the
// real client code, the server side is driven by the scheduler only.
package simnet

import (
	"context"
	"errors"
	"fmt"
	"io"
	"net"
	"os"
	"sort"
	"strings"
	"sync"
	"syscall"
	"time"

	"verifsim/simrt"
)

// Re-exports so that substituted files keep compiling.
type (
	Conn                = net.Conn
	Addr                = net.Addr
	Error               = net.Error
	IP                  = net.IP
	IPNet               = net.IPNet
	IPMask              = net.IPMask
	OpError             = net.OpError
	AddrError           = net.AddrError
	DNSError            = net.DNSError
	ParseError          = net.ParseError
	InvalidAddrError    = net.InvalidAddrError
	UnknownNetworkError = net.UnknownNetworkError
	TCPAddr             = net.TCPAddr
	TCPConn             = net.TCPConn
	UDPAddr             = net.UDPAddr
	UnixAddr            = net.UnixAddr
	Listener            = net.Listener
	Buffers             = net.Buffers
	PacketConn          = net.PacketConn
	Resolver            = net.Resolver
)

var (
	ErrClosed           = net.ErrClosed
	ErrWriteToConnected = net.ErrWriteToConnected
	DefaultResolver     = net.DefaultResolver
)

const (
	IPv4len = net.IPv4len
	IPv6len = net.IPv6len
)

// pure helpers (no I/O): the real ones
func SplitHostPort(hostport string) (string, string, error) { return net.SplitHostPort(hostport) }
func JoinHostPort(host, port string) string                 { return net.JoinHostPort(host, port) }
func ParseIP(s string) net.IP                               { return net.ParseIP(s) }
func ParseCIDR(s string) (net.IP, *net.IPNet, error)        { return net.ParseCIDR(s) }
func IPv4(a, b, c, d byte) net.IP                           { return net.IPv4(a, b, c, d) }
func ResolveTCPAddr(network, address string) (*net.TCPAddr, error) {
	host, port, err := net.SplitHostPort(address)
	if err != nil {
		return nil, err
	}
	p := 0
	fmt.Sscanf(port, "%d", &p)
	return &net.TCPAddr{IP: net.ParseIP(host), Port: p}, nil
}

// Acceptor is the server side of an address (a Redis double).
type Acceptor interface {
	Accept(c *SimConn)
}

// Net is the simulated network of one run.
type Net struct {
	mu        sync.Mutex
	listeners map[string]Acceptor
	Conns     []*SimConn
	nextID    int
	// DialFault, when set, is consulted for every dial (scheduler-owned state only).
	DialFault func(addr string) error
	// Tag is stamped on every new connection (incarnation id).
	Tag int
	// TagOf, when set, is asked in the DIALLING goroutine first: a harness with several actors dialling on their own
	// (C15's contenders) names the actor by its goroutine - the moment of the dial is the tool's choice (a dial behind a
	// parked lock happens steps after the scheduler released the actor), so "the tag the scheduler set last" may by then
	// be another actor's.
	TagOf  func() (int, bool)
	events []string
	closed []string
}

// FlushEvents writes the dial/close events gathered since the last call into the event log, sorted: several tool
// goroutines may dial or close within one quiescent period and their relative order is the Go runtime's choice.
func (n *Net) FlushEvents() {
	n.mu.Lock()
	ev := n.events
	n.events = nil
	n.mu.Unlock()
	if len(ev) == 0 {
		return
	}
	sort.Strings(ev)
	if w := simrt.Cur(); w != nil {
		for _, e := range ev {
			if strings.HasPrefix(e, "close ") {
				// WHEN a connection is closed relative to the scheduler's steps is decided inside the tool's
				// shutdown paths by the Go runtime (which of two runnable goroutines goes first): shown in traces,
				// summarised in the digest at the end of the run (FlushCloses)
				w.Tracef("%s", e)
				n.mu.Lock()
				n.closed = append(n.closed, e)
				n.mu.Unlock()
				continue
			}
			w.Logf("%s", e)
		}
	}
}

// FlushCloses writes the multiset of close events of the run into the event log (sorted). Called once, at the end.
func (n *Net) FlushCloses() {
	n.FlushEvents()
	n.mu.Lock()
	cl := n.closed
	n.closed = nil
	n.mu.Unlock()
	sort.Strings(cl)
	if w := simrt.Cur(); w != nil && len(cl) > 0 {
		w.Logf("closed during the run: %s", strings.Join(cl, "; "))
	}
}

var cur *Net
var curMu sync.Mutex

func New() *Net { return &Net{listeners: map[string]Acceptor{}} }

func SetNet(n *Net) { curMu.Lock(); cur = n; curMu.Unlock() }
func Cur() *Net     { curMu.Lock(); defer curMu.Unlock(); return cur }

func (n *Net) Listen(addr string, a Acceptor) {
	n.mu.Lock()
	n.listeners[addr] = a
	n.mu.Unlock()
}

func (n *Net) Unlisten(addr string) {
	n.mu.Lock()
	delete(n.listeners, addr)
	n.mu.Unlock()
}

func (n *Net) SetTag(t int) { n.mu.Lock(); n.Tag = t; n.mu.Unlock() }

func (n *Net) dial(addr string) (*SimConn, error) {
	n.mu.Lock()
	a := n.listeners[addr]
	df := n.DialFault
	n.mu.Unlock()
	if a == nil {
		return nil, &net.OpError{Op: "dial", Net: "tcp", Err: errors.New("connection refused (no simulated listener at " + addr + ")")}
	}
	if df != nil {
		if err := df(addr); err != nil {
			return nil, &net.OpError{Op: "dial", Net: "tcp", Err: err}
		}
	}
	n.mu.Lock()
	tagOf := n.TagOf
	n.mu.Unlock()
	tag, tagged := 0, false
	if tagOf != nil {
		tag, tagged = tagOf()
	}
	n.mu.Lock()
	n.nextID++
	if !tagged {
		tag = n.Tag
	}
	c := &SimConn{ID: n.nextID, RemoteAddress: addr, Tag: tag}
	c.cond = sync.NewCond(&c.mu)
	n.Conns = append(n.Conns, c)
	// connection ids are handed out in the order the dialling goroutines happen to arrive: they never
	// appear in the event log. The scheduler flushes these events in canonical (sorted) order at quiescence.
	n.events = append(n.events, "dial -> "+addr)
	n.mu.Unlock()
	a.Accept(c)
	return c, nil
}

// Dialer mirrors the fields of net.Dialer the repository uses.
type Dialer struct {
	Timeout       time.Duration
	Deadline      time.Time
	KeepAlive     time.Duration
	LocalAddr     net.Addr
	FallbackDelay time.Duration
	DualStack     bool
	Resolver      *net.Resolver
	Cancel        <-chan struct{}
}

func (d *Dialer) DialContext(ctx context.Context, network, address string) (net.Conn, error) {
	if err := ctx.Err(); err != nil {
		return nil, err
	}
	return d.Dial(network, address)
}

func (d *Dialer) Dial(network, address string) (net.Conn, error) {
	n := Cur()
	if n == nil {
		return nil, errors.New("simnet: no network installed")
	}
	c, err := n.dial(address)
	if err != nil {
		return nil, err
	}
	return c, nil
}

func Dial(network, address string) (net.Conn, error) {
	return (&Dialer{}).Dial(network, address)
}

func DialTimeout(network, address string, timeout time.Duration) (net.Conn, error) {
	return (&Dialer{Timeout: timeout}).Dial(network, address)
}

// ---------------------------------------------------------------- SimConn

type simAddr string

func (a simAddr) Network() string { return "tcp" }
func (a simAddr) String() string  { return string(a) }

// SimConn is one simulated TCP connection.
type SimConn struct {
	ID            int
	RemoteAddress string
	Tag           int
	Owner         any    // server-side session, set by the Acceptor
	Label         string // canonical name given by the server when it executes the connection's first request
	// OnWrite, if set by the Acceptor, runs in the WRITING goroutine after the bytes were appended (a peer that answers
	// with zero latency instead of waiting for the scheduler; used for auxiliary doubles whose timing no oracle is about)
	OnWrite func()

	mu   sync.Mutex
	cond *sync.Cond

	c2s []byte // written by the client, not yet consumed by the server side
	s2c []byte // delivered to the client, not yet read by it

	clientClosed bool  // client called Close
	broken       error // connection severed by the simulator: reads/writes fail
	serverEOF    bool  // server closed its side after s2c drains

	rdl time.Time
	wdl time.Time
	rdT *time.Timer

	BytesC2S int64
	BytesS2C int64
}

type timeoutError struct{}

func (timeoutError) Error() string   { return "i/o timeout" }
func (timeoutError) Timeout() bool   { return true }
func (timeoutError) Temporary() bool { return true }
func (timeoutError) Unwrap() error   { return os.ErrDeadlineExceeded }

func (c *SimConn) Read(b []byte) (int, error) {
	c.mu.Lock()
	defer c.mu.Unlock()
	for {
		if c.clientClosed {
			return 0, net.ErrClosed
		}
		if c.broken != nil {
			return 0, c.broken
		}
		if len(c.s2c) > 0 {
			n := copy(b, c.s2c)
			c.s2c = c.s2c[n:]
			if len(c.s2c) == 0 {
				c.s2c = nil
			}
			return n, nil
		}
		if c.serverEOF {
			return 0, io.EOF
		}
		if !c.rdl.IsZero() && !time.Now().Before(c.rdl) {
			return 0, timeoutError{}
		}
		if len(b) == 0 {
			return 0, nil
		}
		c.cond.Wait()
	}
}

func (c *SimConn) Write(b []byte) (int, error) {
	c.mu.Lock()
	defer c.mu.Unlock()
	if c.clientClosed {
		return 0, net.ErrClosed
	}
	if c.broken != nil {
		return 0, c.broken
	}
	if c.serverEOF {
		return 0, &net.OpError{Op: "write", Net: "tcp", Err: errors.New("broken pipe")}
	}
	c.c2s = append(c.c2s, b...)
	c.BytesC2S += int64(len(b))
	if f := c.OnWrite; f != nil {
		c.mu.Unlock()
		f()
		c.mu.Lock()
	}
	return len(b), nil
}

func (c *SimConn) Close() error {
	c.mu.Lock()
	if c.clientClosed {
		c.mu.Unlock()
		return net.ErrClosed
	}
	c.clientClosed = true
	if c.rdT != nil {
		c.rdT.Stop()
	}
	c.cond.Broadcast()
	lbl := c.Label
	c.mu.Unlock()
	if n := Cur(); n != nil && c.RemoteAddress != "local" {
		n.mu.Lock()
		if lbl != "" {
			n.events = append(n.events, "close "+lbl)
		} else {
			n.events = append(n.events, "close (no request executed) -> "+c.RemoteAddress)
		}
		n.mu.Unlock()
	}
	return nil
}

func (c *SimConn) LocalAddr() net.Addr  { return simAddr(fmt.Sprintf("sim-client:%d", c.ID)) }
func (c *SimConn) RemoteAddr() net.Addr { return simAddr(c.RemoteAddress) }

func (c *SimConn) SetDeadline(t time.Time) error {
	c.SetReadDeadline(t)
	return c.SetWriteDeadline(t)
}

func (c *SimConn) SetReadDeadline(t time.Time) error {
	c.mu.Lock()
	defer c.mu.Unlock()
	c.rdl = t
	if c.rdT != nil {
		c.rdT.Stop()
		c.rdT = nil
	}
	if !t.IsZero() {
		d := time.Until(t)
		if d < 0 {
			d = 0
		}
		c.rdT = time.AfterFunc(d, func() {
			c.mu.Lock()
			c.cond.Broadcast()
			c.mu.Unlock()
		})
	}
	c.cond.Broadcast()
	return nil
}

func (c *SimConn) SetWriteDeadline(t time.Time) error {
	c.mu.Lock()
	c.wdl = t
	c.mu.Unlock()
	return nil
}

// NewLocalConn returns a connection that is not part of any network (simulated local clients of a double).
func NewLocalConn(id int) *SimConn {
	c := &SimConn{ID: id, RemoteAddress: "local", Tag: -1}
	c.cond = sync.NewCond(&c.mu)
	return c
}

// ---- server side (scheduler only)

// Pending returns the bytes the client has written and the server has not consumed.
func (c *SimConn) Pending() []byte {
	c.mu.Lock()
	defer c.mu.Unlock()
	return c.c2s
}

func (c *SimConn) Consume(n int) {
	c.mu.Lock()
	c.c2s = c.c2s[n:]
	if len(c.c2s) == 0 {
		c.c2s = nil
	}
	c.mu.Unlock()
}

// Deliver makes reply bytes readable by the client.
func (c *SimConn) Deliver(b []byte) {
	c.mu.Lock()
	if c.Tag == -1 && c.RemoteAddress == "local" {
		c.mu.Unlock()
		return // replies to local clients are discarded
	}
	if c.broken == nil && !c.clientClosed {
		c.s2c = append(c.s2c, b...)
		c.BytesS2C += int64(len(b))
		c.cond.Broadcast()
	}
	c.mu.Unlock()
}

// Sever breaks the connection: every later client read/write fails with err.
func (c *SimConn) Sever(err error) {
	c.mu.Lock()
	if c.broken == nil {
		c.broken = err
	}
	c.s2c = nil
	c.cond.Broadcast()
	c.mu.Unlock()
}

// ServerClose lets the client drain delivered bytes, then read EOF.
func (c *SimConn) ServerClose() {
	c.mu.Lock()
	c.serverEOF = true
	c.cond.Broadcast()
	c.mu.Unlock()
}

func (c *SimConn) ClientClosed() bool {
	c.mu.Lock()
	defer c.mu.Unlock()
	return c.clientClosed
}

func (c *SimConn) Broken() bool {
	c.mu.Lock()
	defer c.mu.Unlock()
	return c.broken != nil
}

func (c *SimConn) Unread() int {
	c.mu.Lock()
	defer c.mu.Unlock()
	return len(c.s2c)
}

// ErrReset is what a read or write on a connection severed by the peer returns: as the kernel reports it, an
// *net.OpError around the ECONNRESET errno, so that code which classifies errors (errors.Is(err, syscall.ECONNRESET))
// sees what it would see in production.
var ErrReset = &net.OpError{Op: "read", Net: "tcp", Err: os.NewSyscallError("read", syscall.ECONNRESET)}
