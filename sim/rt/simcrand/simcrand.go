// Package simcrand replaces crypto/rand in repository files whose randomness influences what a simulated run
// does (random namespace names of the checkpoint package): deterministic bytes derived from the run's seed.
package simcrand

import (
	rcrand "crypto/rand"
	"io"
	"math/big"

	"verifsim/simrt"
)

type reader struct{}

func (reader) Read(b []byte) (int, error) { return Read(b) }

// Reader is the deterministic stand-in of crypto/rand.Reader.
var Reader io.Reader = reader{}

// Read fills b with deterministic bytes.
func Read(b []byte) (int, error) {
	for i := 0; i < len(b); i += 8 {
		v := simrt.Rand64("crypto/rand.Read")
		for j := 0; j < 8 && i+j < len(b); j++ {
			b[i+j] = byte(v >> (8 * j))
		}
	}
	return len(b), nil
}

// Int, Prime: the real algorithms over whichever reader the caller hands in (normally Reader above).
func Int(r io.Reader, max *big.Int) (*big.Int, error) { return rcrand.Int(r, max) }
func Prime(r io.Reader, bits int) (*big.Int, error)   { return rcrand.Prime(r, bits) }

const base32alphabet = "ABCDEFGHIJKLMNOPQRSTUVWXYZ234567"

// Text returns a deterministic 26 character base32 string, like crypto/rand.Text.
func Text() string {
	b := make([]byte, 26)
	Read(b)
	for i := range b {
		b[i] = base32alphabet[b[i]%32]
	}
	return string(b)
}
