// Package simfs replaces package os in the repository's disk-cache files (pkg/store, import
// substitution through the build overlay). It is an in-memory POSIX-like file system:
//
//   - one FS instance per simulated run, installed with SetFS (like simnet.SetNet);
//   - unlinked-but-open files stay readable/writable through their open handles;
//   - rename is atomic and replaces; directory listings are sorted;
//   - every MUTATING operation is appended to a JOURNAL from which a fresh FS image can be rebuilt
//     from any prefix (ImageAt): the crash model "process death" — every completed operation persists,
//     the operation in flight persists as a prefix of its data, nothing else. Sync is a marker only.
//   - scheduler-owned fault hooks: fail the next write/sync/rename/open/... with ENOSPC/EIO, short write.
//
// Modification times come from time.Now(), i.e. from the virtual clock inside a synctest bubble.
// The FS has no goroutines and one internal mutex that is never held while blocking.
package simfs

import (
	"errors"
	"fmt"
	"io"
	"io/fs"
	"os"
	"sort"
	"strings"
	"sync"
	"syscall"
	"time"
)

// ---------------------------------------------------------------- re-exports of package os

type (
	FileInfo  = fs.FileInfo
	FileMode  = fs.FileMode
	DirEntry  = fs.DirEntry
	PathError = fs.PathError
	LinkError = os.LinkError
	Signal    = os.Signal
)

const (
	O_RDONLY = os.O_RDONLY
	O_WRONLY = os.O_WRONLY
	O_RDWR   = os.O_RDWR
	O_APPEND = os.O_APPEND
	O_CREATE = os.O_CREATE
	O_EXCL   = os.O_EXCL
	O_SYNC   = os.O_SYNC
	O_TRUNC  = os.O_TRUNC

	PathSeparator     = '/'
	PathListSeparator = ':'
	DevNull           = "/dev/null"

	ModeDir        = fs.ModeDir
	ModeAppend     = fs.ModeAppend
	ModeExclusive  = fs.ModeExclusive
	ModeTemporary  = fs.ModeTemporary
	ModeSymlink    = fs.ModeSymlink
	ModeDevice     = fs.ModeDevice
	ModeNamedPipe  = fs.ModeNamedPipe
	ModeSocket     = fs.ModeSocket
	ModeSetuid     = fs.ModeSetuid
	ModeSetgid     = fs.ModeSetgid
	ModeCharDevice = fs.ModeCharDevice
	ModeSticky     = fs.ModeSticky
	ModeIrregular  = fs.ModeIrregular
	ModeType       = fs.ModeType
	ModePerm       = fs.ModePerm

	SEEK_SET = 0
	SEEK_CUR = 1
	SEEK_END = 2
)

var (
	ErrInvalid          = fs.ErrInvalid
	ErrPermission       = fs.ErrPermission
	ErrExist            = fs.ErrExist
	ErrNotExist         = fs.ErrNotExist
	ErrClosed           = fs.ErrClosed
	ErrNoDeadline       = os.ErrNoDeadline
	ErrDeadlineExceeded = os.ErrDeadlineExceeded
	ErrProcessDone      = os.ErrProcessDone

	Stdin  = os.Stdin
	Stdout = os.Stdout
	Stderr = os.Stderr
	Args   = os.Args
)

func IsNotExist(err error) bool   { return os.IsNotExist(err) }
func IsExist(err error) bool      { return os.IsExist(err) }
func IsPermission(err error) bool { return os.IsPermission(err) }
func IsTimeout(err error) bool    { return os.IsTimeout(err) }
func IsPathSeparator(c uint8) bool {
	return c == '/'
}
func Getpid() int                       { return 4242 }
func Getppid() int                      { return 1 }
func Getuid() int                       { return 0 }
func Getgid() int                       { return 0 }
func Getenv(k string) string            { return os.Getenv(k) }
func LookupEnv(k string) (string, bool) { return os.LookupEnv(k) }
func Hostname() (string, error)         { return "simhost", nil }
func TempDir() string                   { return "/tmp" }
func Getwd() (string, error)            { return "/", nil }
func Exit(code int)                     { panic(fmt.Sprintf("simfs: os.Exit(%d) called by code under simulation", code)) }
func NewSyscallError(s string, err error) error {
	return os.NewSyscallError(s, err)
}

// ---------------------------------------------------------------- journal

type OpKind uint8

const (
	OpMkdir    OpKind = iota + 1 // Path
	OpOpen                       // Path, Handle, Flag (only opens with write access or O_CREATE/O_TRUNC), Created, Truncated
	OpWrite                      // Handle, Off, Data
	OpTruncate                   // Handle (or Path when Handle==0), Size
	OpSync                       // Handle (marker)
	OpClose                      // Handle
	OpRename                     // Path -> Path2
	OpRemove                     // Path (file or empty directory)
)

func (k OpKind) String() string {
	switch k {
	case OpMkdir:
		return "mkdir"
	case OpOpen:
		return "open"
	case OpWrite:
		return "write"
	case OpTruncate:
		return "truncate"
	case OpSync:
		return "sync"
	case OpClose:
		return "close"
	case OpRename:
		return "rename"
	case OpRemove:
		return "remove"
	}
	return "?"
}

// Op is one completed mutating operation.
type Op struct {
	Kind      OpKind
	Path      string // cleaned absolute path (for handle ops: the name the handle was opened under)
	Path2     string
	Handle    int // journal-wide handle id (>0) for open/write/truncate/sync/close
	Flag      int
	Off       int64
	Data      []byte
	Size      int64
	Created   bool
	Truncated bool
}

func (o *Op) String() string {
	switch o.Kind {
	case OpMkdir, OpRemove:
		return fmt.Sprintf("%s %s", o.Kind, o.Path)
	case OpOpen:
		s := fmt.Sprintf("open h%d %s", o.Handle, o.Path)
		if o.Created {
			s += " +create"
		}
		if o.Truncated {
			s += " +trunc"
		}
		return s
	case OpWrite:
		return fmt.Sprintf("write h%d %s off=%d len=%d", o.Handle, o.Path, o.Off, len(o.Data))
	case OpTruncate:
		return fmt.Sprintf("truncate h%d %s size=%d", o.Handle, o.Path, o.Size)
	case OpSync, OpClose:
		return fmt.Sprintf("%s h%d %s", o.Kind, o.Handle, o.Path)
	case OpRename:
		return fmt.Sprintf("rename %s -> %s", o.Path, o.Path2)
	}
	return "?"
}

// ---------------------------------------------------------------- tree

type node struct {
	ino      int
	dir      bool
	data     []byte
	children map[string]*node
	mode     FileMode
	mtime    time.Time
	nlink    int
}

// FaultFn decides whether the operation `op` ("open","write","sync","rename","remove","mkdir","read",
// "truncate","close","stat") on `path` fails; nil = no fault. Scheduler-owned: it is called with the FS lock held
// and must not block or call back into the FS.
type FaultFn func(op string, path string) error

// FS is one simulated file system.
type FS struct {
	mu      sync.Mutex
	root    *node
	nextIno int
	nextH   int
	journal []Op
	noJourn bool
	tempSeq uint64

	// Fault hooks (nil = healthy disk).
	Fault FaultFn
	// ShortWrite, when set, may shorten a write: it receives the path and the requested length and returns the
	// number of bytes that are actually written (0 <= n <= len); the write then fails with ENOSPC if n < len.
	ShortWrite func(path string, n int) int
	// Delay, when set, makes an operation slow: it is called WITHOUT the FS lock, before the operation takes effect,
	// and the calling goroutine sleeps (virtual time) for the returned duration. "sync" and "write" consult it: a
	// stalled fsync is the window in which a file is already visible but its writer has not gone on yet, a stalled
	// write the one in which bytes were taken from the source but are not in the file.
	Delay func(op string, path string) time.Duration
	// OnJournal is called (with the FS lock held; must not call back into the FS) after op idx was appended.
	OnJournal func(idx int, op *Op)

	failNext map[string][]error
}

var (
	ENOSPC = syscall.ENOSPC
	EIO    = syscall.EIO
)

// New returns an empty file system containing only the root directory.
func New() *FS {
	f := &FS{nextIno: 1}
	f.root = &node{ino: 1, dir: true, children: map[string]*node{}, mode: ModeDir | 0o777, nlink: 1}
	return f
}

var (
	cur   *FS
	curMu sync.Mutex
)

// SetFS installs the file system seen by the substituted package-level functions.
func SetFS(f *FS) { curMu.Lock(); cur = f; curMu.Unlock() }

// Cur returns the installed file system (nil if none).
func Cur() *FS { curMu.Lock(); defer curMu.Unlock(); return cur }

func must() *FS {
	f := Cur()
	if f == nil {
		panic("simfs: no file system installed (harness must call simfs.SetFS before code under test touches the disk)")
	}
	return f
}

// FailNext makes the next operation of kind op ("write","sync","rename","open","remove","mkdir","truncate","close")
// fail with err. Several calls queue up.
func (f *FS) FailNext(op string, err error) {
	f.mu.Lock()
	if f.failNext == nil {
		f.failNext = map[string][]error{}
	}
	f.failNext[op] = append(f.failNext[op], err)
	f.mu.Unlock()
}

func (f *FS) fault(op, path string) error {
	if q := f.failNext[op]; len(q) > 0 {
		e := q[0]
		f.failNext[op] = q[1:]
		return e
	}
	if f.Fault != nil {
		return f.Fault(op, path)
	}
	return nil
}

func now() time.Time { return time.Now() }

func (f *FS) log(op Op) {
	if f.noJourn {
		return
	}
	f.journal = append(f.journal, op)
	if f.OnJournal != nil {
		f.OnJournal(len(f.journal)-1, &f.journal[len(f.journal)-1])
	}
}

// JournalLen returns the number of journaled operations.
func (f *FS) JournalLen() int { f.mu.Lock(); defer f.mu.Unlock(); return len(f.journal) }

// Journal returns a copy of the journal (Data slices are shared, treat as read-only).
func (f *FS) Journal() []Op {
	f.mu.Lock()
	defer f.mu.Unlock()
	return append([]Op(nil), f.journal...)
}

// clean returns the absolute cleaned form of a path; "" stays "" (ENOENT, as in POSIX).
func clean(p string) string {
	if p == "" {
		return ""
	}
	if p[0] != '/' {
		p = "/" + p
	}
	parts := strings.Split(p, "/")
	out := make([]string, 0, len(parts))
	for _, s := range parts {
		switch s {
		case "", ".":
		case "..":
			if len(out) > 0 {
				out = out[:len(out)-1]
			}
		default:
			out = append(out, s)
		}
	}
	return "/" + strings.Join(out, "/")
}

func split(p string) (dir, base string) {
	i := strings.LastIndexByte(p, '/')
	if i <= 0 {
		return "/", p[i+1:]
	}
	return p[:i], p[i+1:]
}

func perr(op, path string, err error) error { return &PathError{Op: op, Path: path, Err: err} }

// lookup resolves a cleaned path.
func (f *FS) lookup(p string) (*node, error) {
	if p == "" {
		return nil, syscall.ENOENT
	}
	n := f.root
	if p == "/" {
		return n, nil
	}
	for _, s := range strings.Split(p[1:], "/") {
		if !n.dir {
			return nil, syscall.ENOTDIR
		}
		c := n.children[s]
		if c == nil {
			return nil, syscall.ENOENT
		}
		n = c
	}
	return n, nil
}

func (f *FS) newNode(dir bool, mode FileMode) *node {
	f.nextIno++
	n := &node{ino: f.nextIno, dir: dir, mode: mode & ModePerm, mtime: now(), nlink: 1}
	if dir {
		n.children = map[string]*node{}
		n.mode |= ModeDir
	}
	return n
}

// ---------------------------------------------------------------- FileInfo / DirEntry

type fileInfo struct {
	name  string
	size  int64
	mode  FileMode
	mtime time.Time
	dir   bool
}

func (i *fileInfo) Name() string               { return i.name }
func (i *fileInfo) Size() int64                { return i.size }
func (i *fileInfo) Mode() FileMode             { return i.mode }
func (i *fileInfo) ModTime() time.Time         { return i.mtime }
func (i *fileInfo) IsDir() bool                { return i.dir }
func (i *fileInfo) Sys() any                   { return nil }
func (i *fileInfo) Type() FileMode             { return i.mode.Type() }
func (i *fileInfo) Info() (fs.FileInfo, error) { return i, nil }
func (i *fileInfo) String() string             { return fs.FormatFileInfo(i) }

func infoOf(name string, n *node) *fileInfo {
	return &fileInfo{name: name, size: int64(len(n.data)), mode: n.mode, mtime: n.mtime, dir: n.dir}
}

func baseName(p string) string {
	if p == "/" || p == "" {
		return "/"
	}
	_, b := split(p)
	return b
}

// ---------------------------------------------------------------- path operations (methods on FS)

func (f *FS) Stat(name string) (FileInfo, error) {
	f.mu.Lock()
	defer f.mu.Unlock()
	p := clean(name)
	if err := f.fault("stat", p); err != nil {
		return nil, perr("stat", name, err)
	}
	n, err := f.lookup(p)
	if err != nil {
		return nil, perr("stat", name, err)
	}
	return infoOf(baseName(p), n), nil
}

func (f *FS) Mkdir(name string, perm FileMode) error {
	f.mu.Lock()
	defer f.mu.Unlock()
	return f.mkdirLocked(name, perm)
}

func (f *FS) mkdirLocked(name string, perm FileMode) error {
	p := clean(name)
	if p == "" {
		return perr("mkdir", name, syscall.ENOENT)
	}
	if p == "/" {
		return perr("mkdir", name, syscall.EEXIST)
	}
	d, b := split(p)
	parent, err := f.lookup(d)
	if err != nil {
		return perr("mkdir", name, err)
	}
	if !parent.dir {
		return perr("mkdir", name, syscall.ENOTDIR)
	}
	if parent.children[b] != nil {
		return perr("mkdir", name, syscall.EEXIST)
	}
	if err := f.fault("mkdir", p); err != nil {
		return perr("mkdir", name, err)
	}
	parent.children[b] = f.newNode(true, perm)
	parent.mtime = now()
	f.log(Op{Kind: OpMkdir, Path: p})
	return nil
}

func (f *FS) MkdirAll(name string, perm FileMode) error {
	f.mu.Lock()
	defer f.mu.Unlock()
	p := clean(name)
	if p == "" {
		return perr("mkdir", name, syscall.ENOENT)
	}
	if n, err := f.lookup(p); err == nil {
		if n.dir {
			return nil
		}
		return perr("mkdir", name, syscall.ENOTDIR)
	}
	parts := strings.Split(p[1:], "/")
	curp := ""
	for _, s := range parts {
		curp += "/" + s
		n, err := f.lookup(curp)
		if err == nil {
			if !n.dir {
				return perr("mkdir", curp, syscall.ENOTDIR)
			}
			continue
		}
		if err := f.mkdirLocked(curp, perm); err != nil {
			return err
		}
	}
	return nil
}

// Remove removes a file or an empty directory.
func (f *FS) Remove(name string) error {
	f.mu.Lock()
	defer f.mu.Unlock()
	return f.removeLocked(name)
}

func (f *FS) removeLocked(name string) error {
	p := clean(name)
	if p == "" || p == "/" {
		return perr("remove", name, syscall.ENOENT)
	}
	d, b := split(p)
	parent, err := f.lookup(d)
	if err != nil {
		return perr("remove", name, err)
	}
	if !parent.dir {
		return perr("remove", name, syscall.ENOTDIR)
	}
	n := parent.children[b]
	if n == nil {
		return perr("remove", name, syscall.ENOENT)
	}
	if n.dir && len(n.children) > 0 {
		return perr("remove", name, syscall.ENOTEMPTY)
	}
	if err := f.fault("remove", p); err != nil {
		return perr("remove", name, err)
	}
	delete(parent.children, b)
	n.nlink--
	parent.mtime = now()
	f.log(Op{Kind: OpRemove, Path: p})
	return nil
}

// RemoveAll removes path and everything below it. Like the real one it is NOT atomic: it is journaled as one
// remove per entry (children in sorted order, depth first, then the directory), so that a process death in the
// middle leaves a partially removed tree. A missing path is not an error.
func (f *FS) RemoveAll(name string) error {
	f.mu.Lock()
	defer f.mu.Unlock()
	p := clean(name)
	if p == "" {
		return nil
	}
	if p == "/" {
		return perr("RemoveAll", name, syscall.EINVAL)
	}
	n, err := f.lookup(p)
	if err != nil {
		if err == syscall.ENOENT || err == syscall.ENOTDIR {
			return nil
		}
		return perr("RemoveAll", name, err)
	}
	return f.removeTree(p, n)
}

func (f *FS) removeTree(p string, n *node) error {
	if n.dir {
		names := make([]string, 0, len(n.children))
		for k := range n.children {
			names = append(names, k)
		}
		sort.Strings(names)
		for _, k := range names {
			if err := f.removeTree(p+"/"+k, n.children[k]); err != nil {
				return err
			}
		}
	}
	return f.removeLocked(p)
}

// Rename is atomic and replaces an existing destination (file over file, directory over empty directory).
func (f *FS) Rename(oldname, newname string) error {
	f.mu.Lock()
	defer f.mu.Unlock()
	return f.renameLocked(oldname, newname)
}

func (f *FS) renameLocked(oldname, newname string) error {
	lerr := func(e error) error { return &LinkError{Op: "rename", Old: oldname, New: newname, Err: e} }
	op, np := clean(oldname), clean(newname)
	if op == "" || np == "" || op == "/" || np == "/" {
		return lerr(syscall.ENOENT)
	}
	od, ob := split(op)
	nd, nb := split(np)
	oparent, err := f.lookup(od)
	if err != nil {
		return lerr(err)
	}
	n := oparent.children[ob]
	if n == nil {
		return lerr(syscall.ENOENT)
	}
	nparent, err := f.lookup(nd)
	if err != nil {
		return lerr(err)
	}
	if !nparent.dir {
		return lerr(syscall.ENOTDIR)
	}
	if op == np {
		return nil
	}
	if n.dir && strings.HasPrefix(np+"/", op+"/") {
		return lerr(syscall.EINVAL)
	}
	if t := nparent.children[nb]; t != nil {
		switch {
		case t.dir && !n.dir:
			return lerr(syscall.EISDIR)
		case !t.dir && n.dir:
			return lerr(syscall.ENOTDIR)
		case t.dir && len(t.children) > 0:
			return lerr(syscall.ENOTEMPTY)
		}
	}
	if err := f.fault("rename", op); err != nil {
		return lerr(err)
	}
	if t := nparent.children[nb]; t != nil {
		t.nlink--
	}
	delete(oparent.children, ob)
	nparent.children[nb] = n
	oparent.mtime = now()
	nparent.mtime = oparent.mtime
	f.log(Op{Kind: OpRename, Path: op, Path2: np})
	return nil
}

func (f *FS) Truncate(name string, size int64) error {
	f.mu.Lock()
	defer f.mu.Unlock()
	p := clean(name)
	n, err := f.lookup(p)
	if err != nil {
		return perr("truncate", name, err)
	}
	if n.dir {
		return perr("truncate", name, syscall.EISDIR)
	}
	if size < 0 {
		return perr("truncate", name, syscall.EINVAL)
	}
	if err := f.fault("truncate", p); err != nil {
		return perr("truncate", name, err)
	}
	resize(n, size)
	f.log(Op{Kind: OpTruncate, Path: p, Size: size})
	return nil
}

func resize(n *node, size int64) {
	if int64(len(n.data)) > size {
		n.data = n.data[:size:size]
	} else if int64(len(n.data)) < size {
		n.data = append(n.data, make([]byte, size-int64(len(n.data)))...)
	}
	n.mtime = now()
}

func (f *FS) ReadDir(name string) ([]DirEntry, error) {
	f.mu.Lock()
	defer f.mu.Unlock()
	p := clean(name)
	n, err := f.lookup(p)
	if err != nil {
		return nil, perr("open", name, err)
	}
	if !n.dir {
		return nil, perr("readdirent", name, syscall.ENOTDIR)
	}
	return entries(n), nil
}

func entries(n *node) []DirEntry {
	names := make([]string, 0, len(n.children))
	for k := range n.children {
		names = append(names, k)
	}
	sort.Strings(names)
	out := make([]DirEntry, 0, len(names))
	for _, k := range names {
		out = append(out, infoOf(k, n.children[k]))
	}
	return out
}

func (f *FS) ReadFile(name string) ([]byte, error) {
	f.mu.Lock()
	defer f.mu.Unlock()
	p := clean(name)
	n, err := f.lookup(p)
	if err != nil {
		return nil, perr("open", name, err)
	}
	if n.dir {
		return nil, perr("read", name, syscall.EISDIR)
	}
	if err := f.fault("read", p); err != nil {
		return nil, perr("read", name, err)
	}
	return append([]byte(nil), n.data...), nil
}

func (f *FS) WriteFile(name string, data []byte, perm FileMode) error {
	h, err := f.OpenFile(name, O_WRONLY|O_CREATE|O_TRUNC, perm)
	if err != nil {
		return err
	}
	_, err = h.Write(data)
	if e := h.Close(); err == nil {
		err = e
	}
	return err
}

// OpenFile opens a file (or, read-only, a directory).
func (f *FS) OpenFile(name string, flag int, perm FileMode) (*File, error) {
	f.mu.Lock()
	defer f.mu.Unlock()
	p := clean(name)
	if p == "" {
		return nil, perr("open", name, syscall.ENOENT)
	}
	acc := flag & (O_RDONLY | O_WRONLY | O_RDWR)
	writable := acc == O_WRONLY || acc == O_RDWR
	n, err := f.lookup(p)
	created, truncated := false, false
	if err != nil && err != syscall.ENOENT {
		return nil, perr("open", name, err)
	}
	if err == nil && flag&O_CREATE != 0 && flag&O_EXCL != 0 {
		return nil, perr("open", name, syscall.EEXIST)
	}
	if err == nil && n.dir && (writable || flag&O_TRUNC != 0) {
		return nil, perr("open", name, syscall.EISDIR)
	}
	if err != nil && flag&O_CREATE == 0 {
		return nil, perr("open", name, syscall.ENOENT)
	}
	var parent *node
	var base string
	if err != nil { // create
		d, b := split(p)
		var e2 error
		parent, e2 = f.lookup(d)
		if e2 != nil {
			return nil, perr("open", name, e2)
		}
		if !parent.dir {
			return nil, perr("open", name, syscall.ENOTDIR)
		}
		base = b
	}
	if ferr := f.fault("open", p); ferr != nil {
		return nil, perr("open", name, ferr)
	}
	if err != nil {
		n = f.newNode(false, perm)
		parent.children[base] = n
		parent.mtime = now()
		created = true
	} else if flag&O_TRUNC != 0 && !n.dir {
		n.data = nil
		n.mtime = now()
		truncated = true
	}
	h := &File{fs: f, n: n, name: name, path: p, flag: flag, readable: acc == O_RDONLY || acc == O_RDWR, writable: writable}
	if writable || created || truncated {
		f.nextH++
		h.hid = f.nextH
		f.log(Op{Kind: OpOpen, Path: p, Handle: h.hid, Flag: flag, Created: created, Truncated: truncated})
	}
	return h, nil
}

// ---------------------------------------------------------------- package-level functions (current FS)

func Stat(name string) (FileInfo, error)             { return must().Stat(name) }
func Lstat(name string) (FileInfo, error)            { return must().Stat(name) }
func Mkdir(name string, perm FileMode) error         { return must().Mkdir(name, perm) }
func MkdirAll(p string, perm FileMode) error         { return must().MkdirAll(p, perm) }
func Remove(name string) error                       { return must().Remove(name) }
func RemoveAll(p string) error                       { return must().RemoveAll(p) }
func Rename(o, n string) error                       { return must().Rename(o, n) }
func Truncate(name string, size int64) error         { return must().Truncate(name, size) }
func ReadDir(name string) ([]DirEntry, error)        { return must().ReadDir(name) }
func ReadFile(name string) ([]byte, error)           { return must().ReadFile(name) }
func Chmod(name string, mode FileMode) error         { _, err := must().Stat(name); return err }
func Chtimes(n string, a, m time.Time) error         { _, err := must().Stat(n); return err }
func Open(name string) (*File, error)                { return must().OpenFile(name, O_RDONLY, 0) }
func Create(name string) (*File, error)              { return must().OpenFile(name, O_RDWR|O_CREATE|O_TRUNC, 0o666) }
func WriteFile(n string, d []byte, p FileMode) error { return must().WriteFile(n, d, p) }
func OpenFile(name string, flag int, perm FileMode) (*File, error) {
	return must().OpenFile(name, flag, perm)
}
func SameFile(a, b FileInfo) bool { return a == b }

// ---------------------------------------------------------------- File

// File is an open handle. A nil *File and a closed File behave like the real ones (ErrInvalid / ErrClosed).
type File struct {
	fs       *FS
	n        *node
	name     string
	path     string
	flag     int
	pos      int64
	readable bool
	writable bool
	closed   bool
	hid      int
	dirPos   int
}

func (h *File) check(op string) error {
	if h == nil {
		return ErrInvalid
	}
	if h.closed {
		return perr(op, h.name, ErrClosed)
	}
	return nil
}

func (h *File) Name() string {
	if h == nil {
		return ""
	}
	return h.name
}

func (h *File) Fd() uintptr {
	if h == nil {
		return ^uintptr(0)
	}
	return uintptr(1000 + h.n.ino)
}

func (h *File) Read(b []byte) (int, error) {
	if err := h.check("read"); err != nil {
		return 0, err
	}
	h.fs.mu.Lock()
	defer h.fs.mu.Unlock()
	if err := h.check("read"); err != nil {
		return 0, err
	}
	if !h.readable {
		return 0, perr("read", h.name, syscall.EBADF)
	}
	if h.n.dir {
		return 0, perr("read", h.name, syscall.EISDIR)
	}
	if err := h.fs.fault("read", h.path); err != nil {
		return 0, perr("read", h.name, err)
	}
	if len(b) == 0 {
		return 0, nil
	}
	if h.pos >= int64(len(h.n.data)) {
		return 0, io.EOF
	}
	n := copy(b, h.n.data[h.pos:])
	h.pos += int64(n)
	return n, nil
}

func (h *File) ReadAt(b []byte, off int64) (int, error) {
	if err := h.check("read"); err != nil {
		return 0, err
	}
	h.fs.mu.Lock()
	defer h.fs.mu.Unlock()
	if err := h.check("read"); err != nil {
		return 0, err
	}
	if !h.readable {
		return 0, perr("read", h.name, syscall.EBADF)
	}
	if off < 0 {
		return 0, perr("readat", h.name, errors.New("negative offset"))
	}
	if err := h.fs.fault("read", h.path); err != nil {
		return 0, perr("read", h.name, err)
	}
	if off >= int64(len(h.n.data)) {
		return 0, io.EOF
	}
	n := copy(b, h.n.data[off:])
	if n < len(b) {
		return n, io.EOF
	}
	return n, nil
}

func (h *File) writeAt(b []byte, off int64, op string) (int, error) {
	if !h.writable {
		return 0, perr(op, h.name, syscall.EBADF)
	}
	if err := h.fs.fault("write", h.path); err != nil {
		return 0, perr(op, h.name, err)
	}
	n := len(b)
	var werr error
	if h.fs.ShortWrite != nil {
		if m := h.fs.ShortWrite(h.path, n); m >= 0 && m < n {
			n = m
			werr = perr(op, h.name, syscall.ENOSPC)
		}
	}
	if n > 0 {
		end := off + int64(n)
		if int64(len(h.n.data)) < end {
			if int64(cap(h.n.data)) >= end {
				old := len(h.n.data)
				h.n.data = h.n.data[:end]
				for i := old; int64(i) < off; i++ { // hole
					h.n.data[i] = 0
				}
			} else {
				nd := make([]byte, end, end*2+64)
				copy(nd, h.n.data)
				h.n.data = nd
			}
		}
		copy(h.n.data[off:end], b[:n])
		h.n.mtime = now()
		h.fs.log(Op{Kind: OpWrite, Path: h.path, Handle: h.hid, Off: off, Data: append([]byte(nil), b[:n]...)})
	}
	return n, werr
}

func (h *File) Write(b []byte) (int, error) {
	if err := h.check("write"); err != nil {
		return 0, err
	}
	if d := h.fs.Delay; d != nil {
		if dd := d("write", h.path); dd > 0 {
			time.Sleep(dd)
		}
	}
	h.fs.mu.Lock()
	defer h.fs.mu.Unlock()
	if err := h.check("write"); err != nil {
		return 0, err
	}
	if h.flag&O_APPEND != 0 {
		h.pos = int64(len(h.n.data))
	}
	n, err := h.writeAt(b, h.pos, "write")
	h.pos += int64(n)
	return n, err
}

func (h *File) WriteString(s string) (int, error) { return h.Write([]byte(s)) }

func (h *File) WriteAt(b []byte, off int64) (int, error) {
	if err := h.check("write"); err != nil {
		return 0, err
	}
	h.fs.mu.Lock()
	defer h.fs.mu.Unlock()
	if err := h.check("write"); err != nil {
		return 0, err
	}
	if h.flag&O_APPEND != 0 {
		return 0, errors.New("os: invalid use of WriteAt on file opened with O_APPEND")
	}
	if off < 0 {
		return 0, perr("writeat", h.name, errors.New("negative offset"))
	}
	return h.writeAt(b, off, "write")
}

func (h *File) Seek(offset int64, whence int) (int64, error) {
	if err := h.check("seek"); err != nil {
		return 0, err
	}
	h.fs.mu.Lock()
	defer h.fs.mu.Unlock()
	if err := h.check("seek"); err != nil {
		return 0, err
	}
	var base int64
	switch whence {
	case io.SeekStart:
	case io.SeekCurrent:
		base = h.pos
	case io.SeekEnd:
		base = int64(len(h.n.data))
	default:
		return 0, perr("seek", h.name, syscall.EINVAL)
	}
	if base+offset < 0 {
		return 0, perr("seek", h.name, syscall.EINVAL)
	}
	h.pos = base + offset
	return h.pos, nil
}

func (h *File) Sync() error {
	if err := h.check("sync"); err != nil {
		return err
	}
	if d := h.fs.Delay; d != nil {
		if dd := d("sync", h.path); dd > 0 {
			time.Sleep(dd)
		}
	}
	h.fs.mu.Lock()
	defer h.fs.mu.Unlock()
	if err := h.check("sync"); err != nil {
		return err
	}
	if err := h.fs.fault("sync", h.path); err != nil {
		return perr("sync", h.name, err)
	}
	if h.hid != 0 {
		h.fs.log(Op{Kind: OpSync, Path: h.path, Handle: h.hid})
	}
	return nil
}

func (h *File) Truncate(size int64) error {
	if err := h.check("truncate"); err != nil {
		return err
	}
	h.fs.mu.Lock()
	defer h.fs.mu.Unlock()
	if err := h.check("truncate"); err != nil {
		return err
	}
	if !h.writable || size < 0 {
		return perr("truncate", h.name, syscall.EINVAL)
	}
	if err := h.fs.fault("truncate", h.path); err != nil {
		return perr("truncate", h.name, err)
	}
	resize(h.n, size)
	h.fs.log(Op{Kind: OpTruncate, Path: h.path, Handle: h.hid, Size: size})
	return nil
}

func (h *File) Close() error {
	if h == nil {
		return ErrInvalid
	}
	h.fs.mu.Lock()
	defer h.fs.mu.Unlock()
	if h.closed {
		return perr("close", h.name, ErrClosed)
	}
	h.closed = true
	if h.hid != 0 {
		h.fs.log(Op{Kind: OpClose, Path: h.path, Handle: h.hid})
	}
	if err := h.fs.fault("close", h.path); err != nil {
		return perr("close", h.name, err)
	}
	return nil
}

func (h *File) Stat() (FileInfo, error) {
	if err := h.check("stat"); err != nil {
		return nil, err
	}
	h.fs.mu.Lock()
	defer h.fs.mu.Unlock()
	if err := h.check("stat"); err != nil {
		return nil, err
	}
	return infoOf(baseName(h.path), h.n), nil
}

func (h *File) Chmod(mode FileMode) error { return h.check("chmod") }

// ReadDir reads the directory; n <= 0 returns all remaining entries.
func (h *File) ReadDir(n int) ([]DirEntry, error) {
	if err := h.check("readdir"); err != nil {
		return nil, err
	}
	h.fs.mu.Lock()
	defer h.fs.mu.Unlock()
	if err := h.check("readdir"); err != nil {
		return nil, err
	}
	if !h.n.dir {
		return nil, perr("readdirent", h.name, syscall.ENOTDIR)
	}
	all := entries(h.n)
	if h.dirPos > len(all) {
		h.dirPos = len(all)
	}
	rest := all[h.dirPos:]
	if n <= 0 {
		h.dirPos = len(all)
		return rest, nil
	}
	if len(rest) == 0 {
		return nil, io.EOF
	}
	if n < len(rest) {
		rest = rest[:n]
	}
	h.dirPos += len(rest)
	return rest, nil
}

func (h *File) Readdir(n int) ([]FileInfo, error) {
	es, err := h.ReadDir(n)
	out := make([]FileInfo, 0, len(es))
	for _, e := range es {
		out = append(out, e.(*fileInfo))
	}
	return out, err
}

func (h *File) Readdirnames(n int) ([]string, error) {
	es, err := h.ReadDir(n)
	out := make([]string, 0, len(es))
	for _, e := range es {
		out = append(out, e.Name())
	}
	return out, err
}

func (h *File) SetDeadline(t time.Time) error      { return ErrNoDeadline }
func (h *File) SetReadDeadline(t time.Time) error  { return ErrNoDeadline }
func (h *File) SetWriteDeadline(t time.Time) error { return ErrNoDeadline }

func (h *File) ReadFrom(r io.Reader) (int64, error) {
	buf := make([]byte, 32*1024)
	var total int64
	for {
		n, err := r.Read(buf)
		if n > 0 {
			m, werr := h.Write(buf[:n])
			total += int64(m)
			if werr != nil {
				return total, werr
			}
		}
		if err == io.EOF {
			return total, nil
		}
		if err != nil {
			return total, err
		}
	}
}

// ---------------------------------------------------------------- images (crash model: process death)

// ImageAt rebuilds a fresh file system from the first k journaled operations. If tornBytes > 0 and operation k
// (0-based: the one AFTER the prefix) is a write, additionally the first tornBytes bytes (a strict prefix) of its
// data are applied: the operation that was in flight when the process died. The image has no open handles, an
// empty journal of its own, and no fault hooks.
func (f *FS) ImageAt(k int, tornBytes int) *FS {
	f.mu.Lock()
	ops := f.journal
	if k > len(ops) {
		k = len(ops)
	}
	var torn *Op
	if tornBytes > 0 && k < len(ops) && ops[k].Kind == OpWrite && tornBytes < len(ops[k].Data) {
		t := ops[k]
		t.Data = t.Data[:tornBytes]
		torn = &t
	}
	ops = ops[:k:k]
	f.mu.Unlock()

	img := New()
	img.noJourn = true
	handles := map[int]*node{}
	for i := range ops {
		img.apply(&ops[i], handles)
	}
	if torn != nil {
		img.apply(torn, handles)
	}
	img.noJourn = false
	return img
}

// apply replays one journaled operation (no faults, no journaling).
func (f *FS) apply(o *Op, handles map[int]*node) {
	switch o.Kind {
	case OpMkdir:
		f.mkdirLocked(o.Path, 0o777)
	case OpOpen:
		n, err := f.lookup(o.Path)
		if err != nil {
			d, b := split(o.Path)
			parent, e2 := f.lookup(d)
			if e2 != nil || !parent.dir {
				return
			}
			n = f.newNode(false, 0o666)
			parent.children[b] = n
		} else if o.Truncated {
			n.data = nil
			n.mtime = now()
		}
		handles[o.Handle] = n
	case OpWrite:
		n := handles[o.Handle]
		if n == nil {
			return
		}
		end := o.Off + int64(len(o.Data))
		if int64(len(n.data)) < end {
			nd := make([]byte, end)
			copy(nd, n.data)
			n.data = nd
		}
		copy(n.data[o.Off:end], o.Data)
		n.mtime = now()
	case OpTruncate:
		n := handles[o.Handle]
		if o.Handle == 0 {
			n, _ = f.lookup(o.Path)
		}
		if n != nil {
			resize(n, o.Size)
		}
	case OpSync:
	case OpClose:
		delete(handles, o.Handle)
	case OpRename:
		f.renameLocked(o.Path, o.Path2)
	case OpRemove:
		f.removeLocked(o.Path)
	}
}

// FlipByte xors the byte at offset off of the file with mask (input damage for corruption experiments; not journaled).
func (f *FS) FlipByte(name string, off int64, mask byte) error {
	f.mu.Lock()
	defer f.mu.Unlock()
	n, err := f.lookup(clean(name))
	if err != nil {
		return perr("flip", name, err)
	}
	if n.dir || off < 0 || off >= int64(len(n.data)) {
		return perr("flip", name, syscall.EINVAL)
	}
	n.data = append([]byte(nil), n.data...)
	n.data[off] ^= mask
	return nil
}

// Resize alters a stored file's length: delta > 0 appends that many bytes (a fixed pattern), delta < 0 cuts the tail.
func (f *FS) Resize(name string, delta int) error {
	f.mu.Lock()
	defer f.mu.Unlock()
	n, err := f.lookup(clean(name))
	if err != nil {
		return perr("resize", name, err)
	}
	if n.dir || delta == 0 || len(n.data)+delta < 0 {
		return perr("resize", name, syscall.EINVAL)
	}
	d := append([]byte(nil), n.data...)
	if delta > 0 {
		for i := 0; i < delta; i++ {
			d = append(d, byte(0xA5^i))
		}
	} else {
		d = d[:len(d)+delta]
	}
	n.data = d
	return nil
}

// Tree returns a sorted, human-readable listing ("path size" per file, "path/" per directory) below root.
func (f *FS) Tree(root string) []string {
	f.mu.Lock()
	defer f.mu.Unlock()
	p := clean(root)
	n, err := f.lookup(p)
	if err != nil {
		return nil
	}
	var out []string
	var walk func(p string, n *node)
	walk = func(p string, n *node) {
		if !n.dir {
			out = append(out, fmt.Sprintf("%s %d", p, len(n.data)))
			return
		}
		out = append(out, p+"/")
		names := make([]string, 0, len(n.children))
		for k := range n.children {
			names = append(names, k)
		}
		sort.Strings(names)
		for _, k := range names {
			if p == "/" {
				walk("/"+k, n.children[k])
			} else {
				walk(p+"/"+k, n.children[k])
			}
		}
	}
	walk(p, n)
	return out
}

// ---------------------------------------------------------------- temporary files (deterministic names)

func tempName(pattern string) (prefix, suffix string) {
	if i := strings.LastIndex(pattern, "*"); i >= 0 {
		return pattern[:i], pattern[i+1:]
	}
	return pattern, ""
}

// CreateTemp creates a new file in dir (TempDir() when empty) whose name is pattern with the last "*" replaced by a
// per-file-system counter, like os.CreateTemp with a deterministic name.
func CreateTemp(dir, pattern string) (*File, error) {
	f := must()
	if dir == "" {
		dir = TempDir()
	}
	pre, suf := tempName(pattern)
	for i := 0; i < 10000; i++ {
		f.mu.Lock()
		f.tempSeq++
		n := f.tempSeq
		f.mu.Unlock()
		name := dir + "/" + pre + fmt.Sprintf("%09d", n) + suf
		h, err := f.OpenFile(name, O_RDWR|O_CREATE|O_EXCL, 0o600)
		if IsExist(err) {
			continue
		}
		return h, err
	}
	return nil, perr("createtemp", dir+"/"+pre+"*"+suf, ErrExist)
}

// MkdirTemp is os.MkdirTemp with a deterministic name.
func MkdirTemp(dir, pattern string) (string, error) {
	f := must()
	if dir == "" {
		dir = TempDir()
	}
	pre, suf := tempName(pattern)
	for i := 0; i < 10000; i++ {
		f.mu.Lock()
		f.tempSeq++
		n := f.tempSeq
		f.mu.Unlock()
		name := dir + "/" + pre + fmt.Sprintf("%09d", n) + suf
		err := f.Mkdir(name, 0o700)
		if IsExist(err) {
			continue
		}
		if err != nil {
			return "", err
		}
		return name, nil
	}
	return "", perr("mkdirtemp", dir+"/"+pre+"*"+suf, ErrExist)
}
