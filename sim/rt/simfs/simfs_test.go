package simfs_test

import (
	"io"
	"os"
	"strings"
	"testing"

	"verifsim/simfs"
	sfp "verifsim/simfs/filepath"
)

func TestBasics(t *testing.T) {
	fs := simfs.New()
	simfs.SetFS(fs)
	defer simfs.SetFS(nil)
	if _, err := simfs.Stat(""); !simfs.IsNotExist(err) {
		t.Fatalf("stat \"\": %v", err)
	}
	if err := simfs.MkdirAll("/c/id1", 0o777); err != nil {
		t.Fatal(err)
	}
	f, err := simfs.OpenFile("/c/id1/0.aof", simfs.O_WRONLY|simfs.O_CREATE|simfs.O_TRUNC, 0o777)
	if err != nil {
		t.Fatal(err)
	}
	f.Write([]byte("0123456789abcdef"))
	f.Write([]byte("hello world"))
	r, _ := simfs.OpenFile("/c/id1/0.aof", simfs.O_RDONLY, 0)
	// unlink while open
	if err := simfs.Remove("/c/id1/0.aof"); err != nil {
		t.Fatal(err)
	}
	if _, err := simfs.Stat("/c/id1/0.aof"); !os.IsNotExist(err) {
		t.Fatal("still there")
	}
	f.Write([]byte("!"))
	b, _ := io.ReadAll(r)
	if string(b) != "0123456789abcdefhello world!" {
		t.Fatalf("got %q", b)
	}
	f.Seek(0, 0)
	f.Write([]byte("X"))
	f.Sync()
	f.Close()
	if _, err := f.Write([]byte("x")); err == nil {
		t.Fatal("write after close")
	}
	var nilf *simfs.File
	if _, err := nilf.Read(make([]byte, 1)); err != simfs.ErrInvalid {
		t.Fatalf("nil read: %v", err)
	}
	// rename dir
	g, _ := simfs.Create("/c/id1/5_3.rdb.tmp")
	g.Write([]byte("abc"))
	g.Close()
	if err := simfs.Rename("/c/id1/5_3.rdb.tmp", "/c/id1/5_3.rdb"); err != nil {
		t.Fatal(err)
	}
	if err := simfs.Rename("/c/id1", "/c/id2"); err != nil {
		t.Fatal(err)
	}
	var seen []string
	sfp.Walk("/c", func(p string, info os.FileInfo, err error) error { seen = append(seen, p); return nil })
	if strings.Join(seen, ",") != "/c,/c/id2,/c/id2/5_3.rdb" {
		t.Fatalf("walk %v", seen)
	}
	sfp.Walk("", func(p string, info os.FileInfo, err error) error {
		if err == nil {
			t.Fatal("walk of empty path must fail")
		}
		return nil
	})
	if err := simfs.RemoveAll("/c/id2"); err != nil {
		t.Fatal(err)
	}
	j := fs.Journal()
	for i := range j {
		t.Logf("%d %s", i, j[i].String())
	}
	// every prefix rebuilds; the full prefix equals the live tree
	for k := 0; k <= len(j); k++ {
		img := fs.ImageAt(k, 0)
		_ = img.Tree("/")
	}
	full := strings.Join(fs.ImageAt(len(j), 0).Tree("/"), ";")
	live := strings.Join(fs.Tree("/"), ";")
	if full != live {
		t.Fatalf("image %s != live %s", full, live)
	}
	// torn: op 4 is the second write (11 bytes)
	for k := range j {
		if j[k].Kind == simfs.OpWrite && len(j[k].Data) == 11 {
			img := fs.ImageAt(k, 4)
			b, err := img.ReadFile("/c/id1/0.aof")
			if err != nil || string(b) != "0123456789abcdefhell" {
				t.Fatalf("torn: %q %v", b, err)
			}
		}
	}
	// faults
	fs.FailNext("write", simfs.ENOSPC)
	h, _ := simfs.Create("/x")
	if _, err := h.Write([]byte("a")); err == nil {
		t.Fatal("expected ENOSPC")
	}
	fs.ShortWrite = func(p string, n int) int { return n / 2 }
	n, err := h.Write([]byte("abcd"))
	if n != 2 || err == nil {
		t.Fatalf("short write %d %v", n, err)
	}
}
