// Package filepath replaces path/filepath in the repository's disk-cache files: the purely lexical functions are
// the real ones, everything that touches the disk (Walk, WalkDir, Glob, Abs, EvalSymlinks) goes to the simulated
// file system of package simfs.
package filepath

import (
	"io/fs"
	realfp "path/filepath"
	"sort"

	"verifsim/simfs"
)

const (
	Separator     = '/'
	ListSeparator = ':'
)

var (
	ErrBadPattern = realfp.ErrBadPattern
	SkipDir       = fs.SkipDir
	SkipAll       = fs.SkipAll
)

type WalkFunc = realfp.WalkFunc

func Join(elem ...string) string               { return realfp.Join(elem...) }
func Base(p string) string                     { return realfp.Base(p) }
func Dir(p string) string                      { return realfp.Dir(p) }
func Ext(p string) string                      { return realfp.Ext(p) }
func Clean(p string) string                    { return realfp.Clean(p) }
func Split(p string) (string, string)          { return realfp.Split(p) }
func SplitList(p string) []string              { return realfp.SplitList(p) }
func IsAbs(p string) bool                      { return realfp.IsAbs(p) }
func IsLocal(p string) bool                    { return realfp.IsLocal(p) }
func Rel(base, targ string) (string, error)    { return realfp.Rel(base, targ) }
func Match(pattern, name string) (bool, error) { return realfp.Match(pattern, name) }
func ToSlash(p string) string                  { return p }
func FromSlash(p string) string                { return p }
func VolumeName(p string) string               { return "" }
func EvalSymlinks(p string) (string, error)    { return realfp.Clean(p), nil }
func Abs(p string) (string, error) {
	if realfp.IsAbs(p) {
		return realfp.Clean(p), nil
	}
	return realfp.Join("/", p), nil
}

func readDirNames(dir string) ([]string, error) {
	es, err := simfs.ReadDir(dir)
	if err != nil {
		return nil, err
	}
	names := make([]string, 0, len(es))
	for _, e := range es {
		names = append(names, e.Name())
	}
	sort.Strings(names)
	return names, nil
}

// walk mirrors path/filepath.walk (Go 1.2x): names are read before the callback sees the directory.
func walk(path string, info fs.FileInfo, walkFn WalkFunc) error {
	if !info.IsDir() {
		return walkFn(path, info, nil)
	}
	names, err := readDirNames(path)
	err1 := walkFn(path, info, err)
	if err != nil || err1 != nil {
		return err1
	}
	for _, name := range names {
		filename := Join(path, name)
		fileInfo, err := simfs.Lstat(filename)
		if err != nil {
			if err := walkFn(filename, fileInfo, err); err != nil && err != SkipDir {
				return err
			}
		} else {
			err = walk(filename, fileInfo, walkFn)
			if err != nil {
				if !fileInfo.IsDir() || err != SkipDir {
					return err
				}
			}
		}
	}
	return nil
}

// Walk walks the simulated tree rooted at root in lexical order.
func Walk(root string, fn WalkFunc) error {
	info, err := simfs.Lstat(root)
	if err != nil {
		err = fn(root, nil, err)
	} else {
		err = walk(root, info, fn)
	}
	if err == SkipDir || err == SkipAll {
		return nil
	}
	return err
}

func walkDir(path string, d fs.DirEntry, fn fs.WalkDirFunc) error {
	if err := fn(path, d, nil); err != nil || !d.IsDir() {
		if err == SkipDir && d.IsDir() {
			err = nil
		}
		return err
	}
	es, err := simfs.ReadDir(path)
	if err != nil {
		err = fn(path, d, err)
		if err != nil {
			if err == SkipDir && d.IsDir() {
				err = nil
			}
			return err
		}
	}
	for _, e := range es {
		if err := walkDir(Join(path, e.Name()), e, fn); err != nil {
			if err == SkipDir {
				break
			}
			return err
		}
	}
	return nil
}

// WalkDir is Walk with DirEntry callbacks.
func WalkDir(root string, fn fs.WalkDirFunc) error {
	info, err := simfs.Lstat(root)
	if err != nil {
		err = fn(root, nil, err)
	} else {
		err = walkDir(root, fs.FileInfoToDirEntry(info), fn)
	}
	if err == SkipDir || err == SkipAll {
		return nil
	}
	return err
}

// Glob supports patterns whose directory part contains no meta characters (all the repository could need).
func Glob(pattern string) ([]string, error) {
	if _, err := realfp.Match(pattern, ""); err != nil {
		return nil, err
	}
	dir, file := realfp.Split(pattern)
	dir = realfp.Clean(dir)
	es, err := simfs.ReadDir(dir)
	if err != nil {
		return nil, nil
	}
	var out []string
	for _, e := range es {
		if ok, _ := realfp.Match(file, e.Name()); ok {
			out = append(out, Join(dir, e.Name()))
		}
	}
	sort.Strings(out)
	return out, nil
}
