module verifsim

go 1.26
