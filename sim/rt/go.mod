module verifsim

go 1.26

require (
	google.golang.org/grpc v1.58.3
	google.golang.org/protobuf v1.31.0
)

require (
	github.com/golang/protobuf v1.5.3 // indirect
	golang.org/x/net v0.17.0 // indirect
	golang.org/x/sys v0.13.0 // indirect
	golang.org/x/text v0.13.0 // indirect
	google.golang.org/genproto v0.0.0-20230711160842-782d3b101e98 // indirect
	google.golang.org/genproto/googleapis/rpc v0.0.0-20230711160842-782d3b101e98 // indirect
)
