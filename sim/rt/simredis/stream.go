package simredis

import (
	"fmt"
	"sort"
	"strconv"
	"strings"

	"verifsim/resp"
)

// Streams of the Redis double: entries with ids, last id, max-deleted id, entries-added counter,
// consumer groups with last-delivered id, pending entries and consumers. Semantics follow the
// command reference (XADD, XSETID, XGROUP, XCLAIM, XDEL, XLEN, XRANGE); version differences that the
// replication tool depends on are modelled (XSETID/XGROUP extra arguments need 7.0, streams need 5.0).

type SID struct{ Ms, Seq uint64 }

func (a SID) Cmp(b SID) int {
	switch {
	case a.Ms < b.Ms:
		return -1
	case a.Ms > b.Ms:
		return 1
	case a.Seq < b.Seq:
		return -1
	case a.Seq > b.Seq:
		return 1
	}
	return 0
}
func (a SID) String() string {
	return strconv.FormatUint(a.Ms, 10) + "-" + strconv.FormatUint(a.Seq, 10)
}
func (a SID) IsZero() bool { return a.Ms == 0 && a.Seq == 0 }

type StreamEntry struct {
	ID     SID
	Fields [][]byte // field, value, ...
}

type StreamNack struct {
	Consumer      string
	DeliveryTime  int64
	DeliveryCount int64
}

type StreamConsumer struct {
	Name     string
	SeenTime int64
}

type StreamGroup struct {
	Name        string
	LastID      SID
	EntriesRead int64
	PEL         map[SID]*StreamNack
	Consumers   map[string]*StreamConsumer
}

type Stream struct {
	Entries      []StreamEntry
	LastID       SID
	MaxDeletedID SID
	EntriesAdded int64
	Groups       map[string]*StreamGroup
}

func NewStream() *Stream { return &Stream{Groups: map[string]*StreamGroup{}} }

// AddGroup is used by harnesses building registry values.
func (st *Stream) AddGroup(name string, last SID) *StreamGroup {
	g := &StreamGroup{Name: name, LastID: last, PEL: map[SID]*StreamNack{}, Consumers: map[string]*StreamConsumer{}}
	st.Groups[name] = g
	return g
}

func (st *Stream) Clone() *Stream {
	c := &Stream{LastID: st.LastID, MaxDeletedID: st.MaxDeletedID, EntriesAdded: st.EntriesAdded, Groups: map[string]*StreamGroup{}}
	c.Entries = make([]StreamEntry, len(st.Entries))
	for i, e := range st.Entries {
		fs := make([][]byte, len(e.Fields))
		for j, f := range e.Fields {
			fs[j] = append([]byte(nil), f...)
		}
		c.Entries[i] = StreamEntry{ID: e.ID, Fields: fs}
	}
	for n, g := range st.Groups {
		ng := c.AddGroup(n, g.LastID)
		ng.EntriesRead = g.EntriesRead
		for id, nk := range g.PEL {
			x := *nk
			ng.PEL[id] = &x
		}
		for cn, co := range g.Consumers {
			x := *co
			ng.Consumers[cn] = &x
		}
	}
	return c
}

// Canon: entries, ids, last id, groups (name and last-delivered id). Pending lists are rendered by
// CanonFull only: they are outside what the snapshot property compares.
func (st *Stream) Canon() string {
	var sb strings.Builder
	sb.WriteString("last=" + st.LastID.String() + ";")
	for _, e := range st.Entries {
		sb.WriteString(e.ID.String() + ":")
		for _, f := range e.Fields {
			fmt.Fprintf(&sb, "%q,", f)
		}
		sb.WriteString(";")
	}
	for _, n := range sortedGroupNames(st) {
		fmt.Fprintf(&sb, "group %q@%s;", n, st.Groups[n].LastID)
	}
	return sb.String()
}

func sortedGroupNames(st *Stream) []string {
	ns := make([]string, 0, len(st.Groups))
	for n := range st.Groups {
		ns = append(ns, n)
	}
	sort.Strings(ns)
	return ns
}

// CanonFull adds max-deleted id, entries-added, pending entries and consumers.
func (st *Stream) CanonFull() string {
	var sb strings.Builder
	sb.WriteString(st.Canon())
	fmt.Fprintf(&sb, "maxdel=%s;added=%d;", st.MaxDeletedID, st.EntriesAdded)
	for _, n := range sortedGroupNames(st) {
		g := st.Groups[n]
		ids := make([]SID, 0, len(g.PEL))
		for id := range g.PEL {
			ids = append(ids, id)
		}
		sort.Slice(ids, func(i, j int) bool { return ids[i].Cmp(ids[j]) < 0 })
		fmt.Fprintf(&sb, "pel %q:", n)
		for _, id := range ids {
			nk := g.PEL[id]
			fmt.Fprintf(&sb, "%s>%q/%d/%d,", id, nk.Consumer, nk.DeliveryTime, nk.DeliveryCount)
		}
		cs := make([]string, 0, len(g.Consumers))
		for c := range g.Consumers {
			cs = append(cs, c)
		}
		sort.Strings(cs)
		fmt.Fprintf(&sb, ";consumers %q,;", cs)
	}
	return sb.String()
}

func (st *Stream) find(id SID) int {
	i := sort.Search(len(st.Entries), func(i int) bool { return st.Entries[i].ID.Cmp(id) >= 0 })
	if i < len(st.Entries) && st.Entries[i].ID == id {
		return i
	}
	return -1
}

var errStreamID = resp.Err("ERR Invalid stream ID specified as stream command argument")

// parseSID parses "ms-seq" or "ms" (missing seq = defSeq). No special ids.
func parseSID(b []byte, defSeq uint64) (SID, bool) {
	s := string(b)
	if len(s) == 0 || len(s) > 127 {
		return SID{}, false
	}
	msS, seqS, has := strings.Cut(s, "-")
	ms, err := strconv.ParseUint(msS, 10, 64)
	if err != nil {
		return SID{}, false
	}
	seq := defSeq
	if has {
		seq, err = strconv.ParseUint(seqS, 10, 64)
		if err != nil {
			return SID{}, false
		}
	}
	return SID{ms, seq}, true
}

func (s *Server) streamsSupported() bool { return s.VerAtLeast(5, 0) }

func unknownCmd(name string) resp.Value { return resp.Err("ERR unknown command '" + name + "'") }

func (s *Server) lookupStream(db int, key []byte) (*Obj, *resp.Value) {
	o := s.lookup(db, key)
	if o == nil {
		return nil, nil
	}
	if o.T != 'x' {
		w := wrongType
		return nil, &w
	}
	return o, nil
}

// XADD key [NOMKSTREAM] [MAXLEN|MINID [=|~] threshold [LIMIT count]] *|id field value [field value ...]
func cmdXadd(s *Server, ss *Session, a [][]byte) resp.Value {
	if !s.streamsSupported() {
		return unknownCmd("xadd")
	}
	if len(a) < 4 {
		return wrongArgs("xadd")
	}
	i := 1
	nomk := false
	trim := "" // "", "MAXLEN", "MINID"
	var maxlen int64
	var minid SID
	for ; i < len(a); i++ {
		opt := strings.ToUpper(string(a[i]))
		if opt == "NOMKSTREAM" && s.VerAtLeast(6, 2) {
			nomk = true
			continue
		}
		if opt == "MAXLEN" || (opt == "MINID" && s.VerAtLeast(6, 2)) {
			trim = opt
			if i+1 >= len(a) {
				return resp.Err("ERR syntax error")
			}
			i++
			if x := string(a[i]); x == "=" || x == "~" {
				if i+1 >= len(a) {
					return resp.Err("ERR syntax error")
				}
				i++
			}
			if trim == "MAXLEN" {
				v, ok := atoi(a[i])
				if !ok {
					return resp.Err("ERR value is not an integer or out of range")
				}
				if v < 0 {
					return resp.Err("ERR The MAXLEN argument must be >= 0.")
				}
				maxlen = v
			} else {
				id, ok := parseSID(a[i], 0)
				if !ok {
					return errStreamID
				}
				minid = id
			}
			if i+2 < len(a) && strings.EqualFold(string(a[i+1]), "LIMIT") && s.VerAtLeast(6, 2) {
				if _, ok := atoi(a[i+2]); !ok {
					return resp.Err("ERR value is not an integer or out of range")
				}
				i += 2
			}
			continue
		}
		break
	}
	if i >= len(a) {
		return wrongArgs("xadd")
	}
	idArg := string(a[i])
	i++
	if (len(a)-i) < 2 || (len(a)-i)%2 != 0 {
		return wrongArgs("xadd")
	}
	var id SID
	auto, autoSeq := false, false
	switch {
	case idArg == "*":
		auto = true
	case strings.HasSuffix(idArg, "-*") && s.VerAtLeast(7, 0):
		ms, err := strconv.ParseUint(strings.TrimSuffix(idArg, "-*"), 10, 64)
		if err != nil {
			return errStreamID
		}
		id.Ms = ms
		autoSeq = true
	default:
		v, ok := parseSID([]byte(idArg), 0)
		if !ok {
			return errStreamID
		}
		id = v
		if id.IsZero() {
			return resp.Err("ERR The ID specified in XADD must be greater than 0-0")
		}
	}
	o, werr := s.lookupStream(ss.DB, a[0])
	if werr != nil {
		return *werr
	}
	if o == nil {
		if nomk {
			return resp.Nil()
		}
		o = &Obj{T: 'x', Stream: NewStream(), Origin: "commands"}
		s.set(ss.DB, a[0], o)
	}
	st := o.Stream
	tooSmall := resp.Err("ERR The ID specified in XADD is equal or smaller than the target stream top item")
	switch {
	case auto:
		now := uint64(nowMs())
		if now > st.LastID.Ms {
			id = SID{now, 0}
		} else {
			if st.LastID.Seq == ^uint64(0) {
				if st.LastID.Ms == ^uint64(0) {
					return resp.Err("ERR The stream has exhausted the last possible ID, unable to add more items")
				}
				id = SID{st.LastID.Ms + 1, 0}
			} else {
				id = SID{st.LastID.Ms, st.LastID.Seq + 1}
			}
		}
	case autoSeq:
		switch {
		case id.Ms < st.LastID.Ms:
			return tooSmall
		case id.Ms == st.LastID.Ms:
			if st.LastID.Seq == ^uint64(0) {
				return tooSmall
			}
			id.Seq = st.LastID.Seq + 1
		default:
			id.Seq = 0
		}
	default:
		if id.Cmp(st.LastID) <= 0 {
			return tooSmall
		}
	}
	st.Entries = append(st.Entries, StreamEntry{ID: id, Fields: a[i:]})
	st.LastID = id
	st.EntriesAdded++
	switch trim {
	case "MAXLEN":
		if int64(len(st.Entries)) > maxlen {
			st.Entries = append([]StreamEntry(nil), st.Entries[int64(len(st.Entries))-maxlen:]...)
		}
	case "MINID":
		k := 0
		for k < len(st.Entries) && st.Entries[k].ID.Cmp(minid) < 0 {
			k++
		}
		st.Entries = append([]StreamEntry(nil), st.Entries[k:]...)
	}
	return resp.BulkS(id.String())
}

// XSETID key last-id [ENTRIESADDED entries-added] [MAXDELETEDID max-deleted-id]   (extra arguments: 7.0+)
func cmdXsetid(s *Server, ss *Session, a [][]byte) resp.Value {
	if !s.streamsSupported() {
		return unknownCmd("xsetid")
	}
	if len(a) < 2 || (!s.VerAtLeast(7, 0) && len(a) != 2) {
		return wrongArgs("xsetid")
	}
	id, ok := parseSID(a[1], 0)
	if !ok {
		return errStreamID
	}
	added := int64(-1)
	var maxDel SID
	for i := 2; i < len(a); {
		more := len(a) - 1 - i
		opt := strings.ToUpper(string(a[i]))
		switch {
		case opt == "ENTRIESADDED" && more >= 1:
			v, ok := atoi(a[i+1])
			if !ok {
				return resp.Err("ERR value is not an integer or out of range")
			}
			if v < 0 {
				return resp.Err("ERR entries_added must be positive")
			}
			added = v
			i += 2
		case opt == "MAXDELETEDID" && more >= 1:
			v, ok := parseSID(a[i+1], 0)
			if !ok {
				return errStreamID
			}
			if id.Cmp(v) < 0 {
				return resp.Err("ERR The ID specified in XSETID is smaller than the provided max_deleted_entry_id")
			}
			maxDel = v
			i += 2
		default:
			return resp.Err("ERR syntax error")
		}
	}
	o, werr := s.lookupStream(ss.DB, a[0])
	if werr != nil {
		return *werr
	}
	if o == nil {
		return resp.Err("ERR no such key")
	}
	st := o.Stream
	if s.VerAtLeast(7, 0) && id.Cmp(st.MaxDeletedID) < 0 {
		return resp.Err("ERR The ID specified in XSETID is smaller than current max_deleted_entry_id")
	}
	if n := len(st.Entries); n > 0 {
		if id.Cmp(st.Entries[n-1].ID) < 0 {
			return resp.Err("ERR The ID specified in XSETID is smaller than the target stream top item")
		}
		if added != -1 && int64(n) > added {
			return resp.Err("ERR The entries_added specified in XSETID is smaller than the target stream length")
		}
	}
	st.LastID = id
	if added != -1 {
		st.EntriesAdded = added
	}
	if !maxDel.IsZero() {
		st.MaxDeletedID = maxDel
	}
	return resp.OK()
}

// XGROUP CREATE key group id|$ [MKSTREAM] [ENTRIESREAD n] | CREATECONSUMER key group consumer |
// SETID key group id|$ | DESTROY key group | DELCONSUMER key group consumer
func cmdXgroup(s *Server, ss *Session, a [][]byte) resp.Value {
	if !s.streamsSupported() {
		return unknownCmd("xgroup")
	}
	if len(a) < 1 {
		return wrongArgs("xgroup")
	}
	sub := strings.ToUpper(string(a[0]))
	subErr := resp.Err("ERR Unknown subcommand or wrong number of arguments for '" + string(a[0]) + "'. Try XGROUP HELP.")
	if sub == "HELP" {
		return resp.Array()
	}
	if len(a) < 3 {
		return subErr
	}
	key, gname := a[1], string(a[2])
	mk := false
	entriesRead := int64(-1)
	if sub == "CREATE" || sub == "SETID" {
		if len(a) < 4 {
			return subErr
		}
		for i := 4; i < len(a); i++ {
			opt := strings.ToUpper(string(a[i]))
			switch {
			case opt == "MKSTREAM" && sub == "CREATE":
				mk = true
			case opt == "ENTRIESREAD" && i+1 < len(a) && s.VerAtLeast(7, 0):
				v, ok := atoi(a[i+1])
				if !ok {
					return resp.Err("ERR value is not an integer or out of range")
				}
				if v < 0 && v != -1 {
					return resp.Err("ERR value for ENTRIESREAD must be positive or -1")
				}
				entriesRead = v
				i++
			default:
				return subErr
			}
		}
	}
	o, werr := s.lookupStream(ss.DB, key)
	if werr != nil {
		return *werr
	}
	if o == nil {
		if !(sub == "CREATE" && mk) {
			return resp.Err("ERR The XGROUP subcommand requires the key to exist. Note that for CREATE you may want to use the MKSTREAM option to create an empty stream automatically.")
		}
		o = &Obj{T: 'x', Stream: NewStream(), Origin: "commands"}
		s.set(ss.DB, key, o)
	}
	st := o.Stream
	g := st.Groups[gname]
	noGroup := resp.Err(fmt.Sprintf("NOGROUP No such consumer group '%s' for key name '%s'", gname, key))
	switch sub {
	case "CREATE", "SETID":
		var id SID
		if string(a[3]) == "$" {
			id = st.LastID
		} else {
			v, ok := parseSID(a[3], 0)
			if !ok {
				return errStreamID
			}
			id = v
		}
		if sub == "CREATE" {
			if g != nil {
				return resp.Err("BUSYGROUP Consumer Group name already exists")
			}
			g = st.AddGroup(gname, id)
			g.EntriesRead = entriesRead
			return resp.OK()
		}
		if g == nil {
			return noGroup
		}
		g.LastID = id
		g.EntriesRead = entriesRead
		return resp.OK()
	case "CREATECONSUMER":
		if !s.VerAtLeast(6, 2) || len(a) != 4 {
			return subErr
		}
		if g == nil {
			return noGroup
		}
		if _, ok := g.Consumers[string(a[3])]; ok {
			return resp.Int(0)
		}
		g.Consumers[string(a[3])] = &StreamConsumer{Name: string(a[3]), SeenTime: nowMs()}
		return resp.Int(1)
	case "DESTROY":
		if len(a) != 3 {
			return subErr
		}
		if g == nil {
			return resp.Int(0)
		}
		delete(st.Groups, gname)
		return resp.Int(1)
	case "DELCONSUMER":
		if len(a) != 4 {
			return subErr
		}
		if g == nil {
			return noGroup
		}
		n := int64(0)
		for id, nk := range g.PEL {
			if nk.Consumer == string(a[3]) {
				delete(g.PEL, id)
				n++
			}
		}
		delete(g.Consumers, string(a[3]))
		return resp.Int(n)
	}
	return subErr
}

// XCLAIM key group consumer min-idle-time id [id ...] [IDLE ms] [TIME unix-ms] [RETRYCOUNT n] [FORCE] [JUSTID] [LASTID id]
func cmdXclaim(s *Server, ss *Session, a [][]byte) resp.Value {
	if !s.streamsSupported() {
		return unknownCmd("xclaim")
	}
	if len(a) < 5 {
		return wrongArgs("xclaim")
	}
	key, gname, cname := a[0], string(a[1]), string(a[2])
	o, werr := s.lookupStream(ss.DB, key)
	if werr != nil {
		return *werr
	}
	var g *StreamGroup
	if o != nil {
		g = o.Stream.Groups[gname]
	}
	if g == nil {
		return resp.Err(fmt.Sprintf("NOGROUP No such key '%s' or consumer group '%s'", key, gname))
	}
	minIdle, ok := atoi(a[3])
	if !ok {
		return resp.Err("ERR Invalid min-idle-time argument for XCLAIM")
	}
	if minIdle < 0 {
		minIdle = 0
	}
	var ids []SID
	j := 4
	for ; j < len(a); j++ {
		id, ok := parseSID(a[j], 0)
		if !ok {
			break
		}
		ids = append(ids, id)
	}
	if len(ids) == 0 {
		return errStreamID
	}
	now := nowMs()
	deliveryTime := int64(-1)
	retry := int64(-1)
	force, justID := false, false
	for ; j < len(a); j++ {
		opt := strings.ToUpper(string(a[j]))
		more := len(a) - 1 - j
		switch {
		case opt == "FORCE":
			force = true
		case opt == "JUSTID":
			justID = true
		case opt == "IDLE" && more >= 1:
			v, ok := atoi(a[j+1])
			if !ok {
				return resp.Err("ERR Invalid IDLE option argument for XCLAIM")
			}
			deliveryTime = now - v
			j++
		case opt == "TIME" && more >= 1:
			v, ok := atoi(a[j+1])
			if !ok {
				return resp.Err("ERR Invalid TIME option argument for XCLAIM")
			}
			deliveryTime = v
			j++
		case opt == "RETRYCOUNT" && more >= 1:
			v, ok := atoi(a[j+1])
			if !ok {
				return resp.Err("ERR Invalid RETRYCOUNT option argument for XCLAIM")
			}
			retry = v
			j++
		case opt == "LASTID" && more >= 1:
			v, ok := parseSID(a[j+1], 0)
			if !ok {
				return errStreamID
			}
			if v.Cmp(g.LastID) > 0 {
				g.LastID = v
			}
			j++
		default:
			return resp.Err("ERR Unrecognized XCLAIM option '" + string(a[j]) + "'")
		}
	}
	if deliveryTime < 0 || deliveryTime > now {
		deliveryTime = now
	}
	st := o.Stream
	var out []resp.Value
	for _, id := range ids {
		nk := g.PEL[id]
		idx := st.find(id)
		if idx < 0 {
			// the entry no longer exists in the stream: a pending reference to it is dropped, nothing is claimed
			if nk != nil {
				delete(g.PEL, id)
			}
			continue
		}
		if nk == nil {
			if !force {
				continue
			}
			nk = &StreamNack{DeliveryTime: now, DeliveryCount: 1}
			g.PEL[id] = nk
		} else if minIdle > 0 && now-nk.DeliveryTime < minIdle {
			continue
		}
		if _, ok := g.Consumers[cname]; !ok {
			g.Consumers[cname] = &StreamConsumer{Name: cname, SeenTime: now}
		}
		nk.Consumer = cname
		nk.DeliveryTime = deliveryTime
		if retry >= 0 {
			nk.DeliveryCount = retry
		} else if !justID {
			nk.DeliveryCount++
		}
		if justID {
			out = append(out, resp.BulkS(id.String()))
		} else {
			e := st.Entries[idx]
			fs := make([]resp.Value, len(e.Fields))
			for k, f := range e.Fields {
				fs[k] = resp.Bulk(f)
			}
			out = append(out, resp.Array(resp.BulkS(id.String()), resp.Array(fs...)))
		}
	}
	return resp.Array(out...)
}

// XDEL key id [id ...]
func cmdXdel(s *Server, ss *Session, a [][]byte) resp.Value {
	if !s.streamsSupported() {
		return unknownCmd("xdel")
	}
	if len(a) < 2 {
		return wrongArgs("xdel")
	}
	var ids []SID
	for _, x := range a[1:] {
		id, ok := parseSID(x, 0)
		if !ok {
			return errStreamID
		}
		ids = append(ids, id)
	}
	o, werr := s.lookupStream(ss.DB, a[0])
	if werr != nil {
		return *werr
	}
	if o == nil {
		return resp.Int(0)
	}
	st := o.Stream
	n := int64(0)
	for _, id := range ids {
		if i := st.find(id); i >= 0 {
			st.Entries = append(st.Entries[:i:i], st.Entries[i+1:]...)
			if id.Cmp(st.MaxDeletedID) > 0 {
				st.MaxDeletedID = id
			}
			n++
		}
	}
	return resp.Int(n)
}

// XRANGE key start end (inclusive bounds, "-" and "+"; COUNT n)
func cmdXrange(s *Server, ss *Session, a [][]byte) resp.Value {
	if !s.streamsSupported() {
		return unknownCmd("xrange")
	}
	if len(a) < 3 {
		return wrongArgs("xrange")
	}
	lo, hi := SID{}, SID{^uint64(0), ^uint64(0)}
	if string(a[1]) != "-" {
		v, ok := parseSID(a[1], 0)
		if !ok {
			return errStreamID
		}
		lo = v
	}
	if string(a[2]) != "+" {
		v, ok := parseSID(a[2], ^uint64(0))
		if !ok {
			return errStreamID
		}
		hi = v
	}
	count := int64(-1)
	if len(a) == 5 && strings.EqualFold(string(a[3]), "COUNT") {
		v, ok := atoi(a[4])
		if !ok {
			return resp.Err("ERR value is not an integer or out of range")
		}
		count = v
	} else if len(a) != 3 {
		return resp.Err("ERR syntax error")
	}
	o, werr := s.lookupStream(ss.DB, a[0])
	if werr != nil {
		return *werr
	}
	var out []resp.Value
	if o != nil {
		for _, e := range o.Stream.Entries {
			if e.ID.Cmp(lo) < 0 || e.ID.Cmp(hi) > 0 {
				continue
			}
			if count >= 0 && int64(len(out)) >= count {
				break
			}
			fs := make([]resp.Value, len(e.Fields))
			for k, f := range e.Fields {
				fs[k] = resp.Bulk(f)
			}
			out = append(out, resp.Array(resp.BulkS(e.ID.String()), resp.Array(fs...)))
		}
	}
	return resp.Array(out...)
}
