// Package simredis is the Redis double of the simulator: a single-threaded
// in-memory Redis driven by the scheduler, one request at a time. It has no
// goroutines of its own: a request is executed only when the scheduler picks it.
package simredis

import (
	"bytes"
	"fmt"
	"os"
	"sort"
	"strconv"
	"strings"
	"sync"
	"time"

	"verifsim/resp"
	"verifsim/simnet"
	"verifsim/simrt"
)

// Reserved key prefixes of the tool's bookkeeping namespace (docs/bisync.md §key namespaces).
var ReservedPrefixes = []string{"redis-gunyu-checkpoint", "redis-gunyu-bisync:", "/redis-gunyu"}

func IsReservedKey(k []byte) bool {
	for _, p := range ReservedPrefixes {
		if bytes.HasPrefix(k, []byte(p)) {
			return true
		}
	}
	return false
}

// Exec is one executed request as the double saw it.
type Exec struct {
	Seq   int
	Conn  int // raw connection id (dial order: NOT deterministic across goroutine schedules; never printed)
	Lbl   int // canonical connection number on this server (order of first executed request)
	Tag   int // incarnation tag of the connection
	DB    int
	Name  string // lower case
	Args  [][]byte
	Txn   int  // id of the MULTI/EXEC block it was executed in, 0 = none
	IsErr bool // reply was an error
	Reply string
	AtNs  int64 // virtual time
	Node  string
}

func (e Exec) String() string {
	var sb strings.Builder
	fmt.Fprintf(&sb, "#%d c%d db%d", e.Seq, e.Lbl, e.DB)
	if e.Txn != 0 {
		fmt.Fprintf(&sb, " txn%d", e.Txn)
	}
	sb.WriteString(" " + e.Name)
	for _, a := range e.Args {
		sb.WriteString(" " + Quote(a))
	}
	if e.IsErr {
		sb.WriteString(" => " + e.Reply)
	}
	return sb.String()
}

func Quote(b []byte) string {
	if len(b) > 48 {
		return fmt.Sprintf("%q...(%d)", b[:32], len(b))
	}
	return fmt.Sprintf("%q", b)
}

type Session struct {
	Conn     *simnet.SimConn
	DB       int
	InMulti  bool
	Queue    [][][]byte
	QueueErr bool
	Asking   bool
	Outbox   []byte // replies not yet delivered (when AutoDeliver is off)
	Dead     bool
	Name     string
	// source role
	Replica     bool
	ReplPos     int64  // next stream offset (absolute) to send to this replica
	RawOut      []byte // snapshot frame not yet delivered to this replica
	NReq        int    // requests executed on this connection
	ParseBroken bool
	Local       bool
	Lbl         int // canonical connection number on this server: order of first executed request
}

// Server is one Redis node double.
type Server struct {
	Addr     string
	DBs      []map[string]*Obj
	NumDB    int
	Log      []Exec
	Queued   []Exec // commands received inside MULTI (queued), whether or not EXEC followed
	Sessions []*Session
	seq      int
	txnSeq   int
	nextLbl  int

	// LenientTrack: in lenient mode keep a minimal existence model of the keys outside the reserved namespace (see execute)
	LenientTrack bool
	lenientKeys  map[string]bool
	// Lenient: commands on keys outside the reserved namespace are logged and answered +OK
	// without being interpreted (the C01/C02 oracles are about the sequence, not semantics).
	Lenient bool
	// AutoDeliver: replies become readable by the client as soon as executed.
	AutoDeliver bool
	// Immediate: every complete request is executed the moment the client has written it, in the client's goroutine
	// (zero latency; for auxiliary nodes such as the source shard runCluster asks for its role). Set before Listen.
	Immediate bool
	// RefuseWrites: "" | "OOM" | "READONLY" - a store that stays up and refuses writes, at top level and inside scripts
	// (redis.call raises, redis.pcall returns the error table): out of memory (commands that may grow the data set are
	// refused; deletions, expiry changes and reads are served) or demoted to a read-only replica (every write refused).
	RefuseWrites string
	// Intercept may answer a request instead of the double (fault injection / cluster redirects).
	Intercept func(s *Session, name string, args [][]byte) *resp.Value
	// OnExec observers (invariant checkers).
	OnExec func(e *Exec)

	Version  string
	RunID    string
	lastName string
	Scripts  map[string]string

	// cluster role
	Cluster *ClusterState
	// source role
	Repl *ReplState

	Stats struct {
		Requests int
		Errors   int
	}

	RestoreState // restore.go: registry of restorable payload bodies, accepted RESTOREs

	acceptMu sync.Mutex // Accept is called by the dialling goroutines, possibly concurrently
}

func NewServer(addr string) *Server {
	s := &Server{Addr: addr, NumDB: 16, Version: "7.2.0", AutoDeliver: true, Scripts: map[string]string{}}
	s.DBs = make([]map[string]*Obj, s.NumDB)
	for i := range s.DBs {
		s.DBs[i] = map[string]*Obj{}
	}
	s.RunID = strings.Repeat("a", 40)
	return s
}

// LocalSession returns a session for a simulated client that talks to the double by direct calls
// (Dispatch), without a simulated connection of the tool. Its replies are discarded.
func (s *Server) LocalSession(name string) *Session {
	c := simnet.NewLocalConn(-(len(s.Sessions) + 1))
	sess := &Session{Conn: c, Name: name, Local: true}
	c.Owner = sess
	s.Sessions = append(s.Sessions, sess)
	return sess
}

func (s *Server) Accept(c *simnet.SimConn) {
	sess := &Session{Conn: c}
	c.Owner = sess
	s.acceptMu.Lock()
	s.Sessions = append(s.Sessions, sess)
	s.acceptMu.Unlock()
	if s.Immediate {
		c.OnWrite = func() {
			s.acceptMu.Lock()
			for s.Step(sess) {
			}
			s.acceptMu.Unlock()
		}
	}
}

func nowMs() int64 { return time.Now().UnixMilli() }

// Live sessions with at least one complete pending request, in CANONICAL order: sessions that already executed
// a request by their canonical number, then new sessions ordered by the bytes of their oldest pending request
// (connection ids and accept order depend on how the runtime interleaved the dialling goroutines).
func (s *Server) Ready() []*Session {
	var out []*Session
	for _, ss := range s.Sessions {
		if ss.Dead || ss.ParseBroken {
			continue
		}
		if s.HasRequest(ss) {
			out = append(out, ss)
		}
	}
	s.SortCanonical(out)
	return out
}

// SortCanonical orders sessions independently of connection ids / accept order.
func (s *Server) SortCanonical(list []*Session) {
	key := func(ss *Session) string {
		if ss.Lbl > 0 {
			return fmt.Sprintf("0%09d", ss.Lbl)
		}
		b := ss.Conn.Pending()
		if len(b) > 200 {
			b = b[:200]
		}
		return "1" + string(b)
	}
	sort.SliceStable(list, func(i, j int) bool { return key(list[i]) < key(list[j]) })
}

// Live returns the live sessions in canonical order.
func (s *Server) Live() []*Session {
	var out []*Session
	for _, ss := range s.Sessions {
		if !ss.Dead {
			out = append(out, ss)
		}
	}
	s.SortCanonical(out)
	return out
}

func (s *Server) HasRequest(ss *Session) bool {
	if ss.Dead || ss.Conn.Broken() {
		return false
	}
	_, _, ok, err := resp.ParseRequest(ss.Conn.Pending())
	return ok || err != nil
}

// PendingCount returns how many complete requests are waiting on the session.
func (s *Server) PendingCount(ss *Session) int {
	buf := ss.Conn.Pending()
	n := 0
	for {
		_, m, ok, err := resp.ParseRequest(buf)
		if !ok || err != nil {
			return n
		}
		n++
		buf = buf[m:]
	}
}

// HasUndelivered reports sessions with replies waiting in the outbox.
func (s *Server) Undelivered() []*Session {
	var out []*Session
	for _, ss := range s.Sessions {
		if !ss.Dead && len(ss.Outbox) > 0 {
			out = append(out, ss)
		}
	}
	return out
}

func (s *Server) DeliverOutbox(ss *Session) {
	if len(ss.Outbox) > 0 {
		ss.Conn.Deliver(ss.Outbox)
		ss.Outbox = nil
	}
}

func (s *Server) reply(ss *Session, v resp.Value) {
	b := v.Encode(nil)
	if s.AutoDeliver {
		ss.Conn.Deliver(b)
	} else {
		ss.Outbox = append(ss.Outbox, b...)
	}
}

// Step executes the oldest pending request of the session. Returns false if none.
func (s *Server) Step(ss *Session) bool {
	if ss.Dead {
		return false
	}
	args, n, ok, err := resp.ParseRequest(ss.Conn.Pending())
	if err != nil {
		ss.ParseBroken = true
		s.reply(ss, resp.Err("ERR Protocol error"))
		ss.Conn.ServerClose()
		return true
	}
	if !ok {
		return false
	}
	ss.Conn.Consume(n)
	s.Dispatch(ss, args)
	return true
}

// Dispatch executes one already-parsed request on a session (also used for simulated local clients).
func (s *Server) Dispatch(ss *Session, args [][]byte) bool {
	if len(args) == 0 {
		return true
	}
	s.labelOf(ss)
	s.Stats.Requests++
	ss.NReq++
	name := strings.ToLower(string(args[0]))
	rest := args[1:]

	if s.Intercept != nil {
		if v := s.Intercept(ss, name, rest); v != nil {
			s.logExec(ss, name, rest, 0, *v)
			s.reply(ss, *v)
			return true
		}
	}

	switch name {
	case "multi":
		if ss.InMulti {
			s.reply(ss, resp.Err("ERR MULTI calls can not be nested"))
			return true
		}
		ss.InMulti = true
		ss.Queue = nil
		ss.QueueErr = false
		s.reply(ss, resp.OK())
		return true
	case "discard":
		if !ss.InMulti {
			s.reply(ss, resp.Err("ERR DISCARD without MULTI"))
			return true
		}
		ss.InMulti = false
		ss.Queue = nil
		s.reply(ss, resp.OK())
		return true
	case "exec":
		if !ss.InMulti {
			s.reply(ss, resp.Err("ERR EXEC without MULTI"))
			return true
		}
		ss.InMulti = false
		q := ss.Queue
		ss.Queue = nil
		if ss.QueueErr {
			s.reply(ss, resp.Err("EXECABORT Transaction discarded because of previous errors."))
			return true
		}
		if s.Cluster != nil {
			if v := s.Cluster.checkTxn(s, ss, q); v != nil {
				s.reply(ss, *v)
				return true
			}
		}
		s.txnSeq++
		txn := s.txnSeq
		out := make([]resp.Value, 0, len(q))
		s.beginPropagateTxn()
		for _, cmd := range q {
			nm := strings.ToLower(string(cmd[0]))
			v := s.execute(ss, nm, cmd[1:], txn)
			out = append(out, v)
		}
		s.endPropagateTxn(ss)
		// an empty MULTI/EXEC is still an observable block
		s.logExec(ss, "exec", nil, txn, resp.OK())
		ss.Asking = false
		s.reply(ss, resp.Array(out...))
		return true
	}
	if ss.InMulti {
		if _, known := commands[name]; !known && !s.Lenient {
			ss.QueueErr = true
			s.reply(ss, resp.Err("ERR unknown command '"+name+"'"))
			return true
		}
		if s.Cluster != nil {
			if v := s.Cluster.route(s, ss, name, rest); v != nil {
				ss.QueueErr = true
				if w := simrt.Cur(); w != nil && os.Getenv("SIM_LOG_QUEUE_REDIRECTS") == "1" {
					w.Logf("%s %s (queued in MULTI) %s %q => %s", s.Addr, ss.LabelString(), name, firstArg(rest), string(v.Str))
				}
				s.reply(ss, *v)
				return true
			}
		}
		ss.Queue = append(ss.Queue, args)
		s.Queued = append(s.Queued, Exec{Conn: ss.Conn.ID, Tag: ss.Conn.Tag, DB: ss.DB, Name: name, Args: rest, Node: s.Addr})
		s.reply(ss, resp.Simple("QUEUED"))
		return true
	}
	if s.Cluster != nil {
		if v := s.Cluster.route(s, ss, name, rest); v != nil {
			s.logExec(ss, name, rest, 0, *v)
			s.reply(ss, *v)
			ss.Asking = false
			return true
		}
	}
	v := s.execute(ss, name, rest, 0)
	if name != "asking" {
		ss.Asking = false
	}
	if v.Kind != 0 { // Kind 0 => handler replied by itself (PSYNC)
		s.reply(ss, v)
	}
	return true
}

// labelOf gives the session its canonical number (first executed request wins the next number).
func (s *Server) labelOf(ss *Session) int {
	if ss.Lbl == 0 {
		s.nextLbl++
		ss.Lbl = s.nextLbl
		if !ss.Local {
			ss.Conn.Label = fmt.Sprintf("%s/c%d", s.Addr, ss.Lbl)
		}
	}
	return ss.Lbl
}

// Name returns the printable canonical name of a session (never the raw connection id).
func (ss *Session) LabelString() string {
	if ss.Lbl > 0 {
		return fmt.Sprintf("c%d", ss.Lbl)
	}
	return "new"
}

func (s *Server) logExec(ss *Session, name string, args [][]byte, txn int, v resp.Value) {
	s.seq++
	e := Exec{Seq: s.seq, Conn: ss.Conn.ID, Lbl: s.labelOf(ss), Tag: ss.Conn.Tag, DB: ss.DB, Name: name, Args: args, Txn: txn, IsErr: v.IsErr(), AtNs: time.Now().UnixNano(), Node: s.Addr}
	if v.IsErr() {
		e.Reply = string(v.Str)
		s.Stats.Errors++
	}
	s.Log = append(s.Log, e)
	if w := simrt.Cur(); w != nil {
		w.Logf("%s %s", s.Addr, e.String())
	}
	if s.OnExec != nil {
		s.OnExec(&s.Log[len(s.Log)-1])
	}
}

// refusal: the error a store in RefuseWrites mode answers this command with (nil: it is served).
func (s *Server) refusal(name string) *resp.Value {
	if s.RefuseWrites == "" || isReadOnly(name) || isControl(name) {
		return nil
	}
	switch name {
	case "eval", "evalsha", "script", "ping", "info", "select", "multi", "exec", "discard", "get", "exists", "ttl", "pttl", "keys", "hget", "hgetall", "command", "cluster", "asking", "function", "echo", "type":
		return nil
	}
	if s.RefuseWrites == "READONLY" {
		v := resp.Err("READONLY You can't write against a read only replica.")
		return &v
	}
	switch name {
	case "del", "unlink", "expire", "pexpire", "expireat", "pexpireat", "persist", "hdel", "srem", "zrem", "lpop", "rpop", "ltrim", "zremrangebyscore", "lrem", "flushdb", "flushall":
		return nil // not "denyoom": they do not grow the data set
	}
	v := resp.Err("OOM command not allowed when used memory > 'maxmemory'.")
	return &v
}

func (s *Server) execute(ss *Session, name string, args [][]byte, txn int) resp.Value {
	dbBefore := ss.DB
	var v resp.Value
	h, known := commands[name]
	switch {
	case s.refusal(name) != nil:
		v = *s.refusal(name)
	case s.Lenient && !isControl(name) && !(len(args) > 0 && IsReservedKey(args[0])) && !reservedEval(name, args):
		v = resp.OK()
		if s.LenientTrack {
			// minimal existence model: DEL / UNLINK answer how many of their keys were there (0 = a no-op, which a master
			// does not propagate), any other write makes its first argument exist
			switch {
			case name == "del" || name == "unlink":
				n := int64(0)
				for _, k := range args {
					id := strconv.Itoa(ss.DB) + "/" + string(k)
					if s.lenientKeys[id] {
						delete(s.lenientKeys, id)
						n++
					}
				}
				v = resp.Int(n)
			case len(args) > 0 && !isReadOnly(name):
				s.MarkExists(ss.DB, string(args[0]))
			}
		}
	case !known:
		v = resp.Err("ERR unknown command '" + name + "'")
	default:
		s.lastName = name
		v = h(s, ss, args)
	}
	// log with the DB the command was executed in
	cur := ss.DB
	ss.DB = dbBefore
	s.logExec(ss, name, args, txn, v)
	ss.DB = cur
	if !v.IsErr() {
		s.propagate(ss, dbBefore, name, args, v)
	}
	return v
}

// MarkExists: the key is there (lenient existence model).
func (s *Server) MarkExists(db int, key string) {
	if s.lenientKeys == nil {
		s.lenientKeys = map[string]bool{}
	}
	s.lenientKeys[strconv.Itoa(db)+"/"+key] = true
}

func firstArg(a [][]byte) string {
	if len(a) == 0 {
		return ""
	}
	if len(a[0]) > 40 {
		return string(a[0][:40]) + "..."
	}
	return string(a[0])
}

func reservedEval(name string, args [][]byte) bool {
	if name != "eval" && name != "evalsha" {
		return false
	}
	return true
}

var controlCmds = map[string]bool{"select": true, "ping": true, "info": true, "auth": true, "echo": true, "command": true,
	"cluster": true, "asking": true, "replconf": true, "psync": true, "sync": true, "script": true, "function": true, "client": true,
	"readonly": true, "readwrite": true, "keys": true, "dbsize": true, "flushall": true, "flushdb": true, "config": true, "wait": true,
	"role": true, "debug": true, "type": true}

func isControl(name string) bool { return controlCmds[name] }

// ---------------------------------------------------------------- crash / sever support

// KillSession severs a connection. `execMore` more of its already-written requests are executed
// first (the bytes were in flight); an open MULTI is discarded, as Redis does when a client dies.
func (s *Server) KillSession(ss *Session, execMore int) int {
	done := 0
	for done < execMore && s.HasRequest(ss) {
		s.Step(ss)
		done++
	}
	ss.Dead = true
	ss.InMulti = false
	ss.Queue = nil
	ss.Outbox = nil
	ss.Conn.Sever(simnet.ErrReset)
	return done
}

// ---------------------------------------------------------------- keyspace helpers

func (s *Server) db(i int) map[string]*Obj { return s.DBs[i] }

// lookup returns the live object (expired keys are removed lazily).
func (s *Server) lookup(db int, key []byte) *Obj {
	o := s.DBs[db][string(key)]
	if o == nil {
		return nil
	}
	if o.ExpireAt > 0 && o.ExpireAt <= nowMs() {
		delete(s.DBs[db], string(key))
		return nil
	}
	return o
}

// Get is the observer's view of a key (no lazy deletion side effects matter for oracles).
func (s *Server) Get(db int, key string) *Obj { return s.lookup(db, []byte(key)) }

func (s *Server) Keys(db int) []string {
	var ks []string
	now := nowMs()
	for k, o := range s.DBs[db] {
		if o.ExpireAt > 0 && o.ExpireAt <= now {
			continue
		}
		ks = append(ks, k)
	}
	sort.Strings(ks)
	return ks
}

func (s *Server) set(db int, key []byte, o *Obj) { s.DBs[db][string(key)] = o }
func (s *Server) del(db int, key []byte) bool {
	if s.lookup(db, key) == nil {
		return false
	}
	delete(s.DBs[db], string(key))
	return true
}

func atoi(b []byte) (int64, bool) {
	v, err := strconv.ParseInt(string(b), 10, 64)
	return v, err == nil
}

var wrongType = resp.Err("WRONGTYPE Operation against a key holding the wrong kind of value")

func wrongArgs(name string) resp.Value {
	return resp.Err("ERR wrong number of arguments for '" + name + "' command")
}
