package simredis

// CloneDBs returns a deep copy of the keyspace (used by harnesses that re-run an operation from the same state).
func (s *Server) CloneDBs() []map[string]*Obj {
	out := make([]map[string]*Obj, len(s.DBs))
	for i, db := range s.DBs {
		m := make(map[string]*Obj, len(db))
		for k, o := range db {
			m[k] = o.Clone()
		}
		out[i] = m
	}
	return out
}

func (s *Server) RestoreDBs(dbs []map[string]*Obj) {
	s.DBs = make([]map[string]*Obj, len(dbs))
	for i, db := range dbs {
		m := make(map[string]*Obj, len(db))
		for k, o := range db {
			m[k] = o.Clone()
		}
		s.DBs[i] = m
	}
}

func (o *Obj) Clone() *Obj {
	c := *o
	if o.Str != nil {
		c.Str = append([]byte(nil), o.Str...)
	}
	if o.Hash != nil {
		c.Hash = make(map[string][]byte, len(o.Hash))
		for k, v := range o.Hash {
			c.Hash[k] = append([]byte(nil), v...)
		}
	}
	if o.List != nil {
		c.List = make([][]byte, len(o.List))
		for i, v := range o.List {
			c.List[i] = append([]byte(nil), v...)
		}
	}
	if o.Set != nil {
		c.Set = make(map[string]struct{}, len(o.Set))
		for k := range o.Set {
			c.Set[k] = struct{}{}
		}
	}
	if o.ZSet != nil {
		c.ZSet = make(map[string]float64, len(o.ZSet))
		for k, v := range o.ZSet {
			c.ZSet[k] = v
		}
	}
	if o.Stream != nil {
		st := *o.Stream
		st.Entries = append([]StreamEntry(nil), o.Stream.Entries...)
		if o.Stream.Groups != nil {
			st.Groups = map[string]string{}
			for k, v := range o.Stream.Groups {
				st.Groups[k] = v
			}
		}
		c.Stream = &st
	}
	return &c
}

// SetHash plants a hash directly into the keyspace (harness set-up).
func (s *Server) SetHash(db int, key string, fields map[string]string) {
	o := &Obj{T: 'h', Hash: map[string][]byte{}}
	for k, v := range fields {
		o.Hash[k] = []byte(v)
	}
	s.DBs[db][key] = o
}

func (s *Server) SetString(db int, key, val string) {
	s.DBs[db][key] = &Obj{T: 's', Str: []byte(val)}
}
