package simredis

// CloneDBs returns a deep copy of the keyspace (used by harnesses that re-run an operation from the same state).
func (s *Server) CloneDBs() []map[string]*Obj {
	out := make([]map[string]*Obj, len(s.DBs))
	for i, db := range s.DBs {
		m := make(map[string]*Obj, len(db))
		for k, o := range db {
			m[k] = o.Clone()
		}
		out[i] = m
	}
	return out
}

func (s *Server) RestoreDBs(dbs []map[string]*Obj) {
	s.DBs = make([]map[string]*Obj, len(dbs))
	for i, db := range dbs {
		m := make(map[string]*Obj, len(db))
		for k, o := range db {
			m[k] = o.Clone()
		}
		s.DBs[i] = m
	}
}

// Obj.Clone: see restore.go (deep copy including streams).

// SetHash plants a hash directly into the keyspace (harness set-up).
func (s *Server) SetHash(db int, key string, fields map[string]string) {
	o := &Obj{T: 'h', Hash: map[string][]byte{}}
	for k, v := range fields {
		o.Hash[k] = []byte(v)
	}
	s.DBs[db][key] = o
}

func (s *Server) SetString(db int, key, val string) {
	s.DBs[db][key] = &Obj{T: 's', Str: []byte(val)}
}
