package simredis

// EVAL / EVALSHA through a mini-Lua interpreter (tree walking, Lua 5.1 semantics for the implemented subset).
//
// Implemented: comments, numbers (double), strings (all quote forms, escapes, long brackets), nil/true/false, tables
// (constructors, indexing, #), local/global-read variables, multiple assignment, if/elseif/else, while, repeat, numeric
// and generic for (pairs/ipairs/next, deterministic order), do-blocks, break, return (multiple values), functions and
// closures (incl. varargs, method-call syntax), all operators with Lua precedence and coercions
// (== ~= < <= > >= and or not + - * / % ^ .. #), pcall/error/assert, tonumber/tostring/type/unpack/select,
// string.{len,sub,lower,upper,rep,byte,char,reverse,format,find(plain)}, math.{floor,ceil,abs,max,min,sqrt,fmod,pow,huge,pi},
// table.{insert,remove,concat,getn}, redis.{call,pcall,error_reply,status_reply,sha1hex,log,replicate_commands,set_repl} and
// the Redis<->Lua value conversions of the EVAL documentation.
//
// Valid Lua outside the subset (metatables, coroutines, string patterns, cjson/cmsgpack/struct/bit, math.random, goto...)
// answers "ERR simlua unsupported: ..." which harnesses must treat as inconclusive, never as a verdict.

import (
	"crypto/sha1"
	"encoding/hex"
	"fmt"
	"math"
	"strconv"
	"strings"
	"sync"

	"verifsim/resp"
	"verifsim/simrt"
)

// UnsupportedMarker is contained in every error reply caused by a script outside the interpreter's subset.
const UnsupportedMarker = "simlua unsupported"

// IsUnsupportedScript reports whether an error text stems from a script outside the mini-Lua subset.
func IsUnsupportedScript(msg string) bool { return strings.Contains(msg, UnsupportedMarker) }

// ScriptSHA is the script id Redis uses (SHA1 hex of the source).
func ScriptSHA(src []byte) string {
	h := sha1.Sum(src)
	return hex.EncodeToString(h[:])
}

// ---------------------------------------------------------------- values

type lval interface{} // nil | bool | float64 | string | *luaTable | *luaFunc | *luaBuiltin

type luaTable struct {
	arr   []lval       // t[1..len(arr)]
	hash  map[any]lval // every other key
	order []any        // insertion order of hash keys (deterministic traversal)
}

func newLuaTable() *luaTable { return &luaTable{} }

func normKey(k lval) any {
	if f, ok := k.(float64); ok {
		return f
	}
	return k
}

func (t *luaTable) get(k lval) lval {
	if f, ok := k.(float64); ok {
		if i := int(f); float64(i) == f && i >= 1 && i <= len(t.arr) {
			return t.arr[i-1]
		}
	}
	if t.hash == nil {
		return nil
	}
	return t.hash[normKey(k)]
}

func (t *luaTable) set(k, v lval) {
	if f, ok := k.(float64); ok {
		if i := int(f); float64(i) == f && i >= 1 {
			if i <= len(t.arr) {
				t.arr[i-1] = v
				for len(t.arr) > 0 && t.arr[len(t.arr)-1] == nil {
					t.arr = t.arr[:len(t.arr)-1]
				}
				return
			}
			if i == len(t.arr)+1 {
				if v == nil {
					t.hdel(f)
					return
				}
				t.hdel(f)
				t.arr = append(t.arr, v)
				// migrate followers from the hash part
				for {
					nk := float64(len(t.arr) + 1)
					nv, ok := t.hash[nk]
					if !ok {
						break
					}
					t.hdel(nk)
					t.arr = append(t.arr, nv)
				}
				return
			}
		}
	}
	nk := normKey(k)
	if v == nil {
		t.hdel(nk)
		return
	}
	if t.hash == nil {
		t.hash = map[any]lval{}
	}
	if _, ok := t.hash[nk]; !ok {
		t.order = append(t.order, nk)
	}
	t.hash[nk] = v
}

func (t *luaTable) hdel(k any) {
	if t.hash == nil {
		return
	}
	if _, ok := t.hash[k]; !ok {
		return
	}
	delete(t.hash, k)
	for i, o := range t.order {
		if o == k {
			t.order = append(t.order[:i:i], t.order[i+1:]...)
			break
		}
	}
}

func (t *luaTable) length() int { return len(t.arr) }

// next implements the traversal order: array part, then hash keys in insertion order.
func (t *luaTable) next(k lval) (lval, lval, bool) {
	start := 0
	if k != nil {
		found := false
		if f, ok := k.(float64); ok {
			if i := int(f); float64(i) == f && i >= 1 && i <= len(t.arr) {
				start = i
				found = true
			}
		}
		if !found {
			nk := normKey(k)
			for i, o := range t.order {
				if o == nk {
					start = len(t.arr) + i + 1
					found = true
					break
				}
			}
			if !found {
				return nil, nil, false
			}
		}
	}
	for i := start; i < len(t.arr); i++ {
		if t.arr[i] != nil {
			return float64(i + 1), t.arr[i], true
		}
	}
	hs := start - len(t.arr)
	if hs < 0 {
		hs = 0
	}
	if hs < len(t.order) {
		key := t.order[hs]
		return key, t.hash[key], true
	}
	return nil, nil, true
}

type luaFunc struct {
	def *eFunc
	env *luaScope
}

type luaBuiltin struct {
	name string
	f    func(it *luaInterp, args []lval) []lval
}

type luaScope struct {
	vars   map[string]*lval
	parent *luaScope
	vararg []lval
	hasVar bool
}

func newScope(parent *luaScope) *luaScope { return &luaScope{parent: parent} }

func (sc *luaScope) declare(name string, v lval) {
	if sc.vars == nil {
		sc.vars = map[string]*lval{}
	}
	nv := v
	sc.vars[name] = &nv
}

func (sc *luaScope) find(name string) *lval {
	for s := sc; s != nil; s = s.parent {
		if s.vars != nil {
			if p, ok := s.vars[name]; ok {
				return p
			}
		}
	}
	return nil
}

// luaErr is a Lua runtime error travelling as a panic.
type luaErr struct {
	val  lval
	line int
}

func luaTypeName(v lval) string {
	switch v.(type) {
	case nil:
		return "nil"
	case bool:
		return "boolean"
	case float64:
		return "number"
	case string:
		return "string"
	case *luaTable:
		return "table"
	}
	return "function"
}

func luaTruthy(v lval) bool {
	if v == nil {
		return false
	}
	if b, ok := v.(bool); ok {
		return b
	}
	return true
}

func luaFmtNum(f float64) string {
	switch {
	case math.IsNaN(f):
		return "nan"
	case math.IsInf(f, 1):
		return "inf"
	case math.IsInf(f, -1):
		return "-inf"
	}
	if f == math.Trunc(f) && math.Abs(f) < 1e15 {
		return strconv.FormatInt(int64(f), 10)
	}
	return strconv.FormatFloat(f, 'g', 14, 64)
}

func luaToString(v lval) string {
	switch x := v.(type) {
	case nil:
		return "nil"
	case bool:
		if x {
			return "true"
		}
		return "false"
	case float64:
		return luaFmtNum(x)
	case string:
		return x
	case *luaTable:
		return fmt.Sprintf("table: %p", x)
	case *luaBuiltin:
		return "function: builtin: " + x.name
	}
	return "function"
}

// luaStrToNum converts as Lua's lua_str2number does (decimal / hex, surrounding blanks allowed).
func luaStrToNum(s string) (float64, bool) {
	s = strings.TrimSpace(s)
	if s == "" || strings.ContainsAny(s, "_") {
		return 0, false
	}
	neg := false
	t := s
	if t[0] == '-' {
		neg = true
		t = t[1:]
	} else if t[0] == '+' {
		t = t[1:]
	}
	if len(t) > 2 && t[0] == '0' && (t[1] == 'x' || t[1] == 'X') && !strings.ContainsAny(t, ".pP") {
		v, err := strconv.ParseUint(t[2:], 16, 64)
		if err != nil {
			return 0, false
		}
		if neg {
			return -float64(v), true
		}
		return float64(v), true
	}
	f, err := strconv.ParseFloat(s, 64)
	if err != nil {
		if ne, ok := err.(*strconv.NumError); ok && ne.Err == strconv.ErrRange {
			return f, true
		}
		return 0, false
	}
	return f, true
}

func luaToNumber(v lval) (float64, bool) {
	switch x := v.(type) {
	case float64:
		return x, true
	case string:
		return luaStrToNum(x)
	}
	return 0, false
}

// ---------------------------------------------------------------- interpreter

const luaStepBudget = 200000
const luaMaxDepth = 150

type luaInterp struct {
	s       *Server
	ss      *Session
	sha     string
	line    int
	steps   int
	depth   int
	globals map[string]lval
}

func (it *luaInterp) raise(format string, a ...any) {
	panic(luaErr{val: fmt.Sprintf("user_script:%d: ", it.line) + fmt.Sprintf(format, a...), line: it.line})
}

func (it *luaInterp) tick(line int) {
	if line > 0 {
		it.line = line
	}
	it.steps++
	if it.steps > luaStepBudget {
		unsupported("script exceeded the interpreter's budget of %d steps (a real server would be busy)", luaStepBudget)
	}
}

const (
	ctlNone = iota
	ctlBreak
	ctlReturn
)

func (it *luaInterp) execBlock(stmts []luaStmt, sc *luaScope) (int, []lval) {
	for _, st := range stmts {
		if c, r := it.exec(st, sc); c != ctlNone {
			return c, r
		}
	}
	return ctlNone, nil
}

func adjust(vals []lval, n int) []lval {
	if len(vals) >= n {
		return vals[:n]
	}
	out := make([]lval, n)
	copy(out, vals)
	return out
}

func (it *luaInterp) exec(st luaStmt, sc *luaScope) (int, []lval) {
	switch s := st.(type) {
	case *sLocal:
		it.tick(s.line)
		vals := adjust(it.evalList(s.exprs, sc), len(s.names))
		for i, n := range s.names {
			sc.declare(n, vals[i])
		}
	case *sAssign:
		it.tick(s.line)
		// evaluate table/key operands of the targets first, then the values (Lua's order is unspecified)
		type tgt struct {
			name string
			tb   lval
			key  lval
			line int
		}
		tg := make([]tgt, len(s.targets))
		for i, t := range s.targets {
			switch x := t.(type) {
			case *eName:
				tg[i] = tgt{name: x.name, line: x.line}
			case *eIndex:
				tg[i] = tgt{tb: it.eval(x.obj, sc), key: it.eval(x.key, sc), line: x.line}
			}
		}
		vals := adjust(it.evalList(s.exprs, sc), len(s.targets))
		for i, t := range tg {
			if t.name != "" {
				if p := sc.find(t.name); p != nil {
					*p = vals[i]
				} else {
					it.line = t.line
					it.raise("Script attempted to create global variable '%s'", t.name)
				}
				continue
			}
			it.setIndex(t.tb, t.key, vals[i], t.line)
		}
	case *sCall:
		it.tick(s.line)
		it.evalMulti(s.call, sc)
	case *sIf:
		it.tick(s.line)
		for i, c := range s.conds {
			if luaTruthy(it.eval(c, sc)) {
				return it.execBlock(s.blocks[i], newScope(sc))
			}
		}
		if s.hasEls {
			return it.execBlock(s.els, newScope(sc))
		}
	case *sWhile:
		for {
			it.tick(s.line)
			if !luaTruthy(it.eval(s.cond, sc)) {
				break
			}
			c, r := it.execBlock(s.body, newScope(sc))
			if c == ctlBreak {
				break
			}
			if c == ctlReturn {
				return c, r
			}
		}
	case *sRepeat:
		for {
			it.tick(s.line)
			inner := newScope(sc)
			c, r := it.execBlock(s.body, inner)
			if c == ctlBreak {
				break
			}
			if c == ctlReturn {
				return c, r
			}
			if luaTruthy(it.eval(s.cond, inner)) {
				break
			}
		}
	case *sNumFor:
		it.tick(s.line)
		num := func(e luaExpr, what string) float64 {
			v, ok := luaToNumber(it.eval(e, sc))
			if !ok {
				it.raise("'for' %s must be a number", what)
			}
			return v
		}
		start := num(s.start, "initial value")
		stop := num(s.stop, "limit")
		step := 1.0
		if s.step != nil {
			step = num(s.step, "step")
		}
		for i := start; (step > 0 && i <= stop) || (step <= 0 && i >= stop); i += step {
			it.tick(s.line)
			inner := newScope(sc)
			inner.declare(s.v, i)
			c, r := it.execBlock(s.body, inner)
			if c == ctlBreak {
				break
			}
			if c == ctlReturn {
				return c, r
			}
		}
	case *sGenFor:
		it.tick(s.line)
		vals := adjust(it.evalList(s.exprs, sc), 3)
		f, state, ctl := vals[0], vals[1], vals[2]
		for {
			it.tick(s.line)
			rs := adjust(it.call(f, []lval{state, ctl}, s.line), len(s.names))
			if rs[0] == nil {
				break
			}
			ctl = rs[0]
			inner := newScope(sc)
			for i, n := range s.names {
				inner.declare(n, rs[i])
			}
			c, r := it.execBlock(s.body, inner)
			if c == ctlBreak {
				break
			}
			if c == ctlReturn {
				return c, r
			}
		}
	case *sDo:
		return it.execBlock(s.body, newScope(sc))
	case *sReturn:
		it.tick(s.line)
		return ctlReturn, it.evalList(s.exprs, sc)
	case *sBreak:
		return ctlBreak, nil
	case *sLocalFunc:
		it.tick(s.line)
		sc.declare(s.name, nil)
		*sc.find(s.name) = &luaFunc{def: s.fn, env: sc}
	case *sFunc:
		it.tick(s.line)
		fn := &luaFunc{def: s.fn, env: sc}
		switch x := s.target.(type) {
		case *eName:
			if p := sc.find(x.name); p != nil {
				*p = fn
			} else {
				it.raise("Script attempted to create global variable '%s'", x.name)
			}
		case *eIndex:
			it.setIndex(it.eval(x.obj, sc), it.eval(x.key, sc), fn, s.line)
		}
	default:
		unsupported("statement %T", st)
	}
	return ctlNone, nil
}

func (it *luaInterp) setIndex(tb, key, v lval, line int) {
	t, ok := tb.(*luaTable)
	if !ok {
		it.line = line
		it.raise("attempt to index a %s value", luaTypeName(tb))
	}
	if key == nil {
		it.line = line
		it.raise("table index is nil")
	}
	if f, ok := key.(float64); ok && math.IsNaN(f) {
		it.line = line
		it.raise("table index is NaN")
	}
	t.set(key, v)
}

func (it *luaInterp) index(obj, key lval, line int) lval {
	switch o := obj.(type) {
	case *luaTable:
		return o.get(key)
	case string:
		if st, ok := it.globals["string"].(*luaTable); ok {
			return st.get(key)
		}
		return nil
	}
	it.line = line
	it.raise("attempt to index a %s value", luaTypeName(obj))
	return nil
}

func (it *luaInterp) evalList(es []luaExpr, sc *luaScope) []lval {
	var out []lval
	for i, e := range es {
		if i == len(es)-1 {
			out = append(out, it.evalMulti(e, sc)...)
		} else {
			out = append(out, it.eval(e, sc))
		}
	}
	return out
}

func (it *luaInterp) evalMulti(e luaExpr, sc *luaScope) []lval {
	switch x := e.(type) {
	case *eCall:
		it.tick(x.line)
		f := it.eval(x.fn, sc)
		args := it.evalList(x.args, sc)
		return it.call(f, args, x.line)
	case *eMethod:
		it.tick(x.line)
		obj := it.eval(x.obj, sc)
		f := it.index(obj, x.name, x.line)
		args := append([]lval{obj}, it.evalList(x.args, sc)...)
		return it.call(f, args, x.line)
	case *eVararg:
		for s := sc; s != nil; s = s.parent {
			if s.hasVar {
				return s.vararg
			}
		}
		return nil
	}
	return []lval{it.eval(e, sc)}
}

func (it *luaInterp) call(f lval, args []lval, line int) []lval {
	switch fn := f.(type) {
	case *luaBuiltin:
		it.line = line
		return fn.f(it, args)
	case *luaFunc:
		it.depth++
		if it.depth > luaMaxDepth {
			it.depth = 0
			it.line = line
			it.raise("stack overflow")
		}
		sc := newScope(fn.env)
		for i, p := range fn.def.params {
			if i < len(args) {
				sc.declare(p, args[i])
			} else {
				sc.declare(p, nil)
			}
		}
		sc.hasVar = true // a function body never sees the varargs of an enclosing function
		if fn.def.vararg && len(args) > len(fn.def.params) {
			sc.vararg = append([]lval(nil), args[len(fn.def.params):]...)
		}
		c, r := it.execBlock(fn.def.body, sc)
		it.depth--
		it.line = line
		if c == ctlReturn {
			return r
		}
		return nil
	}
	it.line = line
	it.raise("attempt to call a %s value", luaTypeName(f))
	return nil
}

func (it *luaInterp) eval(e luaExpr, sc *luaScope) lval {
	switch x := e.(type) {
	case *eNil:
		return nil
	case *eBool:
		return x.v
	case *eNum:
		return x.v
	case *eStr:
		return x.v
	case *eParen:
		return it.eval(x.e, sc)
	case *eName:
		if p := sc.find(x.name); p != nil {
			return *p
		}
		if v, ok := it.globals[x.name]; ok {
			return v
		}
		if luaKnownUnsupportedGlobals[x.name] {
			unsupported("global '%s'", x.name)
		}
		it.line = x.line
		it.raise("Script attempted to access nonexistent global variable '%s'", x.name)
	case *eIndex:
		return it.index(it.eval(x.obj, sc), it.eval(x.key, sc), x.line)
	case *eCall, *eMethod, *eVararg:
		r := it.evalMulti(e, sc)
		if len(r) == 0 {
			return nil
		}
		return r[0]
	case *eFunc:
		return &luaFunc{def: x, env: sc}
	case *eTable:
		t := newLuaTable()
		pos := 1
		for i, item := range x.items {
			if item.key != nil {
				k := it.eval(item.key, sc)
				it.setIndex(t, k, it.eval(item.val, sc), x.line)
				continue
			}
			if i == len(x.items)-1 {
				for _, v := range it.evalMulti(item.val, sc) {
					t.set(float64(pos), v)
					pos++
				}
			} else {
				t.set(float64(pos), it.eval(item.val, sc))
				pos++
			}
		}
		return t
	case *eUn:
		v := it.eval(x.e, sc)
		switch x.op {
		case "not":
			return !luaTruthy(v)
		case "-":
			n, ok := luaToNumber(v)
			if !ok {
				it.line = x.line
				it.raise("attempt to perform arithmetic on a %s value", luaTypeName(v))
			}
			return -n
		case "#":
			switch o := v.(type) {
			case string:
				return float64(len(o))
			case *luaTable:
				return float64(o.length())
			}
			it.line = x.line
			it.raise("attempt to get length of a %s value", luaTypeName(v))
		}
	case *eBin:
		return it.binop(x, sc)
	}
	unsupported("expression %T", e)
	return nil
}

func luaRawEqual(a, b lval) bool {
	switch x := a.(type) {
	case nil:
		return b == nil
	case bool:
		y, ok := b.(bool)
		return ok && x == y
	case float64:
		y, ok := b.(float64)
		return ok && x == y
	case string:
		y, ok := b.(string)
		return ok && x == y
	}
	return a == b // reference identity
}

func (it *luaInterp) binop(x *eBin, sc *luaScope) lval {
	switch x.op {
	case "and":
		l := it.eval(x.l, sc)
		if !luaTruthy(l) {
			return l
		}
		return it.eval(x.r, sc)
	case "or":
		l := it.eval(x.l, sc)
		if luaTruthy(l) {
			return l
		}
		return it.eval(x.r, sc)
	}
	l := it.eval(x.l, sc)
	r := it.eval(x.r, sc)
	switch x.op {
	case "==":
		return luaRawEqual(l, r)
	case "~=":
		return !luaRawEqual(l, r)
	case "<", "<=", ">", ">=":
		if x.op == ">" || x.op == ">=" { // a > b  <=>  b < a
			l, r = r, l
		}
		strict := x.op == "<" || x.op == ">"
		if a, ok := l.(float64); ok {
			if b, ok := r.(float64); ok {
				if strict {
					return a < b
				}
				return a <= b
			}
		}
		if a, ok := l.(string); ok {
			if b, ok := r.(string); ok {
				if strict {
					return a < b
				}
				return a <= b
			}
		}
		it.line = x.line
		tl, tr := luaTypeName(l), luaTypeName(r)
		if x.op == ">" || x.op == ">=" {
			tl, tr = tr, tl
		}
		if tl == tr {
			it.raise("attempt to compare two %s values", tl)
		}
		it.raise("attempt to compare %s with %s", tl, tr)
	case "..":
		cs := func(v lval) (string, bool) {
			switch y := v.(type) {
			case string:
				return y, true
			case float64:
				return luaFmtNum(y), true
			}
			return "", false
		}
		a, ok1 := cs(l)
		b, ok2 := cs(r)
		if !ok1 || !ok2 {
			bad := l
			if ok1 {
				bad = r
			}
			it.line = x.line
			it.raise("attempt to concatenate a %s value", luaTypeName(bad))
		}
		return a + b
	case "+", "-", "*", "/", "%", "^":
		a, ok1 := luaToNumber(l)
		b, ok2 := luaToNumber(r)
		if !ok1 || !ok2 {
			bad := l
			if ok1 {
				bad = r
			}
			it.line = x.line
			it.raise("attempt to perform arithmetic on a %s value", luaTypeName(bad))
		}
		switch x.op {
		case "+":
			return a + b
		case "-":
			return a - b
		case "*":
			return a * b
		case "/":
			return a / b
		case "%":
			return a - math.Floor(a/b)*b
		case "^":
			return math.Pow(a, b)
		}
	}
	unsupported("operator %s", x.op)
	return nil
}

// ---------------------------------------------------------------- Redis <-> Lua conversions (EVAL documentation)

func (it *luaInterp) respToLua(v resp.Value) lval {
	switch v.Kind {
	case ':':
		return float64(v.Int)
	case '$':
		return string(v.Str)
	case '+':
		t := newLuaTable()
		t.set("ok", string(v.Str))
		return t
	case '-':
		t := newLuaTable()
		t.set("err", string(v.Str))
		return t
	case '_', 'N':
		return false
	case '*':
		t := newLuaTable()
		for i, e := range v.Elems {
			t.set(float64(i+1), it.respToLua(e))
		}
		return t
	}
	unsupported("reply kind %q cannot be converted to a Lua value", v.Kind)
	return nil
}

func luaToResp(v lval, depth int) resp.Value {
	if depth > 64 {
		return resp.Err("ERR reached lua stack limit")
	}
	switch x := v.(type) {
	case nil:
		return resp.Nil()
	case bool:
		if x {
			return resp.Int(1)
		}
		return resp.Nil()
	case float64:
		if math.IsNaN(x) {
			return resp.Int(math.MinInt64)
		}
		if x >= 9.2233720368547758e18 || x <= -9.2233720368547758e18 {
			return resp.Int(math.MinInt64)
		}
		return resp.Int(int64(x))
	case string:
		return resp.BulkS(x)
	case *luaTable:
		if e, ok := x.get("err").(string); ok {
			return resp.Err(strings.NewReplacer("\r", " ", "\n", " ").Replace(e))
		}
		if o, ok := x.get("ok").(string); ok {
			return resp.Simple(strings.NewReplacer("\r", " ", "\n", " ").Replace(o))
		}
		var elems []resp.Value
		for i := 1; ; i++ {
			e := x.get(float64(i))
			if e == nil {
				break
			}
			elems = append(elems, luaToResp(e, depth+1))
		}
		return resp.Array(elems...)
	}
	return resp.Nil() // functions: Redis converts unknown types to nil
}

var scriptForbidden = map[string]bool{"eval": true, "evalsha": true, "script": true, "multi": true, "exec": true, "discard": true,
	"watch": true, "unwatch": true, "psync": true, "sync": true, "replconf": true, "auth": true, "subscribe": true, "psubscribe": true,
	"monitor": true, "blpop": true, "brpop": true, "wait": true, "function": true, "fcall": true, "shutdown": true}

func (it *luaInterp) redisCall(args []lval, protected bool) lval {
	fail := func(msg string) lval {
		t := newLuaTable()
		t.set("err", msg)
		if protected {
			return t
		}
		panic(luaErr{val: t, line: it.line})
	}
	if len(args) == 0 {
		it.raise("Please specify at least one argument for this redis lib call")
	}
	argv := make([][]byte, len(args))
	for i, a := range args {
		switch x := a.(type) {
		case string:
			argv[i] = []byte(x)
		case float64:
			if x == math.Trunc(x) && math.Abs(x) < 9.2e18 {
				argv[i] = []byte(strconv.FormatInt(int64(x), 10))
			} else {
				argv[i] = []byte(strconv.FormatFloat(x, 'g', 17, 64))
			}
		default:
			it.raise("Lua redis lib command arguments must be strings or integers")
		}
	}
	name := strings.ToLower(string(argv[0]))
	if scriptForbidden[name] {
		return fail("ERR This Redis command is not allowed from script")
	}
	v := it.s.scriptDispatch(it.ss, name, argv[1:])
	if v.Kind == 0 {
		unsupported("command '%s' called from a script", name)
	}
	if v.IsErr() {
		return fail(string(v.Str))
	}
	return it.respToLua(v)
}

// scriptDispatch executes one command on behalf of a script (same rule table as Server.execute, without
// a client-level log entry: the enclosing EVAL is the logged request).
func (s *Server) scriptDispatch(ss *Session, name string, args [][]byte) resp.Value {
	db := ss.DB
	var v resp.Value
	h, known := commands[name]
	switch {
	case s.refusal(name) != nil:
		v = *s.refusal(name)
	case s.Lenient && !isControl(name) && !(len(args) > 0 && IsReservedKey(args[0])):
		v = resp.OK()
	case !known:
		v = resp.Err("ERR Unknown Redis command called from script")
	default:
		s.lastName = name
		v = h(s, ss, args)
	}
	if w := simrt.Cur(); w != nil {
		var sb strings.Builder
		for _, a := range args {
			sb.WriteString(" " + Quote(a))
		}
		enc := v.Encode(nil)
		if len(enc) > 48 {
			enc = enc[:48]
		}
		w.Logf("%s   lua c%d db%d %s%s => %q", s.Addr, ss.Conn.ID, db, name, sb.String(), enc)
	}
	if !v.IsErr() {
		s.propagate(ss, db, name, args, v)
	}
	return v
}

// ---------------------------------------------------------------- EVAL / EVALSHA

type luaChunk struct {
	body []luaStmt
	err  *resp.Value
}

var luaCache = struct {
	sync.Mutex
	m map[string]*luaChunk
}{m: map[string]*luaChunk{}}

func luaCompile(src string) *luaChunk {
	luaCache.Lock()
	defer luaCache.Unlock()
	if c, ok := luaCache.m[src]; ok {
		return c
	}
	c := &luaChunk{}
	func() {
		defer func() {
			if x := recover(); x != nil {
				switch e := x.(type) {
				case luaSyntaxErr:
					v := resp.Err(fmt.Sprintf("ERR Error compiling script (new function): user_script:%d: %s", e.line, e.msg))
					c.err = &v
				case luaUnsupported:
					v := resp.Err("ERR " + UnsupportedMarker + ": " + e.msg)
					c.err = &v
				default:
					panic(x)
				}
			}
		}()
		c.body = luaParse(src)
	}()
	if len(luaCache.m) > 256 {
		luaCache.m = map[string]*luaChunk{}
	}
	luaCache.m[src] = c
	return c
}

func cmdEval(s *Server, ss *Session, a [][]byte) resp.Value {
	name := s.lastName
	if len(a) < 2 {
		return wrongArgs(name)
	}
	var src, sha string
	if name == "evalsha" {
		sha = strings.ToLower(string(a[0]))
		sc, ok := s.Scripts[sha]
		if !ok {
			return resp.Err("NOSCRIPT No matching script. Please use EVAL.")
		}
		src = sc
	} else {
		src = string(a[0])
		sha = ScriptSHA(a[0])
	}
	nk, ok := atoi(a[1])
	if !ok {
		return resp.Err("ERR value is not an integer or out of range")
	}
	if nk > int64(len(a)-2) {
		return resp.Err("ERR Number of keys can't be greater than number of args")
	}
	if nk < 0 {
		return resp.Err("ERR Number of keys can't be negative")
	}
	chunk := luaCompile(src)
	if chunk.err != nil {
		return *chunk.err
	}
	s.Scripts[sha] = src

	it := &luaInterp{s: s, ss: ss, sha: sha}
	it.globals = luaStdlib()
	keys, argv := newLuaTable(), newLuaTable()
	for i, k := range a[2 : 2+nk] {
		keys.set(float64(i+1), string(k))
	}
	for i, v := range a[2+nk:] {
		argv.set(float64(i+1), string(v))
	}
	it.globals["KEYS"] = keys
	it.globals["ARGV"] = argv

	dbBefore := ss.DB
	defer func() { ss.DB = dbBefore }() // a SELECT inside a script does not leak to the calling client
	var out resp.Value
	func() {
		defer func() {
			if x := recover(); x != nil {
				switch e := x.(type) {
				case luaErr:
					out = it.errorReply(e)
				case luaUnsupported:
					out = resp.Err("ERR " + UnsupportedMarker + ": " + e.msg)
				default:
					panic(x)
				}
			}
		}()
		root := newScope(nil)
		root.hasVar = true
		_, rets := it.execBlock(chunk.body, root)
		if len(rets) == 0 {
			out = resp.Nil()
		} else {
			out = luaToResp(rets[0], 0)
		}
	}()
	return out
}

func (it *luaInterp) errorReply(e luaErr) resp.Value {
	clean := strings.NewReplacer("\r", " ", "\n", " ")
	suffix := fmt.Sprintf(" script: %s, on @user_script:%d.", it.sha, e.line)
	switch x := e.val.(type) {
	case *luaTable:
		if m, ok := x.get("err").(string); ok {
			return resp.Err(clean.Replace(m) + suffix)
		}
	case string:
		return resp.Err("ERR " + clean.Replace(x) + suffix)
	case float64:
		return resp.Err("ERR " + luaFmtNum(x) + suffix)
	}
	return resp.Err("ERR Error running script, script error is not a string or an error table" + suffix)
}
