package simredis

import (
	"encoding/binary"
	"strconv"
	"strings"

	"verifsim/resp"
)

// RestoreState is embedded in Server: everything RESTORE / FUNCTION RESTORE need.
type RestoreState struct {
	// RestoreRegistry maps a serialized value (type byte + value serialization, i.e. a DUMP payload
	// without its 10-byte footer) to the logical value it stands for. The harness fills it from the
	// snapshot encoder's ground truth; a body that is not registered is "Bad data format", exactly
	// what a real server answers to a payload it cannot load. No second RDB decoder is involved.
	RestoreRegistry map[string]*Obj
	// Restores lists every accepted RESTORE, in execution order.
	Restores []RestoreRec
	// Functions: accepted FUNCTION RESTORE payload bodies.
	Functions [][]byte
}

// RestoreRec is one accepted RESTORE.
type RestoreRec struct {
	Seq     int
	Conn    int
	DB      int
	Key     []byte
	TTL     int64 // as sent
	AbsTTL  bool
	Replace bool
	Payload []byte // whole payload as received
	Version int    // footer version
	AtMs    int64
}

// Register adds a serialized body and its logical value to the registry.
func (s *Server) Register(body []byte, o *Obj) {
	if s.RestoreRegistry == nil {
		s.RestoreRegistry = map[string]*Obj{}
	}
	s.RestoreRegistry[string(body)] = o
}

// ---------------------------------------------------------------- server version helpers

// verParts parses "major.minor[.patch]" of the double's Version string.
func (s *Server) verParts() (int, int) {
	p := strings.Split(s.Version, ".")
	maj, min := 0, 0
	if len(p) > 0 {
		maj, _ = strconv.Atoi(p[0])
	}
	if len(p) > 1 {
		min, _ = strconv.Atoi(p[1])
	}
	return maj, min
}

func (s *Server) VerAtLeast(maj, min int) bool {
	a, b := s.verParts()
	return a > maj || (a == maj && b >= min)
}

// RDBVersion is the RDB format version a server of the double's Version reads and writes
// (release notes / rdb.h of the respective releases).
func (s *Server) RDBVersion() int { return RDBVersionOf(s.Version) }

// RDBVersionOf maps a server version string to the RDB format version that server reads and writes.
func RDBVersionOf(version string) int {
	maj, min := (&Server{Version: version}).verParts()
	switch {
	case maj >= 8:
		if min >= 2 {
			return 13
		}
		return 12
	case maj == 7:
		switch {
		case min >= 4:
			return 12
		case min >= 2:
			return 11
		}
		return 10
	case maj == 6 || maj == 5:
		return 9
	case maj == 4:
		return 8
	case maj == 3 && min >= 2:
		return 7
	}
	return 6
}

// restorableType: can a server with RDB version v load a value of type byte t?
// (types are added over time, never removed from the loader)
func restorableType(t byte, v int) bool {
	switch {
	case t <= 4 || (t >= 9 && t <= 13):
		return true
	case t == 14:
		return v >= 7
	case t == 5, t == 6, t == 7:
		return v >= 8
	case t == 15:
		return v >= 9
	case t >= 16 && t <= 19:
		return v >= 10
	case t == 20 || t == 21:
		return v >= 11
	case t >= 22 && t <= 25:
		return v >= 12
	}
	return false
}

// crc64Jones: bit-at-a-time CRC-64/Jones (polynomial 0xad93d23594c935a9, reflected, init 0, no xor-out).
// Deliberately a separate implementation from the snapshot encoder's table-driven one and from the
// repository's.
func crc64Jones(p []byte) uint64 {
	const polyRev = 0x95ac9329ac4bc9b5
	var crc uint64
	for _, b := range p {
		crc ^= uint64(b)
		for i := 0; i < 8; i++ {
			lsb := crc & 1
			crc >>= 1
			if lsb != 0 {
				crc ^= polyRev
			}
		}
	}
	return crc
}

// checkDumpFooter verifies body ‖ version(2, LE) ‖ crc64(8, LE over body‖version).
func (s *Server) checkDumpFooter(p []byte) (body []byte, ver int, ok bool) {
	if len(p) < 10 {
		return nil, 0, false
	}
	ver = int(binary.LittleEndian.Uint16(p[len(p)-10:]))
	if ver > s.RDBVersion() {
		return nil, ver, false
	}
	if crc64Jones(p[:len(p)-8]) != binary.LittleEndian.Uint64(p[len(p)-8:]) {
		return nil, ver, false
	}
	return p[:len(p)-10], ver, true
}

// Clone is a deep copy (a restored value must not alias the registry).
func (o *Obj) Clone() *Obj {
	c := *o
	c.Str = append([]byte(nil), o.Str...)
	if o.Hash != nil {
		c.Hash = make(map[string][]byte, len(o.Hash))
		for k, v := range o.Hash {
			c.Hash[k] = append([]byte(nil), v...)
		}
	}
	if o.List != nil {
		c.List = make([][]byte, len(o.List))
		for i, v := range o.List {
			c.List[i] = append([]byte(nil), v...)
		}
	}
	if o.Set != nil {
		c.Set = make(map[string]struct{}, len(o.Set))
		for k := range o.Set {
			c.Set[k] = struct{}{}
		}
	}
	if o.ZSet != nil {
		c.ZSet = make(map[string]float64, len(o.ZSet))
		for k, v := range o.ZSet {
			c.ZSet[k] = v
		}
	}
	if o.Stream != nil {
		c.Stream = o.Stream.Clone()
	}
	c.Opaque = append([]byte(nil), o.Opaque...)
	return &c
}

// RESTORE key ttl serialized-value [REPLACE] [ABSTTL] [IDLETIME seconds] [FREQ frequency]
// Order of checks as in the server: option syntax, BUSYKEY, ttl, payload footer, payload content.
func cmdRestore(s *Server, ss *Session, a [][]byte) resp.Value {
	if len(a) < 3 {
		return wrongArgs("restore")
	}
	var replace, absttl bool
	idle, freq := int64(-1), int64(-1)
	modern := s.VerAtLeast(5, 0)
	for j := 3; j < len(a); j++ {
		opt := strings.ToUpper(string(a[j]))
		more := len(a) - 1 - j
		switch {
		case opt == "REPLACE":
			replace = true
		case opt == "ABSTTL" && modern:
			absttl = true
		case opt == "IDLETIME" && modern && more >= 1 && freq == -1:
			v, ok := atoi(a[j+1])
			if !ok {
				return resp.Err("ERR value is not an integer or out of range")
			}
			if v < 0 {
				return resp.Err("ERR Invalid IDLETIME value, must be >= 0")
			}
			idle = v
			j++
		case opt == "FREQ" && modern && more >= 1 && idle == -1:
			v, ok := atoi(a[j+1])
			if !ok {
				return resp.Err("ERR value is not an integer or out of range")
			}
			if v < 0 || v > 255 {
				return resp.Err("ERR Invalid FREQ value, must be >= 0 and <= 255")
			}
			freq = v
			j++
		default:
			return resp.Err("ERR syntax error")
		}
	}
	key := a[0]
	if !replace && s.lookup(ss.DB, key) != nil {
		return resp.Err("BUSYKEY Target key name already exists.")
	}
	ttl, ok := atoi(a[1])
	if !ok {
		return resp.Err("ERR value is not an integer or out of range")
	}
	if ttl < 0 {
		return resp.Err("ERR Invalid TTL value, must be >= 0")
	}
	body, ver, ok := s.checkDumpFooter(a[2])
	if !ok {
		return resp.Err("ERR DUMP payload version or checksum are wrong")
	}
	if len(body) == 0 || !restorableType(body[0], s.RDBVersion()) {
		return resp.Err("ERR Bad data format")
	}
	proto := s.RestoreRegistry[string(body)]
	if proto == nil {
		return resp.Err("ERR Bad data format")
	}
	if replace {
		s.del(ss.DB, key)
	}
	now := nowMs()
	at := int64(0)
	if ttl != 0 {
		at = ttl
		if !absttl {
			at += now
		}
	}
	s.Restores = append(s.Restores, RestoreRec{Seq: s.seq + 1, Conn: ss.Conn.ID, DB: ss.DB, Key: append([]byte(nil), key...), TTL: ttl,
		AbsTTL: absttl, Replace: replace, Payload: a[2], Version: ver, AtMs: now})
	if at != 0 && at <= now {
		// already expired: the key is not created (older servers create it and expire it at the next access)
		return resp.OK()
	}
	o := proto.Clone()
	o.ExpireAt = at
	o.Idle, o.Freq = idle, freq
	o.Origin = "restore"
	s.set(ss.DB, key, o)
	return resp.OK()
}

// FUNCTION RESTORE payload [FLUSH|APPEND|REPLACE] (7.0+); other subcommands are accepted blindly.
func cmdFunctionImpl(s *Server, ss *Session, a [][]byte) resp.Value {
	if len(a) >= 1 && strings.EqualFold(string(a[0]), "restore") {
		if !s.VerAtLeast(7, 0) {
			return resp.Err("ERR unknown command 'function'")
		}
		if len(a) < 2 || len(a) > 3 {
			return wrongArgs("function|restore")
		}
		if len(a) == 3 {
			switch strings.ToUpper(string(a[2])) {
			case "FLUSH", "APPEND", "REPLACE":
			default:
				return resp.Err("ERR Wrong restore policy given, value should be either FLUSH, APPEND or REPLACE.")
			}
		}
		body, _, ok := s.checkDumpFooter(a[1])
		if !ok {
			return resp.Err("ERR payload version or checksum are wrong")
		}
		s.Functions = append(s.Functions, append([]byte(nil), body...))
		return resp.OK()
	}
	return resp.OK()
}
