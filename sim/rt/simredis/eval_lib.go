package simredis

// Mini-Lua standard library subset and the `redis` table.

import (
	"crypto/sha1"
	"encoding/hex"
	"fmt"
	"math"
	"strconv"
	"strings"
)

// Names that exist in Redis' Lua environment but are not implemented here: using them is "unsupported", not an error.
var luaKnownUnsupportedGlobals = map[string]bool{"cjson": true, "cmsgpack": true, "struct": true, "bit": true, "os": true,
	"loadstring": true, "load": true, "dofile": true, "loadfile": true, "setmetatable": true, "getmetatable": true, "rawget": true,
	"rawset": true, "rawequal": true, "coroutine": true, "collectgarbage": true, "print": true, "require": true, "xpcall": true,
	"gcinfo": true, "newproxy": true, "_G": true, "_VERSION": true, "setfenv": true, "getfenv": true, "module": true, "debug": true,
	"io": true, "package": true}

func bi(name string, f func(it *luaInterp, args []lval) []lval) *luaBuiltin {
	return &luaBuiltin{name: name, f: f}
}

func arg(args []lval, i int) lval {
	if i < len(args) {
		return args[i]
	}
	return nil
}

func (it *luaInterp) argNum(fn string, args []lval, i int) float64 {
	v, ok := luaToNumber(arg(args, i))
	if !ok {
		it.raise("bad argument #%d to '%s' (number expected, got %s)", i+1, fn, luaArgType(args, i))
	}
	return v
}

func (it *luaInterp) optNum(fn string, args []lval, i int, def float64) float64 {
	if arg(args, i) == nil {
		return def
	}
	return it.argNum(fn, args, i)
}

func (it *luaInterp) argStr(fn string, args []lval, i int) string {
	switch x := arg(args, i).(type) {
	case string:
		return x
	case float64:
		return luaFmtNum(x)
	}
	it.raise("bad argument #%d to '%s' (string expected, got %s)", i+1, fn, luaArgType(args, i))
	return ""
}

func (it *luaInterp) argTable(fn string, args []lval, i int) *luaTable {
	t, ok := arg(args, i).(*luaTable)
	if !ok {
		it.raise("bad argument #%d to '%s' (table expected, got %s)", i+1, fn, luaArgType(args, i))
	}
	return t
}

func luaArgType(args []lval, i int) string {
	if i >= len(args) {
		return "no value"
	}
	return luaTypeName(args[i])
}

func unsupportedFn(name string) *luaBuiltin {
	return bi(name, func(it *luaInterp, args []lval) []lval {
		unsupported("function %s", name)
		return nil
	})
}

// strIdx translates Lua's 1-based, negative-from-the-end string positions.
func strIdx(pos float64, n int) int {
	p := int(pos)
	if p < 0 {
		p = n + p + 1
		if p < 0 {
			p = 0
		}
	}
	return p
}

func luaStdlib() map[string]lval {
	g := map[string]lval{}

	g["tostring"] = bi("tostring", func(it *luaInterp, a []lval) []lval {
		if len(a) == 0 {
			it.raise("bad argument #1 to 'tostring' (value expected)")
		}
		return []lval{luaToString(a[0])}
	})
	g["tonumber"] = bi("tonumber", func(it *luaInterp, a []lval) []lval {
		if len(a) == 0 {
			it.raise("bad argument #1 to 'tonumber' (value expected)")
		}
		if b := arg(a, 1); b != nil {
			base := int(it.argNum("tonumber", a, 1))
			if base < 2 || base > 36 {
				it.raise("bad argument #2 to 'tonumber' (base out of range)")
			}
			if base != 10 {
				s := strings.ToLower(strings.TrimSpace(it.argStr("tonumber", a, 0)))
				v, err := strconv.ParseUint(s, base, 64)
				if err != nil {
					return []lval{nil}
				}
				return []lval{float64(v)}
			}
		}
		if v, ok := luaToNumber(a[0]); ok {
			return []lval{v}
		}
		return []lval{nil}
	})
	g["type"] = bi("type", func(it *luaInterp, a []lval) []lval {
		if len(a) == 0 {
			it.raise("bad argument #1 to 'type' (value expected)")
		}
		return []lval{luaTypeName(a[0])}
	})
	g["error"] = bi("error", func(it *luaInterp, a []lval) []lval {
		v := arg(a, 0)
		level := it.optNum("error", a, 1, 1)
		if s, ok := v.(string); ok && level > 0 {
			v = fmt.Sprintf("user_script:%d: %s", it.line, s)
		}
		panic(luaErr{val: v, line: it.line})
	})
	g["assert"] = bi("assert", func(it *luaInterp, a []lval) []lval {
		if !luaTruthy(arg(a, 0)) {
			msg := "assertion failed!"
			if s, ok := arg(a, 1).(string); ok {
				msg = s
			}
			panic(luaErr{val: msg, line: it.line})
		}
		return a
	})
	g["pcall"] = bi("pcall", func(it *luaInterp, a []lval) (out []lval) {
		if len(a) == 0 {
			it.raise("bad argument #1 to 'pcall' (value expected)")
		}
		depth := it.depth
		line := it.line
		defer func() {
			if x := recover(); x != nil {
				if e, ok := x.(luaErr); ok {
					it.depth = depth
					it.line = line
					out = []lval{false, e.val}
					return
				}
				panic(x)
			}
		}()
		return append([]lval{true}, it.call(a[0], a[1:], it.line)...)
	})
	g["next"] = bi("next", func(it *luaInterp, a []lval) []lval {
		t := it.argTable("next", a, 0)
		k, v, ok := t.next(arg(a, 1))
		if !ok {
			it.raise("invalid key to 'next'")
		}
		if k == nil {
			return []lval{nil}
		}
		return []lval{k, v}
	})
	g["pairs"] = bi("pairs", func(it *luaInterp, a []lval) []lval {
		t := it.argTable("pairs", a, 0)
		return []lval{g["next"], t, nil}
	})
	ipairsIter := bi("ipairs_iter", func(it *luaInterp, a []lval) []lval {
		t := it.argTable("ipairs", a, 0)
		i := it.argNum("ipairs", a, 1) + 1
		v := t.get(i)
		if v == nil {
			return []lval{nil}
		}
		return []lval{i, v}
	})
	g["ipairs"] = bi("ipairs", func(it *luaInterp, a []lval) []lval {
		t := it.argTable("ipairs", a, 0)
		return []lval{ipairsIter, t, float64(0)}
	})
	unpack := bi("unpack", func(it *luaInterp, a []lval) []lval {
		t := it.argTable("unpack", a, 0)
		i := int(it.optNum("unpack", a, 1, 1))
		j := int(it.optNum("unpack", a, 2, float64(t.length())))
		if j-i > 8000 {
			it.raise("too many results to unpack")
		}
		var out []lval
		for ; i <= j; i++ {
			out = append(out, t.get(float64(i)))
		}
		return out
	})
	g["unpack"] = unpack
	g["select"] = bi("select", func(it *luaInterp, a []lval) []lval {
		if s, ok := arg(a, 0).(string); ok && s == "#" {
			return []lval{float64(len(a) - 1)}
		}
		n := int(it.argNum("select", a, 0))
		if n < 0 {
			n = len(a) + n
		} else if n > len(a)-1 {
			n = len(a)
		}
		if n < 1 {
			it.raise("bad argument #1 to 'select' (index out of range)")
		}
		return a[n:]
	})

	// ---- string
	str := newLuaTable()
	g["string"] = str
	str.set("len", bi("string.len", func(it *luaInterp, a []lval) []lval {
		return []lval{float64(len(it.argStr("len", a, 0)))}
	}))
	str.set("sub", bi("string.sub", func(it *luaInterp, a []lval) []lval {
		s := it.argStr("sub", a, 0)
		i := strIdx(it.optNum("sub", a, 1, 1), len(s))
		j := strIdx(it.optNum("sub", a, 2, -1), len(s))
		if i < 1 {
			i = 1
		}
		if j > len(s) {
			j = len(s)
		}
		if i > j {
			return []lval{""}
		}
		return []lval{s[i-1 : j]}
	}))
	str.set("lower", bi("string.lower", func(it *luaInterp, a []lval) []lval {
		return []lval{asciiMap(it.argStr("lower", a, 0), 'A', 'Z', 32)}
	}))
	str.set("upper", bi("string.upper", func(it *luaInterp, a []lval) []lval {
		return []lval{asciiMap(it.argStr("upper", a, 0), 'a', 'z', -32)}
	}))
	str.set("rep", bi("string.rep", func(it *luaInterp, a []lval) []lval {
		s := it.argStr("rep", a, 0)
		n := int(it.argNum("rep", a, 1))
		if n <= 0 {
			return []lval{""}
		}
		if n*len(s) > 64<<20 {
			unsupported("string.rep result larger than 64 MiB")
		}
		return []lval{strings.Repeat(s, n)}
	}))
	str.set("reverse", bi("string.reverse", func(it *luaInterp, a []lval) []lval {
		b := []byte(it.argStr("reverse", a, 0))
		for i, j := 0, len(b)-1; i < j; i, j = i+1, j-1 {
			b[i], b[j] = b[j], b[i]
		}
		return []lval{string(b)}
	}))
	str.set("byte", bi("string.byte", func(it *luaInterp, a []lval) []lval {
		s := it.argStr("byte", a, 0)
		i := strIdx(it.optNum("byte", a, 1, 1), len(s))
		j := strIdx(it.optNum("byte", a, 2, float64(i)), len(s))
		if i < 1 {
			i = 1
		}
		if j > len(s) {
			j = len(s)
		}
		var out []lval
		for ; i <= j; i++ {
			out = append(out, float64(s[i-1]))
		}
		return out
	}))
	str.set("char", bi("string.char", func(it *luaInterp, a []lval) []lval {
		b := make([]byte, len(a))
		for i := range a {
			v := it.argNum("char", a, i)
			if v < 0 || v > 255 {
				it.raise("bad argument #%d to 'char' (invalid value)", i+1)
			}
			b[i] = byte(v)
		}
		return []lval{string(b)}
	}))
	str.set("find", bi("string.find", func(it *luaInterp, a []lval) []lval {
		s := it.argStr("find", a, 0)
		pat := it.argStr("find", a, 1)
		init := strIdx(it.optNum("find", a, 2, 1), len(s))
		if init < 1 {
			init = 1
		}
		plain := luaTruthy(arg(a, 3))
		if !plain && strings.ContainsAny(pat, "^$*+?.([%-") {
			unsupported("string.find with a pattern (only plain text is implemented)")
		}
		if init > len(s)+1 {
			return []lval{nil}
		}
		k := strings.Index(s[init-1:], pat)
		if k < 0 {
			return []lval{nil}
		}
		return []lval{float64(init + k), float64(init + k + len(pat) - 1)}
	}))
	str.set("format", bi("string.format", luaStringFormat))
	for _, n := range []string{"gsub", "gmatch", "match", "gfind", "dump"} {
		str.set(n, unsupportedFn("string."+n))
	}

	// ---- math
	m := newLuaTable()
	g["math"] = m
	m.set("huge", math.Inf(1))
	m.set("pi", math.Pi)
	m1 := func(name string, f func(float64) float64) {
		m.set(name, bi("math."+name, func(it *luaInterp, a []lval) []lval { return []lval{f(it.argNum(name, a, 0))} }))
	}
	m1("floor", math.Floor)
	m1("ceil", math.Ceil)
	m1("abs", math.Abs)
	m1("sqrt", math.Sqrt)
	m1("exp", math.Exp)
	m.set("fmod", bi("math.fmod", func(it *luaInterp, a []lval) []lval {
		return []lval{math.Mod(it.argNum("fmod", a, 0), it.argNum("fmod", a, 1))}
	}))
	m.set("pow", bi("math.pow", func(it *luaInterp, a []lval) []lval {
		return []lval{math.Pow(it.argNum("pow", a, 0), it.argNum("pow", a, 1))}
	}))
	m.set("max", bi("math.max", func(it *luaInterp, a []lval) []lval {
		v := it.argNum("max", a, 0)
		for i := 1; i < len(a); i++ {
			v = math.Max(v, it.argNum("max", a, i))
		}
		return []lval{v}
	}))
	m.set("min", bi("math.min", func(it *luaInterp, a []lval) []lval {
		v := it.argNum("min", a, 0)
		for i := 1; i < len(a); i++ {
			v = math.Min(v, it.argNum("min", a, i))
		}
		return []lval{v}
	}))
	m.set("modf", bi("math.modf", func(it *luaInterp, a []lval) []lval {
		ip, fp := math.Modf(it.argNum("modf", a, 0))
		return []lval{ip, fp}
	}))
	for _, n := range []string{"random", "randomseed", "log", "log10", "sin", "cos", "tan", "asin", "acos", "atan", "atan2", "frexp", "ldexp", "deg", "rad", "sinh", "cosh", "tanh"} {
		m.set(n, unsupportedFn("math."+n))
	}

	// ---- table
	tb := newLuaTable()
	g["table"] = tb
	tb.set("insert", bi("table.insert", func(it *luaInterp, a []lval) []lval {
		t := it.argTable("insert", a, 0)
		n := t.length()
		switch len(a) {
		case 2:
			t.set(float64(n+1), a[1])
		case 3:
			pos := int(it.argNum("insert", a, 1))
			if pos > n+1 {
				n = pos - 1
			}
			for i := n; i >= pos; i-- {
				t.set(float64(i+1), t.get(float64(i)))
			}
			t.set(float64(pos), a[2])
		default:
			it.raise("wrong number of arguments to 'insert'")
		}
		return nil
	}))
	tb.set("remove", bi("table.remove", func(it *luaInterp, a []lval) []lval {
		t := it.argTable("remove", a, 0)
		n := t.length()
		pos := int(it.optNum("remove", a, 1, float64(n)))
		if n == 0 || pos < 1 || pos > n {
			return []lval{nil}
		}
		v := t.get(float64(pos))
		for i := pos; i < n; i++ {
			t.set(float64(i), t.get(float64(i+1)))
		}
		t.set(float64(n), nil)
		return []lval{v}
	}))
	tb.set("concat", bi("table.concat", func(it *luaInterp, a []lval) []lval {
		t := it.argTable("concat", a, 0)
		sep := ""
		if arg(a, 1) != nil {
			sep = it.argStr("concat", a, 1)
		}
		i := int(it.optNum("concat", a, 2, 1))
		j := int(it.optNum("concat", a, 3, float64(t.length())))
		var parts []string
		for ; i <= j; i++ {
			switch x := t.get(float64(i)).(type) {
			case string:
				parts = append(parts, x)
			case float64:
				parts = append(parts, luaFmtNum(x))
			default:
				it.raise("invalid value (at index %d) in table for 'concat'", i)
			}
		}
		return []lval{strings.Join(parts, sep)}
	}))
	tb.set("getn", bi("table.getn", func(it *luaInterp, a []lval) []lval {
		return []lval{float64(it.argTable("getn", a, 0).length())}
	}))
	for _, n := range []string{"sort", "maxn", "foreach", "foreachi", "setn"} {
		tb.set(n, unsupportedFn("table."+n))
	}

	// ---- redis
	rd := newLuaTable()
	g["redis"] = rd
	rd.set("call", bi("redis.call", func(it *luaInterp, a []lval) []lval { return []lval{it.redisCall(a, false)} }))
	rd.set("pcall", bi("redis.pcall", func(it *luaInterp, a []lval) []lval { return []lval{it.redisCall(a, true)} }))
	rd.set("error_reply", bi("redis.error_reply", func(it *luaInterp, a []lval) []lval {
		s, ok := arg(a, 0).(string)
		if len(a) != 1 || !ok {
			it.raise("wrong number or type of arguments")
		}
		t := newLuaTable()
		t.set("err", s)
		return []lval{t}
	}))
	rd.set("status_reply", bi("redis.status_reply", func(it *luaInterp, a []lval) []lval {
		s, ok := arg(a, 0).(string)
		if len(a) != 1 || !ok {
			it.raise("wrong number or type of arguments")
		}
		t := newLuaTable()
		t.set("ok", s)
		return []lval{t}
	}))
	rd.set("sha1hex", bi("redis.sha1hex", func(it *luaInterp, a []lval) []lval {
		if len(a) != 1 {
			it.raise("wrong number of arguments")
		}
		h := sha1.Sum([]byte(it.argStr("sha1hex", a, 0)))
		return []lval{hex.EncodeToString(h[:])}
	}))
	rd.set("log", bi("redis.log", func(it *luaInterp, a []lval) []lval { return nil }))
	rd.set("replicate_commands", bi("redis.replicate_commands", func(it *luaInterp, a []lval) []lval { return []lval{true} }))
	rd.set("set_repl", bi("redis.set_repl", func(it *luaInterp, a []lval) []lval { return nil }))
	rd.set("LOG_DEBUG", float64(0))
	rd.set("LOG_VERBOSE", float64(1))
	rd.set("LOG_NOTICE", float64(2))
	rd.set("LOG_WARNING", float64(3))
	rd.set("REPL_NONE", float64(0))
	rd.set("REPL_AOF", float64(1))
	rd.set("REPL_SLAVE", float64(2))
	rd.set("REPL_REPLICA", float64(2))
	rd.set("REPL_ALL", float64(3))
	for _, n := range []string{"setresp", "breakpoint", "debug", "acl_check_cmd", "register_function"} {
		rd.set(n, unsupportedFn("redis."+n))
	}
	return g
}

func asciiMap(s string, lo, hi byte, delta int) string {
	b := []byte(s)
	for i, c := range b {
		if c >= lo && c <= hi {
			b[i] = byte(int(c) + delta)
		}
	}
	return string(b)
}

// luaStringFormat implements %d %i %u %c %x %X %o %e %E %f %g %G %s %q %% with flags/width/precision.
func luaStringFormat(it *luaInterp, a []lval) []lval {
	f := it.argStr("format", a, 0)
	var sb strings.Builder
	n := 1
	for i := 0; i < len(f); i++ {
		c := f[i]
		if c != '%' {
			sb.WriteByte(c)
			continue
		}
		i++
		if i >= len(f) {
			it.raise("invalid option '%%' to 'format'")
		}
		if f[i] == '%' {
			sb.WriteByte('%')
			continue
		}
		j := i
		for j < len(f) && strings.IndexByte("-+ #0", f[j]) >= 0 {
			j++
		}
		for j < len(f) && f[j] >= '0' && f[j] <= '9' {
			j++
		}
		if j < len(f) && f[j] == '.' {
			j++
			for j < len(f) && f[j] >= '0' && f[j] <= '9' {
				j++
			}
		}
		if j >= len(f) {
			it.raise("invalid option to 'format'")
		}
		spec := "%" + f[i:j]
		conv := f[j]
		i = j
		if n >= len(a) {
			it.raise("bad argument #%d to 'format' (no value)", n+1)
		}
		switch conv {
		case 'd', 'i':
			sb.WriteString(fmt.Sprintf(spec+"d", int64(it.argNum("format", a, n))))
		case 'u':
			sb.WriteString(fmt.Sprintf(spec+"d", uint64(int64(it.argNum("format", a, n)))))
		case 'c':
			sb.WriteByte(byte(it.argNum("format", a, n)))
		case 'x', 'X', 'o':
			sb.WriteString(fmt.Sprintf(spec+string(conv), uint64(int64(it.argNum("format", a, n)))))
		case 'e', 'E', 'f', 'g', 'G':
			sb.WriteString(fmt.Sprintf(spec+string(conv), it.argNum("format", a, n)))
		case 's':
			sb.WriteString(fmt.Sprintf(spec+"s", luaToString(arg(a, n))))
		case 'q':
			unsupported("string.format option %%q")
		default:
			it.raise("invalid option '%%%c' to 'format'", conv)
		}
		n++
	}
	return []lval{sb.String()}
}
