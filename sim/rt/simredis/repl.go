package simredis

import (
	"fmt"
	"strconv"
	"strings"

	"verifsim/resp"
	"verifsim/simrt"
)

// Source (master) role of the double: replication ids, backlog window, PSYNC admission as in Redis'
// replication.c (masterTryPartialResynchronization), +CONTINUE / +FULLRESYNC, snapshot payload, stream.
// Delivery of snapshot and stream bytes to a replica connection is a scheduler action (FeedReplica).

// PsyncRecord is what the source saw of one PSYNC attempt.
type PsyncRecord struct {
	Conn     int
	ReplID   string
	Offset   int64 // as sent by the replica (wanted next byte), -1 for "?"
	Continue bool
	ReplyID  string
	FullOff  int64 // offset announced by +FULLRESYNC
	RDBLen   int
}

// SourceImpl implements replImpl for a Server with s.Repl set.
type SourceImpl struct {
	// Snapshot is the payload sent after +FULLRESYNC (opaque bytes for harnesses that do not parse it).
	Snapshot func() []byte
	Psyncs   []PsyncRecord
	Acks     []int64
	// byteAt, when set, defines the stream lazily: absolute offset -> byte (offset is 1-based).
}

func NewSource(s *Server, id string) *SourceImpl {
	si := &SourceImpl{}
	s.Repl = &ReplState{ID: id, ID2: strings.Repeat("0", 40), SecondOffset: -1}
	s.Repl.impl = si
	s.RunID = id
	return si
}

func (si *SourceImpl) propagate(s *Server, ss *Session, db int, name string, args [][]byte) {}
func (si *SourceImpl) beginTxn(s *Server)                                                   {}
func (si *SourceImpl) endTxn(s *Server, ss *Session)                                        {}

func (si *SourceImpl) replconf(s *Server, ss *Session, a [][]byte) resp.Value {
	if len(a) >= 2 && strings.EqualFold(string(a[0]), "ack") {
		v, _ := strconv.ParseInt(string(a[1]), 10, 64)
		si.Acks = append(si.Acks, v)
		return resp.Value{} // no reply to REPLCONF ACK
	}
	return resp.OK()
}

func (si *SourceImpl) psync(s *Server, ss *Session, a [][]byte) resp.Value {
	r := s.Repl
	rec := PsyncRecord{Conn: ss.Conn.ID, Offset: -1}
	if len(a) != 2 {
		return resp.Err("ERR wrong number of arguments for 'psync' command")
	}
	rec.ReplID = string(a[0])
	off, err := strconv.ParseInt(string(a[1]), 10, 64)
	if err != nil {
		off = -1
	}
	rec.Offset = off
	ok := true
	if rec.ReplID != r.ID && (rec.ReplID != r.ID2 || off > r.SecondOffset) {
		ok = false
	}
	backlogFirst := r.BacklogStart + 1 // first absolute offset still in the backlog
	if off < backlogFirst || off > r.End()+1 {
		ok = false
	}
	if rec.ReplID == "?" {
		ok = false
	}
	ss.Replica = true
	if ok {
		rec.Continue = true
		rec.ReplyID = r.ID
		ss.ReplPos = off
		si.Psyncs = append(si.Psyncs, rec)
		if w := simrt.Cur(); w != nil {
			w.Logf("%s PSYNC %s %d -> +CONTINUE %s", s.Addr, rec.ReplID, off, r.ID)
		}
		ss.Conn.Deliver([]byte("+CONTINUE " + r.ID + "\r\n"))
		return resp.Value{}
	}
	rec.FullOff = r.End()
	rec.ReplyID = r.ID
	snap := []byte{}
	if si.Snapshot != nil {
		snap = si.Snapshot()
	}
	rec.RDBLen = len(snap)
	si.Psyncs = append(si.Psyncs, rec)
	if w := simrt.Cur(); w != nil {
		w.Logf("%s PSYNC %s %d -> +FULLRESYNC %s %d (rdb %d bytes)", s.Addr, rec.ReplID, off, r.ID, rec.FullOff, len(snap))
	}
	ss.Conn.Deliver([]byte(fmt.Sprintf("+FULLRESYNC %s %d\r\n", r.ID, rec.FullOff)))
	ss.ReplPos = rec.FullOff + 1
	ss.RawOut = append([]byte(fmt.Sprintf("$%d\r\n", len(snap))), snap...)
	return resp.Value{}
}

// ReplicaBacklog returns how many bytes (snapshot framing + stream) can be delivered to the replica now.
func (s *Server) ReplicaBacklog(ss *Session) int64 {
	if !ss.Replica || ss.Dead {
		return 0
	}
	n := int64(len(ss.RawOut))
	if s.Repl != nil {
		n += s.Repl.End() + 1 - ss.ReplPos
	}
	return n
}

// FeedReplica delivers up to n bytes to a replica connection: first what is left of the snapshot frame,
// then stream bytes from the replica's position.
func (s *Server) FeedReplica(ss *Session, n int64) int64 {
	if !ss.Replica || ss.Dead || n <= 0 {
		return 0
	}
	sent := int64(0)
	if len(ss.RawOut) > 0 {
		k := int64(len(ss.RawOut))
		if k > n {
			k = n
		}
		ss.Conn.Deliver(ss.RawOut[:k])
		ss.RawOut = ss.RawOut[k:]
		sent += k
		n -= k
	}
	if n > 0 && s.Repl != nil {
		r := s.Repl
		avail := r.End() + 1 - ss.ReplPos
		if avail > n {
			avail = n
		}
		if avail > 0 {
			lo := ss.ReplPos - r.BacklogBase - 1
			ss.Conn.Deliver(r.Stream[lo : lo+avail])
			ss.ReplPos += avail
			sent += avail
		}
	}
	return sent
}

// Replicas returns live replica sessions.
func (s *Server) Replicas() []*Session {
	var out []*Session
	for _, ss := range s.Sessions {
		if ss.Replica && !ss.Dead {
			out = append(out, ss)
		}
	}
	return out
}

// AppendStream appends bytes to the replication stream (the master executed writes).
func (r *ReplState) AppendStream(b []byte) { r.Stream = append(r.Stream, b...) }

// TrimBacklog drops backlog bytes with absolute offset <= upTo.
func (r *ReplState) TrimBacklog(upTo int64) {
	if upTo > r.End() {
		upTo = r.End()
	}
	if upTo > r.BacklogStart {
		r.BacklogStart = upTo
	}
}
