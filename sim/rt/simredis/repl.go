package simredis

import (
	"fmt"
	"sort"
	"strconv"
	"strings"

	"verifsim/resp"
	"verifsim/simrt"
)

// Source (master) role of the double: replication ids, backlog window, PSYNC admission as in Redis'
// replication.c (masterTryPartialResynchronization), +CONTINUE / +FULLRESYNC, snapshot payload, stream.
// Delivery of snapshot and stream bytes to a replica connection is a scheduler action (FeedReplica).

// PsyncRecord is what the source saw of one PSYNC attempt.
type PsyncRecord struct {
	Conn     int
	ReplID   string
	Offset   int64 // as sent by the replica (wanted next byte), -1 for "?"
	Continue bool
	ReplyID  string
	FullOff  int64 // offset announced by +FULLRESYNC
	RDBLen   int
	Refused  bool // answered with an error (source not ready); nothing was granted
}

// SourceImpl implements replImpl for a Server with s.Repl set.
type SourceImpl struct {
	// Snapshot is the payload sent after +FULLRESYNC (opaque bytes for harnesses that do not parse it).
	Snapshot func() []byte
	Psyncs   []PsyncRecord
	Acks     []int64
	// NotReady > 0: the next NotReady PSYNC requests are answered with NotReadyText (a source that is a replica without
	// a link to its own master, or still loading): an error, the connection stays open
	NotReady     int
	NotReadyText string
	// propagation of executed writes into the stream
	Propagate bool
	Flavour   string // "7" (absolute-expiry rewrites) or "5" (verbatim)
	Noops     int
	inTxn     bool
	txnBuf    []propCmd
	lastDB    int
	dbKnown   bool
	// byteAt, when set, defines the stream lazily: absolute offset -> byte (offset is 1-based).
}

func NewSource(s *Server, id string) *SourceImpl {
	si := &SourceImpl{}
	s.Repl = &ReplState{ID: id, ID2: strings.Repeat("0", 40), SecondOffset: -1}
	s.Repl.impl = si
	s.RunID = id
	return si
}

// Propagation of executed writes into the replication stream, as a Redis master does it
// (written from the documented behaviour: SELECT injection on database change, MULTI ... EXEC around a
// transaction only if something inside propagated, no propagation of no-ops, absolute-expiry rewrites in the
// "7" flavour and verbatim relative expiries in the "5" flavour). Enabled with si.Propagate.
func (si *SourceImpl) propagate(s *Server, ss *Session, db int, name string, args [][]byte, reply resp.Value) {
	if !si.Propagate {
		return
	}
	if isReadOnly(name) || isControl(name) || name == "eval" || name == "evalsha" {
		return // a script's nested writes are propagated per command
	}
	if isNoop(name, args, reply) {
		si.Noops++
		return
	}
	name2, args2 := name, args
	if si.Flavour != "5" {
		name2, args2 = absExpiry(name, args)
	}
	cmd := append([][]byte{[]byte(name2)}, args2...)
	if si.inTxn {
		si.txnBuf = append(si.txnBuf, propCmd{db, cmd})
		return
	}
	si.emit(s, db, cmd)
}

type propCmd struct {
	db  int
	cmd [][]byte
}

func (si *SourceImpl) emit(s *Server, db int, cmd [][]byte) {
	if db != si.lastDB || !si.dbKnown {
		s.Repl.AppendStream(resp.EncodeCommand([]byte("SELECT"), []byte(strconv.Itoa(db))))
		si.lastDB, si.dbKnown = db, true
	}
	s.Repl.AppendStream(resp.EncodeCommand(cmd...))
}

func (si *SourceImpl) beginTxn(s *Server) {
	si.inTxn = true
	si.txnBuf = nil
}

func (si *SourceImpl) endTxn(s *Server, ss *Session) {
	si.inTxn = false
	if !si.Propagate || len(si.txnBuf) == 0 {
		si.txnBuf = nil
		return
	}
	// a needed SELECT: up to 6.2 the master propagates MULTI with the client's database (execCommandPropagateMulti),
	// so the SELECT precedes MULTI; from 7.0 on MULTI is propagated without a database ("we do not want to replicate
	// SELECT, it'll be inserted together with the next command (inside the MULTI)", propagatePendingCommands)
	db := si.txnBuf[0].db
	if si.Flavour == "5" && (db != si.lastDB || !si.dbKnown) {
		s.Repl.AppendStream(resp.EncodeCommand([]byte("SELECT"), []byte(strconv.Itoa(db))))
		si.lastDB, si.dbKnown = db, true
	}
	s.Repl.AppendStream(resp.EncodeCommand([]byte("MULTI")))
	for _, c := range si.txnBuf {
		if c.db != si.lastDB || !si.dbKnown {
			s.Repl.AppendStream(resp.EncodeCommand([]byte("SELECT"), []byte(strconv.Itoa(c.db))))
			si.lastDB, si.dbKnown = c.db, true
		}
		s.Repl.AppendStream(resp.EncodeCommand(c.cmd...))
	}
	s.Repl.AppendStream(resp.EncodeCommand([]byte("EXEC")))
	si.txnBuf = nil
}

var readOnlyCmds = map[string]bool{"get": true, "hget": true, "hgetall": true, "exists": true, "ttl": true, "pttl": true, "lrange": true,
	"llen": true, "smembers": true, "zrangebyscore": true, "zcard": true, "hexists": true, "hlen": true, "xlen": true, "type": true,
	"keys": true, "dbsize": true, "mget": true, "zrange": true, "scard": true, "strlen": true}

func isReadOnly(name string) bool { return readOnlyCmds[name] }

// isNoop: commands whose reply tells that nothing changed are not propagated.
func isNoop(name string, args [][]byte, reply resp.Value) bool {
	switch name {
	case "del", "unlink", "hdel", "zrem", "srem", "expire", "pexpire", "expireat", "pexpireat", "persist", "setnx", "hsetnx",
		"zremrangebyscore", "lrem", "sadd", "move", "renamenx", "msetnx":
		return reply.Kind == ':' && reply.Int == 0
	case "set":
		return reply.Kind == '_' // NX/XX condition not met
	}
	return false
}

// absExpiry rewrites relative expiries into absolute ones (Redis >= 7 propagates SET EX/PX as PXAT, EXPIRE/PEXPIRE/EXPIREAT as
// PEXPIREAT, SETEX/PSETEX as SET ... PXAT).
func absExpiry(name string, args [][]byte) (string, [][]byte) {
	now := nowMs()
	ms := func(b []byte, unit int64, abs bool) []byte {
		v, ok := atoi(b)
		if !ok {
			return b
		}
		v *= unit
		if !abs {
			v += now
		}
		return []byte(strconv.FormatInt(v, 10))
	}
	switch name {
	case "set":
		out := append([][]byte(nil), args...)
		for i := 2; i+1 < len(out); i++ {
			switch strings.ToUpper(string(out[i])) {
			case "EX":
				out[i], out[i+1] = []byte("PXAT"), ms(out[i+1], 1000, false)
			case "PX":
				out[i], out[i+1] = []byte("PXAT"), ms(out[i+1], 1, false)
			case "EXAT":
				out[i], out[i+1] = []byte("PXAT"), ms(out[i+1], 1000, true)
			}
		}
		return name, out
	case "expire":
		if len(args) >= 2 {
			return "pexpireat", [][]byte{args[0], ms(args[1], 1000, false)}
		}
	case "pexpire":
		if len(args) >= 2 {
			return "pexpireat", [][]byte{args[0], ms(args[1], 1, false)}
		}
	case "expireat":
		if len(args) >= 2 {
			return "pexpireat", [][]byte{args[0], ms(args[1], 1000, true)}
		}
	case "setex":
		if len(args) == 3 {
			return "set", [][]byte{args[0], args[2], []byte("PXAT"), ms(args[1], 1000, false)}
		}
	case "psetex":
		if len(args) == 3 {
			return "set", [][]byte{args[0], args[2], []byte("PXAT"), ms(args[1], 1, false)}
		}
	}
	return name, args
}

// ExpireCycle deletes keys whose expiry has passed and propagates a DEL for each (active expiry).
func (s *Server) ExpireCycle() int {
	n := 0
	now := nowMs()
	for db := range s.DBs {
		var dead []string
		for k, o := range s.DBs[db] {
			if o.ExpireAt > 0 && o.ExpireAt <= now {
				dead = append(dead, k)
			}
		}
		sort.Strings(dead)
		for _, k := range dead {
			delete(s.DBs[db], k)
			n++
			if s.Repl != nil {
				if si, ok := s.Repl.impl.(*SourceImpl); ok && si.Propagate {
					si.emit(s, db, [][]byte{[]byte("DEL"), []byte(k)})
				}
			}
		}
	}
	return n
}

func (si *SourceImpl) replconf(s *Server, ss *Session, a [][]byte) resp.Value {
	if len(a) >= 2 && strings.EqualFold(string(a[0]), "ack") {
		v, _ := strconv.ParseInt(string(a[1]), 10, 64)
		si.Acks = append(si.Acks, v)
		return resp.Value{} // no reply to REPLCONF ACK
	}
	return resp.OK()
}

func (si *SourceImpl) psync(s *Server, ss *Session, a [][]byte) resp.Value {
	r := s.Repl
	rec := PsyncRecord{Conn: s.labelOf(ss), Offset: -1}
	if len(a) != 2 {
		return resp.Err("ERR wrong number of arguments for 'psync' command")
	}
	rec.ReplID = string(a[0])
	off, err := strconv.ParseInt(string(a[1]), 10, 64)
	if err != nil {
		off = -1
	}
	rec.Offset = off
	if si.NotReady > 0 {
		si.NotReady--
		rec.Refused = true
		si.Psyncs = append(si.Psyncs, rec)
		if w := simrt.Cur(); w != nil {
			w.Logf("%s PSYNC %s %d -> -%s", s.Addr, rec.ReplID, off, si.NotReadyText)
		}
		return resp.Err(si.NotReadyText)
	}
	ok := true
	if rec.ReplID != r.ID && (rec.ReplID != r.ID2 || off > r.SecondOffset) {
		ok = false
	}
	backlogFirst := r.BacklogStart + 1 // first absolute offset still in the backlog
	if off < backlogFirst || off > r.End()+1 {
		ok = false
	}
	if rec.ReplID == "?" {
		ok = false
	}
	ss.Replica = true
	if ok {
		rec.Continue = true
		rec.ReplyID = r.ID
		ss.ReplPos = off
		si.Psyncs = append(si.Psyncs, rec)
		if w := simrt.Cur(); w != nil {
			w.Logf("%s PSYNC %s %d -> +CONTINUE %s", s.Addr, rec.ReplID, off, r.ID)
		}
		ss.Conn.Deliver([]byte("+CONTINUE " + r.ID + "\r\n"))
		return resp.Value{}
	}
	rec.FullOff = r.End()
	rec.ReplyID = r.ID
	snap := []byte{}
	if si.Snapshot != nil {
		snap = si.Snapshot()
	}
	rec.RDBLen = len(snap)
	si.Psyncs = append(si.Psyncs, rec)
	if w := simrt.Cur(); w != nil {
		w.Logf("%s PSYNC %s %d -> +FULLRESYNC %s %d (rdb %d bytes)", s.Addr, rec.ReplID, off, r.ID, rec.FullOff, len(snap))
	}
	ss.Conn.Deliver([]byte(fmt.Sprintf("+FULLRESYNC %s %d\r\n", r.ID, rec.FullOff)))
	ss.ReplPos = rec.FullOff + 1
	ss.RawOut = append([]byte(fmt.Sprintf("$%d\r\n", len(snap))), snap...)
	return resp.Value{}
}

// ReplicaBacklog returns how many bytes (snapshot framing + stream) can be delivered to the replica now.
func (s *Server) ReplicaBacklog(ss *Session) int64 {
	if !ss.Replica || ss.Dead {
		return 0
	}
	n := int64(len(ss.RawOut))
	if s.Repl != nil {
		n += s.Repl.End() + 1 - ss.ReplPos
	}
	return n
}

// FeedReplica delivers up to n bytes to a replica connection: first what is left of the snapshot frame,
// then stream bytes from the replica's position.
func (s *Server) FeedReplica(ss *Session, n int64) int64 {
	if !ss.Replica || ss.Dead || n <= 0 {
		return 0
	}
	sent := int64(0)
	if len(ss.RawOut) > 0 {
		k := int64(len(ss.RawOut))
		if k > n {
			k = n
		}
		ss.Conn.Deliver(ss.RawOut[:k])
		ss.RawOut = ss.RawOut[k:]
		sent += k
		n -= k
	}
	if n > 0 && s.Repl != nil {
		r := s.Repl
		avail := r.End() + 1 - ss.ReplPos
		if avail > n {
			avail = n
		}
		if avail > 0 {
			lo := ss.ReplPos - r.BacklogBase - 1
			ss.Conn.Deliver(r.Stream[lo : lo+avail])
			ss.ReplPos += avail
			sent += avail
		}
	}
	return sent
}

// Replicas returns live replica sessions.
func (s *Server) Replicas() []*Session {
	var out []*Session
	for _, ss := range s.Sessions {
		if ss.Replica && !ss.Dead {
			out = append(out, ss)
		}
	}
	return out
}

// AppendStream appends bytes to the replication stream (the master executed writes).
func (r *ReplState) AppendStream(b []byte) { r.Stream = append(r.Stream, b...) }

// TrimBacklog drops backlog bytes with absolute offset <= upTo.
func (r *ReplState) TrimBacklog(upTo int64) {
	if upTo > r.End() {
		upTo = r.End()
	}
	if upTo > r.BacklogStart {
		r.BacklogStart = upTo
	}
}
