package simredis

import (
	"strings"

	"verifsim/resp"
)

// ---- cluster role (filled in by cluster.go when built) ----

type ClusterState struct {
	impl clusterImpl
}

type clusterImpl interface {
	route(s *Server, ss *Session, name string, args [][]byte) *resp.Value
	checkTxn(s *Server, ss *Session, q [][][]byte) *resp.Value
	cmd(s *Server, ss *Session, a [][]byte) resp.Value
}

func (c *ClusterState) route(s *Server, ss *Session, name string, args [][]byte) *resp.Value {
	if c.impl == nil {
		return nil
	}
	return c.impl.route(s, ss, name, args)
}

func (c *ClusterState) checkTxn(s *Server, ss *Session, q [][][]byte) *resp.Value {
	if c.impl == nil {
		return nil
	}
	return c.impl.checkTxn(s, ss, q)
}

func cmdCluster(s *Server, ss *Session, a [][]byte) resp.Value {
	if s.Cluster == nil || s.Cluster.impl == nil {
		return resp.Err("ERR This instance has cluster support disabled")
	}
	return s.Cluster.impl.cmd(s, ss, a)
}

func cmdCommand(s *Server, ss *Session, a [][]byte) resp.Value {
	if len(a) >= 2 && strings.EqualFold(string(a[0]), "getkeys") {
		name := strings.ToLower(string(a[1]))
		idx, ok := KeyIndexes(name, a[2:])
		if !ok || len(idx) == 0 {
			return resp.Err("ERR Invalid command specified")
		}
		var out []resp.Value
		for _, i := range idx {
			out = append(out, resp.Bulk(a[2+i]))
		}
		return resp.Array(out...)
	}
	return resp.Array()
}

// ---- source role (filled in by repl.go) ----

type ReplState struct {
	ID, ID2      string
	SecondOffset int64
	// Stream holds the bytes of the replication stream; Stream[i] is the byte at absolute offset BacklogBase+i+1.
	Stream       []byte
	BacklogBase  int64 // absolute offset of the byte before Stream[0]
	BacklogStart int64 // bytes at offsets <= BacklogStart are no longer in the backlog
	impl         replImpl
}

type replImpl interface {
	propagate(s *Server, ss *Session, db int, name string, args [][]byte, reply resp.Value)
	beginTxn(s *Server)
	endTxn(s *Server, ss *Session)
	replconf(s *Server, ss *Session, a [][]byte) resp.Value
	psync(s *Server, ss *Session, a [][]byte) resp.Value
}

func (r *ReplState) End() int64 { return r.BacklogBase + int64(len(r.Stream)) }

func (s *Server) propagate(ss *Session, db int, name string, args [][]byte, reply resp.Value) {
	if s.Repl != nil && s.Repl.impl != nil {
		s.Repl.impl.propagate(s, ss, db, name, args, reply)
	}
}
func (s *Server) beginPropagateTxn() {
	if s.Repl != nil && s.Repl.impl != nil {
		s.Repl.impl.beginTxn(s)
	}
}
func (s *Server) endPropagateTxn(ss *Session) {
	if s.Repl != nil && s.Repl.impl != nil {
		s.Repl.impl.endTxn(s, ss)
	}
}
func cmdReplconf(s *Server, ss *Session, a [][]byte) resp.Value {
	if s.Repl != nil && s.Repl.impl != nil {
		return s.Repl.impl.replconf(s, ss, a)
	}
	return resp.OK()
}
func cmdPsync(s *Server, ss *Session, a [][]byte) resp.Value {
	if s.Repl != nil && s.Repl.impl != nil {
		return s.Repl.impl.psync(s, ss, a)
	}
	return resp.Err("ERR PSYNC not supported by this double")
}

// streams: see stream.go; RESTORE / FUNCTION RESTORE: see restore.go

// KeyIndexes is the double's own key-position table (from the Redis command reference).
func KeyIndexes(name string, args [][]byte) ([]int, bool) {
	switch name {
	case "mset", "msetnx":
		var idx []int
		for i := 0; i < len(args); i += 2 {
			idx = append(idx, i)
		}
		return idx, len(idx) > 0
	case "del", "unlink", "exists", "mget", "touch", "sinterstore", "sunionstore", "sdiffstore", "pfmerge", "pfcount", "sunion", "sinter", "sdiff":
		var idx []int
		for i := range args {
			idx = append(idx, i)
		}
		return idx, len(idx) > 0
	case "rename", "renamenx", "rpoplpush", "lmove", "smove", "copy":
		if len(args) >= 2 {
			return []int{0, 1}, true
		}
		return nil, false
	case "bitop": // BITOP <op> <dest> <src> ...
		var idx []int
		for i := 1; i < len(args); i++ {
			idx = append(idx, i)
		}
		return idx, len(idx) > 0
	case "xgroup", "xinfo": // <subcommand> <key> ...
		if len(args) >= 2 {
			return []int{1}, true
		}
		return nil, false
	case "eval", "evalsha", "fcall":
		if len(args) < 2 {
			return nil, false
		}
		n, ok := atoi(args[1])
		if !ok || n < 0 || int(n) > len(args)-2 {
			return nil, false
		}
		var idx []int
		for i := 0; i < int(n); i++ {
			idx = append(idx, 2+i)
		}
		return idx, true
	case "vk.pick": // a module command of this double: VK.PICK <i> <a0> <a1> <a2> - its key is a<i> (same name, same
		// arity, the key at another position each time, as SORT ... STORE or the *STORE commands have it)
		if len(args) == 4 {
			if i, ok := atoi(args[0]); ok && i >= 0 && i <= 2 {
				return []int{1 + int(i)}, true
			}
		}
		return nil, false
	case "ping", "select", "multi", "exec", "info", "publish", "script", "function", "flushall", "flushdb", "replconf", "cluster", "command", "asking", "echo", "auth", "client", "wait", "readonly", "readwrite", "dbsize", "keys", "psync":
		return nil, true
	}
	if len(args) >= 1 {
		return []int{0}, true
	}
	return nil, false
}
