package simredis

import (
	"encoding/binary"
	"strings"
	"testing"

	"verifsim/resp"
	"verifsim/simnet"
)

func call(s *Server, ss *Session, args ...string) resp.Value {
	a := make([][]byte, len(args)-1)
	for i, x := range args[1:] {
		a[i] = []byte(x)
	}
	return s.execute(ss, strings.ToLower(args[0]), a, 0)
}

func mkPayload(body []byte, ver int) string {
	p := append([]byte(nil), body...)
	p = binary.LittleEndian.AppendUint16(p, uint16(ver))
	p = binary.LittleEndian.AppendUint64(p, crc64Jones(p))
	return string(p)
}

func TestCRC64JonesVector(t *testing.T) {
	if got := crc64Jones([]byte("123456789")); got != 0xe9c6d914c4b8d9ca {
		t.Fatalf("%x", got)
	}
}

func TestRestore(t *testing.T) {
	s := NewServer("x")
	s.Version = "6.2.14"
	ss := &Session{Conn: &simnet.SimConn{}}
	body := []byte{0, 3, 'a', 'b', 'c'}
	s.Register(body, &Obj{T: 's', Str: []byte("abc")})
	lpBody := []byte{16, 1, 2, 3}
	s.Register(lpBody, &Obj{T: 'h', Hash: map[string][]byte{"f": []byte("v")}})

	if v := call(s, ss, "restore", "k", "0", mkPayload(body, 9)); v.IsErr() {
		t.Fatal(v)
	}
	if o := s.Get(0, "k"); o == nil || string(o.Str) != "abc" || o.ExpireAt != 0 {
		t.Fatal("not restored")
	}
	if v := call(s, ss, "restore", "k", "0", mkPayload(body, 9)); !strings.HasPrefix(string(v.Str), "BUSYKEY Target key name already exists") {
		t.Fatal(v)
	}
	if v := call(s, ss, "restore", "k", "1000", mkPayload(body, 6), "REPLACE", "IDLETIME", "5"); v.IsErr() {
		t.Fatal(v)
	}
	if o := s.Get(0, "k"); o == nil || o.ExpireAt != nowMs()+1000 || o.Idle != 5 {
		t.Fatalf("ttl/idle: %+v", o)
	}
	if v := call(s, ss, "restore", "k2", "0", mkPayload(body, 10)); !strings.Contains(string(v.Str), "DUMP payload version or checksum are wrong") {
		t.Fatal("version newer than the server must be refused: ", v)
	}
	bad := []byte(mkPayload(body, 9))
	bad[len(bad)-1] ^= 1
	if v := call(s, ss, "restore", "k2", "0", string(bad)); !strings.Contains(string(v.Str), "DUMP payload version or checksum are wrong") {
		t.Fatal(v)
	}
	if v := call(s, ss, "restore", "k2", "0", mkPayload([]byte{0, 1, 'z'}, 9)); string(v.Str) != "ERR Bad data format" {
		t.Fatal("unregistered body: ", v)
	}
	if v := call(s, ss, "restore", "k2", "0", mkPayload(lpBody, 6)); string(v.Str) != "ERR Bad data format" {
		t.Fatal("listpack hash on a 6.2 server: ", v)
	}
	if v := call(s, ss, "restore", "k2", "0", mkPayload(body, 9), "IDLETIME", "1", "FREQ", "2"); string(v.Str) != "ERR syntax error" {
		t.Fatal(v)
	}
	s.Version = "7.0.15"
	if v := call(s, ss, "restore", "k2", "946684800000", mkPayload(lpBody, 6), "ABSTTL"); v.IsErr() {
		t.Fatal(v)
	}
	if s.Get(0, "k2") != nil {
		t.Fatal("a key restored with an elapsed absolute expiry must not be visible")
	}
	s.Version = "4.0.14"
	if v := call(s, ss, "restore", "k3", "0", mkPayload(body, 8), "ABSTTL"); string(v.Str) != "ERR syntax error" {
		t.Fatal("4.0 has no ABSTTL: ", v)
	}
	if len(s.Restores) != 3 {
		t.Fatalf("accepted restores: %d", len(s.Restores))
	}
}

func TestStreamCommands(t *testing.T) {
	s := NewServer("x")
	s.Version = "7.0.15"
	ss := &Session{Conn: &simnet.SimConn{}}
	ok := func(v resp.Value) {
		t.Helper()
		if v.IsErr() {
			t.Fatal(string(v.Str))
		}
	}
	isErr := func(v resp.Value, sub string) {
		t.Helper()
		if !v.IsErr() || !strings.Contains(string(v.Str), sub) {
			t.Fatalf("want error containing %q, got %q", sub, v.String())
		}
	}
	ok(call(s, ss, "xadd", "st", "5-1", "a", "1"))
	ok(call(s, ss, "xadd", "st", "5-2", "a", "2", "b", "3"))
	isErr(call(s, ss, "xadd", "st", "5-2", "a", "2"), "equal or smaller")
	isErr(call(s, ss, "xadd", "st", "0-0", "a", "2"), "greater than 0-0")
	isErr(call(s, ss, "xsetid", "st", "5-1"), "smaller than the target stream top item")
	ok(call(s, ss, "xsetid", "st", "9-0", "ENTRIESADDED", "7", "MAXDELETEDID", "4-0"))
	isErr(call(s, ss, "xsetid", "st", "9-0", "ENTRIESADDED", "1"), "smaller than the target stream length")
	isErr(call(s, ss, "xsetid", "nokey", "9-0"), "no such key")
	ok(call(s, ss, "xgroup", "CREATE", "st", "g", "5-1", "ENTRIESREAD", "1"))
	isErr(call(s, ss, "xgroup", "CREATE", "st", "g", "5-1"), "BUSYGROUP")
	isErr(call(s, ss, "xgroup", "CREATE", "st", "g2", "5-1", "ENTRIESREAD", "18446744073709551615"), "not an integer or out of range")
	isErr(call(s, ss, "xgroup", "CREATE", "nokey", "g", "$"), "requires the key to exist")
	v := call(s, ss, "xclaim", "st", "g", "c1", "0", "5-2", "TIME", "123", "RETRYCOUNT", "4", "JUSTID", "FORCE")
	if v.IsErr() || len(v.Elems) != 1 {
		t.Fatal(v.String())
	}
	if v := call(s, ss, "xclaim", "st", "g", "c1", "0", "7-7", "JUSTID", "FORCE"); v.IsErr() || len(v.Elems) != 0 {
		t.Fatal("an id that is not in the stream must be ignored: ", v.String())
	}
	isErr(call(s, ss, "xclaim", "st", "nogroup", "c1", "0", "5-2"), "NOGROUP")
	st := s.Get(0, "st").Stream
	if st.LastID.String() != "9-0" || st.EntriesAdded != 7 || st.MaxDeletedID.String() != "4-0" || len(st.Entries) != 2 {
		t.Fatalf("%s", st.CanonFull())
	}
	nk := st.Groups["g"].PEL[SID{5, 2}]
	if nk == nil || nk.Consumer != "c1" || nk.DeliveryTime != 123 || nk.DeliveryCount != 4 {
		t.Fatalf("%+v", nk)
	}
	// the "empty stream" idiom: XADD MAXLEN 0 leaves an empty stream whose last id is the added one
	ok(call(s, ss, "xadd", "e", "MAXLEN", "0", "0-1", "x", "y"))
	ok(call(s, ss, "xsetid", "e", "0-0", "ENTRIESADDED", "0", "MAXDELETEDID", "0-0"))
	if e := s.Get(0, "e"); e == nil || len(e.Stream.Entries) != 0 || e.Stream.LastID.String() != "0-0" {
		t.Fatal("empty stream idiom")
	}
	s.Version = "6.2.14"
	isErr(call(s, ss, "xsetid", "st", "9-0", "ENTRIESADDED", "7", "MAXDELETEDID", "4-0"), "wrong number of arguments")
	isErr(call(s, ss, "xgroup", "CREATE", "st", "g3", "5-1", "ENTRIESREAD", "1"), "Unknown subcommand or wrong number")
	s.Version = "4.0.14"
	isErr(call(s, ss, "xadd", "st2", "5-1", "a", "1"), "unknown command")
}
