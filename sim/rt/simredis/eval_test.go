package simredis

import (
	"strings"
	"testing"

	"verifsim/resp"
	"verifsim/simnet"
)

func evalT(s *Server, ss *Session, script string, nkeys string, rest ...string) string {
	args := [][]byte{[]byte(script), []byte(nkeys)}
	for _, r := range rest {
		args = append(args, []byte(r))
	}
	v := s.execute(ss, "eval", args, 0)
	return string(v.Encode(nil))
}

func TestMiniLua(t *testing.T) {
	s := NewServer("x")
	ss := &Session{Conn: &simnet.SimConn{ID: 1}}
	cases := []struct {
		script string
		nkeys  string
		rest   []string
		want   string
	}{
		{"return 1", "0", nil, ":1\r\n"},
		{"return 3.99", "0", nil, ":3\r\n"},
		{"return -3.99", "0", nil, ":-3\r\n"},
		{"return 'a'..'b'..1", "0", nil, "$3\r\nab1\r\n"},
		{"return true", "0", nil, ":1\r\n"},
		{"return false", "0", nil, "$-1\r\n"},
		{"return nil", "0", nil, "$-1\r\n"},
		{"", "0", nil, "$-1\r\n"},
		{"return {1,'a',{2,3},nil,4}", "0", nil, "*3\r\n:1\r\n$1\r\na\r\n*2\r\n:2\r\n:3\r\n"},
		{"return {ok='FINE'}", "0", nil, "+FINE\r\n"},
		{"return {err='MY bad'}", "0", nil, "-MY bad\r\n"},
		{"return redis.status_reply('X')", "0", nil, "+X\r\n"},
		{"return {KEYS[1],ARGV[1],ARGV[2]}", "1", []string{"k", "a", "b"}, "*3\r\n$1\r\nk\r\n$1\r\na\r\n$1\r\nb\r\n"},
		{"return redis.call('GET', KEYS[1]) == false", "1", []string{"nokey"}, ":1\r\n"},
		{"redis.call('SET', KEYS[1], ARGV[1]) return redis.call('get', KEYS[1])", "1", []string{"k1", "v1"}, "$2\r\nv1\r\n"},
		{"return redis.call('SET', KEYS[1], 5)", "1", []string{"k2"}, "+OK\r\n"},
		{"return redis.call('SET', KEYS[1], 5).ok", "1", []string{"k2"}, "$2\r\nOK\r\n"},
		{"return redis.call('incr', KEYS[1]) + 1", "1", []string{"k2"}, ":7\r\n"},
		{"return type(redis.call('incr', KEYS[1]))", "1", []string{"k2"}, "$6\r\nnumber\r\n"},
		{"return tonumber('12') + tonumber(ARGV[1]) + '3'", "0", []string{"5"}, ":20\r\n"},
		{"return tostring(10/4)..tostring(nil)..tostring(1e15)..tostring(2^53)", "0", nil, "$29\r\n2.5nil1e+159.007199254741e+15\r\n"},
		{"local a,b = 1 if a == 1 and b == nil then return 'y' elseif a == 2 then return 'z' else return 'n' end", "0", nil, "$1\r\ny\r\n"},
		{"local x = 0 for i=1,10 do x = x + i end return x", "0", nil, ":55\r\n"},
		{"local x = 0 for i=10,1,-3 do x = x + i end return x", "0", nil, ":22\r\n"},
		{"local t = {} for i,v in ipairs({5,6,7}) do t[#t+1] = v*2 end return t", "0", nil, "*3\r\n:10\r\n:12\r\n:14\r\n"},
		{"local n = 0 for k,v in pairs({a=1,b=2,3}) do n = n + v end return n", "0", nil, ":6\r\n"},
		{"local i = 0 while true do i = i + 1 if i > 4 then break end end return i", "0", nil, ":5\r\n"},
		{"local i = 0 repeat local j = i i = i + 1 until j >= 3 return i", "0", nil, ":4\r\n"},
		{"local function f(a, ...) return a + select('#', ...) end return f(1, 2, 3)", "0", nil, ":3\r\n"},
		{"local f = function(n) if n < 2 then return n end return 0 end local function fib(n) if n < 2 then return n end return fib(n-1)+fib(n-2) end return fib(15)", "0", nil, ":610\r\n"},
		{"return 1 < 2 == true", "0", nil, ":1\r\n"},
		{"return 2^3^2", "0", nil, ":512\r\n"},
		{"return -2^2", "0", nil, ":-4\r\n"},
		{"return not nil == true", "0", nil, ":1\r\n"},
		{"return 7 % 3 + (-7) % 3", "0", nil, ":3\r\n"},
		{"return 1 .. 2", "0", nil, "$2\r\n12\r\n"},
		{"return '10' == 10", "0", nil, "$-1\r\n"},
		{"return 'a' < 'b'", "0", nil, ":1\r\n"},
		{"return #'abc' + #{1,2}", "0", nil, ":5\r\n"},
		{"return ('x'):rep(3)..string.upper('ab')..string.sub('hello', 2, -2)", "0", nil, "$8\r\nxxxABell\r\n"},
		{"return string.format('%d-%s-%05.1f', 3, 'a', 2.5)", "0", nil, "$9\r\n3-a-002.5\r\n"},
		{"return math.floor(3.7) + math.max(1, 9, 3)", "0", nil, ":12\r\n"},
		{"local t = {1,2,3} table.insert(t, 4) table.insert(t, 1, 0) table.remove(t, 2) return table.concat(t, ',')", "0", nil, "$7\r\n0,2,3,4\r\n"},
		{"local ok, e = pcall(function() error('boom') end) return {tostring(ok), e}", "0", nil, "*2\r\n$5\r\nfalse\r\n$19\r\nuser_script:1: boom\r\n"},
		{"local ok, e = pcall(function() error({err='X'}) end) return e", "0", nil, "-X\r\n"},
		{"local r = redis.pcall('lpush') return r.err ~= nil", "0", nil, ":1\r\n"},
		{"--[[ long\ncomment ]] return [[a\nb]] -- tail", "0", nil, "$3\r\na\nb\r\n"},
		{"return '\\65\\n\\x'", "0", nil, "$3\r\nA\nx\r\n"},
		{"return 0x10 + 1e2 + .5", "0", nil, ":116\r\n"},
		{"return unpack({1,2,3})", "0", nil, ":1\r\n"},
		{"return redis.sha1hex('')", "0", nil, "$40\r\nda39a3ee5e6b4b0d3255bfef95601890afd80709\r\n"},
		{"local a = {b={c=5}} a.b.c = a.b.c + 1 a['x'] = 1 return a.b.c + a.x", "0", nil, ":7\r\n"},
	}
	for _, c := range cases {
		got := evalT(s, ss, c.script, c.nkeys, c.rest...)
		if got != c.want {
			t.Errorf("script %q:\n got %q\nwant %q", c.script, got, c.want)
		}
	}
	errCases := []struct {
		script string
		sub    string
	}{
		{"return 1 +", "Error compiling script"},
		{"retur 1", "Error compiling script"},
		{"if x then", "Error compiling script"},
		{"return 1 < 'a'", "attempt to compare number with string"},
		{"return nil .. 'a'", "attempt to concatenate a nil value"},
		{"return {} + 1", "attempt to perform arithmetic on a table value"},
		{"local t = nil return t.x", "attempt to index a nil value"},
		{"x = 1", "attempted to create global variable 'x'"},
		{"return y", "nonexistent global variable 'y'"},
		{"return redis.call('nosuchcmd')", "Unknown Redis command called from script"},
		{"redis.call('lpush', 'l', 1) return redis.call('get', 'l')", "WRONGTYPE"},
		{"return redis.call('eval', 'return 1', 0)", "not allowed from script"},
		{"return redis.call('set', 'k', {})", "must be strings or integers"},
		{"local f = 1 f()", "attempt to call a number value"},
		{"error('my message')", "my message"},
		{"return cjson.encode({})", UnsupportedMarker},
		{"return string.gsub('a','a','b')", UnsupportedMarker},
		{"return setmetatable({}, {})", UnsupportedMarker},
		{"while true do end", UnsupportedMarker},
		{"return math.random()", UnsupportedMarker},
	}
	for _, c := range errCases {
		got := evalT(s, ss, c.script, "0")
		if !strings.HasPrefix(got, "-") || !strings.Contains(got, c.sub) {
			t.Errorf("script %q: got %q, want error containing %q", c.script, got, c.sub)
		}
	}
	if got := evalT(s, ss, "return 1", "x"); !strings.Contains(got, "not an integer") {
		t.Errorf("numkeys: %q", got)
	}
	if got := evalT(s, ss, "return 1", "2", "a"); !strings.Contains(got, "greater than number of args") {
		t.Errorf("numkeys: %q", got)
	}
	// EVALSHA through SCRIPT LOAD and through a previous EVAL
	v := s.execute(ss, "script", [][]byte{[]byte("load"), []byte("return ARGV[1]")}, 0)
	if v.Kind != '$' || string(v.Str) != ScriptSHA([]byte("return ARGV[1]")) {
		t.Fatalf("script load: %v", v)
	}
	v = s.execute(ss, "evalsha", [][]byte{v.Str, []byte("0"), []byte("hi")}, 0)
	if string(v.Encode(nil)) != "$2\r\nhi\r\n" {
		t.Errorf("evalsha: %q", v.Encode(nil))
	}
	v = s.execute(ss, "evalsha", [][]byte{[]byte(strings.ToUpper(ScriptSHA([]byte("return 1")))), []byte("0")}, 0)
	if string(v.Encode(nil)) != ":1\r\n" {
		t.Errorf("evalsha after eval: %q", v.Encode(nil))
	}
	v = s.execute(ss, "evalsha", [][]byte{[]byte("ffff"), []byte("0")}, 0)
	if !strings.HasPrefix(string(v.Str), "NOSCRIPT") {
		t.Errorf("evalsha unknown: %q", v.Encode(nil))
	}
	// SELECT inside a script does not leak
	ss.DB = 0
	evalT(s, ss, "redis.call('select', 3) redis.call('set', 'in3', 'x')", "0")
	if ss.DB != 0 || s.Get(3, "in3") == nil || s.Get(0, "in3") != nil {
		t.Errorf("select inside script: db=%d", ss.DB)
	}
	_ = resp.OK
}

// The election scripts of pkg/cluster/redis_election.go, verbatim, plus expiry against the clock.
func TestElectionScripts(t *testing.T) {
	campaign := `
local key = KEYS[1]
local value = ARGV[1]
local ttl = ARGV[2]

local currentValue = redis.call('GET', key)

if currentValue == false then
    redis.call('SET', key, value, 'EX', ttl)
    return 1
else
    if currentValue == value then
        redis.call('EXPIRE', key, ttl)
        return 1
    else
        return 0
    end
end
`
	resign := `
local key = KEYS[1]
local value = ARGV[1]

local currentValue = redis.call('GET', key)

if currentValue == false then
    return 1
else
    if currentValue == value then
        redis.call('DEL', key)
        return 1
    else
        return 0
    end
end
`
	s := NewServer("x")
	ss := &Session{Conn: &simnet.SimConn{ID: 1}}
	if got := evalT(s, ss, campaign, "1", "lease", "A", "10"); got != ":1\r\n" {
		t.Fatalf("campaign A: %q", got)
	}
	o := s.Get(0, "lease")
	if o == nil || string(o.Str) != "A" || o.ExpireAt == 0 {
		t.Fatalf("lease not stored: %+v", o)
	}
	if got := evalT(s, ss, campaign, "1", "lease", "B", "10"); got != ":0\r\n" {
		t.Fatalf("campaign B: %q", got)
	}
	if got := evalT(s, ss, resign, "1", "lease", "B", "10"); got != ":0\r\n" {
		t.Fatalf("resign B: %q", got)
	}
	if s.Get(0, "lease") == nil {
		t.Fatalf("resign by non-holder removed the lease")
	}
	if got := evalT(s, ss, campaign, "1", "lease", "A", "10"); got != ":1\r\n" {
		t.Fatalf("renew A: %q", got)
	}
	if got := evalT(s, ss, resign, "1", "lease", "A", "10"); got != ":1\r\n" {
		t.Fatalf("resign A: %q", got)
	}
	if s.Get(0, "lease") != nil {
		t.Fatalf("resign by holder left the lease")
	}
	if got := evalT(s, ss, campaign, "1", "lease", "B", "10"); got != ":1\r\n" {
		t.Fatalf("campaign B after resign: %q", got)
	}
}
