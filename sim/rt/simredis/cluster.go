package simredis

import (
	"fmt"
	"sort"
	"strconv"
	"strings"

	"verifsim/resp"
)

// Cluster role of the double: a slot table shared by the node doubles, per-slot migration state
// (stable | migrating->B | importing<-A), CLUSTER SLOTS, ASKING, -MOVED, -ASK, -CROSSSLOT, computed with the
// double's own HASH_SLOT (bitwise CRC16/XMODEM over the first non-empty {...}; from the Redis Cluster
// specification, shares no code with the repository).

const NumSlots = 16384

// HashSlot implements HASH_SLOT of the Redis Cluster specification.
func HashSlot(key []byte) int {
	s := -1
	for i, c := range key {
		if c == '{' {
			s = i
			break
		}
	}
	if s >= 0 {
		for j := s + 1; j < len(key); j++ {
			if key[j] == '}' {
				if j > s+1 {
					key = key[s+1 : j]
				}
				break
			}
		}
	}
	var crc uint16
	for _, b := range key {
		crc ^= uint16(b) << 8
		for i := 0; i < 8; i++ {
			if crc&0x8000 != 0 {
				crc = crc<<1 ^ 0x1021
			} else {
				crc <<= 1
			}
		}
	}
	return int(crc % NumSlots)
}

// ClusterExec is one executed request in cluster-wide order.
type ClusterExec struct {
	GSeq int
	Node int
	Exec
}

// Topology is the cluster state shared by its node doubles.
type Topology struct {
	Nodes     []*Server
	Owner     [NumSlots]int
	Migrating map[int]int     // slot -> importing node (the owner is in migrating state)
	Moved     map[string]bool // keys of migrating slots that already live on the importing node
	Log       []ClusterExec   // everything executed, cluster-wide order
	Redirects map[string]int  // counts per kind: moved, ask, crossslot
	Errors    []ClusterExec   // error replies sent (redirects and others)
	// Misdirected: commands an importing node served under ASKING for keys that had not been moved to it
	Misdirected     []string
	MisdirectedKeys []string        // the key of each entry
	Asked           map[string]bool // keys an owner has answered ASK for at some time
	gseq            int
}

type clusterNode struct {
	topo *Topology
	self int
}

// NewCluster creates n node doubles at the given addresses with slots spread evenly.
func NewCluster(addrs []string) *Topology {
	t := &Topology{Migrating: map[int]int{}, Moved: map[string]bool{}, Redirects: map[string]int{}}
	for i, a := range addrs {
		s := NewServer(a)
		s.NumDB = 1
		s.DBs = s.DBs[:1]
		s.Cluster = &ClusterState{impl: &clusterNode{topo: t, self: i}}
		idx := i
		s.OnExec = func(e *Exec) {
			t.gseq++
			ce := ClusterExec{GSeq: t.gseq, Node: idx, Exec: *e}
			t.Log = append(t.Log, ce)
			if e.IsErr {
				t.Errors = append(t.Errors, ce)
			}
		}
		t.Nodes = append(t.Nodes, s)
	}
	for slot := 0; slot < NumSlots; slot++ {
		t.Owner[slot] = slot * len(addrs) / NumSlots
	}
	return t
}

// SetOwner assigns a contiguous slot range to a node.
func (t *Topology) SetOwner(lo, hi, node int) {
	for s := lo; s <= hi; s++ {
		t.Owner[s] = node
	}
}

// BeginMigrate puts a slot into migrating (at its owner) / importing (at node `to`) state.
func (t *Topology) BeginMigrate(slot, to int) {
	if t.Owner[slot] != to {
		t.Migrating[slot] = to
	}
}

// MoveKey moves one key of a migrating slot to the importing node.
func (t *Topology) MoveKey(key string) { t.Moved[key] = true }

// FinishMigrate hands the slot over to the importing node.
func (t *Topology) FinishMigrate(slot int) {
	to, ok := t.Migrating[slot]
	if !ok {
		return
	}
	t.Owner[slot] = to
	delete(t.Migrating, slot)
	for k := range t.Moved {
		if HashSlot([]byte(k)) == slot {
			delete(t.Moved, k)
		}
	}
}

func (c *clusterNode) keysOf(name string, args [][]byte) ([][]byte, bool) {
	idx, ok := KeyIndexes(name, args)
	if !ok {
		return nil, false
	}
	var ks [][]byte
	for _, i := range idx {
		if i < len(args) {
			ks = append(ks, args[i])
		}
	}
	return ks, true
}

func (c *clusterNode) redirect(kind string, v resp.Value) *resp.Value {
	c.topo.Redirects[kind]++
	return &v
}

// route decides whether this node serves the command (nil) or answers with a redirect / error.
func (c *clusterNode) route(s *Server, ss *Session, name string, args [][]byte) *resp.Value {
	switch name {
	case "multi", "exec", "discard", "ping", "info", "cluster", "command", "asking", "select", "auth", "client", "readonly", "readwrite", "script", "function", "echo", "wait":
		return nil
	}
	keys, ok := c.keysOf(name, args)
	if !ok || len(keys) == 0 {
		return nil
	}
	slot := HashSlot(keys[0])
	for _, k := range keys[1:] {
		if HashSlot(k) != slot {
			return c.redirect("crossslot", resp.Err("CROSSSLOT Keys in request don't hash to the same slot"))
		}
	}
	t := c.topo
	owner := t.Owner[slot]
	imp, migrating := t.Migrating[slot]
	if owner == c.self {
		if migrating {
			moved, here := 0, 0
			for _, k := range keys {
				if t.Moved[string(k)] {
					moved++
				} else {
					here++
				}
			}
			if moved > 0 && here > 0 {
				return c.redirect("tryagain", resp.Err("TRYAGAIN Multiple keys request during rehashing of slot"))
			}
			if moved > 0 {
				if t.Asked == nil {
					t.Asked = map[string]bool{}
				}
				for _, k := range keys {
					t.Asked[string(k)] = true
				}
				return c.redirect("ask", resp.Err(fmt.Sprintf("ASK %d %s", slot, t.Nodes[imp].Addr)))
			}
		}
		return nil
	}
	if migrating && imp == c.self && ss.Asking {
		// an importing node serves whatever arrives under ASKING; it cannot know whether the key has been moved. A client
		// may send ASKING only for the command the owner answered ASK to - i.e. for keys that live here already
		for _, k := range keys {
			if !t.Moved[string(k)] && !t.Asked[string(k)] { // (Asked: redirected once; the slot may have moved on and back meanwhile)
				t.MisdirectedKeys = append(t.MisdirectedKeys, string(k))
				t.Misdirected = append(t.Misdirected, fmt.Sprintf("node %d (importing slot %d) served %s %q under ASKING although the key still lives on node %d, which never redirected it", c.self, slot, name, k, owner))
				break
			}
		}
		return nil
	}
	return c.redirect("moved", resp.Err(fmt.Sprintf("MOVED %d %s", slot, t.Nodes[owner].Addr)))
}

// checkTxn: at EXEC all keys of the transaction must hash to one slot.
func (c *clusterNode) checkTxn(s *Server, ss *Session, q [][][]byte) *resp.Value {
	slot := -1
	for _, cmd := range q {
		name := strings.ToLower(string(cmd[0]))
		keys, ok := c.keysOf(name, cmd[1:])
		if !ok {
			continue
		}
		for _, k := range keys {
			hs := HashSlot(k)
			if slot == -1 {
				slot = hs
			} else if hs != slot {
				return c.redirect("crossslot", resp.Err("CROSSSLOT Keys in request don't hash to the same slot"))
			}
		}
	}
	return nil
}

func (c *clusterNode) cmd(s *Server, ss *Session, a [][]byte) resp.Value {
	if len(a) == 0 {
		return resp.Err("ERR wrong number of arguments for 'cluster' command")
	}
	t := c.topo
	switch strings.ToLower(string(a[0])) {
	case "slots":
		var out []resp.Value
		start := 0
		for slot := 1; slot <= NumSlots; slot++ {
			if slot == NumSlots || t.Owner[slot] != t.Owner[start] {
				n := t.Nodes[t.Owner[start]]
				ip, port := splitAddr(n.Addr)
				out = append(out, resp.Array(resp.Int(int64(start)), resp.Int(int64(slot-1)),
					resp.Array(resp.BulkS(ip), resp.Int(int64(port)), resp.BulkS(nodeID(t.Owner[start])))))
				start = slot
			}
		}
		return resp.Array(out...)
	case "nodes":
		var sb strings.Builder
		for i, n := range t.Nodes {
			flags := "master"
			if i == c.self {
				flags = "myself,master"
			}
			var ranges []string
			start := -1
			for slot := 0; slot <= NumSlots; slot++ {
				mine := slot < NumSlots && t.Owner[slot] == i
				if mine && start < 0 {
					start = slot
				}
				if !mine && start >= 0 {
					if start == slot-1 {
						ranges = append(ranges, strconv.Itoa(start))
					} else {
						ranges = append(ranges, fmt.Sprintf("%d-%d", start, slot-1))
					}
					start = -1
				}
			}
			_, port := splitAddr(n.Addr)
			fmt.Fprintf(&sb, "%s %s@%d %s - 0 0 %d connected %s\n", nodeID(i), n.Addr, port+10000, flags, i+1, strings.Join(ranges, " "))
		}
		return resp.BulkS(sb.String())
	case "info":
		return resp.BulkS("cluster_state:ok\r\ncluster_slots_assigned:16384\r\ncluster_known_nodes:" + strconv.Itoa(len(t.Nodes)) + "\r\n")
	case "keyslot":
		if len(a) > 1 {
			return resp.Int(int64(HashSlot(a[1])))
		}
	}
	return resp.Err("ERR unknown CLUSTER subcommand for the double")
}

func nodeID(i int) string { return fmt.Sprintf("%040x", 0xabc000+i) }

func splitAddr(addr string) (string, int) {
	i := strings.LastIndexByte(addr, ':')
	p, _ := strconv.Atoi(addr[i+1:])
	return addr[:i], p
}

// SlotsOf returns the distinct slots of the keys of a command by the double's own key table.
func SlotsOf(name string, args [][]byte) ([]int, bool) {
	idx, ok := KeyIndexes(strings.ToLower(name), args)
	if !ok || len(idx) == 0 {
		return nil, false
	}
	seen := map[int]bool{}
	var out []int
	for _, i := range idx {
		if i >= len(args) {
			return nil, false
		}
		s := HashSlot(args[i])
		if !seen[s] {
			seen[s] = true
			out = append(out, s)
		}
	}
	sort.Ints(out)
	return out, true
}
