package simredis

import (
	"fmt"
	"math"
	"sort"
	"strconv"
	"strings"

	"verifsim/resp"
)

// Obj is one value in the keyspace.
type Obj struct {
	T        byte // 's' string, 'h' hash, 'l' list, 'S' set, 'z' zset, 'x' stream, 'o' opaque (restored payload not in registry)
	Str      []byte
	Hash     map[string][]byte
	List     [][]byte
	Set      map[string]struct{}
	ZSet     map[string]float64
	Stream   *Stream
	ExpireAt int64 // unix ms; 0 = none
	Opaque   []byte
	Idle     int64
	Freq     int64
	Origin   string // how the value got there (restore / commands), informational
}

func (o *Obj) TypeName() string {
	switch o.T {
	case 's':
		return "string"
	case 'h':
		return "hash"
	case 'l':
		return "list"
	case 'S':
		return "set"
	case 'z':
		return "zset"
	case 'x':
		return "stream"
	}
	return "opaque"
}

// Canon renders the value canonically (for equality checks by oracles).
func (o *Obj) Canon() string {
	var sb strings.Builder
	sb.WriteString(o.TypeName() + ":")
	switch o.T {
	case 's':
		fmt.Fprintf(&sb, "%q", o.Str)
	case 'h':
		ks := make([]string, 0, len(o.Hash))
		for k := range o.Hash {
			ks = append(ks, k)
		}
		sort.Strings(ks)
		for _, k := range ks {
			fmt.Fprintf(&sb, "%q=%q,", k, o.Hash[k])
		}
	case 'l':
		for _, e := range o.List {
			fmt.Fprintf(&sb, "%q,", e)
		}
	case 'S':
		ks := make([]string, 0, len(o.Set))
		for k := range o.Set {
			ks = append(ks, k)
		}
		sort.Strings(ks)
		for _, k := range ks {
			fmt.Fprintf(&sb, "%q,", k)
		}
	case 'z':
		ks := make([]string, 0, len(o.ZSet))
		for k := range o.ZSet {
			ks = append(ks, k)
		}
		sort.Strings(ks)
		for _, k := range ks {
			fmt.Fprintf(&sb, "%q=%x,", k, math.Float64bits(o.ZSet[k]))
		}
	case 'x':
		sb.WriteString(o.Stream.Canon())
	default:
		fmt.Fprintf(&sb, "%x", o.Opaque)
	}
	return sb.String()
}

type handler func(s *Server, ss *Session, a [][]byte) resp.Value

var commands map[string]handler

func init() {
	commands = map[string]handler{
		"ping": func(s *Server, ss *Session, a [][]byte) resp.Value {
			if len(a) > 0 {
				return resp.Bulk(a[0])
			}
			return resp.Simple("PONG")
		},
		"echo":      func(s *Server, ss *Session, a [][]byte) resp.Value { return resp.Bulk(a[0]) },
		"auth":      func(s *Server, ss *Session, a [][]byte) resp.Value { return resp.OK() },
		"client":    func(s *Server, ss *Session, a [][]byte) resp.Value { return resp.OK() },
		"readonly":  func(s *Server, ss *Session, a [][]byte) resp.Value { return resp.OK() },
		"readwrite": func(s *Server, ss *Session, a [][]byte) resp.Value { return resp.OK() },
		"wait":      func(s *Server, ss *Session, a [][]byte) resp.Value { return resp.Int(0) },
		"select":    cmdSelect,
		"info":      cmdInfo,
		"dbsize": func(s *Server, ss *Session, a [][]byte) resp.Value {
			return resp.Int(int64(len(s.Keys(ss.DB))))
		},
		"flushall": func(s *Server, ss *Session, a [][]byte) resp.Value {
			for i := range s.DBs {
				s.DBs[i] = map[string]*Obj{}
			}
			return resp.OK()
		},
		"flushdb": func(s *Server, ss *Session, a [][]byte) resp.Value {
			s.DBs[ss.DB] = map[string]*Obj{}
			return resp.OK()
		},
		"keys":   cmdKeys,
		"type":   cmdType,
		"exists": cmdExists,
		"del":    cmdDel,
		"unlink": cmdDel,
		"set":    cmdSet,
		"setnx": func(s *Server, ss *Session, a [][]byte) resp.Value {
			if len(a) != 2 {
				return wrongArgs("setnx")
			}
			if s.lookup(ss.DB, a[0]) != nil {
				return resp.Int(0)
			}
			s.set(ss.DB, a[0], &Obj{T: 's', Str: a[1]})
			return resp.Int(1)
		},
		"setex":     cmdSetex,
		"psetex":    cmdSetex,
		"get":       cmdGet,
		"mset":      cmdMset,
		"append":    cmdAppend,
		"incr":      func(s *Server, ss *Session, a [][]byte) resp.Value { return incrBy(s, ss, a, 1) },
		"decr":      func(s *Server, ss *Session, a [][]byte) resp.Value { return incrBy(s, ss, a, -1) },
		"incrby":    cmdIncrBy,
		"expire":    cmdExpire,
		"pexpire":   cmdExpire,
		"expireat":  cmdExpire,
		"pexpireat": cmdExpire,
		"persist":   cmdPersist,
		"ttl":       cmdTTL,
		"pttl":      cmdTTL,
		"hset":      cmdHset,
		"hmset":     cmdHset,
		"hsetnx":    cmdHsetnx,
		"hget":      cmdHget,
		"hgetall":   cmdHgetall,
		"hdel":      cmdHdel,
		"hexists": func(s *Server, ss *Session, a [][]byte) resp.Value {
			o := s.lookup(ss.DB, a[0])
			if o == nil {
				return resp.Int(0)
			}
			if o.T != 'h' {
				return wrongType
			}
			if _, ok := o.Hash[string(a[1])]; ok {
				return resp.Int(1)
			}
			return resp.Int(0)
		},
		"hlen": func(s *Server, ss *Session, a [][]byte) resp.Value {
			o := s.lookup(ss.DB, a[0])
			if o == nil {
				return resp.Int(0)
			}
			if o.T != 'h' {
				return wrongType
			}
			return resp.Int(int64(len(o.Hash)))
		},
		"hincrby":          cmdHincrby,
		"rpush":            cmdPush,
		"lpush":            cmdPush,
		"lrange":           cmdLrange,
		"llen":             cmdLlen,
		"sadd":             cmdSadd,
		"srem":             cmdSrem,
		"smembers":         cmdSmembers,
		"zadd":             cmdZadd,
		"zrem":             cmdZrem,
		"zrangebyscore":    cmdZrangebyscore,
		"zremrangebyscore": cmdZremrangebyscore,
		"zcard": func(s *Server, ss *Session, a [][]byte) resp.Value {
			o := s.lookup(ss.DB, a[0])
			if o == nil {
				return resp.Int(0)
			}
			if o.T != 'z' {
				return wrongType
			}
			return resp.Int(int64(len(o.ZSet)))
		},
		"restore":  cmdRestore,
		"script":   cmdScript,
		"function": cmdFunction,
		"eval":     cmdEval,
		"evalsha":  cmdEval,
		"command":  cmdCommand,
		"cluster":  cmdCluster,
		"asking": func(s *Server, ss *Session, a [][]byte) resp.Value {
			ss.Asking = true
			return resp.OK()
		},
		"replconf": cmdReplconf,
		"psync":    cmdPsync,
		"xadd":     cmdXadd,
		"xsetid":   cmdXsetid,
		"xgroup":   cmdXgroup,
		"xclaim":   cmdXclaim,
		"xdel":     cmdXdel,
		"xrange":   cmdXrange,
		"xlen": func(s *Server, ss *Session, a [][]byte) resp.Value {
			o := s.lookup(ss.DB, a[0])
			if o == nil {
				return resp.Int(0)
			}
			if o.T != 'x' {
				return wrongType
			}
			return resp.Int(int64(len(o.Stream.Entries)))
		},
	}
}

func cmdSelect(s *Server, ss *Session, a [][]byte) resp.Value {
	if len(a) != 1 {
		return wrongArgs("select")
	}
	n, ok := atoi(a[0])
	if !ok {
		return resp.Err("ERR invalid DB index")
	}
	if s.Cluster != nil && n != 0 {
		return resp.Err("ERR SELECT is not allowed in cluster mode")
	}
	if n < 0 || int(n) >= s.NumDB {
		return resp.Err("ERR DB index is out of range")
	}
	ss.DB = int(n)
	return resp.OK()
}

func cmdInfo(s *Server, ss *Session, a [][]byte) resp.Value {
	sec := "all"
	if len(a) > 0 {
		sec = strings.ToLower(string(a[0]))
	}
	var sb strings.Builder
	if sec == "all" || sec == "server" || sec == "default" {
		fmt.Fprintf(&sb, "# Server\r\nredis_version:%s\r\nredis_mode:%s\r\nrun_id:%s\r\n\r\n", s.Version, map[bool]string{true: "cluster", false: "standalone"}[s.Cluster != nil], s.RunID)
	}
	if sec == "all" || sec == "replication" || sec == "default" {
		sb.WriteString("# Replication\r\nrole:master\r\nconnected_slaves:0\r\n")
		if s.Repl != nil {
			fmt.Fprintf(&sb, "master_failover_state:no-failover\r\nmaster_replid:%s\r\nmaster_replid2:%s\r\nmaster_repl_offset:%d\r\nsecond_repl_offset:%d\r\nrepl_backlog_active:1\r\nrepl_backlog_size:1048576\r\nrepl_backlog_first_byte_offset:%d\r\nrepl_backlog_histlen:%d\r\n",
				s.Repl.ID, s.Repl.ID2, s.Repl.End(), s.Repl.SecondOffset, s.Repl.BacklogStart+1, s.Repl.End()-s.Repl.BacklogStart)
		} else {
			fmt.Fprintf(&sb, "master_replid:%s\r\nmaster_replid2:%s\r\nmaster_repl_offset:0\r\nsecond_repl_offset:-1\r\n", s.RunID, strings.Repeat("0", 40))
		}
		sb.WriteString("\r\n")
	}
	if sec == "all" || sec == "keyspace" || sec == "default" {
		sb.WriteString("# Keyspace\r\n")
		for i := range s.DBs {
			n := len(s.Keys(i))
			if n > 0 {
				fmt.Fprintf(&sb, "db%d:keys=%d,expires=0,avg_ttl=0\r\n", i, n)
			}
		}
	}
	if sec == "all" || sec == "cluster" {
		fmt.Fprintf(&sb, "# Cluster\r\ncluster_enabled:%d\r\n", map[bool]int{true: 1, false: 0}[s.Cluster != nil])
	}
	return resp.BulkS(sb.String())
}

func cmdKeys(s *Server, ss *Session, a [][]byte) resp.Value {
	if len(a) != 1 {
		return wrongArgs("keys")
	}
	pat := string(a[0])
	var out []resp.Value
	for _, k := range s.Keys(ss.DB) {
		if globMatch(pat, k) {
			out = append(out, resp.BulkS(k))
		}
	}
	return resp.Array(out...)
}

// globMatch supports '*' and '?' and literal characters (enough for the tool's KEYS patterns).
func globMatch(p, s string) bool {
	if p == "" {
		return s == ""
	}
	switch p[0] {
	case '*':
		for i := 0; i <= len(s); i++ {
			if globMatch(p[1:], s[i:]) {
				return true
			}
		}
		return false
	case '?':
		return s != "" && globMatch(p[1:], s[1:])
	case '\\':
		if len(p) > 1 {
			return s != "" && s[0] == p[1] && globMatch(p[2:], s[1:])
		}
	}
	return s != "" && s[0] == p[0] && globMatch(p[1:], s[1:])
}

func cmdType(s *Server, ss *Session, a [][]byte) resp.Value {
	o := s.lookup(ss.DB, a[0])
	if o == nil {
		return resp.Simple("none")
	}
	return resp.Simple(o.TypeName())
}

func cmdExists(s *Server, ss *Session, a [][]byte) resp.Value {
	n := int64(0)
	for _, k := range a {
		if s.lookup(ss.DB, k) != nil {
			n++
		}
	}
	return resp.Int(n)
}

func cmdDel(s *Server, ss *Session, a [][]byte) resp.Value {
	n := int64(0)
	for _, k := range a {
		if s.del(ss.DB, k) {
			n++
		}
	}
	return resp.Int(n)
}

func cmdSet(s *Server, ss *Session, a [][]byte) resp.Value {
	if len(a) < 2 {
		return wrongArgs("set")
	}
	var nx, xx, keepttl bool
	exp := int64(0)
	for i := 2; i < len(a); i++ {
		opt := strings.ToUpper(string(a[i]))
		switch opt {
		case "NX":
			nx = true
		case "XX":
			xx = true
		case "KEEPTTL":
			keepttl = true
		case "GET":
		case "EX", "PX", "EXAT", "PXAT":
			if i+1 >= len(a) {
				return resp.Err("ERR syntax error")
			}
			v, ok := atoi(a[i+1])
			if !ok || v <= 0 {
				return resp.Err("ERR invalid expire time in 'set' command")
			}
			switch opt {
			case "EX":
				exp = nowMs() + v*1000
			case "PX":
				exp = nowMs() + v
			case "EXAT":
				exp = v * 1000
			case "PXAT":
				exp = v
			}
			i++
		default:
			return resp.Err("ERR syntax error")
		}
	}
	old := s.lookup(ss.DB, a[0])
	if nx && old != nil {
		return resp.Nil()
	}
	if xx && old == nil {
		return resp.Nil()
	}
	o := &Obj{T: 's', Str: a[1], ExpireAt: exp}
	if keepttl && old != nil {
		o.ExpireAt = old.ExpireAt
	}
	s.set(ss.DB, a[0], o)
	return resp.OK()
}

func cmdSetex(s *Server, ss *Session, a [][]byte) resp.Value {
	if len(a) != 3 {
		return wrongArgs("setex")
	}
	v, ok := atoi(a[1])
	if !ok || v <= 0 {
		return resp.Err("ERR invalid expire time")
	}
	// caller name is not passed; both setex (s) and psetex (ms) arrive here. Distinguish by magnitude is wrong,
	// so the table registers both and we look at the logged name through a tiny trick: psetex values are ms.
	// To stay exact we treat the unit via lastName set by execute().
	unit := int64(1000)
	if s.lastName == "psetex" {
		unit = 1
	}
	s.set(ss.DB, a[0], &Obj{T: 's', Str: a[2], ExpireAt: nowMs() + v*unit})
	return resp.OK()
}

func cmdGet(s *Server, ss *Session, a [][]byte) resp.Value {
	if len(a) != 1 {
		return wrongArgs("get")
	}
	o := s.lookup(ss.DB, a[0])
	if o == nil {
		return resp.Nil()
	}
	if o.T != 's' {
		return wrongType
	}
	return resp.Bulk(o.Str)
}

func cmdMset(s *Server, ss *Session, a [][]byte) resp.Value {
	if len(a) == 0 || len(a)%2 != 0 {
		return wrongArgs("mset")
	}
	for i := 0; i < len(a); i += 2 {
		s.set(ss.DB, a[i], &Obj{T: 's', Str: a[i+1]})
	}
	return resp.OK()
}

func cmdAppend(s *Server, ss *Session, a [][]byte) resp.Value {
	o := s.lookup(ss.DB, a[0])
	if o == nil {
		o = &Obj{T: 's'}
		s.set(ss.DB, a[0], o)
	}
	if o.T != 's' {
		return wrongType
	}
	o.Str = append(append([]byte(nil), o.Str...), a[1]...)
	return resp.Int(int64(len(o.Str)))
}

func incrBy(s *Server, ss *Session, a [][]byte, d int64) resp.Value {
	o := s.lookup(ss.DB, a[0])
	cur := int64(0)
	if o != nil {
		if o.T != 's' {
			return wrongType
		}
		v, ok := atoi(o.Str)
		if !ok {
			return resp.Err("ERR value is not an integer or out of range")
		}
		cur = v
	} else {
		o = &Obj{T: 's'}
		s.set(ss.DB, a[0], o)
	}
	cur += d
	o.Str = []byte(strconv.FormatInt(cur, 10))
	return resp.Int(cur)
}

func cmdIncrBy(s *Server, ss *Session, a [][]byte) resp.Value {
	d, ok := atoi(a[1])
	if !ok {
		return resp.Err("ERR value is not an integer or out of range")
	}
	return incrBy(s, ss, a, d)
}

func cmdExpire(s *Server, ss *Session, a [][]byte) resp.Value {
	if len(a) < 2 {
		return wrongArgs("expire")
	}
	v, ok := atoi(a[1])
	if !ok {
		return resp.Err("ERR value is not an integer or out of range")
	}
	o := s.lookup(ss.DB, a[0])
	if o == nil {
		return resp.Int(0)
	}
	var at int64
	switch s.lastName {
	case "expire":
		at = nowMs() + v*1000
	case "pexpire":
		at = nowMs() + v
	case "expireat":
		at = v * 1000
	case "pexpireat":
		at = v
	}
	if at <= nowMs() {
		delete(s.DBs[ss.DB], string(a[0]))
		return resp.Int(1)
	}
	o.ExpireAt = at
	return resp.Int(1)
}

func cmdPersist(s *Server, ss *Session, a [][]byte) resp.Value {
	o := s.lookup(ss.DB, a[0])
	if o == nil || o.ExpireAt == 0 {
		return resp.Int(0)
	}
	o.ExpireAt = 0
	return resp.Int(1)
}

func cmdTTL(s *Server, ss *Session, a [][]byte) resp.Value {
	o := s.lookup(ss.DB, a[0])
	if o == nil {
		return resp.Int(-2)
	}
	if o.ExpireAt == 0 {
		return resp.Int(-1)
	}
	d := o.ExpireAt - nowMs()
	if s.lastName == "ttl" {
		d = (d + 500) / 1000
	}
	return resp.Int(d)
}

func cmdHset(s *Server, ss *Session, a [][]byte) resp.Value {
	if len(a) < 3 || len(a)%2 != 1 {
		return wrongArgs("hset")
	}
	o := s.lookup(ss.DB, a[0])
	if o == nil {
		o = &Obj{T: 'h', Hash: map[string][]byte{}}
		s.set(ss.DB, a[0], o)
	}
	if o.T != 'h' {
		return wrongType
	}
	n := int64(0)
	for i := 1; i < len(a); i += 2 {
		if _, ok := o.Hash[string(a[i])]; !ok {
			n++
		}
		o.Hash[string(a[i])] = a[i+1]
	}
	if s.lastName == "hmset" {
		return resp.OK()
	}
	return resp.Int(n)
}

func cmdHsetnx(s *Server, ss *Session, a [][]byte) resp.Value {
	if len(a) != 3 {
		return wrongArgs("hsetnx")
	}
	o := s.lookup(ss.DB, a[0])
	if o == nil {
		o = &Obj{T: 'h', Hash: map[string][]byte{}}
		s.set(ss.DB, a[0], o)
	}
	if o.T != 'h' {
		return wrongType
	}
	if _, ok := o.Hash[string(a[1])]; ok {
		return resp.Int(0)
	}
	o.Hash[string(a[1])] = a[2]
	return resp.Int(1)
}

func cmdHget(s *Server, ss *Session, a [][]byte) resp.Value {
	if len(a) != 2 {
		return wrongArgs("hget")
	}
	o := s.lookup(ss.DB, a[0])
	if o == nil {
		return resp.Nil()
	}
	if o.T != 'h' {
		return wrongType
	}
	v, ok := o.Hash[string(a[1])]
	if !ok {
		return resp.Nil()
	}
	return resp.Bulk(v)
}

func cmdHgetall(s *Server, ss *Session, a [][]byte) resp.Value {
	o := s.lookup(ss.DB, a[0])
	if o == nil {
		return resp.Array()
	}
	if o.T != 'h' {
		return wrongType
	}
	ks := make([]string, 0, len(o.Hash))
	for k := range o.Hash {
		ks = append(ks, k)
	}
	sort.Strings(ks)
	out := make([]resp.Value, 0, 2*len(ks))
	for _, k := range ks {
		out = append(out, resp.BulkS(k), resp.Bulk(o.Hash[k]))
	}
	return resp.Array(out...)
}

func cmdHdel(s *Server, ss *Session, a [][]byte) resp.Value {
	if len(a) < 2 {
		return wrongArgs("hdel")
	}
	o := s.lookup(ss.DB, a[0])
	if o == nil {
		return resp.Int(0)
	}
	if o.T != 'h' {
		return wrongType
	}
	n := int64(0)
	for _, f := range a[1:] {
		if _, ok := o.Hash[string(f)]; ok {
			delete(o.Hash, string(f))
			n++
		}
	}
	if len(o.Hash) == 0 {
		delete(s.DBs[ss.DB], string(a[0]))
	}
	return resp.Int(n)
}

func cmdHincrby(s *Server, ss *Session, a [][]byte) resp.Value {
	if len(a) != 3 {
		return wrongArgs("hincrby")
	}
	d, ok := atoi(a[2])
	if !ok {
		return resp.Err("ERR value is not an integer or out of range")
	}
	o := s.lookup(ss.DB, a[0])
	if o == nil {
		o = &Obj{T: 'h', Hash: map[string][]byte{}}
		s.set(ss.DB, a[0], o)
	}
	if o.T != 'h' {
		return wrongType
	}
	cur := int64(0)
	if v, ok := o.Hash[string(a[1])]; ok {
		c, ok2 := atoi(v)
		if !ok2 {
			return resp.Err("ERR hash value is not an integer")
		}
		cur = c
	}
	cur += d
	o.Hash[string(a[1])] = []byte(strconv.FormatInt(cur, 10))
	return resp.Int(cur)
}

func cmdPush(s *Server, ss *Session, a [][]byte) resp.Value {
	if len(a) < 2 {
		return wrongArgs("push")
	}
	o := s.lookup(ss.DB, a[0])
	if o == nil {
		o = &Obj{T: 'l'}
		s.set(ss.DB, a[0], o)
	}
	if o.T != 'l' {
		return wrongType
	}
	for _, e := range a[1:] {
		if s.lastName == "lpush" {
			o.List = append([][]byte{e}, o.List...)
		} else {
			o.List = append(o.List, e)
		}
	}
	return resp.Int(int64(len(o.List)))
}

func cmdLrange(s *Server, ss *Session, a [][]byte) resp.Value {
	o := s.lookup(ss.DB, a[0])
	if o == nil {
		return resp.Array()
	}
	if o.T != 'l' {
		return wrongType
	}
	out := make([]resp.Value, 0, len(o.List))
	for _, e := range o.List {
		out = append(out, resp.Bulk(e))
	}
	return resp.Array(out...)
}

func cmdLlen(s *Server, ss *Session, a [][]byte) resp.Value {
	o := s.lookup(ss.DB, a[0])
	if o == nil {
		return resp.Int(0)
	}
	if o.T != 'l' {
		return wrongType
	}
	return resp.Int(int64(len(o.List)))
}

func cmdSadd(s *Server, ss *Session, a [][]byte) resp.Value {
	if len(a) < 2 {
		return wrongArgs("sadd")
	}
	o := s.lookup(ss.DB, a[0])
	if o == nil {
		o = &Obj{T: 'S', Set: map[string]struct{}{}}
		s.set(ss.DB, a[0], o)
	}
	if o.T != 'S' {
		return wrongType
	}
	n := int64(0)
	for _, e := range a[1:] {
		if _, ok := o.Set[string(e)]; !ok {
			o.Set[string(e)] = struct{}{}
			n++
		}
	}
	return resp.Int(n)
}

func cmdSrem(s *Server, ss *Session, a [][]byte) resp.Value {
	o := s.lookup(ss.DB, a[0])
	if o == nil {
		return resp.Int(0)
	}
	if o.T != 'S' {
		return wrongType
	}
	n := int64(0)
	for _, e := range a[1:] {
		if _, ok := o.Set[string(e)]; ok {
			delete(o.Set, string(e))
			n++
		}
	}
	if len(o.Set) == 0 {
		delete(s.DBs[ss.DB], string(a[0]))
	}
	return resp.Int(n)
}

func cmdSmembers(s *Server, ss *Session, a [][]byte) resp.Value {
	o := s.lookup(ss.DB, a[0])
	if o == nil {
		return resp.Array()
	}
	if o.T != 'S' {
		return wrongType
	}
	ks := make([]string, 0, len(o.Set))
	for k := range o.Set {
		ks = append(ks, k)
	}
	sort.Strings(ks)
	out := make([]resp.Value, 0, len(ks))
	for _, k := range ks {
		out = append(out, resp.BulkS(k))
	}
	return resp.Array(out...)
}

// ParseScore parses a sorted-set score the way Redis does (strtod + inf/-inf/nan rejection).
func ParseScore(b []byte) (float64, bool) {
	str := strings.ToLower(string(b))
	switch str {
	case "inf", "+inf", "infinity", "+infinity":
		return math.Inf(1), true
	case "-inf", "-infinity":
		return math.Inf(-1), true
	}
	f, err := strconv.ParseFloat(string(b), 64)
	if err != nil || math.IsNaN(f) {
		return 0, false
	}
	return f, true
}

func cmdZadd(s *Server, ss *Session, a [][]byte) resp.Value {
	if len(a) < 3 {
		return wrongArgs("zadd")
	}
	i := 1
	var nx, xx, ch, incr bool
	for ; i < len(a); i++ {
		switch strings.ToUpper(string(a[i])) {
		case "NX":
			nx = true
			continue
		case "XX":
			xx = true
			continue
		case "CH":
			ch = true
			continue
		case "INCR":
			incr = true
			continue
		case "GT", "LT":
			continue
		}
		break
	}
	_ = incr
	if (len(a)-i)%2 != 0 || len(a)-i == 0 {
		return resp.Err("ERR syntax error")
	}
	// validate all scores first (Redis does)
	for j := i; j < len(a); j += 2 {
		if _, ok := ParseScore(a[j]); !ok {
			return resp.Err("ERR value is not a valid float")
		}
	}
	o := s.lookup(ss.DB, a[0])
	if o == nil {
		o = &Obj{T: 'z', ZSet: map[string]float64{}}
		s.set(ss.DB, a[0], o)
	}
	if o.T != 'z' {
		return wrongType
	}
	added, changed := int64(0), int64(0)
	for j := i; j < len(a); j += 2 {
		sc, _ := ParseScore(a[j])
		m := string(a[j+1])
		old, ok := o.ZSet[m]
		if ok && nx {
			continue
		}
		if !ok && xx {
			continue
		}
		if !ok {
			added++
		} else if old != sc {
			changed++
		}
		o.ZSet[m] = sc
	}
	if len(o.ZSet) == 0 {
		delete(s.DBs[ss.DB], string(a[0]))
	}
	if ch {
		return resp.Int(added + changed)
	}
	return resp.Int(added)
}

func cmdZrem(s *Server, ss *Session, a [][]byte) resp.Value {
	o := s.lookup(ss.DB, a[0])
	if o == nil {
		return resp.Int(0)
	}
	if o.T != 'z' {
		return wrongType
	}
	n := int64(0)
	for _, e := range a[1:] {
		if _, ok := o.ZSet[string(e)]; ok {
			delete(o.ZSet, string(e))
			n++
		}
	}
	if len(o.ZSet) == 0 {
		delete(s.DBs[ss.DB], string(a[0]))
	}
	return resp.Int(n)
}

func parseBound(b []byte) (v float64, excl bool, ok bool) {
	if len(b) > 0 && b[0] == '(' {
		excl = true
		b = b[1:]
	}
	v, ok = ParseScore(b)
	return
}

func zrangeMembers(o *Obj, a [][]byte) ([]string, bool) {
	lo, loEx, ok1 := parseBound(a[1])
	hi, hiEx, ok2 := parseBound(a[2])
	if !ok1 || !ok2 {
		return nil, false
	}
	type ms struct {
		m string
		s float64
	}
	var all []ms
	for m, sc := range o.ZSet {
		if sc < lo || (loEx && sc == lo) || sc > hi || (hiEx && sc == hi) {
			continue
		}
		all = append(all, ms{m, sc})
	}
	sort.Slice(all, func(i, j int) bool {
		if all[i].s != all[j].s {
			return all[i].s < all[j].s
		}
		return all[i].m < all[j].m
	})
	out := make([]string, len(all))
	for i, x := range all {
		out[i] = x.m
	}
	return out, true
}

func cmdZrangebyscore(s *Server, ss *Session, a [][]byte) resp.Value {
	if len(a) < 3 {
		return wrongArgs("zrangebyscore")
	}
	o := s.lookup(ss.DB, a[0])
	if o == nil {
		return resp.Array()
	}
	if o.T != 'z' {
		return wrongType
	}
	ms, ok := zrangeMembers(o, a)
	if !ok {
		return resp.Err("ERR min or max is not a float")
	}
	withScores := false
	offset, count := 0, -1
	for i := 3; i < len(a); i++ {
		switch strings.ToUpper(string(a[i])) {
		case "WITHSCORES":
			withScores = true
		case "LIMIT":
			if i+2 < len(a) {
				o1, _ := atoi(a[i+1])
				c1, _ := atoi(a[i+2])
				offset, count = int(o1), int(c1)
				i += 2
			}
		}
	}
	if offset > len(ms) {
		offset = len(ms)
	}
	ms = ms[offset:]
	if count >= 0 && count < len(ms) {
		ms = ms[:count]
	}
	var out []resp.Value
	for _, m := range ms {
		out = append(out, resp.BulkS(m))
		if withScores {
			out = append(out, resp.BulkS(strconv.FormatFloat(o.ZSet[m], 'g', 17, 64)))
		}
	}
	return resp.Array(out...)
}

func cmdZremrangebyscore(s *Server, ss *Session, a [][]byte) resp.Value {
	if len(a) != 3 {
		return wrongArgs("zremrangebyscore")
	}
	o := s.lookup(ss.DB, a[0])
	if o == nil {
		return resp.Int(0)
	}
	if o.T != 'z' {
		return wrongType
	}
	ms, ok := zrangeMembers(o, a)
	if !ok {
		return resp.Err("ERR min or max is not a float")
	}
	for _, m := range ms {
		delete(o.ZSet, m)
	}
	if len(o.ZSet) == 0 {
		delete(s.DBs[ss.DB], string(a[0]))
	}
	return resp.Int(int64(len(ms)))
}

func cmdScript(s *Server, ss *Session, a [][]byte) resp.Value {
	if len(a) >= 2 && strings.EqualFold(string(a[0]), "load") {
		sha := ScriptSHA(a[1]) // SHA1 of the source, as Redis (clients compute it themselves for EVALSHA)
		s.Scripts[sha] = string(a[1])
		return resp.BulkS(sha)
	}
	if len(a) >= 1 && strings.EqualFold(string(a[0]), "exists") {
		out := make([]resp.Value, 0, len(a)-1)
		for _, h := range a[1:] {
			if _, ok := s.Scripts[strings.ToLower(string(h))]; ok {
				out = append(out, resp.Int(1))
			} else {
				out = append(out, resp.Int(0))
			}
		}
		return resp.Array(out...)
	}
	if len(a) >= 1 && strings.EqualFold(string(a[0]), "flush") {
		s.Scripts = map[string]string{}
	}
	return resp.OK()
}

func fnv64(b []byte) uint64 {
	var h uint64 = 1469598103934665603
	for _, c := range b {
		h ^= uint64(c)
		h *= 1099511628211
	}
	return h
}

func cmdFunction(s *Server, ss *Session, a [][]byte) resp.Value { return cmdFunctionImpl(s, ss, a) }
