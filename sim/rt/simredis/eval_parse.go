package simredis

// Mini-Lua (5.1 subset) for the Redis double: lexer and parser. See eval.go for the subset description.

import (
	"fmt"
	"strconv"
	"strings"
)

// ---------------------------------------------------------------- errors (panics inside the interpreter)

// luaSyntaxErr: the text is not Lua (Redis answers "Error compiling script").
type luaSyntaxErr struct {
	line int
	msg  string
}

// luaUnsupported: valid Lua outside the implemented subset -> "ERR simlua unsupported: ..." (inconclusive for harnesses).
type luaUnsupported struct{ msg string }

func unsupported(format string, a ...any) { panic(luaUnsupported{fmt.Sprintf(format, a...)}) }

// ---------------------------------------------------------------- lexer

type luaTokKind int

const (
	tkEOF luaTokKind = iota
	tkName
	tkNumber
	tkString
	tkKeyword
	tkOp
)

type luaTok struct {
	kind luaTokKind
	s    string
	n    float64
	line int
}

var luaKeywords = map[string]bool{"and": true, "break": true, "do": true, "else": true, "elseif": true, "end": true, "false": true,
	"for": true, "function": true, "if": true, "in": true, "local": true, "nil": true, "not": true, "or": true, "repeat": true,
	"return": true, "then": true, "true": true, "until": true, "while": true}

func luaLex(src string) []luaTok {
	var toks []luaTok
	line := 1
	i := 0
	n := len(src)
	isAlpha := func(c byte) bool { return c == '_' || (c >= 'a' && c <= 'z') || (c >= 'A' && c <= 'Z') }
	isDigit := func(c byte) bool { return c >= '0' && c <= '9' }
	// long bracket starting at i (src[i]=='['): returns level or -1
	longLevel := func(p int) int {
		if p >= n || src[p] != '[' {
			return -1
		}
		q := p + 1
		for q < n && src[q] == '=' {
			q++
		}
		if q < n && src[q] == '[' {
			return q - p - 1
		}
		return -1
	}
	readLong := func(p, level int) (string, int) {
		startLine := line
		p += level + 2
		if p < n && src[p] == '\r' {
			p++
			if p < n && src[p] == '\n' {
				p++
			}
			line++
		} else if p < n && src[p] == '\n' {
			p++
			line++
		}
		closing := "]" + strings.Repeat("=", level) + "]"
		j := strings.Index(src[p:], closing)
		if j < 0 {
			panic(luaSyntaxErr{startLine, "unfinished long string/comment"})
		}
		body := src[p : p+j]
		line += strings.Count(body, "\n")
		return body, p + j + len(closing)
	}
	for i < n {
		c := src[i]
		switch {
		case c == '\n':
			line++
			i++
		case c == ' ' || c == '\t' || c == '\r' || c == '\f' || c == '\v':
			i++
		case c == '-' && i+1 < n && src[i+1] == '-':
			i += 2
			if lv := longLevel(i); lv >= 0 {
				_, i = readLong(i, lv)
			} else {
				for i < n && src[i] != '\n' {
					i++
				}
			}
		case isAlpha(c):
			j := i
			for j < n && (isAlpha(src[j]) || isDigit(src[j])) {
				j++
			}
			w := src[i:j]
			if luaKeywords[w] {
				toks = append(toks, luaTok{kind: tkKeyword, s: w, line: line})
			} else {
				toks = append(toks, luaTok{kind: tkName, s: w, line: line})
			}
			i = j
		case isDigit(c) || (c == '.' && i+1 < n && isDigit(src[i+1])):
			j := i
			if c == '0' && j+1 < n && (src[j+1] == 'x' || src[j+1] == 'X') {
				j += 2
				for j < n && (isDigit(src[j]) || (src[j] >= 'a' && src[j] <= 'f') || (src[j] >= 'A' && src[j] <= 'F')) {
					j++
				}
				v, err := strconv.ParseUint(src[i+2:j], 16, 64)
				if err != nil || (j < n && isAlpha(src[j])) {
					panic(luaSyntaxErr{line, "malformed number near '" + src[i:j] + "'"})
				}
				toks = append(toks, luaTok{kind: tkNumber, n: float64(v), line: line})
				i = j
				break
			}
			for j < n && (isDigit(src[j]) || src[j] == '.') {
				j++
			}
			if j < n && (src[j] == 'e' || src[j] == 'E') {
				j++
				if j < n && (src[j] == '+' || src[j] == '-') {
					j++
				}
				for j < n && isDigit(src[j]) {
					j++
				}
			}
			if j < n && isAlpha(src[j]) {
				panic(luaSyntaxErr{line, "malformed number near '" + src[i:j+1] + "'"})
			}
			v, err := strconv.ParseFloat(src[i:j], 64)
			if err != nil {
				panic(luaSyntaxErr{line, "malformed number near '" + src[i:j] + "'"})
			}
			toks = append(toks, luaTok{kind: tkNumber, n: v, line: line})
			i = j
		case c == '"' || c == '\'':
			q := c
			var sb strings.Builder
			j := i + 1
			for {
				if j >= n || src[j] == '\n' {
					panic(luaSyntaxErr{line, "unfinished string"})
				}
				ch := src[j]
				if ch == q {
					j++
					break
				}
				if ch != '\\' {
					sb.WriteByte(ch)
					j++
					continue
				}
				j++
				if j >= n {
					panic(luaSyntaxErr{line, "unfinished string"})
				}
				e := src[j]
				switch e {
				case 'n':
					sb.WriteByte('\n')
				case 't':
					sb.WriteByte('\t')
				case 'r':
					sb.WriteByte('\r')
				case 'a':
					sb.WriteByte(7)
				case 'b':
					sb.WriteByte(8)
				case 'f':
					sb.WriteByte(12)
				case 'v':
					sb.WriteByte(11)
				case '\n':
					sb.WriteByte('\n')
					line++
				case '\r':
					sb.WriteByte('\n')
					line++
					if j+1 < n && src[j+1] == '\n' {
						j++
					}
				default:
					if isDigit(e) {
						v := 0
						k := 0
						for k < 3 && j < n && isDigit(src[j]) {
							v = v*10 + int(src[j]-'0')
							j++
							k++
						}
						if v > 255 {
							panic(luaSyntaxErr{line, "escape sequence too large"})
						}
						sb.WriteByte(byte(v))
						continue
					}
					sb.WriteByte(e) // \\ \" \' and any other char stand for themselves
				}
				j++
			}
			toks = append(toks, luaTok{kind: tkString, s: sb.String(), line: line})
			i = j
		case c == '[' && longLevel(i) >= 0:
			l0 := line
			body, j := readLong(i, longLevel(i))
			toks = append(toks, luaTok{kind: tkString, s: body, line: l0})
			i = j
		default:
			ops3 := []string{"..."}
			ops2 := []string{"==", "~=", "<=", ">=", ".."}
			matched := ""
			for _, o := range ops3 {
				if strings.HasPrefix(src[i:], o) {
					matched = o
				}
			}
			if matched == "" {
				for _, o := range ops2 {
					if strings.HasPrefix(src[i:], o) {
						matched = o
					}
				}
			}
			if matched == "" {
				if strings.IndexByte("+-*/%^#<>=(){}[];:,.", c) >= 0 {
					matched = string(c)
				} else {
					panic(luaSyntaxErr{line, fmt.Sprintf("unexpected symbol near '%c'", c)})
				}
			}
			toks = append(toks, luaTok{kind: tkOp, s: matched, line: line})
			i += len(matched)
		}
	}
	toks = append(toks, luaTok{kind: tkEOF, s: "<eof>", line: line})
	return toks
}

// ---------------------------------------------------------------- AST

type luaExpr interface{}
type luaStmt interface{}

type (
	eNil    struct{}
	eBool   struct{ v bool }
	eNum    struct{ v float64 }
	eStr    struct{ v string }
	eVararg struct{ line int }
	eName   struct {
		name string
		line int
	}
	eIndex struct {
		obj, key luaExpr
		line     int
	}
	eCall struct {
		fn   luaExpr
		args []luaExpr
		line int
	}
	eMethod struct {
		obj  luaExpr
		name string
		args []luaExpr
		line int
	}
	eFunc struct {
		params []string
		vararg bool
		body   []luaStmt
		line   int
	}
	eBin struct {
		op   string
		l, r luaExpr
		line int
	}
	eUn struct {
		op   string
		e    luaExpr
		line int
	}
	tblItem struct {
		key luaExpr // nil => positional
		val luaExpr
	}
	eTable struct {
		items []tblItem
		line  int
	}
	eParen struct{ e luaExpr }
)

type (
	sLocal struct {
		names []string
		exprs []luaExpr
		line  int
	}
	sAssign struct {
		targets []luaExpr
		exprs   []luaExpr
		line    int
	}
	sCall struct {
		call luaExpr
		line int
	}
	sIf struct {
		conds  []luaExpr
		blocks [][]luaStmt
		els    []luaStmt
		hasEls bool
		line   int
	}
	sWhile struct {
		cond luaExpr
		body []luaStmt
		line int
	}
	sRepeat struct {
		body []luaStmt
		cond luaExpr
		line int
	}
	sNumFor struct {
		v                 string
		start, stop, step luaExpr
		body              []luaStmt
		line              int
	}
	sGenFor struct {
		names []string
		exprs []luaExpr
		body  []luaStmt
		line  int
	}
	sDo     struct{ body []luaStmt }
	sReturn struct {
		exprs []luaExpr
		line  int
	}
	sBreak     struct{ line int }
	sLocalFunc struct {
		name string
		fn   *eFunc
		line int
	}
	sFunc struct {
		target luaExpr
		fn     *eFunc
		line   int
	}
)

// ---------------------------------------------------------------- parser

type luaParser struct {
	toks []luaTok
	p    int
}

func (p *luaParser) peek() luaTok { return p.toks[p.p] }
func (p *luaParser) next() luaTok {
	t := p.toks[p.p]
	if t.kind != tkEOF {
		p.p++
	}
	return t
}
func (p *luaParser) fail(t luaTok, what string) {
	near := t.s
	if t.kind == tkNumber {
		near = strconv.FormatFloat(t.n, 'g', -1, 64)
	}
	panic(luaSyntaxErr{t.line, fmt.Sprintf("%s near '%s'", what, near)})
}
func (p *luaParser) isOp(s string) bool {
	t := p.peek()
	return t.kind == tkOp && t.s == s
}
func (p *luaParser) isKw(s string) bool {
	t := p.peek()
	return t.kind == tkKeyword && t.s == s
}
func (p *luaParser) acceptOp(s string) bool {
	if p.isOp(s) {
		p.next()
		return true
	}
	return false
}
func (p *luaParser) acceptKw(s string) bool {
	if p.isKw(s) {
		p.next()
		return true
	}
	return false
}
func (p *luaParser) expectOp(s string) {
	if !p.acceptOp(s) {
		p.fail(p.peek(), "'"+s+"' expected")
	}
}
func (p *luaParser) expectKw(s string) {
	if !p.acceptKw(s) {
		p.fail(p.peek(), "'"+s+"' expected")
	}
}
func (p *luaParser) expectName() string {
	t := p.peek()
	if t.kind != tkName {
		p.fail(t, "<name> expected")
	}
	p.next()
	return t.s
}

func luaParse(src string) (body []luaStmt) {
	p := &luaParser{toks: luaLex(src)}
	body = p.block()
	if p.peek().kind != tkEOF {
		p.fail(p.peek(), "'<eof>' expected")
	}
	return body
}

func (p *luaParser) blockEnd() bool {
	t := p.peek()
	if t.kind == tkEOF {
		return true
	}
	if t.kind == tkKeyword {
		switch t.s {
		case "end", "else", "elseif", "until":
			return true
		}
	}
	return false
}

func (p *luaParser) block() []luaStmt {
	var out []luaStmt
	for !p.blockEnd() {
		if p.isKw("return") {
			t := p.next()
			st := &sReturn{line: t.line}
			if !p.blockEnd() && !p.isOp(";") {
				st.exprs = p.exprList()
			}
			p.acceptOp(";")
			out = append(out, st)
			break
		}
		if p.isKw("break") {
			t := p.next()
			p.acceptOp(";")
			out = append(out, &sBreak{line: t.line})
			break
		}
		out = append(out, p.statement())
		p.acceptOp(";")
	}
	return out
}

func (p *luaParser) statement() luaStmt {
	t := p.peek()
	if t.kind == tkKeyword {
		switch t.s {
		case "if":
			p.next()
			st := &sIf{line: t.line}
			c := p.expr()
			p.expectKw("then")
			st.conds = append(st.conds, c)
			st.blocks = append(st.blocks, p.block())
			for {
				if p.acceptKw("elseif") {
					c := p.expr()
					p.expectKw("then")
					st.conds = append(st.conds, c)
					st.blocks = append(st.blocks, p.block())
					continue
				}
				if p.acceptKw("else") {
					st.els = p.block()
					st.hasEls = true
				}
				p.expectKw("end")
				break
			}
			return st
		case "while":
			p.next()
			c := p.expr()
			p.expectKw("do")
			b := p.block()
			p.expectKw("end")
			return &sWhile{cond: c, body: b, line: t.line}
		case "do":
			p.next()
			b := p.block()
			p.expectKw("end")
			return &sDo{body: b}
		case "repeat":
			p.next()
			b := p.block()
			p.expectKw("until")
			c := p.expr()
			return &sRepeat{body: b, cond: c, line: t.line}
		case "for":
			p.next()
			n1 := p.expectName()
			if p.acceptOp("=") {
				st := &sNumFor{v: n1, line: t.line}
				st.start = p.expr()
				p.expectOp(",")
				st.stop = p.expr()
				if p.acceptOp(",") {
					st.step = p.expr()
				}
				p.expectKw("do")
				st.body = p.block()
				p.expectKw("end")
				return st
			}
			st := &sGenFor{names: []string{n1}, line: t.line}
			for p.acceptOp(",") {
				st.names = append(st.names, p.expectName())
			}
			p.expectKw("in")
			st.exprs = p.exprList()
			p.expectKw("do")
			st.body = p.block()
			p.expectKw("end")
			return st
		case "function":
			p.next()
			var target luaExpr = &eName{name: p.expectName(), line: t.line}
			method := false
			for {
				if p.acceptOp(".") {
					target = &eIndex{obj: target, key: &eStr{p.expectName()}, line: t.line}
					continue
				}
				if p.acceptOp(":") {
					target = &eIndex{obj: target, key: &eStr{p.expectName()}, line: t.line}
					method = true
				}
				break
			}
			fn := p.funcBody(t.line)
			if method {
				fn.params = append([]string{"self"}, fn.params...)
			}
			return &sFunc{target: target, fn: fn, line: t.line}
		case "local":
			p.next()
			if p.acceptKw("function") {
				name := p.expectName()
				return &sLocalFunc{name: name, fn: p.funcBody(t.line), line: t.line}
			}
			st := &sLocal{line: t.line}
			st.names = append(st.names, p.expectName())
			for p.acceptOp(",") {
				st.names = append(st.names, p.expectName())
			}
			if p.acceptOp("=") {
				st.exprs = p.exprList()
			}
			return st
		}
	}
	// expression statement: call or assignment
	e := p.primaryExpr()
	if p.isOp("=") || p.isOp(",") {
		st := &sAssign{line: t.line}
		st.targets = append(st.targets, e)
		for p.acceptOp(",") {
			st.targets = append(st.targets, p.primaryExpr())
		}
		p.expectOp("=")
		st.exprs = p.exprList()
		for _, tg := range st.targets {
			switch tg.(type) {
			case *eName, *eIndex:
			default:
				panic(luaSyntaxErr{t.line, "syntax error near '='"})
			}
		}
		return st
	}
	switch e.(type) {
	case *eCall, *eMethod:
		return &sCall{call: e, line: t.line}
	}
	p.fail(p.peek(), "'=' expected")
	return nil
}

func (p *luaParser) funcBody(line int) *eFunc {
	fn := &eFunc{line: line}
	p.expectOp("(")
	if !p.isOp(")") {
		for {
			if p.acceptOp("...") {
				fn.vararg = true
				break
			}
			fn.params = append(fn.params, p.expectName())
			if !p.acceptOp(",") {
				break
			}
		}
	}
	p.expectOp(")")
	fn.body = p.block()
	p.expectKw("end")
	return fn
}

func (p *luaParser) exprList() []luaExpr {
	out := []luaExpr{p.expr()}
	for p.acceptOp(",") {
		out = append(out, p.expr())
	}
	return out
}

type luaPrio struct{ l, r int }

var luaBinPrio = map[string]luaPrio{
	"+": {6, 6}, "-": {6, 6}, "*": {7, 7}, "/": {7, 7}, "%": {7, 7}, "^": {10, 9}, "..": {5, 4},
	"==": {3, 3}, "~=": {3, 3}, "<": {3, 3}, "<=": {3, 3}, ">": {3, 3}, ">=": {3, 3}, "and": {2, 2}, "or": {1, 1},
}

const luaUnaryPrio = 8

func (p *luaParser) expr() luaExpr { return p.subExpr(0) }

func (p *luaParser) subExpr(limit int) luaExpr {
	var e luaExpr
	t := p.peek()
	if (t.kind == tkKeyword && t.s == "not") || (t.kind == tkOp && (t.s == "-" || t.s == "#")) {
		p.next()
		e = &eUn{op: t.s, e: p.subExpr(luaUnaryPrio), line: t.line}
	} else {
		e = p.simpleExpr()
	}
	for {
		t := p.peek()
		if !((t.kind == tkOp) || (t.kind == tkKeyword && (t.s == "and" || t.s == "or"))) {
			break
		}
		pr, ok := luaBinPrio[t.s]
		if !ok || pr.l <= limit {
			break
		}
		p.next()
		r := p.subExpr(pr.r)
		e = &eBin{op: t.s, l: e, r: r, line: t.line}
	}
	return e
}

func (p *luaParser) simpleExpr() luaExpr {
	t := p.peek()
	switch t.kind {
	case tkNumber:
		p.next()
		return &eNum{t.n}
	case tkString:
		p.next()
		return &eStr{t.s}
	case tkKeyword:
		switch t.s {
		case "nil":
			p.next()
			return &eNil{}
		case "true":
			p.next()
			return &eBool{true}
		case "false":
			p.next()
			return &eBool{false}
		case "function":
			p.next()
			return p.funcBody(t.line)
		}
	case tkOp:
		if t.s == "..." {
			p.next()
			return &eVararg{line: t.line}
		}
		if t.s == "{" {
			return p.tableCons()
		}
	}
	return p.primaryExpr()
}

func (p *luaParser) tableCons() luaExpr {
	t := p.next() // {
	tb := &eTable{line: t.line}
	for !p.isOp("}") {
		if p.isOp("[") {
			p.next()
			k := p.expr()
			p.expectOp("]")
			p.expectOp("=")
			tb.items = append(tb.items, tblItem{key: k, val: p.expr()})
		} else if p.peek().kind == tkName && p.toks[p.p+1].kind == tkOp && p.toks[p.p+1].s == "=" {
			k := p.next().s
			p.next()
			tb.items = append(tb.items, tblItem{key: &eStr{k}, val: p.expr()})
		} else {
			tb.items = append(tb.items, tblItem{val: p.expr()})
		}
		if !p.acceptOp(",") && !p.acceptOp(";") {
			break
		}
	}
	p.expectOp("}")
	return tb
}

func (p *luaParser) primaryExpr() luaExpr {
	t := p.peek()
	var e luaExpr
	switch {
	case t.kind == tkName:
		p.next()
		e = &eName{name: t.s, line: t.line}
	case t.kind == tkOp && t.s == "(":
		p.next()
		e = &eParen{p.expr()}
		p.expectOp(")")
	default:
		p.fail(t, "unexpected symbol")
	}
	for {
		t := p.peek()
		switch {
		case t.kind == tkOp && t.s == ".":
			p.next()
			e = &eIndex{obj: e, key: &eStr{p.expectName()}, line: t.line}
		case t.kind == tkOp && t.s == "[":
			p.next()
			k := p.expr()
			p.expectOp("]")
			e = &eIndex{obj: e, key: k, line: t.line}
		case t.kind == tkOp && t.s == ":":
			p.next()
			name := p.expectName()
			e = &eMethod{obj: e, name: name, args: p.callArgs(), line: t.line}
		case (t.kind == tkOp && (t.s == "(" || t.s == "{")) || t.kind == tkString:
			e = &eCall{fn: e, args: p.callArgs(), line: t.line}
		default:
			return e
		}
	}
}

func (p *luaParser) callArgs() []luaExpr {
	t := p.peek()
	if t.kind == tkString {
		p.next()
		return []luaExpr{&eStr{t.s}}
	}
	if t.kind == tkOp && t.s == "{" {
		return []luaExpr{p.tableCons()}
	}
	if t.kind == tkOp && t.s == "(" {
		p.next()
		var args []luaExpr
		if !p.isOp(")") {
			args = p.exprList()
		}
		p.expectOp(")")
		return args
	}
	p.fail(t, "function arguments expected")
	return nil
}
