#!/bin/bash
# usage: reseed.sh ID[:ALSO] ...  re-confirm stored seeds in place
cd /verif
for spec in "$@"; do
  IFS=: read id also <<< "$spec"
  p=${id%%-*}
  rm -rf /tmp/reseed_$id; mkdir -p /tmp/reseed_$id; cp seeded/$id/patch.diff seeded/$id/demo_test.go seeded/$id/README.md /tmp/reseed_$id/
  echo "=== $id ${also:+(also $also)}"
  python3 sim/seedcheck.py /tmp/reseed_$id $p --budget ${BUDGET:-40} --keep $id ${also:+--also $also} 2>&1 | python3 -c "
import sys,json
t=sys.stdin.read()
try:
    i=t.index('{'); r=json.loads(t[i:])
    print({k:r.get(k) for k in ('confirmed','detected','rules','check_exit','sibling','suite_failures')})
except Exception as e:
    print('PARSE', e, t[-1500:])
"
  rm -rf /tmp/reseed_$id
done
