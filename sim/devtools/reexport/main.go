// reexport writes zz_reexport_gen.go into each shim package of module verifsim: every exported name of the
// real package that the shim does not define itself is re-exported as an alias (types, constants), a variable
// holding the real function, or - for grpc dial options, whose type the shim replaces - a wrapper that accepts
// the real arguments and returns the shim's empty option. Purpose: a change to /repo that uses another name of
// net / crypto/tls / os / math/rand / grpc in a substituted file still BUILDS under the overlay.
// Names that would act on the real file system (os.Link, os.Symlink, ...) are deliberately left out: a build
// failure is exit 2 (no verdict), a silently mixed real/simulated file system could be a false alarm.
//
//	cd /verif/sim/devtools/reexport && GOFLAGS=-mod=mod GOPROXY=off go1.26.8 run . /verif/sim/rt
package main

import (
	"bytes"
	"fmt"
	"go/format"
	"go/types"
	"os"
	"path/filepath"
	"sort"
	"strings"

	"golang.org/x/tools/go/packages"
)

type pair struct {
	real, shim, dir, alias string
	skip             map[string]bool
}

func set(s ...string) map[string]bool {
	m := map[string]bool{}
	for _, x := range s {
		m[x] = true
	}
	return m
}

func main() {
	root := os.Args[1]
	pairs := []pair{
		{"net", "verifsim/simnet", "simnet", "rnet", set("Pipe")},
		{"crypto/tls", "verifsim/simtls", "simtls", "rtls", set("Client", "Dialer")},
		{"os", "verifsim/simfs", "simfs", "ros", set("Chdir", "Chown", "Lchown", "Link", "Symlink", "Readlink", "CopyFS", "DirFS", "OpenInRoot", "OpenRoot", "Root", "CreateTemp", "MkdirTemp", "NewFile", "Pipe")},
		{"path/filepath", "verifsim/simfs/filepath", "simfs/filepath", "rfp", set()},
		{"math/rand", "verifsim/simrand", "simrand", "rrand", set("Int", "Int31", "Int31n", "Uint32", "Uint64", "Float32", "Perm", "Shuffle", "Seed", "NormFloat64", "ExpFloat64")},
		{"crypto/rand", "verifsim/simcrand", "simcrand", "rcrand", set("Reader", "Int", "Prime", "Text")},
		{"google.golang.org/grpc", "verifsim/simgrpc", "simgrpc", "rg", set("Dial", "NewClient", "ClientConn")},
		{"google.golang.org/grpc/credentials/insecure", "verifsim/simgrpc/insecure", "simgrpc/insecure", "rins", set()},
	}
	cfg := &packages.Config{Mode: packages.NeedTypes | packages.NeedName | packages.NeedImports | packages.NeedDeps, Dir: root}
	for _, pr := range pairs {
		ps, err := packages.Load(cfg, pr.real, pr.shim)
		if err != nil || len(ps) != 2 {
			fmt.Println("load", pr, err, len(ps))
			os.Exit(1)
		}
		var real, shim *packages.Package
		for _, p := range ps {
			if p.PkgPath == pr.real {
				real = p
			} else {
				shim = p
			}
		}
		out := filepath.Join(root, pr.dir, "zz_reexport_gen.go")
		have := map[string]bool{}
		for _, n := range shim.Types.Scope().Names() {
			o := shim.Types.Scope().Lookup(n)
			pos := shim.Fset.Position(o.Pos())
			if filepath.Base(pos.Filename) == "zz_reexport_gen.go" {
				continue
			}
			have[n] = true
		}
		imports := map[string]string{pr.real: pr.alias}
		qual := func(p *types.Package) string {
			if p.Path() == pr.real {
				return pr.alias
			}
			if a, ok := imports[p.Path()]; ok {
				return a
			}
			a := "x" + strings.NewReplacer("/", "_", ".", "_", "-", "_").Replace(p.Path())
			imports[p.Path()] = a
			return a
		}
		var types_, consts, vars, funcs, skipped []string
		sc := real.Types.Scope()
		names := sc.Names()
		sort.Strings(names)
		for _, n := range names {
			o := sc.Lookup(n)
			if !o.Exported() || have[n] {
				continue
			}
			if pr.skip[n] {
				skipped = append(skipped, n)
				continue
			}
			switch v := o.(type) {
			case *types.TypeName:
				if nt, ok := v.Type().(*types.Named); ok && nt.TypeParams().Len() > 0 {
					skipped = append(skipped, n+" (generic)")
					continue
				}
				if al, ok := v.Type().(*types.Alias); ok && al.TypeParams().Len() > 0 {
					skipped = append(skipped, n+" (generic)")
					continue
				}
				types_ = append(types_, fmt.Sprintf("%s = %s.%s", n, pr.alias, n))
			case *types.Const:
				consts = append(consts, fmt.Sprintf("%s = %s.%s", n, pr.alias, n))
			case *types.Var:
				vars = append(vars, fmt.Sprintf("%s = %s.%s", n, pr.alias, n))
			case *types.Func:
				sig := v.Type().(*types.Signature)
				if sig.TypeParams().Len() > 0 {
					skipped = append(skipped, n+" (generic)")
					continue
				}
				// grpc: functions that return the real DialOption become wrappers returning the shim's option
				if pr.real == "google.golang.org/grpc" && sig.Results().Len() == 1 && types.TypeString(sig.Results().At(0).Type(), func(p *types.Package) string { return p.Path() }) == "google.golang.org/grpc.DialOption" {
					var ps []string
					for i := 0; i < sig.Params().Len(); i++ {
						t := types.TypeString(sig.Params().At(i).Type(), qual)
						if sig.Variadic() && i == sig.Params().Len()-1 {
							t = "..." + strings.TrimPrefix(t, "[]")
						}
						ps = append(ps, fmt.Sprintf("_ %s", t))
					}
					funcs = append(funcs, fmt.Sprintf("func %s(%s) DialOption { return DialOption{} }", n, strings.Join(ps, ", ")))
					continue
				}
				vars = append(vars, fmt.Sprintf("%s = %s.%s", n, pr.alias, n))
			}
		}
		var b bytes.Buffer
		fmt.Fprintf(&b, "// Code generated by /verif/sim/devtools/reexport; DO NOT EDIT.\n\npackage %s\n\nimport (\n", shim.Name)
		var ips []string
		for p := range imports {
			ips = append(ips, p)
		}
		sort.Strings(ips)
		for _, p := range ips {
			fmt.Fprintf(&b, "\t%s %q\n", imports[p], p)
		}
		fmt.Fprintf(&b, ")\n\n// the rest of package %s, so that a change to /repo that uses one more name of it still builds\n", pr.real)
		sect := func(kw string, l []string) {
			if len(l) == 0 {
				return
			}
			fmt.Fprintf(&b, "%s (\n", kw)
			for _, x := range l {
				fmt.Fprintf(&b, "\t%s\n", x)
			}
			fmt.Fprintf(&b, ")\n\n")
		}
		sect("type", types_)
		sect("const", consts)
		sect("var", vars)
		for _, f := range funcs {
			fmt.Fprintf(&b, "%s\n", f)
		}
		if len(skipped) > 0 {
			fmt.Fprintf(&b, "\n// not re-exported: %s\n", strings.Join(skipped, ", "))
		}
		src, err := format.Source(b.Bytes())
		if err != nil {
			fmt.Println("format", pr.dir, err)
			src = b.Bytes()
		}
		if len(types_)+len(consts)+len(vars)+len(funcs) == 0 {
			os.Remove(out)
			fmt.Printf("%s: nothing to add (skipped %v)\n", pr.dir, skipped)
			continue
		}
		if err := os.WriteFile(out, src, 0o644); err != nil {
			panic(err)
		}
		fmt.Printf("%s: %d types, %d consts, %d vars/funcs, %d wrappers; skipped %v\n", pr.dir, len(types_), len(consts), len(vars), len(funcs), skipped)
	}
}
