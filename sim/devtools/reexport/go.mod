module reexport

go 1.26.0

require (
	golang.org/x/tools v0.50.0
	verifsim v0.0.0
)

require (
	golang.org/x/mod v0.41.0 // indirect
	golang.org/x/sync v0.23.0 // indirect
)

replace verifsim => ../../rt
