#!/bin/bash
cd /verif
for p in C01 C02 C03 C04 C05 C06 C07 C08 C09 C10 C12 C13 C14 C15 C16 C17 C18 C19 C20; do
  out=$(VERIF_SEED=${SEED:-20260924} ./check $p quick 2>&1); rc=$?
  echo "=== $p exit=$rc $(echo "$out" | grep '^check: ' | tail -1 | cut -c1-160)"
  echo "$out" | grep "VIOLATION\|KNOWN-FINDING\|rule=" | cut -c1-300 | head -6
done
