#!/usr/bin/env python3
# usage: dtrace.py PROP BASESEED INDEX [copies]  — runs the same run `copies` times concurrently (load => preemption), diffs traces
import sys,subprocess,json,os
prop,base,idx=sys.argv[1],sys.argv[2],sys.argv[3]
n=int(sys.argv[4]) if len(sys.argv)>4 else 24
ps=[]
for i in range(n):
    out='/tmp/sg2/dt_%d.jsonl'%i
    if os.path.exists(out): os.remove(out)
    e=dict(os.environ,SIM_PROP=prop,SIM_SEED=base,SIM_START=idx,SIM_COUNT='1',SIM_KEEPLOG='1',GOMAXPROCS='1',SIM_OUT=out)
    ps.append(subprocess.Popen(['/tmp/sg2/h.test','-test.run','^TestSim$','-test.timeout','0'],env=e,cwd='/tmp/sg2',stdout=subprocess.DEVNULL,stderr=subprocess.DEVNULL))
for p in ps: p.wait()
rs=[json.loads(open('/tmp/sg2/dt_%d.jsonl'%i).readline()) for i in range(n)]
ds={}
for i,r in enumerate(rs): ds.setdefault(r['digest'],[]).append(i)
print({k:len(v) for k,v in ds.items()})
if len(ds)>1:
    ks=list(ds)
    a=rs[ds[ks[0]][0]]['trace']; b=rs[ds[ks[1]][0]]['trace']
    for j,(x,y) in enumerate(zip(a,b)):
        if x!=y:
            print('first diff at line',j)
            for l in a[max(0,j-6):j+6]: print('A',l[:220])
            print('----')
            for l in b[max(0,j-6):j+6]: print('B',l[:220])
            break
    else: print('one is a prefix of the other', len(a), len(b))
