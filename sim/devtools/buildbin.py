#!/usr/bin/env python3
"""buildbin.py VERIFDIR REPODIR OUTDIR : build the harness test binary of VERIFDIR against REPODIR into OUTDIR/h.test
(what `check` does, kept; for comparing two harness versions run by run)."""
import os, subprocess, sys
V, R, O = [os.path.abspath(x) for x in sys.argv[1:4]]
env = dict(os.environ, GOFLAGS="-mod=mod", GOPROXY="off", GOSUMDB="off", GOTOOLCHAIN="local", CGO_ENABLED="0")
os.makedirs(O, exist_ok=True)
def sh(cmd, cwd):
    r = subprocess.run(cmd, cwd=cwd, env=env, stdout=subprocess.PIPE, stderr=subprocess.STDOUT, text=True)
    if r.returncode: print(r.stdout); sys.exit(2)
    return r.stdout
sh(["go1.26.8", "build", "-o", O + "/simgen", "."], V + "/sim/gen")
print(sh([O + "/simgen", "-repo", R, "-out", O + "/gen", "-rules", V + "/sim/gen/rules.json", "-inject", V + "/sim/inject"], R).strip())
mod = open(V + "/sim/h/go.mod").read().replace("=> ../rt", "=> " + V + "/sim/rt").replace("=> /repo", "=> " + R)
open(O + "/go.mod", "w").write(mod)
sums = "".join(open(p).read() for p in (R + "/go.sum", V + "/sim/h/go.sum") if os.path.exists(p))
open(O + "/go.sum", "w").write("".join(sorted(set(sums.splitlines(True)))))
sh(["go1.26.8", "test", "-c", "-modfile", O + "/go.mod", "-overlay", O + "/gen/overlay.json", "-o", O + "/h.test", "."], V + "/sim/h")
print("built", O + "/h.test")
