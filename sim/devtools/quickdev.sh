#!/bin/bash
# quick checks of the working-tree harness against a scratch worktree, evidence to /tmp
cd /verif
mkdir -p /tmp/ev_tmp
for p in "$@"; do
  VERIF_EVIDENCE_DIR=/tmp/ev_tmp VERIF_REPO=${R:-/tmp/wt_fix} VERIF_SEED=${SEED:-3} VERIF_BUDGET_S=${B:-25} ./check $p quick 2>&1 | grep -v "^simgen\|harness built" | cut -c1-600 | tail -4
  echo "exit=$? $p"
done
