#!/bin/bash
# usage: seedone10.sh ID:x[:ALSO] ...  (wave 10; x in a,b -> stored as s,t; ALSO = sibling property checked when the own check misses)
cd /verif
for spec in "$@"; do
  IFS=: read id x also <<< "$spec"
  k=s; [ $x = b ] && k=t
  echo "=== $id-$k ${also:+(also $also)}"
  python3 sim/seedcheck.py /tmp/seed10_$id/$x $id --budget ${BUDGET:-40} --keep $id-$k ${also:+--also $also} 2>&1 | python3 -c "
import sys,json
t=sys.stdin.read()
try:
    i=t.index('{'); r=json.loads(t[i:])
    print({k:r.get(k) for k in ('confirmed','detected','rules','check_exit','sibling','suite_failures','check_tail')})
except Exception as e:
    print('PARSE', e, t[-1500:])
"
done
