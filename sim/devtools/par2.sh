#!/bin/bash
# usage: par2.sh PROP COUNT_PER_WORKER [seed]   (uses /tmp/sg2/h.test, 12 workers)
cd /tmp/sg2 && rm -f o_*.jsonl so_*.txt
N=${NW:-12}
for i in $(seq 0 $((N-1))); do
 SIM_PROP=$1 SIM_SEED=${3:-77} SIM_START=$i SIM_STRIDE=$N SIM_COUNT=$2 GOMAXPROCS=1 SIM_STOP_ON_VIOLATION=0 SIM_OUT=/tmp/sg2/o_$i.jsonl ./h.test -test.run '^TestSim$' -test.timeout 0 >/tmp/sg2/so_$i.txt 2>&1 &
done
wait
cat /tmp/sg2/o_*.jsonl | python3 -c "
import sys,json,collections
c=collections.Counter();v=collections.Counter();ex={};f=collections.Counter();pr=collections.Counter();nt=0
for l in sys.stdin:
    r=json.loads(l); c[r['stratum']]+=1
    nt+=1 if r.get('nontrivial') else 0
    for k,x in (r.get('faults') or {}).items(): f[k]+=x
    for k,x in (r.get('probes') or {}).items(): pr[k]+=x
    if r.get('violation'):
        k=(r['stratum'],r['violation']['rule'],r['violation']['signature'][:100]); v[k]+=1; ex.setdefault(k,(r['seed'],r['violation']['msg'][:1500]))
    if r.get('inconclusive'): v[('INCONCLUSIVE',r.get('inconclusive')[:80] if isinstance(r.get('inconclusive'),str) else 'x','')]+=1
print('runs',sum(c.values()),'nontrivial',nt,dict(c)); print('faults',dict(f)); print('probes',dict(pr))
for k,n in v.most_common(): print(n,k, ex.get(k))
"
grep -l "panic\|FAIL" /tmp/sg2/so_*.txt | head -3
