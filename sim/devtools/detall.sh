#!/bin/bash
cd /verif
for p in "$@"; do
  VERIF_REPO=/tmp/wt_dev VERIF_DET_SEEDS=${N:-96} ./check selftest-determinism $p 2>&1 | grep -v "^simgen\|^check: harness" | tail -6
done
