#!/bin/bash
# usage: xcheck.sh <patch> <PROP> <runs-per-worker> [strata]   — dev harness against /tmp/wt_fix with patch applied
P=$1; PROP=$2; N=$3; S=$4
cd /tmp/wt_fix && git checkout -q -- . && git apply $P || { echo "PATCH FAILED"; exit 1; }
cd /verif/sim/h && SIM_REPO=/tmp/wt_fix SG=/tmp/sg2 /tmp/rp.sh $PROP 1 2>&1 | tail -1 | cut -c1-80
SIM_STRATA=$S NW=${NW:-8} /tmp/par2.sh $PROP $N 2>&1 | tail -3 | cut -c1-${W:-400}
cd /tmp/wt_fix && git checkout -q -- .
