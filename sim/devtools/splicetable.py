#!/usr/bin/env python3
"""Replaces the seed table between the SEEDTABLE markers of DESIGN.md by the output of sim/seedtable.py."""
import os, subprocess, sys
V = os.path.dirname(os.path.dirname(os.path.dirname(os.path.abspath(__file__))))
t = subprocess.run([sys.executable, os.path.join(V, "sim", "seedtable.py")], stdout=subprocess.PIPE, text=True).stdout
p = os.path.join(V, "DESIGN.md")
s = open(p).read()
a, b = "<!-- SEEDTABLE-BEGIN -->", "<!-- SEEDTABLE-END -->"
i, j = s.index(a) + len(a), s.index(b)
s = s[:i] + "\n" + t.rstrip("\n") + "\n" + s[j:]
open(p, "w").write(s)
print("table spliced:", t.strip().splitlines()[-1])
