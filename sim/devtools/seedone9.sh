#!/bin/bash
# usage: seedone9.sh ID:x[:ALSO] ...  (wave 9; x in a,b -> stored as q,r; ALSO = sibling property checked when the own check misses)
cd /verif
for spec in "$@"; do
  IFS=: read id x also <<< "$spec"
  k=q; [ $x = b ] && k=r
  echo "=== $id-$k ${also:+(also $also)}"
  python3 sim/seedcheck.py /tmp/seed9_$id/$x $id --budget ${BUDGET:-40} --keep $id-$k ${also:+--also $also} 2>&1 | python3 -c "
import sys,json
t=sys.stdin.read()
try:
    i=t.index('{'); r=json.loads(t[i:])
    print({k:r.get(k) for k in ('confirmed','detected','rules','check_exit','sibling','suite_failures','check_tail')})
except Exception as e:
    print('PARSE', e, t[-1500:])
"
done
