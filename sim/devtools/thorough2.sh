#!/bin/bash
cd /verif
mkdir -p /tmp/thorough_ev
for p in "$@"; do
  echo "=== $p $(date +%T)"
  VERIF_EVIDENCE_DIR=/tmp/thorough_ev VERIF_REPO=/tmp/wt_dev VERIF_SEED=${SEED:-7} VERIF_BUDGET_S=${B:-240} VERIF_WORKERS=${W:-8} nice -n 10 ./check $p thorough 2>&1 | grep -v "^simgen\|harness built" | cut -c1-400 | tail -6
done
