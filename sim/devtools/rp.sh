#!/bin/bash
# usage: [SIM_REPO=dir] [SG=scratch] rp.sh PROP COUNT   — build harness against SIM_REPO and run single worker
export GOFLAGS=-mod=mod GOPROXY=off GOSUMDB=off GOTOOLCHAIN=local
set -e
R=${SIM_REPO:-/repo}; S=${SG:-/tmp/sg1}
rm -rf $S/gen; mkdir -p $S
if [ -z "$NOBUILD" ]; then
(cd $R && /verif/sim/bin/simgen -repo $R -out $S/gen -rules /verif/sim/gen/rules.json -inject /verif/sim/inject >/dev/null)
sed "s#=> ../rt#=> /verif/sim/rt#; s#=> /repo#=> $R#" /verif/sim/h/go.mod > $S/go.mod
cat $R/go.sum /verif/sim/h/go.sum | sort -u > $S/go.sum
(cd /verif/sim/h && go1.26.8 test -c -modfile $S/go.mod -overlay $S/gen/overlay.json -o $S/h.test . )
fi
cd $S && SIM_PROP=$1 SIM_COUNT=$2 GOMAXPROCS=1 SIM_STOP_ON_VIOLATION=0 ./h.test -test.run '^TestSim$' -test.timeout 0
