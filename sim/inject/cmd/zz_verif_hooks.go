package cmd

// Injected by the verification overlay (never part of /repo): exposes the unexported renew loop of
// cmd/syncer.go to the C15 harness without starting servers, syncers or cron jobs.

import (
	"context"

	"github.com/mgtv-tech/redis-GunYu/config"
	"github.com/mgtv-tech/redis-GunYu/pkg/cluster"
	"github.com/mgtv-tech/redis-GunYu/pkg/log"
	usync "github.com/mgtv-tech/redis-GunYu/pkg/sync"
)

// VerifLoop is a SyncerCmd reduced to what clusterTicker / clusterCampaign / clusterRenew touch.
type VerifLoop struct{ sc *SyncerCmd }

func VerifNewLoop() *VerifLoop {
	return &VerifLoop{sc: &SyncerCmd{
		logger:  log.WithLogger(config.LogModuleName("[SyncerCommand] ")),
		syncers: make(map[string]syncerInfo),
	}}
}

// Ticker runs the real clusterTicker until `wait` is closed.
func (v *VerifLoop) Ticker(wait usync.WaitCloser, role cluster.ClusterRole, elect cluster.Election, input, key string) {
	v.sc.clusterTicker(wait, role, elect, input, key)
}

func (v *VerifLoop) Campaign(ctx context.Context, elect cluster.Election) (cluster.ClusterRole, error) {
	return v.sc.clusterCampaign(ctx, elect)
}

func (v *VerifLoop) Renew(ctx context.Context, elect cluster.Election) error {
	return v.sc.clusterRenew(ctx, elect)
}
