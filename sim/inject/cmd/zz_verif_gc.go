package cmd

// Injected by the verification overlay (never part of /repo): lets the C17 harness run the real stale-checkpoint
// garbage collection of cmd/syncer.go without starting a syncer.

import (
	"context"

	"github.com/mgtv-tech/redis-GunYu/config"
	"github.com/mgtv-tech/redis-GunYu/pkg/log"
)

func VerifGcStaleCheckpoint(ctx context.Context) {
	sc := &SyncerCmd{
		logger:  log.WithLogger(config.LogModuleName("[SyncerCommand] ")),
		syncers: make(map[string]syncerInfo),
	}
	sc.gcStaleCheckpoint(ctx)
}
