package cmd

// Injected by the verification overlay (never part of /repo): lets the C15 harness ask the real runCluster which
// lease (election key, contender id) an instance contends for, given its per-shard syncer configuration. runCluster
// is run with a run scope that is already closed, so it creates its election on the recording double and returns.

import (
	"context"
	"sync"

	"github.com/mgtv-tech/redis-GunYu/config"
	"github.com/mgtv-tech/redis-GunYu/pkg/cluster"
	"github.com/mgtv-tech/redis-GunYu/pkg/log"
	usync "github.com/mgtv-tech/redis-GunYu/pkg/sync"
	"github.com/mgtv-tech/redis-GunYu/syncer"
)

type verifElectionRecorder struct {
	mu   sync.Mutex
	keys []string
	ids  []string
}

type verifNoElection struct{}

func (verifNoElection) Renew(context.Context) error { return cluster.ErrNotLeader }
func (verifNoElection) Leader(context.Context) (*cluster.RoleInfo, error) {
	return nil, cluster.ErrNoLeader
}
func (verifNoElection) Campaign(context.Context) (cluster.ClusterRole, error) {
	return cluster.RoleCandidate, nil
}
func (verifNoElection) Resign(context.Context) error { return nil }

func (c *verifElectionRecorder) Close() error                                   { return nil }
func (c *verifElectionRecorder) Register(context.Context, string, string) error { return nil }
func (c *verifElectionRecorder) Discover(context.Context, string) ([]string, error) {
	return nil, nil
}
func (c *verifElectionRecorder) NewElection(ctx context.Context, electionKey string, id string) cluster.Election {
	c.mu.Lock()
	c.keys = append(c.keys, electionKey)
	c.ids = append(c.ids, id)
	c.mu.Unlock()
	return verifNoElection{}
}

// VerifElectionKeys returns, per syncer configuration, the election key and contender id runCluster uses.
func VerifElectionKeys(cfgs []syncer.SyncerConfig) (keys []string, ids []string) {
	sc := &SyncerCmd{
		logger:  log.WithLogger(config.LogModuleName("[SyncerCommand] ")),
		syncers: make(map[string]syncerInfo),
	}
	rec := &verifElectionRecorder{}
	runWait := usync.NewWaitCloser(nil)
	runWait.Close(nil)
	sc.runCluster(runWait, rec, cfgs)
	runWait.WgWait()
	return rec.keys, rec.ids
}

// VerifRunCluster runs the real runCluster of one instance until every per-shard loop has ended.
func VerifRunCluster(runWait usync.WaitCloser, cli cluster.Cluster, cfgs []syncer.SyncerConfig) {
	sc := &SyncerCmd{
		logger:  log.WithLogger(config.LogModuleName("[SyncerCommand] ")),
		syncers: make(map[string]syncerInfo),
	}
	sc.runCluster(runWait, cli, cfgs)
	runWait.WgWait()
}
