package config

// Injected by the verification overlay (never part of /repo).

// VerifFixCluster applies the real normalisation of the cluster section (lease timeout / renew interval clamps).
func VerifFixCluster(cc *ClusterConfig) error { return cc.fix() }

// VerifFixReplay applies the real normalisation of the replay section (defaults, mode, key-exists policy spelling).
func VerifFixReplay(rc *ReplayConfig) error { return rc.fix() }
