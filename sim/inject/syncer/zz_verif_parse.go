package syncer

// Injected by the verification overlay (never part of /repo): runs the two replication-stream parsers of the output
// (unexported methods) over a reader and returns what they emit, with the offsets they attach.

import (
	"bufio"

	usync "github.com/mgtv-tech/redis-GunYu/pkg/sync"
)

type VerifCmd struct {
	Cmd    string
	Args   [][]byte
	Offset int64
}

type VerifUnit struct {
	Start, End int64
	SourceTxn  bool
	Cmds       []VerifCmd
}

// VerifParseAofCommand runs (*RedisOutput).parseAofCommand until the reader ends.
func VerifParseAofCommand(ro *RedisOutput, rd *bufio.Reader, start int64) ([]VerifCmd, error) {
	wait := usync.NewWaitCloser(nil)
	buf := make(chan cmdExecution, 8)
	done := make(chan error, 1)
	go func() {
		err := ro.parseAofCommand(wait, rd, start, buf)
		close(buf)
		done <- err
	}()
	var out []VerifCmd
	for ce := range buf {
		c := VerifCmd{Cmd: ce.Cmd, Offset: ce.Offset}
		for _, a := range ce.Args {
			if b, ok := a.([]byte); ok {
				c.Args = append(c.Args, b)
			}
		}
		out = append(out, c)
	}
	return out, <-done
}

// VerifParseAofReplayUnits runs (*RedisOutput).parseAofReplayUnits until the reader ends.
func VerifParseAofReplayUnits(ro *RedisOutput, rd *bufio.Reader, start int64) ([]VerifUnit, error) {
	wait := usync.NewWaitCloser(nil)
	buf := make(chan *bisyncReplayUnit, 8)
	done := make(chan error, 1)
	go func() { done <- ro.parseAofReplayUnits(wait, rd, start, buf) }()
	var out []VerifUnit
	for u := range buf {
		vu := VerifUnit{Start: u.StartOffset, End: u.EndOffset, SourceTxn: u.SourceTxn}
		for _, c := range u.Commands {
			vu.Cmds = append(vu.Cmds, VerifCmd{Cmd: c.Cmd, Args: c.Args, Offset: c.EndOffset})
		}
		out = append(out, vu)
	}
	return out, <-done
}
