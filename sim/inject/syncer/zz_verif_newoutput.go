package syncer

// Injected by the verification overlay (never part of /repo): the tool's own start path. (*syncer).newOutput asks the
// source for its replication ids, resolves (or creates / migrates) the checkpoint name, moves the bookkeeping to the
// current id and builds the output. Unexported method of an unexported type.

import (
	"github.com/mgtv-tech/redis-GunYu/config"
	"github.com/mgtv-tech/redis-GunYu/pkg/log"
	usync "github.com/mgtv-tech/redis-GunYu/pkg/sync"
)

func VerifNewOutput(cfg SyncerConfig) (*RedisOutput, error) {
	s := &syncer{cfg: cfg, logger: log.WithLogger(config.LogModuleName("[verif] ")), wait: usync.NewWaitCloser(nil)}
	return s.newOutput()
}
