package syncer

// Injected by the verification overlay (never part of /repo): the position the output records at the end of a snapshot
// replay (unexported method), used to give an output that keeps its position in memory one.

import (
	"context"

	"github.com/mgtv-tech/redis-GunYu/config"
)

func VerifSetCheckpoint(ctx context.Context, ro *RedisOutput, runId string, offset int64) error {
	return ro.setCheckpoint(ctx, runId, offset, config.Version)
}
