package syncer

// Injected by the verification overlay (never part of /repo).

// VerifGcStep runs one synchronous collector pass on a disk-backed channel (no-op for other back ends: the memory
// back end collects on size pressure only). StoreChannel.storer is unexported, hence this accessor.
func VerifGcStep(c Channel) bool {
	if sc, ok := c.(*StoreChannel); ok {
		sc.storer.VerifGcStep()
		return true
	}
	return false
}
