package syncer

// Injected by the verification overlay (never part of /repo).

import (
	"github.com/mgtv-tech/redis-GunYu/config"
	"github.com/mgtv-tech/redis-GunYu/pkg/log"
	"github.com/mgtv-tech/redis-GunYu/pkg/redis/checkpoint"
	"github.com/mgtv-tech/redis-GunYu/pkg/redis/client"
)

// VerifResolveBisyncCheckpointName runs the real namespace resolution / recovery-format switch of
// (*syncer).resolveBisyncCheckpointNameWithClient (unexported method of an unexported type).
func VerifResolveBisyncCheckpointName(cli client.Redis, ids []string, mode config.ReplayMode, slots []uint16) (string, error) {
	s := &syncer{logger: log.WithLogger(config.LogModuleName("[verif] "))}
	return s.resolveBisyncCheckpointNameWithClient(cli, ids, checkpoint.BisyncModeFromReplayMode(mode), slots)
}
