package rdb

// Injected by the verification build only (simgen T5): exposes the unexported value-chunking
// threshold so that values split into several chunks can be explored with small datasets
// (properties C03 / C20, hook_needed). Not part of the shipped build.

// VerifSetMaxBinEntryBuffer sets the chunking threshold and returns the previous value.
func VerifSetMaxBinEntryBuffer(n int) int {
	old := maxBinEntryBuffer
	maxBinEntryBuffer = n
	return old
}

// VerifMaxBinEntryBuffer returns the current chunking threshold.
func VerifMaxBinEntryBuffer() int { return maxBinEntryBuffer }
