package store

// Injected by the verification overlay (never part of /repo): the hook the properties C05/C08 ask for.

// VerifGcStep runs ONE collector pass synchronously — exactly what the 30 s timer of gcLogJob does.
func (s *Storer) VerifGcStep() { s.gcLog() }
