#!/usr/bin/env python3
"""Regenerates /verif/MANIFEST.json from the table below (keeps the manifest valid at all times)."""
import json, os, sys

VERIF = os.path.dirname(os.path.dirname(os.path.abspath(__file__)))

ENGINE = "detsim"

# property -> (level, level text, level note, technique, design ref)
CLAIMED = {
    "C01": ("exploration",
            "Seeded search over replication streams x batching configurations x schedules (byte arrival, ticker firing, target reply latency, select priorities): the real RedisOutput replays against a Redis double and the executed business-command sequence is compared, at every quiescent point (prefix) and after a bounded drain (equality), with an independent reference 'documented removals' model. Sampling, not proof.",
            "Trusted: the Redis double (answers +OK, records (db, command, args)), the reference removal model written from the documentation, synctest's virtual clock, the overlay rewriter (select/map order made a recorded choice). Standalone target only.",
            "deterministic simulation (synctest bubble, seeded scheduler, in-memory transport) + reference-model sequence oracle",
            "DESIGN.md §3 C01"),
    "C02": ("fault_enumeration",
            "Crash/restart as a simulator action on the real RedisOutput: sampled crashes at scheduler-chosen instants plus, for short recorded runs, a crash after EVERY prefix of the target's executed request sequence (each with a drawn number of in-flight requests still executed). The real StartPoint resumes the same stream; oracles: rewind-only/no-skip/right-DB over all incarnations, no repeat in transactional mode, and the state invariant 'stored position covers only absorbed writes, SELECTs and closed transactions' at every quiescent point. Workloads are sampled; the crash position is enumerated per workload.",
            "Trusted: Redis double incl. MULTI/EXEC atomicity and 'a dying connection's open MULTI applies nothing'; process-death crash model; reference removal model; standalone target.",
            "deterministic simulation + crash-point enumeration over the target's request sequence",
            "DESIGN.md §3 C02"),
    "C07": ("exploration",
            "Same crash/restart simulation with idle-heavy strata (millisecond tickers firing before the first item after every (re)start): every value written to the offset field must be a fed command boundary or a start offset, never decrease, never be the undefined marker once a position exists, and a restart must find the stored position.",
            "Trusted: as C02. One replication id per run.",
            "deterministic simulation (virtual clock drives the three tickers) + checkpoint-write sequence oracle",
            "DESIGN.md §3 C07"),
    "C09": ("fault_enumeration",
            "Transactional mode, transaction-heavy streams (longer/shorter than batch limits, adjacent, next to SELECT), crashes sampled and enumerated after every target-request prefix: every source transaction's commands execute inside one target MULTI/EXEC together with a position >= its EXEC offset, and no stored position ever lies inside a source transaction.",
            "Trusted: as C02.",
            "deterministic simulation + crash-point enumeration + transaction-block oracle",
            "DESIGN.md §3 C09"),
    "C10": ("exploration",
            "Filter-heavy stratum of the fault-free replay simulation: drawn filter configurations (overlapping/nested/adjacent slot ranges, binary prefixes, mixed-case command lists, DB lists) x streams with adversarial keys (all brace arrangements, near-miss prefixes, reserved keys); the commands reaching the target double are compared with a direct evaluation of the configured rules (HASH_SLOT from the cluster specification). The property has no schedule/fault axis; the simulator contributes the end-to-end observation point and the seeded generator.",
            "Trusted: the harness' rule evaluator and key-position table (from the Redis command reference), Redis double. Snapshot-key filtering is exercised by the C03 harness, not here.",
            "deterministic simulation (end-to-end target log) + independent rule evaluator; input/configuration search only",
            "DESIGN.md §3 C10"),
    "C17": ("fault_enumeration",
            "Each maintenance operation (id move after failover through RedisOutput.SetRunId, checkpoint rename through UpdateCheckpoint, stale-checkpoint GC) is run on a drawn initial bookkeeping state, its target requests are counted, and it is then crashed after EVERY prefix of those requests for several rotations of the DB iteration order; after each prefix the tool's own start path must find a position not smaller than, and in the same DB as, the one held before; GC must spare the newest entry of a live id. Initial states are sampled; crash prefixes are enumerated per state.",
            "Trusted: Redis double (hash/SELECT/INFO keyspace semantics), the documented checkpoint layout used by the 'before' reader. The per-entry GC loop of strata gc/gc-live is transcribed in the harness (strata gccmd* run the real one).",
            "deterministic simulation + crash-point enumeration over each operation's request sequence x DB-order rotations",
            "DESIGN.md §3 C17"),
    "C06": ("exploration",
            "Real RedisInput.Run() with the real Channel (memory, and disk over simfs incl. reopen after restart) between a source double that implements Redis' PSYNC admission rules (current id, previous id + switch offset, backlog window) and an Output stub with a controllable stored position: a seeded product of source transitions (same id, failover, new id, trimmed backlog) x stored positions (kept, absent, back, forward, unknown id) x cache fates (kept, lost) x timing/fragmentation; per (re)connection the Output must receive the exact continuation from the stored position on the current history, or a complete source snapshot followed by the stream from its offset, byte-checked against keyed history functions.",
            "Trusted: source double (PSYNC admission written from replication.c), Output stub semantics, keyed byte functions. The real RedisOutput/target are replaced by the stub in this check.",
            "deterministic simulation with a PSYNC-speaking source double + byte-exact continuation oracle",
            "DESIGN.md §3 C06"),
    "C14": ("fault_enumeration",
            "Bidirectional incremental replay (sync, pipeline, parallel) on the real RedisOutput under sampled crashes, graceful stop/start without traffic, and, for short recorded runs, a crash after EVERY prefix of the target's request sequence (including start-up recovery's own reads/clean-up). Oracle from the property: each restart resumes at the end of a committed unit whose predecessors are all committed (sync: the last one, nothing applied twice), never backwards, one whole unit + recovery record per target transaction, nothing missing after the final drain.",
            "Trusted: Redis double (MULTI/EXEC atomicity, hash/zset/expiry semantics for the bookkeeping keys), unit derivation from the documented rules. Standalone target only.",
            "deterministic simulation + crash-point enumeration over the target's request sequence",
            "DESIGN.md §3 C14"),
    "C13": ("exploration",
            "Closed loop through two stores: two Redis doubles that also PROPAGATE (master rewrite rules) linked by two real bisync RedisOutputs, with seeded client workloads at both sites (plain/transactional, marker-looking values and keys) and seeded interleaving of client writes, byte delivery to each link, target execution and time. Each foreign write must be applied exactly once at the peer, nothing echoed, transactions kept whole, and the exchange must quiesce within a bound once clients stop.",
            "Trusted: the double's propagation rule table (documented Redis master behaviour, limited to the commands used), MULTI/EXEC semantics, lenient handling of business commands. Incremental phase only; no restarts.",
            "deterministic simulation of a two-site replication loop + exactly-once / quiescence oracle",
            "DESIGN.md §3 C13"),
    "C18": ("exploration",
            "Bidirectional replay (all three modes) against a 3-node cluster of node doubles that compute HASH_SLOT themselves and enforce single-slot transactions (CROSSSLOT at EXEC, MOVED for a wrong node): seeded unit streams with adversarial brace arrangements, with or without one unroutable unit at a drawn position. Any CROSSSLOT/MOVED answer, any partial or approximate replay of a unit, any refusal of a single-slot unit, and anything of an unroutable unit reaching a node is a violation.",
            "Trusted: node doubles (slot function from the cluster specification, own key-position table), stable topology. The property has no fault axis; the simulator contributes the independent cluster peer and the schedule of concurrent lanes.",
            "deterministic simulation against slot-checking cluster node doubles",
            "DESIGN.md §3 C18"),
    "C19": ("fault_enumeration",
            "Non-bidirectional replay through the real cluster client against node doubles whose slots migrate while batches are in flight (MOVED, ASK, importing/migrating, TRYAGAIN as scheduler-driven fault sequences, sampled): per key the executed commands must be rewind-only in source order, nothing invented, nothing silently lost (non-transactional: all executed after faults stop + drain; transactional: the stored position covers only executed commands when the restart is reported, no duplicate within a run). Two genuine defects are recorded as known findings (pipelined overtaking across a redirect; non-atomic checkpoint in cluster 'transaction' mode).",
            "Trusted: node doubles incl. migration state machine; sampling of migration schedules (not exhaustive). Known findings are matched by (rule, signature) in known_findings.json.",
            "deterministic simulation with slot-migration fault sequences + per-key order oracle",
            "DESIGN.md §3 C19"),
    "C12": ("exploration",
            "Stream-reader simulation: the generated replication stream reaches the real decoder through an io.Reader that returns scheduler-drawn fragments (1 B..64 KiB) under bufio sizes 16 B..1 MiB; for streams <= 512 B EVERY split position and EVERY cut position is enumerated; arguments must be byte-equal, reported offsets must equal the bytes consumed, a cut inside an item must yield an error and never a command; second half: every Go argument type the sender passes goes through the real target encoder into the same decoder. Only the I/O-fragmentation axis is simulated (no concurrency in this property).",
            "Trusted: the simulator's own RESP codec as reference encoder, the generator's argument rendering rules.",
            "deterministic simulation of the I/O seam (fragmenting reader) + offset/argument oracle; split positions enumerated for short streams",
            "DESIGN.md §3 C12"),
    "C15": ("exploration",
            "2-5 real redisElection contenders, each on its own connection to one lease-store double that EXECUTES the election Lua scripts with a mini-Lua interpreter, under a seeded schedule of calls, store executions, reply deliveries, lost requests/replies, resets and idle periods drawn around the TTL (virtual clock); in the renew-loop strata the real cmd clusterTicker/clusterCampaign/clusterRenew drive the calls. Oracles: sequential lease specification in store-execution order (no two holders, non-holder renew -> ErrNotLeader, foreign resign keeps the lease, expiry liveness), interval-overlap oracle from the property text, and porcupine linearizability of the recorded call history.",
            "Trusted: lease-store double incl. mini-Lua subset (a script outside the subset aborts the check with exit 2, never a verdict), millisecond store clock. Redis lease only (etcd election not exercised).",
            "deterministic simulation (virtual clock, lossy transport) + sequential lease model + porcupine history check",
            "DESIGN.md §3 C15"),
    "C05": ("exploration",
            "Real Channel for both back ends (disk cache over the in-memory simfs with channel-based mutexes, memory cache) driven by 20-60 seeded cache operations from several driver goroutines released one at a time by the scheduler (snapshot writer fed in chunks, log writer, writer replacement, SetRunId/DelRunId/Close, 1-3 readers at valid and invalid offsets that read/stall/close, collector passes, tiny segment sizes so rotation and collection happen constantly). Model = one keyed byte function per replication id + what was written so far: every delivered byte is checked, positions contiguous, valid readers eventually deliver what was written (bounded), invalidated readers deliver nothing else, IsValidOffset => NewReader works, GetRdb only offers complete snapshots, no operation hangs (bounded virtual time).",
            "Trusted: simfs (POSIX-like in-memory FS), simsync (channel-based RWMutex replacing sync in pkg/store so that a blocked lock is durably blocked), keyed byte functions. Interleaving at operation granularity (engine A); lock-level scheduling (engine B) is not built: two residual races are left to the Go runtime (DESIGN.md §5).",
            "deterministic simulation over an in-memory file system + reference byte model",
            "DESIGN.md §3 C05"),
    "C08": ("fault_enumeration",
            "A real StoreChannel on simfs executes a seeded write workload while simfs journals every mutating operation; then for EVERY journal prefix (plus torn variants of a write in flight) a fresh image is rebuilt and a fresh Storer/StoreChannel opened on it and interrogated (StartPoint, range, GetRdb, IsValidOffset around every boundary, readers at the left end, inner offsets and the snapshot), followed by single-byte alterations of closed segments with verification on. Oracle from the property: one contiguous range, every served byte equals the source byte, nothing beyond what had been written, incomplete snapshots not offered, data behind a gap not served, altered segments refused with verification on, no call hangs. Workloads sampled; crash instants enumerated per workload.",
            "Trusted: simfs journal/image reconstruction, process-death crash model (every completed FS operation persists, the one in flight persists as a prefix) as the property states; power loss is not modelled.",
            "deterministic simulation + exhaustive enumeration of crash prefixes of the FS-operation journal",
            "DESIGN.md §3 C08"),
    "C03": ("exploration",
            "A seeded logical dataset is rendered by the simulator's OWN RDB encoder (written from the format description; every encoding Redis 4.0-8.x emits for strings, lists, sets, sorted sets, hashes and streams, every ziplist/listpack integer and string width, 0xFFFF ziplists, LZF, RDB versions 6-13) and replayed by the real RedisOutput.Send into a Redis double in semantic mode under a seeded replay configuration (restore on/off, max bulk length, 1-4 parallel workers whose requests execute in scheduler-chosen order, pipe size, chunk threshold lowered through an injected setter, DB map, target version 4.0-8.2). Oracle: the target keyspace equals the LOGICAL dataset (type, content, order, bit-exact scores, stream ids, absolute expiry, expired keys gone), every RESTORE payload is byte-for-byte body + version + CRC64 verified by an independent implementation, and a fault-free replay never fails.",
            "Trusted: rdbgen encoder (unit-tested byte-exactly against real Redis dumps), the double's command semantics and RESTORE registry. Modules, hash field expiry and stream type 26 are not generated.",
            "deterministic simulation (scheduler-ordered parallel workers) + dataset-equality oracle over an independent RDB encoder",
            "DESIGN.md §3 C03"),
    "C16": ("exploration",
            "Real ReplicaLeader + real ReplicaFollower.Run + real Channels (memory and disk over simfs) joined by a simulated RPC stream whose messages the scheduler delivers one at a time or loses; seeded pairs of leader/follower cache states (fresh, prefix, equal, ahead, other id, already collected), transfer chunking through the flow-control window, stream breaks at scheduler-chosen messages, leader growth and virtual time. After faults stop the follower must hold the leader's id and catch up within a bound (or be offered leadership when ahead, cache untouched); everything its cache then serves is read back byte by byte against keyed history functions.",
            "Trusted: simgrpc stream model, simfs/simsync, keyed byte functions. Dial/credential/interceptor behaviour of gRPC is not simulated; leader-side size-triggered collection during a transfer is not exercised (a leader full resync and a leader id switch during a transfer are).",
            "deterministic simulation of the leader/follower RPC stream + byte-exact read-back oracle",
            "DESIGN.md §3 C16"),
}

CLAIMED["C04"] = ("fault_enumeration",
    "Per run one small valid checksummed snapshot (own RDB encoder, every encoding of C03) and one replay configuration (RESTORE or native commands, 1-4 workers, pipe size, chunk threshold, plain or bidirectional) are replayed once fault-free under a seeded schedule; then ONE fault per sub-evaluation is enumerated over the recorded run: truncation at every length, a single-byte alteration (three masks) at every byte the checksum covers, a target error (-ERR/-OOM/-LOADING/-READONLY) at every request, cancellation / connection loss / crash at every scheduler step — in particular after the last snapshot byte was parsed while workers still hold queued entries. Oracle: if the target does not hold the whole dataset afterwards, Send must have returned an error and the resume position must never be written (watched for 5 virtual seconds after the return); damaged input must end in an error, not a panic, a hang (60 virtual seconds) or a process death.",
    "Trusted: rdbgen encoder, the double's command semantics, the C03 dataset comparison. Snapshots are small (<= 8 KiB, <= 40 keys) so that enumeration is exhaustive for most; source loss through the real RedisInput/channel, restart of a next incarnation and cluster targets are not modelled here (C06/C02 cover resume after restart).",
    "deterministic simulation + exhaustive single-fault enumeration over a recorded run (truncation lengths, byte alterations, target errors, cancel/sever/crash steps)",
    "DESIGN.md §3 C04")
CLAIMED["C20"] = ("exploration",
    "The C03 replay into a PRE-POPULATED target: a drawn subset of the snapshot's keys already exists with an old value (same type overlapping / disjoint, another type, identical; with or without expiry) plus bystander keys; key-exists policy replace / ignore / error; RESTORE and native-command paths including the too-old-target fallback, hash values split into several chunks, 1-4 workers, plain and bidirectional replay. Oracle from the property text: replace => the target equals the snapshot (any residue is a violation); ignore => every pre-existing key keeps value, type and expiry and NO successful write was executed on it, and the replay does not fail because of it; error => the replay stops with an error before that key is modified; bystanders untouched.",
    "Trusted: rdbgen, the double's semantics (RESTORE BUSYKEY/REPLACE, MULTI/EXEC, WRONGTYPE), request log attribution of writes to keys. Cluster targets, ReplaceHashTag and bidirectional replay with more than one worker are not generated.",
    "deterministic simulation (scheduler-ordered parallel workers) + per-key before/after and write-log oracle",
    "DESIGN.md §3 C20")


# what later mutation waves added to a check (appended to its level text)
ADDENDA = {
    "C05": " A quarter of the runs have statement-level yield points live (overlay transformation T6): preemption, and in half of them descheduling, between adjacent non-blocking statements of the cache code.",
    "C15": " Strata twostore*: a standalone input with two addresses (a second, healthy store double), the first address refuses new connections for drawn stretches; oracle 1 per store, the interval oracle over both. Strata refusal*: the store stays up and refuses writes (-OOM / -READONLY, also inside the scripts): a refused call changes nothing and nobody is told leader, and whoever is told leader has a lease stored for it.",
    "C09": " A sixth of the transaction-heavy runs carry a source transaction with a command larger than the client's 1 MiB write buffer.",
    "C01": " A quarter of the runs continue a replay from a stored position (resumed start in a database the rules admit). Stratum burst: 150-400 plain commands under batch limits of 129-200 commands, i.e. batches larger than one exchange window of the client.",
    "C02": " Further restart kinds: in-process restart after a connection loss, graceful stop, target-reset (the target drops the connections and stays reachable) and target-restart (it then refuses keyspace requests with -LOADING for a drawn stretch of the tool's next start: a refused position scan is an error and a retry, never 'nothing stored'); half of the runs go through the tool's whole start path (real UpdateCheckpoint, SetCheckpoint at the end of a full sync); strata with output filters, chained database maps and two databases.",
    "C06": " Disk and memory cache; epoch 1 has connection losses of its own, sources that were just started (first snapshot at offset 0), carried positions, and the fault 'source connection lost while the target cannot be reached' (the start-point request and its retries fail, the input gives up and is started again); stratum real-switch asks the real RedisOutput.",
    "C07": " The run-id stratum (real SetRunId / ResetRunId with connection resets after every request of the move, and a full resync under the id already followed) and the target-restart fault of the crash harness are part of it.",
    "C08": " Also: rule stale_run_served on the final image (an older run is not served while newer data lie beyond a gap), offsets shortly below powers of ten, alterations applied while the cache is open after a first pass of verifying readers, length alterations of sealed segments, sources without snapshot checksum; under verification 'refused' means an error, not a reader that stalls.",
    "C10": " A quarter of the incremental runs continue from a stored position; a snapshot stratum applies the rules on the full-sync path.",
    "C14": " Standalone strata also have target-reset while a unit is in flight, full resync under the same id and fail-over with +CONTINUE; cluster strata (3 nodes) add node stalls, single-connection resets, in-process restarts; the recovery-format switch runs as stratum modeswitch on histories that include those events.",
    "C16": " Leader events while followers are served (full resync, id switch, cache restart), followers more than 10 MiB behind, channel.verifyCrc drawn per run, lock-park mode; after a leader id switch the follower's copy under the old id is checked at every quiescent point. A quarter of the runs have statement-level yield points live (overlay transformation T6): preemption, and in half of them descheduling, between adjacent non-blocking statements of the replica and cache code.",
    "C17": " Also enumerated per operation: from its k-th request on the target is out of memory (denyoom commands refused, deletions and reads served). Strata gccmd* run the real cmd-level collector (also concurrent with a fail-over, or with a source shard that takes no connection), newoutput the tool's whole start path over a chain of fail-overs, modeswitch the bidirectional recovery-format switch on histories produced by the real replay (with crashes, full resyncs and fail-overs).",
    "C18": " Keys include the empty string and keys whose hash tag stands far behind byte 512; filtered strata; commands whose key position only the target knows; strata migrating-*: slots of the unit keys migrate during the replay (a run is judged up to the first error the link reports; the cluster double records commands an importing node serves under ASKING for keys the owner never redirected).",
    "C13": " Half of the incremental runs keep a minimal existence model at both sites, so that a mirrored DEL of a key that is gone at the peer is a no-op there and is left out of the transaction the peer's master propagates (omission of no-op business commands).",
    "C20": " A fifth of the plain runs answer one request with a 'not ready' error (BUSY / LOADING / TRYAGAIN): a replay that stops is judged by what the policies promise about keys that were there before, one that goes on by the whole oracle; the bidirectional stratum has a racing client between probe and transaction.",
}

NOT_APPLICABLE = {
    "C11": "pure function of a byte string: no schedule, clock, fault, I/O or second party can influence it, so deterministic simulation has nothing to decide (DESIGN.md §4); slot disagreements surface as a by-product in the C10/C18 oracles which compute HASH_SLOT independently",
}

PENDING_REASON = "check not built yet in this session (design in DESIGN.md §3); not claimed until its harness exists and passes the determinism self-test"

ALL = ["C%02d" % i for i in range(1, 21)]


def main():
    checks = []
    for pid in ALL:
        if pid not in CLAIMED:
            continue
        level, text, note, tech, ref = CLAIMED[pid]
        text += ADDENDA.get(pid, "")
        checks.append({
            "property_id": pid,
            "quick_cmd": "./check %s quick" % pid,
            "thorough_cmd": "./check %s thorough" % pid,
            "evidence_file": "/verif/evidence/%s.json" % pid,
            "replay_cmd_template": "./check replay {path}",
            "engine": ENGINE,
            "level_claimed": {"category": level, "text": text, "design_ref": ref},
            "level_note": note,
            "technique": tech,
        })
    na = []
    for pid in ALL:
        if pid in CLAIMED:
            continue
        na.append({"property_id": pid, "reason": NOT_APPLICABLE.get(pid, PENDING_REASON)})
    m = {
        "version": 1,
        "setup_cmd": "./check build",
        "hooks": {
            "guard": "none (no hook commits: all seams are applied at build time through `go test -overlay`, derived from /repo's current working tree by sim/gen)",
            "enable": "./check <property> <tier> runs sim/gen (import substitution net/tls/os/rand, deterministic select + map range, injected accessor files) and builds the harness with go1.26.8 test -c -overlay",
            "baseline_off_cmd": "cd /repo && go build ./... && go test -vet=off -count=1 -timeout 25m ./...",
            "source_commits": [],
            "add_only": True,
        },
        "engines": [{
            "name": ENGINE,
            "path": "/verif/sim",
            "serves_properties": sorted(CLAIMED.keys()),
            "kind_free_text": "deterministic simulation with fault injection: real repository code in a testing/synctest bubble (virtual clock), simulator-owned transport/disk/RPC, Redis doubles, seeded choice vector deciding workload, schedule and faults; replay files + minimiser",
        }],
        "checks": checks,
        "not_applicable": na,
        "notes": "Exit codes: 0 held, 1 VIOLATION, 2 build/watchdog/harness trouble (never a verdict). VERIF_SEED selects the base seed. Known findings: /verif/known_findings.json.",
    }
    json.dump(m, open(os.path.join(VERIF, "MANIFEST.json"), "w"), indent=1)
    print("MANIFEST.json: %d checks, %d not claimed" % (len(checks), len(na)))


if __name__ == "__main__":
    main()
