// simgen derives, from /repo's CURRENT working tree, the overlay that puts the real sources under the
// simulator: import substitution (T1), deterministic select (T2), deterministic map range (T3) and
// injected in-package accessor files (T5). It never writes into /repo.
//
//	simgen -repo /repo -out <scratch dir> -inject /verif/sim/inject -rules /verif/sim/gen/rules.json
package main

import (
	"bytes"
	"encoding/json"
	"flag"
	"fmt"
	"go/ast"
	"go/parser"
	"go/token"
	"go/types"
	"os"
	"path/filepath"
	"sort"
	"strings"

	"golang.org/x/tools/go/packages"
)

type Rules struct {
	// Imports: repo-relative file path or directory prefix (ending in "/") -> old import path -> new import path
	Imports map[string]map[string]string `json:"imports"`
	// SkipDirs: repo-relative directories not transformed
	SkipDirs []string `json:"skip_dirs"`
	// NoSelect: files whose selects are left alone
	NoSelect []string `json:"no_select"`
	// PinSelect: files whose selects are always polled in source order (never permuted by the salt)
	PinSelect []string `json:"pin_select"`
	// StmtYield: files (or directories, trailing slash) in which every statement of every function body is preceded by a
	// yield point simrt.StmtYield(site) - a preemption point between adjacent non-blocking statements (T6). A no-op
	// unless the run opted in.
	StmtYield []string `json:"stmt_yield"`
}

type Stats struct {
	SelectsRewritten int      `json:"selects_rewritten"`
	SelectsSkipped   []string `json:"selects_skipped"`
	RangesRewritten  int      `json:"ranges_rewritten"`
	RangesSkipped    []string `json:"ranges_skipped"`
	ImportsReplaced  int      `json:"imports_replaced"`
	FilesOverlaid    int      `json:"files_overlaid"`
	Injected         []string `json:"injected"`
	GoStmts          int      `json:"go_statements"`
	StmtYields       int      `json:"statement_yield_points"`
	SyncMapRange     []string `json:"syncmap_range_sites"`
}

type edit struct {
	start, end int
	text       string
}

var stats Stats

func main() {
	repo := flag.String("repo", "/repo", "repository root")
	out := flag.String("out", "", "scratch output dir")
	inject := flag.String("inject", "", "dir with injected files (mirrors repo layout)")
	rulesPath := flag.String("rules", "", "rules json")
	flag.Parse()
	if *out == "" {
		fatal("need -out")
	}
	os.MkdirAll(*out, 0o755)
	var rules Rules
	if *rulesPath != "" {
		b, err := os.ReadFile(*rulesPath)
		if err != nil {
			fatal("%v", err)
		}
		if err := json.Unmarshal(b, &rules); err != nil {
			fatal("rules: %v", err)
		}
	}

	for _, f := range rules.PinSelect {
		pinSelect[f] = true
	}
	cfg := &packages.Config{
		Mode: packages.NeedName | packages.NeedFiles | packages.NeedCompiledGoFiles | packages.NeedSyntax |
			packages.NeedTypes | packages.NeedTypesInfo | packages.NeedImports | packages.NeedDeps,
		Dir:   *repo,
		Tests: false,
		Env:   append(os.Environ(), "GOFLAGS=-mod=mod", "GOPROXY=off", "GOSUMDB=off"),
	}
	pkgs, err := packages.Load(cfg, "./...")
	if err != nil {
		fatal("load: %v", err)
	}
	overlay := map[string]string{}
	pkgDirs := map[string]string{} // dir -> package name for helper injection

	sort.Slice(pkgs, func(i, j int) bool { return pkgs[i].PkgPath < pkgs[j].PkgPath })
	for _, p := range pkgs {
		if len(p.Errors) > 0 {
			for _, e := range p.Errors {
				fmt.Fprintf(os.Stderr, "simgen: package error: %v\n", e)
			}
			fatal("package %s has errors", p.PkgPath)
		}
		for i, f := range p.Syntax {
			path := p.CompiledGoFiles[i]
			if !strings.HasPrefix(path, *repo+"/") {
				continue
			}
			rel := strings.TrimPrefix(path, *repo+"/")
			if skip(rel, rules.SkipDirs) {
				continue
			}
			src, err := os.ReadFile(path)
			if err != nil {
				fatal("%v", err)
			}
			nb, changed, needHelpers := transform(p, f, rel, src, &rules)
			if changed {
				dst := filepath.Join(*out, strings.ReplaceAll(rel, "/", "__"))
				if err := os.WriteFile(dst, nb, 0o644); err != nil {
					fatal("%v", err)
				}
				overlay[path] = dst
				stats.FilesOverlaid++
				if needHelpers {
					pkgDirs[filepath.Dir(path)] = p.Name
				}
			}
		}
	}
	// helper file per package that had selects rewritten
	for dir, name := range pkgDirs {
		rel := strings.TrimPrefix(dir, *repo+"/")
		dst := filepath.Join(*out, strings.ReplaceAll(rel, "/", "__")+"__zz_simsel.go")
		os.WriteFile(dst, []byte(fmt.Sprintf(`package %s

func __simZeroOf[C ~chan T | ~<-chan T, T any](c C) (z T) { return }
func __simSendVal[C ~chan T | ~chan<- T, T any](c C, v T) T { return v }
`, name)), 0o644)
		overlay[filepath.Join(dir, "zz_simsel.go")] = dst
	}
	// injected files
	if *inject != "" {
		filepath.Walk(*inject, func(p string, info os.FileInfo, err error) error {
			if err != nil || info.IsDir() || !strings.HasSuffix(p, ".go") {
				return nil
			}
			rel, _ := filepath.Rel(*inject, p)
			overlay[filepath.Join(*repo, rel)] = p
			stats.Injected = append(stats.Injected, rel)
			return nil
		})
	}
	j, _ := json.MarshalIndent(map[string]any{"Replace": overlay}, "", " ")
	os.WriteFile(filepath.Join(*out, "overlay.json"), j, 0o644)
	sort.Strings(stats.SelectsSkipped)
	sort.Strings(stats.RangesSkipped)
	sj, _ := json.MarshalIndent(stats, "", " ")
	os.WriteFile(filepath.Join(*out, "simgen_stats.json"), sj, 0o644)
	fmt.Printf("simgen: files=%d selects=%d (skipped %d) ranges=%d (skipped %d) imports=%d injected=%d\n",
		stats.FilesOverlaid, stats.SelectsRewritten, len(stats.SelectsSkipped), stats.RangesRewritten, len(stats.RangesSkipped), stats.ImportsReplaced, len(stats.Injected))
}

func fatal(f string, a ...any) {
	fmt.Fprintf(os.Stderr, "simgen: "+f+"\n", a...)
	os.Exit(2)
}

func skip(rel string, dirs []string) bool {
	if strings.HasPrefix(rel, "tests/") {
		return true
	}
	for _, d := range dirs {
		if strings.HasPrefix(rel, d) {
			return true
		}
	}
	return false
}

func importRules(rel string, r *Rules) map[string]string {
	out := map[string]string{}
	for k, m := range r.Imports {
		if k == rel || (strings.HasSuffix(k, "/") && strings.HasPrefix(rel, k)) {
			for a, b := range m {
				out[a] = b
			}
		}
	}
	return out
}

func transform(p *packages.Package, f *ast.File, rel string, src []byte, rules *Rules) (out []byte, changed bool, needHelpers bool) {
	fset := p.Fset
	off := func(pos token.Pos) int { return fset.Position(pos).Offset }
	var edits []edit
	needSimrt := false

	// ---- T1 imports
	ir := importRules(rel, rules)
	for _, imp := range f.Imports {
		path := strings.Trim(imp.Path.Value, "\"")
		if np, ok := ir[path]; ok {
			name := ""
			if imp.Name != nil {
				name = imp.Name.Name
			} else {
				name = path[strings.LastIndex(path, "/")+1:]
			}
			start := off(imp.Pos())
			end := off(imp.End())
			edits = append(edits, edit{start, end, fmt.Sprintf("%s %q", name, np)})
			stats.ImportsReplaced++
		}
	}

	// ---- T3 map ranges
	rangeID := 0
	var labelled = map[ast.Stmt]bool{}
	ast.Inspect(f, func(n ast.Node) bool {
		if l, ok := n.(*ast.LabeledStmt); ok {
			labelled[l.Stmt] = true
		}
		if g, ok := n.(*ast.GoStmt); ok {
			_ = g
			stats.GoStmts++
		}
		if c, ok := n.(*ast.CallExpr); ok {
			if sel, ok := c.Fun.(*ast.SelectorExpr); ok && sel.Sel.Name == "Range" {
				if tv, ok := p.TypesInfo.Types[sel.X]; ok && strings.Contains(tv.Type.String(), "sync.Map") {
					stats.SyncMapRange = append(stats.SyncMapRange, fmt.Sprintf("%s:%d", rel, fset.Position(c.Pos()).Line))
				}
			}
		}
		return true
	})
	ast.Inspect(f, func(n ast.Node) bool {
		rs, ok := n.(*ast.RangeStmt)
		if !ok {
			return true
		}
		tv, ok := p.TypesInfo.Types[rs.X]
		if !ok {
			return true
		}
		if _, isMap := tv.Type.Underlying().(*types.Map); !isMap {
			return true
		}
		site := fmt.Sprintf("%s:%d", rel, fset.Position(rs.Pos()).Line)
		if !simpleExpr(rs.X) {
			stats.RangesSkipped = append(stats.RangesSkipped, site+" (non-trivial map expression)")
			return true
		}
		rangeID++
		id := rangeID
		mtxt := string(src[off(rs.X.Pos()):off(rs.X.End())])
		kv := fmt.Sprintf("__mk%d", id)
		vv := fmt.Sprintf("__mv%d", id)
		okv := fmt.Sprintf("__mok%d", id)
		tok := ":="
		if rs.Tok == token.ASSIGN {
			tok = "="
		}
		var bind strings.Builder
		fmt.Fprintf(&bind, "\n%s, %s := (%s)[%s]\nif !%s {\ncontinue\n}\n_ = %s\n", vv, okv, mtxt, kv, okv, vv)
		if rs.Key != nil {
			kt := string(src[off(rs.Key.Pos()):off(rs.Key.End())])
			if kt != "_" {
				fmt.Fprintf(&bind, "%s %s %s\n", kt, tok, kv)
				if rs.Tok == token.DEFINE {
					fmt.Fprintf(&bind, "_ = %s\n", kt)
				}
			}
		}
		if rs.Value != nil {
			vt := string(src[off(rs.Value.Pos()):off(rs.Value.End())])
			if vt != "_" {
				fmt.Fprintf(&bind, "%s %s %s\n", vt, tok, vv)
				if rs.Tok == token.DEFINE {
					fmt.Fprintf(&bind, "_ = %s\n", vt)
				}
			}
		}
		head := fmt.Sprintf("for _, %s := range simrt__.SortedKeys(%q, %s) ", kv, site, mtxt)
		edits = append(edits, edit{off(rs.Pos()), off(rs.Body.Lbrace), head})
		edits = append(edits, edit{off(rs.Body.Lbrace) + 1, off(rs.Body.Lbrace) + 1, bind.String()})
		needSimrt = true
		stats.RangesRewritten++
		return true
	})

	// does the file have multi-case selects?
	hasSel := false
	noSel := false
	for _, ns := range rules.NoSelect {
		if ns == rel {
			noSel = true
		}
	}
	if !noSel {
		ast.Inspect(f, func(n ast.Node) bool {
			if s, ok := n.(*ast.SelectStmt); ok && commCount(s) >= 2 {
				hasSel = true
			}
			return !hasSel
		})
	}
	if hasSel {
		needSimrt = true
	}
	if needSimrt {
		// add the import right after the package clause
		pos := off(f.Name.End())
		edits = append(edits, edit{pos, pos, "\n\nimport simrt__ \"verifsim/simrt\"\n"})
		edits = append(edits, edit{len(src), len(src), "\nvar _ = simrt__.SelectOrder\n"})
	}
	if len(edits) == 0 {
		if nb := insertStmtYields(rel, src, rules); len(nb) != len(src) {
			if _, err := parser.ParseFile(token.NewFileSet(), rel, nb, 0); err != nil {
				os.WriteFile("/tmp/simgen_bad.go", nb, 0o644)
				fatal("rewritten %s does not parse: %v (see /tmp/simgen_bad.go)", rel, err)
			}
			return nb, true, false
		}
		return src, false, false
	}
	sort.Slice(edits, func(i, j int) bool {
		if edits[i].start != edits[j].start {
			return edits[i].start > edits[j].start
		}
		return edits[i].end > edits[j].end
	})
	b := append([]byte(nil), src...)
	for _, e := range edits {
		nb := append([]byte(nil), b[:e.start]...)
		nb = append(nb, e.text...)
		nb = append(nb, b[e.end:]...)
		b = nb
	}
	// ---- T2 selects (text level, iterative, innermost first)
	if hasSel {
		counter := 0
		for {
			nb, ok := rewriteSelectOnce(rel, b, &counter)
			if !ok {
				break
			}
			b = nb
			needHelpers = true
		}
	}
	// ---- T6 statement-level yield points (last: works on the text the other rewrites produced)
	b = insertStmtYields(rel, b, rules)
	// sanity: must parse
	if _, err := parser.ParseFile(token.NewFileSet(), rel, b, 0); err != nil {
		os.WriteFile("/tmp/simgen_bad.go", b, 0o644)
		fatal("rewritten %s does not parse: %v (see /tmp/simgen_bad.go)", rel, err)
	}
	return b, true, needHelpers
}

func simpleExpr(e ast.Expr) bool {
	switch x := e.(type) {
	case *ast.Ident:
		return true
	case *ast.SelectorExpr:
		return simpleExpr(x.X)
	case *ast.ParenExpr:
		return simpleExpr(x.X)
	case *ast.StarExpr:
		return simpleExpr(x.X)
	}
	return false
}

func commCount(s *ast.SelectStmt) int {
	cnt := 0
	for _, c := range s.Body.List {
		if c.(*ast.CommClause).Comm != nil {
			cnt++
		}
	}
	return cnt
}

// ---------------------------------------------------------------- T2

func isGenerated(s *ast.SelectStmt) bool {
	for _, c := range s.Body.List {
		cc := c.(*ast.CommClause)
		if len(cc.Body) > 0 {
			if as, ok := cc.Body[0].(*ast.AssignStmt); ok && len(as.Lhs) == 1 {
				if id, ok := as.Lhs[0].(*ast.Ident); ok && strings.HasPrefix(id.Name, "__sidx") {
					return true
				}
			}
		}
	}
	return false
}

func isSkipped(s *ast.SelectStmt, b []byte, fset *token.FileSet) bool {
	// a select we decided to leave alone is marked with a leading comment on its line
	o := fset.Position(s.Pos()).Offset
	return o >= 13 && string(b[o-13:o]) == "/*simskip*/  "
}

func hasLabelDef(n ast.Node) bool {
	found := false
	ast.Inspect(n, func(x ast.Node) bool {
		if _, ok := x.(*ast.LabeledStmt); ok {
			found = true
		}
		return !found
	})
	return found
}

func findCandidate(f *ast.File, b []byte, fset *token.FileSet) (sel *ast.SelectStmt, label *ast.LabeledStmt) {
	var stack []ast.Node
	ast.Inspect(f, func(n ast.Node) bool {
		if n == nil {
			stack = stack[:len(stack)-1]
			return true
		}
		stack = append(stack, n)
		if sel != nil {
			return true
		}
		s, ok := n.(*ast.SelectStmt)
		if !ok || isGenerated(s) || isSkipped(s, b, fset) || commCount(s) < 2 {
			return true
		}
		inner := false
		ast.Inspect(s.Body, func(m ast.Node) bool {
			if m2, ok := m.(*ast.SelectStmt); ok && m2 != s && !isGenerated(m2) && !isSkipped(m2, b, fset) && commCount(m2) >= 2 {
				inner = true
			}
			return !inner
		})
		if !inner {
			sel = s
			if len(stack) >= 2 {
				if l, ok := stack[len(stack)-2].(*ast.LabeledStmt); ok {
					label = l
				}
			}
		}
		return true
	})
	return
}

var pinSelect = map[string]bool{}

func rewriteSelectOnce(rel string, b []byte, counter *int) ([]byte, bool) {
	fset := token.NewFileSet()
	f, err := parser.ParseFile(fset, rel, b, parser.ParseComments)
	if err != nil {
		os.WriteFile("/tmp/simgen_bad.go", b, 0o644)
		fatal("%s: %v (see /tmp/simgen_bad.go)", rel, err)
	}
	sel, label := findCandidate(f, b, fset)
	if sel == nil {
		return b, false
	}
	src := func(n ast.Node) string {
		return string(b[fset.Position(n.Pos()).Offset:fset.Position(n.End()).Offset])
	}
	site := fmt.Sprintf("%s:%d", rel, fset.Position(sel.Pos()).Line)
	if hasLabelDef(sel.Body) {
		// cannot move a label definition into a switch safely: leave alone, mark.
		stats.SelectsSkipped = append(stats.SelectsSkipped, site+" (label defined inside)")
		o := fset.Position(sel.Pos()).Offset
		nb := append([]byte(nil), b[:o]...)
		nb = append(nb, "/*simskip*/  "...)
		nb = append(nb, b[o:]...)
		return nb, true
	}
	*counter++
	id := *counter
	var pre, polls, blocking, sw strings.Builder
	n := 0
	idx := fmt.Sprintf("__sidx%d", id)
	bodyOf := func(cc *ast.CommClause) string {
		if len(cc.Body) == 0 {
			return ""
		}
		return string(b[fset.Position(cc.Body[0].Pos()).Offset:fset.Position(cc.Body[len(cc.Body)-1].End()).Offset])
	}
	var defaultBody *ast.CommClause
	for _, c := range sel.Body.List {
		cc := c.(*ast.CommClause)
		if cc.Comm == nil {
			defaultBody = cc
			continue
		}
		i := n
		n++
		cv := fmt.Sprintf("__c%d_%d", id, i)
		var commTxt, bind string
		switch s := cc.Comm.(type) {
		case *ast.SendStmt:
			fmt.Fprintf(&pre, "%s := %s\n", cv, src(s.Chan))
			vv := fmt.Sprintf("__v%d_%d", id, i)
			fmt.Fprintf(&pre, "%s := __simSendVal(%s, %s)\n", vv, cv, src(s.Value))
			commTxt = fmt.Sprintf("%s <- %s", cv, vv)
		case *ast.ExprStmt:
			u := s.X.(*ast.UnaryExpr)
			fmt.Fprintf(&pre, "%s := %s\n", cv, src(u.X))
			commTxt = fmt.Sprintf("<-%s", cv)
		case *ast.AssignStmt:
			u := s.Rhs[0].(*ast.UnaryExpr)
			fmt.Fprintf(&pre, "%s := %s\n", cv, src(u.X))
			xv := fmt.Sprintf("__x%d_%d", id, i)
			fmt.Fprintf(&pre, "%s := __simZeroOf(%s)\n_ = %s\n", xv, cv, xv)
			lhs := []string{}
			allBlank := true
			for _, l := range s.Lhs {
				t := src(l)
				lhs = append(lhs, t)
				if t != "_" {
					allBlank = false
				}
			}
			tok := s.Tok.String()
			if allBlank {
				tok = "="
			}
			if len(s.Lhs) == 2 {
				ok := fmt.Sprintf("__ok%d_%d", id, i)
				fmt.Fprintf(&pre, "var %s bool\n_ = %s\n", ok, ok)
				commTxt = fmt.Sprintf("%s, %s = <-%s", xv, ok, cv)
				bind = fmt.Sprintf("%s %s %s, %s\n", strings.Join(lhs, ", "), tok, xv, ok)
			} else {
				commTxt = fmt.Sprintf("%s = <-%s", xv, cv)
				bind = fmt.Sprintf("%s %s %s\n", lhs[0], tok, xv)
			}
			if s.Tok == token.DEFINE {
				for _, l := range lhs {
					if l != "_" {
						bind += fmt.Sprintf("_ = %s\n", l)
					}
				}
			}
		default:
			fatal("%s: unknown comm clause", site)
		}
		fmt.Fprintf(&polls, "case %d:\nselect {\ncase %s:\n%s = %d\ndefault:\n}\n", i, commTxt, idx, i)
		fmt.Fprintf(&blocking, "case %s:\n%s = %d\n", commTxt, idx, i)
		fmt.Fprintf(&sw, "case %d:\n%s%s\n", i, bind, bodyOf(cc))
	}
	if defaultBody != nil {
		fmt.Fprintf(&blocking, "default:\n%s = %d\n", idx, n)
		fmt.Fprintf(&sw, "case %d:\n%s\n", n, bodyOf(defaultBody))
	}
	var out strings.Builder
	out.WriteString("{\n")
	out.WriteString(pre.String())
	fmt.Fprintf(&out, "%s := -1\n", idx)
	orderFn := "SelectOrder"
	if pinSelect[rel] {
		orderFn = "SelectOrderPinned"
	}
	fmt.Fprintf(&out, "for _, __i := range simrt__."+orderFn+"(%q, %d) {\nswitch __i {\n%s}\nif %s >= 0 {\nbreak\n}\n}\n", site, n, polls.String(), idx)
	fmt.Fprintf(&out, "if %s < 0 {\nselect {\n%s}\n}\n", idx, blocking.String())
	lab := ""
	if label != nil {
		lab = label.Label.Name + ":\n"
	}
	fmt.Fprintf(&out, "%sswitch %s {\n%sdefault:\npanic(\"simsel: unreachable\")\n}\n}", lab, idx, sw.String())

	var start, end int
	if label != nil {
		start = fset.Position(label.Pos()).Offset
		end = fset.Position(label.End()).Offset
	} else {
		start = fset.Position(sel.Pos()).Offset
		end = fset.Position(sel.End()).Offset
	}
	nb := append([]byte{}, b[:start]...)
	nb = append(nb, out.String()...)
	nb = append(nb, b[end:]...)
	stats.SelectsRewritten++
	return nb, true
}

var _ = bytes.Compare

// insertStmtYields (T6) puts `simrt__.StmtYield(<site>)` in front of every statement of every statement list inside
// function bodies of the files rules.StmtYield names. The site is a hash of file and ordinal of the statement, a
// compile-time constant. Inserting a call statement in front of a statement never changes the meaning of the list
// (fallthrough stays last, labels keep their statement, no declaration is jumped over that was not jumped over before).
func insertStmtYields(rel string, b []byte, rules *Rules) []byte {
	on := false
	for _, k := range rules.StmtYield {
		if k == rel || (strings.HasSuffix(k, "/") && strings.HasPrefix(rel, k)) {
			on = true
		}
	}
	if !on || strings.HasSuffix(rel, "_test.go") {
		return b
	}
	fset := token.NewFileSet()
	f, err := parser.ParseFile(fset, rel, b, parser.ParseComments)
	if err != nil {
		fatal("T6: %s does not parse: %v", rel, err)
	}
	off := func(pos token.Pos) int { return fset.Position(pos).Offset }
	var at []int
	var lists func(n ast.Node)
	addList := func(l []ast.Stmt) {
		for _, s := range l {
			switch s.(type) {
			case *ast.CaseClause, *ast.CommClause:
				continue // the clauses of a switch / select are the elements of its body block
			}
			at = append(at, off(s.Pos()))
		}
	}
	lists = func(n ast.Node) {
		ast.Inspect(n, func(x ast.Node) bool {
			switch v := x.(type) {
			case *ast.BlockStmt:
				addList(v.List)
			case *ast.CaseClause:
				addList(v.Body)
			case *ast.CommClause:
				addList(v.Body)
			}
			return true
		})
	}
	for _, d := range f.Decls {
		if fd, ok := d.(*ast.FuncDecl); ok && fd.Body != nil {
			if fd.Name.Name == "init" || strings.HasPrefix(fd.Name.Name, "__sim") {
				continue
			}
			lists(fd.Body)
		}
	}
	if len(at) == 0 {
		return b
	}
	sort.Ints(at)
	h := uint32(2166136261)
	for _, c := range []byte(rel) {
		h = (h ^ uint32(c)) * 16777619
	}
	var out []byte
	prev := 0
	for i, p := range at {
		if i > 0 && p == at[i-1] {
			continue
		}
		out = append(out, b[prev:p]...)
		out = append(out, fmt.Sprintf("simrt__.StmtYield(%d); ", (h^uint32(i))*16777619)...)
		prev = p
		stats.StmtYields++
	}
	out = append(out, b[prev:]...)
	if !strings.Contains(string(out), "import simrt__ \"verifsim/simrt\"") {
		pos := off(f.Name.End())
		out = append(append(append([]byte(nil), out[:pos]...), "\n\nimport simrt__ \"verifsim/simrt\"\n"...), out[pos:]...)
	}
	return out
}
